(** Property oracle and canonical rendering for C06.

    The implementation's observation for a case [(L, R)] is the pair of diffs returned by
    [p2panda_core::logs::compare(&L, &R)] and by [Cursor::new(_, R).compare(&L)].

    [check L R D Dc] is true iff both observed diffs
    - have unique keys (they come out of a BTreeMap),
    - contain, for every (author, log) mentioned by [L], [R] or the diff itself, exactly the
      range [spec_range] demands (remote missing: from the start; remote behind: (remote, local];
      remote equal or ahead / log unknown locally: nothing), and
    - merged into [R] give the pointwise maximum of [L] and [R] on all those logs.
    Soundness ([check_one_sound], Proofs/Heights.v): a passing diff satisfies the two equations
    for *every* (author, log), not only the listed ones. *)
From Coq Require Import List Arith NArith Bool String.
From PV Require Import Model.Heights Model.Cursor Lib.Show.
Import ListNotations.

Definition pairs {V : Type} (m : list (N * list (N * V))) : list (N * N) :=
  flat_map (fun p => map (fun q => (fst p, fst q)) (snd p)) m.

Definition oN_eqb (x y : option N) : bool :=
  match x, y with
  | Some a, Some b => N.eqb a b
  | None, None => true
  | _, _ => false
  end.

Definition orange_eqb (x y : option range) : bool :=
  match x, y with
  | Some (f1, u1), Some (f2, u2) => oN_eqb f1 f2 && oN_eqb u1 u2
  | None, None => true
  | _, _ => false
  end.

Definition check_one (L R : heights) (D : ranges) : bool :=
  let ks := (pairs L ++ pairs R ++ pairs D)%list in
  let M := apply_diff R D in
  wf_heightsb D &&
  forallb (fun k => orange_eqb (lookup2 D (fst k) (snd k)) (spec_range L R (fst k) (snd k))) ks &&
  forallb (fun k => oN_eqb (lookup2 M (fst k) (snd k))
                           (omax (lookup2 L (fst k) (snd k)) (lookup2 R (fst k) (snd k)))) ks.

Definition check (L R : heights) (D Dc : ranges) : bool := check_one L R D && check_one L R Dc.

(** Canonical line: [a/l=from,until] per range in map order, [a/] for an author with an empty
    inner map, [-] for "from the start"; the two diffs separated by [|]. *)
Local Open Scope string_scope.

Definition show_range (a : N) (e : N * range) : string :=
  show_N a ++ "/" ++ show_N (fst e) ++ "=" ++ show_option show_N (fst (snd e)) ++ ","
  ++ show_option show_N (snd (snd e)).

Definition show_ranges (D : ranges) : string :=
  join " " (flat_map (fun p => match snd p with
                               | [] => [show_N (fst p) ++ "/"]
                               | d => map (show_range (fst p)) d
                               end) D).

Definition model_line (L R : heights) : string :=
  show_ranges (compare L R) ++ " | " ++ show_ranges (cursor_compare (cursor_new 0 R) L).
