(** Property oracle and canonical model lines for C25 (topic handshake), topics = hex strings.

    [check_single] / [check_pair] are the property as a boolean function of what the
    *implementation* returned: Ok exactly on clean runs (with the right topic), Err on every
    faulty one, never a hang, never a poll after the stream reported closure. *)
From Coq Require Import List Arith Bool String.
From PV Require Import Model.Handshake Lib.Show.
Import ListNotations.
Local Open Scope string_scope.

Notation T := string (only parsing).

Definition show_msg (m : msg T) : string :=
  match m with Topic t => "T:" ++ t | Done => "D" end.

Definition show_event (e : event T) : string :=
  match e with
  | EvInitiate t => "Init:" ++ t
  | EvAccept => "Accept"
  | EvTopicReceived t => "Recv:" ++ t
  | EvDone t => "Done:" ++ t
  end.

Definition show_err (e : err T) : string :=
  match e with
  | EUnexpected m => "Err:Unexpected:" ++ show_msg m
  | EClosure => "Err:Closure"
  | ESink => "Err:Sink"
  | EStream => "Err:Stream"
  | EMpsc => "Err:Mpsc"
  end.

Definition show_result (r : option (result T)) : string :=
  match r with
  | None => "NOFUEL"
  | Some (Ok None) => "Ok"
  | Some (Ok (Some t)) => "Ok:" ++ t
  | Some (Err e) => show_err e
  end.

Definition show_state (s : state T) : string :=
  match s with Fin r => show_result (Some r) | Run _ _ => "HANG" end.

Definition dash (s : string) : string := if String.eqb s "" then "-" else s.

Definition none_polls (tr : list (action T * resp T)) : nat :=
  List.length (filter (fun x => match x with (ARecv, RItem None) => true | _ => false end) tr).

Definition model_line_single (r : role T) (items : list (item T)) (sf : option nat) (evo : bool) : string :=
  let '(res, _, o) := run_side r (mkenv items sf evo) in
  show_result res ++ " | " ++ dash (show_list show_msg " " (sent o)) ++ " | "
  ++ dash (show_list show_event " " (events o)) ++ " | none_polls=" ++ show_nat (none_polls (trace o)).

Definition model_line_pair (t : T) (mm : mitm T) : string :=
  let p := pair t mm in
  "I=" ++ show_state (sI p) ++ " A=" ++ show_state (sA p) ++ " | "
  ++ dash (show_list show_event " " (evI p)) ++ " | " ++ dash (show_list show_event " " (evA p)).

(** ** Oracle *)
Inductive ires := IOk (o : option T) | IFail | IHang.

Definition sink_faultyb (nops : nat) (sf : option nat) : bool :=
  match sf with Some k => Nat.ltb k nops | None => false end.

(** What a clean run must output ([None] = the environment is faulty, an error is required). *)
Definition expected (r : role T) (items : list (item T)) (sf : option nat) (evo : bool) : option (option T) :=
  match r with
  | Initiator _ =>
      match items with
      | IMsg Done :: _ => if negb (sink_faultyb 5 sf) && evo then Some None else None
      | _ => None
      end
  | Acceptor =>
      match items with
      | IMsg (Topic t') :: IMsg Done :: _ => if negb (sink_faultyb 3 sf) && evo then Some (Some t') else None
      | _ => None
      end
  end.

Definition opt_eqb (a b : option T) : bool :=
  match a, b with
  | None, None => true
  | Some x, Some y => String.eqb x y
  | _, _ => false
  end.

Definition check_single (r : role T) (items : list (item T)) (sf : option nat) (evo : bool)
           (res : ires) (npolls : nat) : bool :=
  Nat.leb npolls 1 &&
  match expected r items sf evo, res with
  | Some o, IOk o' => opt_eqb o o'
  | None, IFail => true
  | _, _ => false
  end.

Definition is_fail (r : ires) : bool := match r with IFail => true | _ => false end.
Definition is_ok (o : option T) (r : ires) : bool := match r with IOk o' => opt_eqb o o' | _ => false end.
Definition not_hang (r : ires) : bool := match r with IHang => false | _ => true end.

Definition item_eqb (a b : item T) : bool :=
  match a, b with
  | IErr, IErr => true
  | IMsg Done, IMsg Done => true
  | IMsg (Topic x), IMsg (Topic y) => String.eqb x y
  | _, _ => false
  end.

(** Pair: honest => both Ok and the acceptor holds the initiator's topic; a fault on one
    direction => the side reading that direction returns an error (except the one benign
    substitution topic -> other topic, where the acceptor may only output that other topic);
    nobody hangs. *)
Definition check_pair (t : T) (mm : mitm T) (ri ra : ires) : bool :=
  not_hang ri && not_hang ra &&
  match mm with
  | NoMitm => is_ok None ri && is_ok (Some t) ra
  | Truncate ItoA k => if Nat.ltb k 2 then is_fail ra else is_ok None ri && is_ok (Some t) ra
  | Truncate AtoI k => if Nat.ltb k 1 then is_fail ri else is_ok None ri && is_ok (Some t) ra
  | Subst ItoA 0 x =>
      if item_eqb x (IMsg (Topic t)) then is_ok None ri && is_ok (Some t) ra
      else match x with
           | IMsg (Topic t') => is_fail ra || is_ok (Some t') ra
           | _ => is_fail ra
           end
  | Subst ItoA 1 x => if item_eqb x (IMsg Done) then is_ok None ri && is_ok (Some t) ra else is_fail ra
  | Subst AtoI 0 x => if item_eqb x (IMsg Done) then is_ok None ri && is_ok (Some t) ra else is_fail ri
  | Subst _ _ _ => is_ok None ri && is_ok (Some t) ra
  end.

Definition ires_of (r : option (result T)) : ires :=
  match r with Some (Ok o) => IOk o | Some (Err _) => IFail | None => IHang end.
Definition ires_of_state (s : state T) : ires :=
  match s with Fin (Ok o) => IOk o | Fin (Err _) => IFail | Run _ _ => IHang end.
