(** Property oracle for C11, evaluated on what the *implementation* released.

    [check ops outs]: [outs] are the observed results of the [Next]/[Drain] operations of [ops]
    (in order).  True iff
    - every released item was delivered before with a dependency list all of whose members had
      been released before (release only after the dependencies), and
    - whenever the implementation reports an empty queue ([Next] = none, end of a [Drain]) every
      grounded item (delivered, all dependencies transitively delivered; dependency lists read as
      sets) has been released (always released after the dependencies).
    The oracle is independent of the table model: it only uses [groundedb]. *)
From Coq Require Import List Arith NArith Bool String.
From PV Require Import Model.Orderer Lib.Show.
Import ListNotations.

Definition rel_ok (del : list entry) (rel : list id) (x : id) : bool :=
  existsb (fun e => N.eqb (fst e) x && forallb (fun d => memN d rel) (snd e)) del.

Definition complete (del : list entry) (rel : list id) : bool :=
  let g := ground_iter (List.length del) del in
  forallb (fun x => memN x rel) g.

Fixpoint rel_seq (del : list entry) (rel : list id) (l : list id) : option (list id) :=
  match l with
  | [] => Some rel
  | x :: r => if rel_ok del rel x then rel_seq del (rel ++ [x]) r else None
  end.

Fixpoint check_go (ops : list op) (outs : list out) (del : list entry) (rel : list id) : bool :=
  match ops with
  | [] => match outs with [] => true | _ => false end
  | Deliver x ds :: r => check_go r outs (del ++ [(x, ds)]) rel
  | Next :: r =>
      match outs with
      | ONext (Some x) :: outs' => rel_ok del rel x && check_go r outs' del (rel ++ [x])
      | ONext None :: outs' => complete del rel && check_go r outs' del rel
      | _ => false
      end
  | Drain :: r =>
      match outs with
      | ODrain l :: outs' =>
          match rel_seq del rel l with
          | Some rel' => complete del rel' && check_go r outs' del rel'
          | None => false
          end
      | _ => false
      end
  end.

Definition check (ops : list op) (outs : list out) : bool := check_go ops outs [] [].

Definition show_out (o : out) : string :=
  match o with
  | ONext (Some x) => show_N x
  | ONext None => "-"
  | ODrain l => "[" ++ show_list show_N "," l ++ "]"
  end.

(** Canonical model line: [S] = the released sequence is independent of the HashSet iteration
    order (every [get_next_pending] returned at most one entry), [M] = it may depend on it (the
    model line is then the one for table order); then one token per [Next]/[Drain]. *)
Definition model_line (ops : list op) : string :=
  let '(s, outs) := run id_perm (S (List.length ops)) empty ops in
  ((if oof s then "OOF " else "") ++ (if multi s then "M " else "S ") ++ show_list show_out " " outs)%string.
