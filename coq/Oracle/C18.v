(** Property oracle and canonical model lines for C18.

    Three kinds of cases:
    - [inc]: a start value and a clock script; the implementation's outputs [outs] (and whether
      it panicked after them) must form a strictly increasing chain starting at the input, one
      output per clock reading; a panic is tolerated only at the overflow boundary (clock not
      ahead and logical counter at u64::MAX).
    - [net]: a node republishing its transport record under a clock script: every new record
      must have been accepted as newer ([true]) and carry a strictly greater timestamp.
    - [upd]: one [NodeInfo::update_transports] call (validates the model of the acceptance
      rule itself: invalid signature => error and no change; otherwise newer iff greater). *)
From Coq Require Import List NArith Bool String.
From PV Require Import Model.Timestamp Lib.Show.
Import ListNotations.
Local Open Scope N_scope.

Fixpoint check_seq (h : hts) (nows : list N) (outs : list hts) (panicked : bool) : bool :=
  match nows with
  | [] => match outs with [] => negb panicked | _ :: _ => false end
  | n :: r =>
      match outs with
      | [] => panicked && (n <=? fst h) && (u64max <=? snd h)
      | o :: os => hltb h o && check_seq o r os panicked
      end
  end.

Fixpoint check_net (cur : hts) (rounds : list (N * N)) (outs : list (hts * bool)) (panicked : bool) : bool :=
  match rounds with
  | [] => match outs with [] => negb panicked | _ :: _ => false end
  | (_, n) :: r =>
      match outs with
      | [] => panicked && (n <=? fst cur) && (u64max <=? snd cur)
      | (o, acc) :: os => acc && hltb cur o && check_net o r os panicked
      end
  end.

Definition eqb_hts (a b : hts) : bool := (fst a =? fst b) && (snd a =? snd b).
Definition eqb_ohts (a b : option hts) : bool :=
  match a, b with
  | None, None => true
  | Some x, Some y => eqb_hts x y
  | _, _ => false
  end.

(** [res]: 0 = Err, 1 = Ok(false), 2 = Ok(true); [stored] = timestamp held afterwards. *)
Definition check_upd (cur : option hts) (other : hts) (sigok : bool) (res : N) (stored : option hts) : bool :=
  if negb sigok then (res =? 0) && eqb_ohts stored cur
  else match cur with
       | None => (res =? 2) && eqb_ohts stored (Some other)
       | Some c => if hltb c other then (res =? 2) && eqb_ohts stored (Some other)
                   else (res =? 1) && eqb_ohts stored cur
       end.

(** Canonical lines *)
Local Open Scope string_scope.
Definition show_hts (h : hts) : string := show_N (fst h) ++ "/" ++ show_N (snd h).

Definition with_panic (items : list string) (ok : bool) : string :=
  join " " (items ++ (if ok then [] else ["PANIC"])).

Definition model_line_seq (h : hts) (nows : list N) : string :=
  let '(out, ok) := run h nows in with_panic (map show_hts out) ok.

Definition model_line_net (cur : hts) (rounds : list (N * N)) : string :=
  let '(out, ok) := republish {| ts := cur; sig_ok := true; addrs := 0 |} rounds in
  with_panic (map (fun p => show_hts (fst p) ++ ":" ++ show_bool (snd p)) out) ok.

Definition model_line_upd (cur : option hts) (other : hts) (sigok : bool) : string :=
  let mk t := {| ts := t; sig_ok := true; addrs := 0 |} in
  let '(res, st) := update_transports (option_map mk cur) {| ts := other; sig_ok := sigok; addrs := 1 |} in
  (match res with UErr => "ERR" | UOk true => "OK1" | UOk false => "OK0" end)
  ++ " " ++ show_option show_hts (option_map ts st).
