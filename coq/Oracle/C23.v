(** Property oracle and canonical model line for C23 (live-mode forwarding).

    The implementation's observation is the global, ordered log of
      [EArr s op]  (session s took op from its remote), [ESent s op] (session s sent Live op),
      [ECons s op] (the manager's event stream handed op, attributed to session s, to the consumer)
    taken when nothing is in flight any more.
      [check_rest]  at most one send per (session, op) and none of a synced (seed) operation; no
                    send on a session after the operation arrived on that session; at most one
                    consumer event per operation, each for an operation that arrived on that
                    session; completeness: an operation that arrived on one session is known
                    (sent / arrived / seed) on every session of the topic
      [check_peer]  no send to a peer after the operation arrived from that peer (any session of
                    the topic with that remote)                — fails for same-peer configurations *)
From Coq Require Import List Arith NArith Bool String.
From PV Require Import Model.Dedup Model.Live Lib.Show.
Import ListNotations.
Local Open Scope string_scope.

Definition show_entry (e : entry) : string :=
  match e with
  | EArr s op => "a" ++ show_N s ++ ":" ++ show_N op
  | ESent s op => "s" ++ show_N s ++ ":" ++ show_N op
  | ECons s op => "c" ++ show_N s ++ ":" ++ show_N op
  end.

Definition seedf (l : list (N * list N)) (s : N) : list N :=
  match find (fun p => N.eqb (fst p) s) l with Some p => snd p | None => [] end.

Definition dash (s : string) : string := if String.eqb s "" then "-" else s.

Definition model_line (c : config) (seeds : list (N * list N)) (capS capM : nat) (batches : list (list label)) : string :=
  let st := flow c (init (seedf seeds) capS capM) batches in
  dash (show_list show_entry " " (log st)) ++ " | q=" ++ show_bool (quiescent c st).

Definition is_sent (s op : N) (e : entry) : bool :=
  match e with ESent s' op' => N.eqb s s' && N.eqb op op' | _ => false end.
Definition is_arr (s op : N) (e : entry) : bool :=
  match e with EArr s' op' => N.eqb s s' && N.eqb op op' | _ => false end.
Definition is_cons_op (op : N) (e : entry) : bool :=
  match e with ECons _ op' => N.eqb op op' | _ => false end.

(** Ordering clauses, checked from each entry against everything logged after it. *)
Fixpoint check_seq (l : list entry) : bool :=
  match l with
  | [] => true
  | e :: r =>
      (match e with
       | ESent s op => negb (existsb (is_sent s op) r)
       | EArr s op => negb (existsb (is_sent s op) r)
       | ECons _ op => negb (existsb (is_cons_op op) r)
       end) && check_seq r
  end.

(** A consumer event is for an operation that arrived on that session before. *)
Fixpoint check_cons (seen : list entry) (l : list entry) : bool :=
  match l with
  | [] => true
  | e :: r =>
      (match e with ECons s op => existsb (is_arr s op) seen | _ => true end) && check_cons (e :: seen) r
  end.

Definition knows (seed : N -> list N) (l : list entry) (s op : N) : bool :=
  existsb (is_sent s op) l || existsb (is_arr s op) l || memN op (seed s).

Definition check_complete (c : config) (seed : N -> list N) (l : list entry) : bool :=
  forallb (fun e => match e with
                    | EArr s op => forallb (fun x => negb (same_topic c s (sid x)) || knows seed l (sid x) op) c
                    | _ => true
                    end) l.

Definition check_no_seed_sent (seed : N -> list N) (l : list entry) : bool :=
  forallb (fun e => match e with ESent s op => negb (memN op (seed s)) | _ => true end) l.

Definition check_rest (c : config) (seeds : list (N * list N)) (quiet : bool) (l : list entry) : bool :=
  quiet && check_seq l && check_cons [] l && check_no_seed_sent (seedf seeds) l
  && check_complete c (seedf seeds) l.

Definition opt_eqb (a b : option N) : bool :=
  match a, b with Some x, Some y => N.eqb x y | None, None => true | _, _ => false end.

Fixpoint check_peer (c : config) (l : list entry) : bool :=
  match l with
  | [] => true
  | e :: r =>
      (match e with
       | EArr s op =>
           negb (existsb (fun x => match x with
                                   | ESent s' op' => N.eqb op op' && same_topic c s s' && opt_eqb (peer_of c s) (peer_of c s')
                                   | _ => false
                                   end) r)
       | _ => true
       end) && check_peer c r
  end.
