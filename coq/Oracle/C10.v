(** Scenario runner, canonical model line and property oracle for C10.

    A scenario is a list of programs (task i = i-th program) and a list of harness labels:
      [HS i]  task i executes its next instruction        = model label [LStep i]
      [HC i]  task i's future is dropped                  = [LCancel i]
      [HR i]  the rollback task spawned by i advances     = [LRb i]
      [HQ]    read the committed rows (no model step)
    A label that is not enabled is skipped.  One token per label:
      G  begin(): permit acquired (stops inside begin)    W  begin(): queued on the semaphore
      w  still queued                                     B  begin() returned the TransactionPermit
      I  write issued                                     t  commit()/rollback() took the tx from the slot
      K  commit returned    R  rollback returned          D  permit dropped    E  statement failed, `?`
      c  future dropped     s  rollback task took the slot and rolled back     r  it released the permit
      -  nothing to do      q<rows>  committed rows
    After the labels everything still running is cancelled, every rollback task runs to its end
    ([drain]); then the rows and whether a further transaction can start ([P]) are reported. *)
From Coq Require Import List Arith NArith Bool String.
From PV Require Import Model.Tx Lib.Show.
Import ListNotations.
Local Open Scope string_scope.

Inductive hl := HS (i : nat) | HC (i : nat) | HR (i : nat) | HQ.

Definition mkP (l : list (list N * fin)) : nat -> prog :=
  fun i => match nth_error l i with
           | Some (w, f) => {| writes := w; pfin := f |}
           | None => {| writes := []; pfin := FDrop |}
           end.

Definition show_rows (l : list N) : string := show_list show_N "," l.

Definition tok (P : nat -> prog) (s : state) (h : hl) : string :=
  match h with
  | HS i =>
      match tpc (tasks s i) with
      | PInit => if avail s then "G" else "W"
      | PWait => "w"
      | PGranted => match slot s with None => "B" | Some _ => "PANIC" end
      | PHold k =>
          match nth_error (writes (P i)) k with
          | Some _ => match slot s with Some _ => "I" | None => "!err" end
          | None =>
              match pfin (P i) with
              | FCommit | FRollback => match slot s with Some _ => "t" | None => "PANIC" end
              | FDrop => "D"
              | FError => "E"
              end
          end
      | PCommitting _ => "K"
      | PRollingBack _ => "R"
      | PDone _ => "-"
      end
  | HC i => match tpc (tasks s i) with PDone _ => "-" | _ => "c" end
  | HR i => match trb (tasks s i) with RbStart => "s" | RbRolling => "r" | _ => "-" end
  | HQ => "q" ++ show_rows (db s)
  end.

Definition to_label (h : hl) : option label :=
  match h with
  | HS i => Some (LStep i)
  | HC i => Some (LCancel i)
  | HR i => Some (LRb i)
  | HQ => None
  end.

Definition try_step (P : nat -> prog) (s : state) (l : label) : state :=
  match step P s l with Some s' => s' | None => s end.

Definition hstep (P : nat -> prog) (s : state) (h : hl) : state :=
  match to_label h with Some l => try_step P s l | None => s end.

Fixpoint hrun (P : nat -> prog) (s : state) (hs : list hl) : state * list string :=
  match hs with
  | [] => (s, [])
  | h :: r => let '(s', ts) := hrun P (hstep P s h) r in (s', tok P s h :: ts)
  end.

Definition drain (P : nat -> prog) (n : nat) (s : state) : state :=
  let s1 := fold_left (fun s i => try_step P s (LCancel i)) (seq 0 n) s in
  fold_left (fun s i => try_step P (try_step P s (LRb i)) (LRb i)) (seq 0 n) s1.

Definition model_line (progs : list (list N * fin)) (hs : list hl) : string :=
  let P := mkP progs in
  let '(s, ts) := hrun P init hs in
  let s' := drain P (List.length progs) s in
  join " " ts ++ " | " ++ show_rows (db s') ++ " | " ++ (if avail s' then "P" else "T").

(** * Oracle on the implementation's observation.

    The python side parses the implementation's tokens into [obs].  The oracle replays them,
    tracking only what was *observed*: who owns the permit, and the order of the commits. *)
Inductive obs :=
| TG | TW | Tw | TB | TI | Tt | TK | TR | TD | TE | Tnone | Tc | Ts | Tr
| Tq (rows : list N)
| Tbad.

Inductive ophase := ONone | OWaiting | OGranted | OHolding | ORb | ORbRolling | OEnd.

Record ost := {
  o_own : option nat;        (* task whose permit (or whose rollback task) is live *)
  o_ph : nat -> ophase;
  o_commits : list nat       (* observed commit order *)
}.

Definition oinit : ost := {| o_own := None; o_ph := fun _ => ONone; o_commits := [] |}.

Definition owned_by (o : ost) (i : nat) : bool :=
  match o_own o with Some j => Nat.eqb i j | None => false end.
Definition unowned (o : ost) : bool := match o_own o with None => true | Some _ => false end.
Definition set_ph (o : ost) (i : nat) (p : ophase) (own : option nat) : ost :=
  {| o_own := own; o_ph := upd (o_ph o) i p; o_commits := o_commits o |}.

Definition eqb_listN (a b : list N) : bool :=
  Nat.eqb (List.length a) (List.length b) && forallb (fun p => N.eqb (fst p) (snd p)) (combine a b).

Definition ph_eqb (a b : ophase) : bool :=
  match a, b with
  | ONone, ONone | OWaiting, OWaiting | OGranted, OGranted | OHolding, OHolding
  | ORb, ORb | ORbRolling, ORbRolling | OEnd, OEnd => true
  | _, _ => false
  end.

(** One observed (label, token) pair: [None] = the observation violates the property. *)
Definition ostep (P : nat -> prog) (o : ost) (h : hl) (t : obs) : option ost :=
  match h, t with
  | HS i, TG => if unowned o && ph_eqb (o_ph o i) ONone then Some (set_ph o i OGranted (Some i)) else None
  | HS i, TW => if ph_eqb (o_ph o i) ONone then Some (set_ph o i OWaiting (o_own o)) else None
  | HS i, Tw => if ph_eqb (o_ph o i) OWaiting then Some o else None
  | HS i, TB =>
      match o_ph o i with
      | OGranted => if owned_by o i then Some (set_ph o i OHolding (Some i)) else None
      | OWaiting => if unowned o then Some (set_ph o i OHolding (Some i)) else None
      | _ => None
      end
  | HS i, TI => if owned_by o i && ph_eqb (o_ph o i) OHolding then Some o else None
  | HS i, Tt => if owned_by o i && ph_eqb (o_ph o i) OHolding then Some o else None
  | HS i, TK =>
      if owned_by o i && ph_eqb (o_ph o i) OHolding
      then Some {| o_own := None; o_ph := upd (o_ph o) i OEnd; o_commits := o_commits o ++ [i] |}
      else None
  | HS i, TR => if owned_by o i && ph_eqb (o_ph o i) OHolding then Some (set_ph o i OEnd None) else None
  | HS i, TD | HS i, TE =>
      if owned_by o i && ph_eqb (o_ph o i) OHolding then Some (set_ph o i ORb (Some i)) else None
  | HS i, Tnone => Some o
  | HC i, Tc =>
      match o_ph o i with
      | ONone | OWaiting => Some (set_ph o i OEnd (o_own o))
      | OGranted => if owned_by o i then Some (set_ph o i OEnd None) else None
      | OHolding => if owned_by o i then Some (set_ph o i ORb (Some i)) else None
      | _ => None
      end
  | HC i, Tnone => Some o
  | HR i, Ts => if owned_by o i && ph_eqb (o_ph o i) ORb then Some (set_ph o i ORbRolling (Some i)) else None
  | HR i, Tr => if owned_by o i && ph_eqb (o_ph o i) ORbRolling then Some (set_ph o i OEnd None) else None
  | HR i, Tnone => Some o
  | HQ, Tq rows => if eqb_listN rows (apply_all P (o_commits o)) then Some o else None
  | _, _ => None
  end.

Fixpoint orun (P : nat -> prog) (o : ost) (hs : list hl) (ts : list obs) : option ost :=
  match hs, ts with
  | [], [] => Some o
  | h :: hr, t :: tr => match ostep P o h t with Some o' => orun P o' hr tr | None => None end
  | _, _ => None
  end.

(** [check progs hs toks rows probe]: the observed run never had two permit owners at once, every
    row read mid-way and the final rows are exactly the writes of the transactions observed to
    commit, in commit order (so nothing of an aborted transaction is there), and a further
    transaction could start afterwards. *)
Definition check (progs : list (list N * fin)) (hs : list hl) (ts : list obs) (rows : list N) (probe : bool) : bool :=
  let P := mkP progs in
  match orun P oinit hs ts with
  | Some o => eqb_listN rows (apply_all P (o_commits o)) && probe
  | None => false
  end.
