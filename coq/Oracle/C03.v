(** Property oracle for C03, evaluated on what the *implementation* reported after every
    delivery, and the canonical model line.

    [check ops ds observed]: walking through the deliveries with the previously observed state,
    - every observed state has unique sequence numbers per log and is a hash-linked gap-free chain
      ([unique_seqb], [chain_okb]; sound w.r.t. [unique_seq]/[chain_ok], Proofs/Ingest.v);
    - the reported heights are those of the reported entries and never decrease;
    - an operation that is not validated, or does not extend its log as observed before the
      delivery, is not inserted; a delivery that did not succeed leaves every log untouched;
    - an inserted operation is stored under its id. *)
From Coq Require Import List Arith NArith Bool String.
From PV Require Import Lib.Show Model.Ingest Lib.IngestObs.
Import ListNotations.

Definition extendsb (p : option row) (o : op) : bool :=
  match validate_prunable_backlink p o (o_prune o) with VOk => true | _ => false end.

Definition is_inserted (r : res) : bool := match r with Inserted => true | _ => false end.
Definition is_already (r : res) : bool := match r with AlreadyExists => true | _ => false end.

Definition step_ok (prev : store) (prev_h : list (N * N * N)) (o : op) (x : obs) : bool :=
  let st := ob_rows x in
  unique_seqb st && chain_okb st && heights_consistent x
  && forallb (fun h => match h with (a, l, n) => opt_le (Some n) (height st a l) end) prev_h
  && (if res_ok (ob_res x) then true else same_rows prev st)
  && (if is_inserted (ob_res x)
      then o_valid o && negb (has_op prev (o_id o))
           && extendsb (latest prev (o_author o) (o_log o)) o
           && existsb (fun r => (r_id r =? o_id o)%N) st
      else true)
  && (if is_already (ob_res x) then o_valid o && has_op prev (o_id o) else true).

Fixpoint walk (prev : store) (prev_h : list (N * N * N)) (ds : list op) (xs : list obs) : bool :=
  match ds, xs with
  | _, [] => true
  | [], _ :: _ => false
  | o :: dt, x :: xt =>
      if is_panic (ob_res x) then true
      else step_ok prev prev_h o x && walk (ob_rows x) (ob_heights x) dt xt
  end.

(** A panic is only tolerated where the arithmetic of the code overflows: the latest stored
    entry of the log sits at [u32::MAX]. *)
Fixpoint panics_only_at_max (prev : store) (ds : list op) (xs : list obs) : bool :=
  match ds, xs with
  | o :: dt, x :: xt =>
      if is_panic (ob_res x)
      then match latest prev (o_author o) (o_log o) with
           | Some p => (r_seq p =? U32MAX)%N
           | None => false
           end
      else panics_only_at_max (ob_rows x) dt xt
  | _, _ => true
  end.

Definition complete (ds : list op) (xs : list obs) : bool :=
  Nat.eqb (List.length xs) (List.length ds) || existsb (fun x => is_panic (ob_res x)) xs.

Definition check (ops : list op) (ds : list nat) (xs : list obs) : bool :=
  let dl := pick ops ds in
  complete dl xs && walk [] [] dl xs && panics_only_at_max [] dl xs.

Definition model_line (na nl : N) (ops : list op) (ds : list nat) : string :=
  show_trace na nl ops (trace [] (pick ops ds)).
