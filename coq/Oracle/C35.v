(** Property oracle and canonical model line for C35 (group data encryption).

    The implementation is observed at *probes* (taken at quiescence: every control message
    delivered to everyone): per member [is_welcomed], the members view, the set of known secret
    ids (a secret = index of the operation that generated it), which one it considers latest,
    the implementation's total order of all secrets by (timestamp, id), and the cross-decryption
    matrix (every welcomed member i encrypts with every secret s it holds; every other member j
    tries to decrypt).

    [check n evs errs probes] is true iff no delivery failed and at every probe
    (P1) if the members who consider themselves members agree on the membership M: every member
         of M holds the latest secret (last in the implementation's order), considers it the
         latest, and decrypts what every other member of M encrypts with it;
    (P2) nobody knows a secret the model does not justify (the model's knowledge sets are an upper
         bound; Proofs/Dcgka.v shows they respect "removed before generated => never learns");
    (P3) decryption success is exactly knowledge of the secret (rows = what the observed
         knowledge sets predict);
    (P4) every member's "latest" is the maximum of what it knows in the implementation's order. *)
From Coq Require Import List Arith Bool String.
From PV Require Import Model.Dcgka Lib.Show.
Import ListNotations.

Inductive cell := C1 | C0 | CN | CX | CSelf.
Definition cell_eqb (a b : cell) : bool :=
  match a, b with C1, C1 | C0, C0 | CN, CN | CX, CX | CSelf, CSelf => true | _, _ => false end.

Record pmember := { pm_w : bool; pm_view : list nat; pm_knows : list nat; pm_latest : option nat }.
Record probe_obs := {
  po_order : list nat;                       (* all secrets, ascending by (timestamp, id) *)
  po_members : list pmember;                 (* member 0 .. n-1 *)
  po_rows : list (nat * nat * list cell)     (* (sender, secret, outcome per receiver) *)
}.

Fixpoint list_eqb {A} (eqb : A -> A -> bool) (a b : list A) : bool :=
  match a, b with
  | [], [] => true
  | x :: a', y :: b' => eqb x y && list_eqb eqb a' b'
  | _, _ => false
  end.

Definition subset (a b : list nat) : bool := forallb (fun x => mem x b) a.

Definition pm_default : pmember := {| pm_w := false; pm_view := []; pm_knows := []; pm_latest := None |}.
Definition pm (p : probe_obs) (j : nat) : pmember := nth j (po_members p) pm_default.

(** members who are welcomed and list themselves as members *)
Definition self_members (n : nat) (p : probe_obs) : list nat :=
  filter (fun j => pm_w (pm p j) && mem j (pm_view (pm p j))) (seq 0 n).

(** 1-based position of x in the ascending order (larger = later); 0 if absent *)
Fixpoint rank (order : list nat) (x : nat) : nat :=
  match order with
  | [] => 0
  | h :: t => if h =? x then 1 else match rank t x with 0 => 0 | S p => S (S p) end
  end.

Definition max_by (order : list nat) (l : list nat) : option nat :=
  fold_left (fun acc x => match acc with
                          | None => Some x
                          | Some y => if rank order y <? rank order x then Some x else Some y
                          end) l None.

Definition opt_eqb (a b : option nat) : bool :=
  match a, b with None, None => true | Some x, Some y => x =? y | _, _ => false end.

Definition row_cell (p : probe_obs) (i s j : nat) : option cell :=
  match find (fun r => (fst (fst r) =? i) && (snd (fst r) =? s)) (po_rows p) with
  | None => None
  | Some r => nth_error (snd r) j
  end.

Definition check_P1 (n : nat) (p : probe_obs) : bool :=
  let M := self_members n p in
  if forallb (fun j => list_eqb Nat.eqb (pm_view (pm p j)) M) M then
    match rev (po_order p) with
    | [] => true
    | latest :: _ =>
        forallb (fun j => mem latest (pm_knows (pm p j)) && opt_eqb (pm_latest (pm p j)) (Some latest)) M
        && forallb (fun i => forallb (fun j => (i =? j) ||
                                               match row_cell p i latest j with Some C1 => true | _ => false end) M) M
    end
  else true.

Definition check_P2 (n : nat) (w : world) (p : probe_obs) : bool :=
  forallb (fun j => subset (pm_knows (pm p j)) (knows (st w j))) (seq 0 n).

Definition expected_rows (n : nat) (p : probe_obs) : list (nat * nat * list cell) :=
  flat_map (fun i =>
              if pm_w (pm p i) then
                map (fun s => (i, s, map (fun j => if j =? i then CSelf
                                                   else if pm_w (pm p j)
                                                        then if mem s (pm_knows (pm p j)) then C1 else C0
                                                        else CN) (seq 0 n)))
                    (pm_knows (pm p i))
              else []) (seq 0 n).

Definition row_eqb (a b : nat * nat * list cell) : bool :=
  (fst (fst a) =? fst (fst b)) && (snd (fst a) =? snd (fst b)) && list_eqb cell_eqb (snd a) (snd b).

Definition check_P3 (n : nat) (p : probe_obs) : bool :=
  list_eqb row_eqb (po_rows p) (expected_rows n p).

Definition check_P4 (n : nat) (p : probe_obs) : bool :=
  forallb (fun j => opt_eqb (pm_latest (pm p j)) (max_by (po_order p) (pm_knows (pm p j)))) (seq 0 n).

Definition check_probe (n : nat) (w : world) (p : probe_obs) : bool :=
  Nat.eqb (List.length (po_members p)) n && check_P1 n p && check_P2 n w p && check_P3 n p && check_P4 n p.

Fixpoint check_from (n : nat) (w : world) (evs : list event) (probes : list probe_obs) : bool :=
  match evs with
  | [] => match probes with [] => true | _ => false end
  | Probe :: r =>
      match probes with
      | [] => false
      | p :: ps => check_probe n w p && check_from n w r ps
      end
  | e :: r => check_from n (fst (step w e)) r probes
  end.

(** [errs]: whether the implementation reported a failed delivery *)
Definition check (n : nat) (evs : list event) (errs : bool) (probes : list probe_obs) : bool :=
  negb errs && check_from n (init_world n) evs probes.

(** * Canonical rendering (same format as harness/enc_b/src/c35.rs, without the order token
      [T..] and the [:l<latest>] fields which the model does not predict) *)
Local Open Scope string_scope.

Definition show_dobs (o : dobs) : string :=
  match o with DDot => "." | DRemoved => "R" | DErr => "E:GroupAlreadyEstablished" | DNone => "-" end.

Definition show_digits (l : list nat) : string := show_list show_nat "" l.

Definition show_member (w : world) (j : nat) : string :=
  let s := st w j in
  "m" ++ show_nat j ++ ":w" ++ show_bool (welcomed s) ++ ":v" ++ show_digits (view s)
  ++ ":k" ++ show_list show_nat "," (knows s).

Definition show_cell (c : cell) : string :=
  match c with C1 => "1" | C0 => "0" | CN => "n" | CX => "x" | CSelf => "_" end.

Definition model_rows (w : world) : list string :=
  flat_map (fun i =>
              if welcomed (st w i) then
                map (fun s => "x" ++ show_nat i ++ "." ++ show_nat s ++ ":" ++
                              show_list (fun j => if Nat.eqb j i then "_"
                                                  else if welcomed (st w j)
                                                       then if can_decrypt w j s then "1" else "0"
                                                       else "n") "" (seq 0 (nmem w)))
                    (knows (st w i))
              else []) (seq 0 (nmem w)).

Definition show_probe (w : world) : string :=
  "P[" ++ join " " (map (show_member w) (seq 0 (nmem w)) ++ model_rows w) ++ "]".

Definition show_eobs (w : world) (o : eobs) : string :=
  match o with
  | EIssue true => "ok"
  | EIssue false => "E:"
  | EDeliver d => show_dobs d
  | EQuiesce log => "q[" ++ show_list (fun e => show_nat (fst (fst e)) ++ ":" ++ show_nat (snd (fst e))
                                                 ++ show_dobs (snd e)) "," log ++ "]"
  | EProbe => show_probe w
  end.

Fixpoint render (w : world) (evs : list event) : list string :=
  match evs with
  | [] => []
  | e :: r => let '(w1, o) := step w e in show_eobs w1 o :: render w1 r
  end.

Definition model_line (n : nat) (evs : list event) : string :=
  join " " (render (init_world n) evs).
