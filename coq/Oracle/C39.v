(** C39 — executable instance of the manager model and the property oracle.

    [model_line npeers ops]: runs the model of the repaired code ([fixed]) for [npeers] managers
    over a script of local operations and deliveries and renders, per delivery, what the model
    predicts: [C] first successful processing (state changes), [N] replay guard hit (success, no
    events, no change), [E:U] UnexpectedMessage, [E:M] MissingAuthMessage, [E:I]
    IncorrectMessageVariant, [E:H] an error of the handler behind the guard, [P] panic.  The
    handlers are not modelled: their answer for a delivery is the [mhok] bit of the message (what
    the scenario expects: honest messages delivered in causal order succeed).

    [check authored tr]: the property on what the *implementation* did.  [tr] lists the observed
    deliveries in order (peer, message, result 0 = Ok / 1 = Err / 2 = panic, number of events,
    state digest changed?), [authored] the messages each peer forged through its own API.  True
    iff nothing panicked, errors changed nothing, and every delivery of a message that this peer
    had authored or had processed successfully before emitted no event and changed nothing. *)
From Coq Require Import List Arith NArith Bool String.
From PV Require Import Model.Spaces Lib.Show.
Import ListNotations.
Local Open Scope string_scope.

Definition Hx : handlers unit N :=
  {| kb_valid := mhok; ev_kb := fun _ => 1%N;
     h_identity := fun _ _ => Some tt;
     h_group := fun _ m => if mhok m then Some (tt, [1%N]) else None;
     h_member := fun _ m => if mhok m then Some (tt, [1%N]) else None;
     h_app := fun _ m => if mhok m then Some (tt, [1%N]) else None |}.

Definition M := Build_msg.
Definition wop := (nat * op)%type.
Definition D (p : nat) (m : msg) : wop := (p, ODeliver m).
Definition L (p : nat) (m : msg) : wop := (p, OLocal m).

Fixpoint set_nth {A} (n : nat) (x : A) (l : list A) : list A :=
  match l, n with
  | [], _ => []
  | _ :: r, O => x :: r
  | a :: r, S k => a :: set_nth k x r
  end.

Definition wstep (c : cfg) (w : list (mstate unit)) (o : wop) : list (mstate unit) * option (outcome N) :=
  match nth_error w (fst o) with
  | None => (w, None)
  | Some st => let '(st', r) := step unit N c Hx st (snd o) in (set_nth (fst o) st' w, r)
  end.

Fixpoint wtrace (c : cfg) (w : list (mstate unit)) (ops : list wop) : list (outcome N) :=
  match ops with
  | [] => []
  | o :: r =>
      let '(w', x) := wstep c w o in
      match x with Some y => y :: wtrace c w' r | None => wtrace c w' r end
  end.

Definition show_outcome (o : outcome N) : string :=
  match o with
  | Panic => "P"
  | Err EUnexpected => "E:U"
  | Err EMissingAuth => "E:M"
  | Err EIncorrectVariant => "E:I"
  | Err (EHandler _) => "E:H"
  | Done [] => "N"
  | Done _ => "C"
  end.

Definition model_line_cfg (c : cfg) (npeers : nat) (ops : list wop) : string :=
  join " " (map show_outcome (wtrace c (repeat (init tt) npeers) ops)).
Definition model_line := model_line_cfg fixed.

(** * Property oracle on observations of the implementation *)

Record obs := { o_peer : nat; o_msg : N; o_res : N; o_nev : nat; o_chg : bool }.
Definition Ob := Build_obs.

Definition keyeqb (a b : nat * N) : bool := Nat.eqb (fst a) (fst b) && N.eqb (snd a) (snd b).
Definition memK (k : nat * N) (l : list (nat * N)) : bool := existsb (keyeqb k) l.

Definition quiet_obs (o : obs) : bool := Nat.eqb (o_nev o) 0 && negb (o_chg o).

Definition obs_ok (settled : bool) (o : obs) : bool :=
  negb (N.eqb (o_res o) 2) &&
  (if settled || N.eqb (o_res o) 1 then quiet_obs o else true).

Fixpoint check_from (s : list (nat * N)) (tr : list obs) : bool :=
  match tr with
  | [] => true
  | o :: r =>
      obs_ok (memK (o_peer o, o_msg o) s) o &&
      check_from (if N.eqb (o_res o) 0 then (o_peer o, o_msg o) :: s else s) r
  end.

Definition check (authored : list (nat * N)) (tr : list obs) : bool := check_from authored tr.
