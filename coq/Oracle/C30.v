(** C30 — concrete instance of the discovery model for evaluation, canonical model lines, and the
    property oracle evaluated on what the *implementation* was observed to do.

    Instance: 32-byte values are the free term algebra [cw] — [Raw j] is raw topic number j,
    [Hsh t sa sb b] the salted hash of [t] under the salt made of halves [sa], [sb] and direction
    byte [b] — so the salted hash [cH] is injective and never raw by construction
    (Proofs/PsiOracle.v).  In a session Alice's random half is called 0 and Bob's 1; the harness
    recognises [Hsh (Raw j) 0 1 b] on the wire by recomputing BLAKE3(topic_j || half_A || half_B
    || b) with the halves it saw. *)
From Coq Require Import List Arith NArith Bool String.
From PV Require Import Model.Psi Lib.Show.
Import ListNotations.
Local Open Scope string_scope.

Inductive cw := Raw (n : N) | Hsh (t : cw) (sa sb : N) (b : bool) | Junk (n : N) | Unk.

Fixpoint cw_eqb (a b : cw) : bool :=
  match a, b with
  | Raw x, Raw y => N.eqb x y
  | Hsh t sa sb d, Hsh t' sa' sb' d' => cw_eqb t t' && N.eqb sa sa' && N.eqb sb sb' && Bool.eqb d d'
  | Junk x, Junk y => N.eqb x y
  | Unk, Unk => true
  | _, _ => false
  end.

Definition cH (t : cw) (s : salt N) : cw := let '(sa, sb, b) := s in Hsh t sa sb b.

Definition cw_raw (w : cw) : Prop := match w with Raw _ => True | _ => False end.
Definition is_raw (w : cw) : bool := match w with Raw _ => true | _ => false end.

(** Shorthands used by the python driver. *)
Definition h0 (j : N) : cw := Hsh (Raw j) 0 1 false.
Definition h1 (j : N) : cw := Hsh (Raw j) 0 1 true.

Definition cnode := node cw.
Definition mk (e : N * bool * option N * list N) : cnode :=
  let '(id, stale, tr, ts) := e in
  {| nid := id; nstale := stale; ntransport := tr; ntopics := map Raw ts |}.

Definition cparty := party cw.
Definition alice_party (r : bool) (ts : list N) (book : list (N * bool * option N * list N)) : cparty :=
  {| p_me := 0; p_remote := 1; p_restricted := r; p_topics := map Raw ts; p_book := map mk book |}.
Definition bob_party (r : bool) (ts : list N) (book : list (N * bool * option N * list N)) : cparty :=
  {| p_me := 1; p_remote := 0; p_restricted := r; p_topics := map Raw ts; p_book := map mk book |}.

Definition cmsg := msg cw N.

(** Script items of the one-sided scenarios (the peer's half is implied by its role). *)
Inductive sitem := IS1 | IS2 (ws : list cw) | IH3 (ws : list cw) | INodes (l : list (N * N)) | IErr.

Definition to_rx (peer_half : N) (i : sitem) : rx cw N :=
  match i with
  | IS1 => Rx (AliceSaltHalf peer_half)
  | IS2 ws => Rx (BobSaltHalfAndHashedData peer_half ws)
  | IH3 ws => Rx (AliceHashedData ws)
  | INodes l => Rx (Nodes l)
  | IErr => RxErr
  end.

(** * Canonical rendering *)
Definition big : N := 18446744073709551615.

Definition word_key (w : cw) : N :=
  match w with
  | Raw j => 4 * j
  | Hsh (Raw j) 0%N 1%N false => 4 * j + 1
  | Hsh (Raw j) 0%N 1%N true => 4 * j + 2
  | Junk k => 4 * k + 3
  | _ => big
  end.

Definition show_word (w : cw) : string :=
  match w with
  | Raw j => "r" ++ show_N j
  | Hsh (Raw j) 0%N 1%N false => "h0." ++ show_N j
  | Hsh (Raw j) 0%N 1%N true => "h1." ++ show_N j
  | Junk k => "j" ++ show_N k
  | _ => "?"
  end.

Fixpoint ins_sorted {A} (key : A -> N) (x : A) (l : list A) : list A :=
  match l with
  | [] => [x]
  | y :: r => if N.leb (key x) (key y) then x :: l else y :: ins_sorted key x r
  end.
Definition sort_by {A} (key : A -> N) (l : list A) : list A := fold_right (ins_sorted key) [] l.

Definition csv (l : list string) : string := match l with [] => "-" | _ => join "," l end.

Definition show_words (ws : list cw) : string := csv (map show_word (sort_by word_key ws)).

Definition show_topic (w : cw) : string := match w with Raw j => show_N j | _ => "?" end.
Definition show_topics (ws : list cw) : string := csv (map show_topic (sort_by word_key ws)).

Definition show_infos (l : list (N * N)) : string :=
  csv (map (fun p => show_N (fst p) ++ "=" ++ show_N (snd p)) (sort_by (fun p => fst p) l)).

Definition show_outcome (o : outcome cw) : string :=
  match o with
  | Done r => "ok " ++ show_topics (res_topics cw r) ++ " / " ++ show_infos (res_infos cw r) ++ " / " ++ show_N (res_remote cw r)
  | Fail UnexpectedMessage => "err UnexpectedMessage"
  | Fail StreamErr => "err Stream"
  | Fail SinkErr => "err Sink"
  end.

Definition show_msg (dir : string) (m : cmsg) : string :=
  dir ++ ">" ++
  match m with
  | AliceSaltHalf _ => "S1"
  | BobSaltHalfAndHashedData _ hs => "S2 " ++ show_words hs
  | AliceHashedData hs => "H3 " ++ show_words hs
  | Nodes i => "N " ++ show_infos i
  end.

Definition show_msgs (l : list string) : string := match l with [] => "-" | _ => join " ; " l end.

(** Raw topics found in the [i]-th message (1-based), as the harness names its hits. *)
Definition leaks_in (i : nat) (m : cmsg) : list string :=
  map (fun w => "m" ++ show_nat i ++ ".t" ++ show_topic w) (sort_by word_key (filter is_raw (words cw N m))).

Fixpoint leaks_from (i : nat) (ms : list cmsg) : list string :=
  match ms with
  | [] => []
  | m :: r => leaks_in i m ++ leaks_from (S i) r
  end.

Definition model_honest (ra rb : bool) (ta tb : list N) (bookA bookB : list (N * bool * option N * list N)) : string :=
  let pa := alice_party ra ta bookA in
  let pb := bob_party rb tb bookB in
  let s := session cw N cw_eqb cH pa pb 0%N 1%N in
  show_outcome (snd (fst s)) ++ " | " ++ show_outcome (snd (snd s)) ++ " | " ++
  show_msgs (interleave (map (show_msg "a") (fst (fst s))) (map (show_msg "b") (fst (snd s)))) ++
  " | leaks " ++ csv (leaks_from 1 (transcript cw N cw_eqb cH pa pb 0%N 1%N)).

(** [sink = Some k]: the peer drops its receiver after reading [k] messages. *)
Definition run_script (alice : bool) (r : bool) (ts : list N) (book : list (N * bool * option N * list N))
           (script : list sitem) (sink : option nat) : list cmsg * outcome cw :=
  let k := match sink with Some k => k | None => 3 end in
  if alice then alice_run_k cw N cw_eqb cH k (alice_party r ts book) 0%N (map (to_rx 1%N) script)
  else bob_run_k cw N cw_eqb cH k (bob_party r ts book) 1%N (map (to_rx 0%N) script).

Definition model_script (alice : bool) (r : bool) (ts : list N) (book : list (N * bool * option N * list N))
           (script : list sitem) (sink : option nat) : string :=
  let '(sent, out) := run_script alice r ts book script sink in
  show_outcome out ++ " | " ++ show_msgs (map (show_msg (if alice then "a" else "b")) sent) ++
  " | leaks " ++ csv (leaks_from 1 sent).

(** * Property oracle on the implementation's observation *)
Definition memw (w : cw) (l : list cw) : bool := existsb (cw_eqb w) l.
Definition subset (a b : list cw) : bool := forallb (fun w => memw w b) a.
Definition set_eq (a b : list cw) : bool := subset a b && subset b a.

Definition inter_spec (ta tb : list N) : list cw := map Raw (filter (fun t => existsb (N.eqb t) tb) ta).

Definition optN_eqb (a b : option N) : bool :=
  match a, b with
  | Some x, Some y => N.eqb x y
  | None, None => true
  | _, _ => false
  end.

(** [(id, tr)] is the own entry or a non-stale book entry subscribed to one of [common]. *)
Definition in_scope_b (me : N) (book : list cnode) (common : list cw) (e : N * N) : bool :=
  existsb (fun n => N.eqb (nid cw n) (fst e) && optN_eqb (ntransport cw n) (Some (snd e)) &&
                    (N.eqb (fst e) me || (negb (nstale cw n) && existsb (fun t => memw t common) (ntopics cw n))))
          book.

Definition no_raw_words (ms : list cmsg) : bool :=
  forallb (fun m => forallb (fun w => negb (is_raw w)) (words cw N m)) ms.

Definition infos_eqb (a b : list (N * N)) : bool :=
  Nat.eqb (List.length a) (List.length b) &&
  forallb (fun p => N.eqb (fst (fst p)) (fst (snd p)) && N.eqb (snd (fst p)) (snd (snd p)))
          (combine (sort_by (fun p => fst p) a) (sort_by (fun p => fst p) b)).

Definition sends_infos (ms : list cmsg) (i : list (N * N)) : bool :=
  existsb (fun m => match m with Nodes i' => infos_eqb i i' | _ => false end) ms.

Definition scope_ok (restricted : bool) (me : N) (book : list cnode) (common : list cw) (ms : list cmsg) : bool :=
  if restricted then forallb (fun m => forallb (in_scope_b me book common) (infos_of cw N m)) ms else true.

(** Honest session: [oa]/[ob] the two results, [sa]/[sb] the messages each side was seen to send,
    [leaks] the number of raw-topic hits in the serialised messages. *)
Definition check_honest (ra rb : bool) (ta tb : list N) (bookA bookB : list (N * bool * option N * list N))
           (oa ob : outcome cw) (sa sb : list cmsg) (leaks : nat) : bool :=
  let common := inter_spec ta tb in
  match oa, ob with
  | Done rA, Done rB =>
      set_eq (res_topics cw rA) common && set_eq (res_topics cw rB) common &&
      Nat.eqb leaks 0 && no_raw_words sa && no_raw_words sb &&
      scope_ok ra 0 (map mk bookA) common sa && scope_ok rb 1 (map mk bookB) common sb &&
      sends_infos sb (res_infos cw rA) && sends_infos sa (res_infos cw rB) &&
      N.eqb (res_remote cw rA) 1 && N.eqb (res_remote cw rB) 0
  | _, _ => false
  end.

Definition err_eqb (a b : option err) : bool :=
  match a, b with
  | None, None => true
  | Some UnexpectedMessage, Some UnexpectedMessage => true
  | Some StreamErr, Some StreamErr => true
  | Some SinkErr, Some SinkErr => true
  | _, _ => false
  end.

Definition outcome_err_b (o : outcome cw) : option err := match o with Done _ => None | Fail e => Some e end.

Definition kinds_ok (alice : bool) (ms : list cmsg) : bool :=
  let want := if alice then [KS1; KH3; KN] else [KS2; KN] in
  Nat.leb (List.length ms) (List.length want) &&
  forallb (fun p => kind_eqb (kind_of cw N (fst p)) (snd p)) (combine ms want).

(** One real side against an arbitrary scripted peer whose receiver accepts [sink] messages.
    The expected outcome comes from the message-order specification [expect] (not from the
    model functions): the side would send [want] messages; if the sink takes fewer, the outcome
    must be [Sink] after exactly that many. *)
Definition check_script (alice : bool) (r : bool) (ts : list N) (book : list (N * bool * option N * list N))
           (script : list sitem) (sink : option nat) (o : outcome cw) (sent : list cmsg) (leaks : nat) : bool :=
  let inc := map (to_rx (if alice then 1%N else 0%N)) script in
  let '(e, n) := expect cw N (if alice then alice_expects else bob_expects) inc 0 in
  let want := if alice then S n else Nat.min 2 n in
  let k := match sink with Some k => k | None => 3 end in
  let own := map Raw ts in
  (if Nat.leb want k
   then err_eqb (outcome_err_b o) e && Nat.eqb (List.length sent) want
   else err_eqb (outcome_err_b o) (Some SinkErr) && Nat.eqb (List.length sent) k) &&
  kinds_ok alice sent &&
  Nat.eqb leaks 0 && no_raw_words sent &&
  match o with
  | Done res =>
      subset (res_topics cw res) own &&
      scope_ok r (if alice then 0%N else 1%N) (map mk book) (res_topics cw res) sent
  | Fail _ => scope_ok r (if alice then 0%N else 1%N) (map mk book) own sent
  end.
