(** Canonical model line and property oracle for C28 (discovery backoff).

    [model_line] runs the model with rand's sampler on the ChaCha20 word stream of the case's
    seed: it predicts every value and every drawn reset interval exactly.
    [check] reads the property off the implementation's observation alone (no generator): every
    observed delay is within [initial, max]; an [increment] after the (observed) reset interval
    has elapsed yields the initial value and a new interval from the configured range; before
    that it keeps the interval and adds a step from the configured range, cut off at the
    maximum; [reset] always yields the initial value; the passing of time changes nothing. *)
From Coq Require Import List Arith NArith ZArith Bool String.
From PV Require Import Model.Backoff Lib.Show.
Import ListNotations.
Local Open Scope string_scope.

Definition show_cfg (c : config) : string :=
  show_list show_N "," [initial_value c; min_increment c; max_increment c; max_value c; min_reset c; max_reset c].

Definition snap (s : state (list N)) : string := show_N (value s) ++ ":" ++ show_N (reset_after s).

Definition model_line (c : config) (words : list N) (ops : list op) : string :=
  if (min_reset c <? max_reset c)%N then
    let tr := trace (list N) canon_sample c (new (list N) canon_sample c words) ops in
    "cfg=" ++ show_cfg c ++ " init=" ++ snap (hd (new (list N) canon_sample c words) tr)
    ++ " ops=" ++ (match tl tr with [] => "-" | l => show_list snap ";" l end)
  else "PANIC".

Local Open Scope N_scope.

Definition in_bounds_b (c : config) (v : N) : bool := (initial_value c <=? v) && (v <=? max_value c).
Definition interval_ok (c : config) (ra : N) : bool := (min_reset c <=? ra) && (ra <? max_reset c).

(** One increment below the reset: a step from the configured range, cut off at the maximum. *)
Definition inc_ok (c : config) (v v' : N) : bool :=
  if v <? max_value c then
    ((v' =? max_value c) && (max_value c <? v + max_increment c))
    || ((v + min_increment c <=? v') && (v' <? v + max_increment c) && (v' <=? max_value c))
  else v' =? N.min v (max_value c).

(** [v], [ra], [e]: observed value, observed reset interval, nominal time since the last reset. *)
Fixpoint check_ops (c : config) (v ra e : N) (ops : list op) (obs : list (N * N)) : bool :=
  match ops, obs with
  | [], [] => true
  | o :: ops', (v', ra') :: obs' =>
      in_bounds_b c v' &&
      match o with
      | Inc =>
          if ra <=? e
          then (v' =? initial_value c) && interval_ok c ra' && check_ops c v' ra' 0 ops' obs'
          else (ra' =? ra) && inc_ok c v v' && check_ops c v' ra' e ops' obs'
      | Reset => (v' =? initial_value c) && interval_ok c ra' && check_ops c v' ra' 0 ops' obs'
      | Adv d => (v' =? v) && (ra' =? ra) && check_ops c v' ra' (e + d) ops' obs'
      | Deadline delta =>
          (v' =? v) && (ra' =? ra)
          && check_ops c v' ra' (N.max e (Z.to_N (Z.of_N ra + delta))) ops' obs'
      end
  | _, _ => false
  end.

Definition check (c : config) (ops : list op) (obs_cfg : list N) (init : N * N) (obs : list (N * N)) : bool :=
  forallb (fun p => N.eqb (fst p) (snd p))
    (combine obs_cfg [initial_value c; min_increment c; max_increment c; max_value c; min_reset c; max_reset c])
  && Nat.eqb (List.length obs_cfg) 6
  && (fst init =? initial_value c) && interval_ok c (snd init)
  && in_bounds_b c (fst init)
  && check_ops c (fst init) (snd init) 0 ops obs.
