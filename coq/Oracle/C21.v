(** Oracle and model line for C21.

    [model_line]: for a transport [futures::mpsc::channel(c)] and a pair of replicas, (1) the
    classification proved in Proofs/LogSyncMain.v / Proofs/LogSyncC21.v -- a deadlock is
    reachable iff [c = 0] or both sides have more than [c] sync-phase messages (operations +
    Done) -- and (2) what an adversarial scheduler of the joint model (always push and tick
    before delivering) actually runs into.
    [check]: the property on the implementation's observation: the session completed. *)
From Coq Require Import List Arith NArith Bool String.
From PV Require Import Lib.Show Lib.LogSyncShow Model.Dedup Model.LogSync Oracle.C20.
Import ListNotations.
Local Open Scope string_scope.

Definition adversary : list label := [LPushA; LPushB; LTickA; LTickB; LDelivA; LDelivB].

Definition nmsgs (sc : list msg) : nat := List.length sc - 2.

Definition may_deadlock (c : nat) (logs : list (N * list N)) (rA rB : replica) : bool :=
  let a := nmsgs (script rA logs (local_heights rB logs)) in
  let b := nmsgs (script rB logs (local_heights rA logs)) in
  Nat.eqb c 0 || (Nat.ltb c a && Nat.ltb c b).

Definition model_line (c : nat) (logs : list (N * list N)) (rA rB : replica) : string :=
  let a := nmsgs (script rA logs (local_heights rB logs)) in
  let b := nmsgs (script rB logs (local_heights rA logs)) in
  let y := sim (N.to_nat 200000) true (Some c) rA rB adversary (sys0 logs logs dedup_capacity) in
  (if may_deadlock c logs rA rB then "may-deadlock" else "terminates")
  ++ " msgs_a=" ++ show_nat a ++ " msgs_b=" ++ show_nat b
  ++ " adversary=" ++ (if finished y then "done"
                       else if deadlocked true (Some c) rA rB y then "deadlock" else "running").

Definition check (completed : bool) : bool := completed.
