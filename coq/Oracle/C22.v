(** Property oracle and canonical model line for C22 (sync session event lifecycle).

    The property is evaluated on the *implementation's* event list in two parts:
      part A  [check_started]: the first event is SessionStarted           (known finding: never)
      part B  [check_rest]:    the rest of the documented grammar — SyncStarted, operations,
              SyncFinished, optionally LiveModeStarted and operations, exactly one terminal
              event, nothing after it; the session returned (no hang, no panic) and returned Ok
              exactly when the terminal event is SessionFinished.
    [lifecycle] (Model/TopicSync.v) = part A followed by part B. *)
From Coq Require Import List Arith NArith Bool String.
From PV Require Import Model.Dedup Model.TopicSync Lib.Show.
Import ListNotations.
Local Open Scope string_scope.

Definition show_event (e : event) : string :=
  match e with
  | ESessionStarted => "S" | ESyncStarted => "Y" | EOp id => "O" ++ show_N id | ESyncFinished => "F"
  | ELiveStarted => "L" | ESessionFinished => "X" | EFailed => "E"
  end.

Definition show_wire (w : wire) : string :=
  match w with
  | WSync MHave => "H" | WSync MPreSync => "P" | WSync MDone => "D"
  | WSync (MOp id) => "o" ++ show_N id | WSync MOpBad => "b"
  | WLive id => "l" ++ show_N id | WClose => "C"
  end.

Definition show_errk (e : errk) : string :=
  match e with
  | SyncClosure => "Sync.Closure" | SyncStream => "Sync.Stream" | SyncSink => "Sync.Sink"
  | SyncUnexpected => "Sync.Unexpected" | SyncDecode => "Sync.Decode"
  | LiveUnexpected => "Unexpected" | ChanSink => "Chan.Sink" | LiveClosure => "Closure" | LiveDecode => "Decode"
  end.

Definition show_result (r : result) : string :=
  match r with ROk => "Ok" | RErr e => "Err:" ++ show_errk e | RDiverge => "HANG" end.

Definition dash (s : string) : string := if String.eqb s "" then "-" else s.

Definition model_line (c : cfg) (ins : list input) (fa : option nat) (stk : bool) (sched : list bool) : string :=
  let '(r, s) := run c ins fa stk sched in
  show_result r ++ " | " ++ dash (show_list show_event " " (evs s)) ++ " | "
  ++ dash (show_list show_wire " " (out (snk s))).

(** Implementation's result class. *)
Inductive ires := IOk | IErr | IBad (* hang / panic *).

Definition check_started (l : list event) : bool :=
  match l with ESessionStarted :: _ => true | _ => false end.

Definition strip_started (l : list event) : list event :=
  match l with ESessionStarted :: r => r | _ => l end.

Definition last_event (l : list event) : option event := List.last (map Some l) None.

Definition check_rest (lv : bool) (res : ires) (l : list event) : bool :=
  lifecycle_tail lv (strip_started l) &&
  match res, last_event l with
  | IOk, Some ESessionFinished => true
  | IErr, Some EFailed => true
  | _, _ => false
  end.
