(** Oracle and model line for C19.

    [model_line]: the joint model (two machines, unbounded queues, a fair scheduler) run to the
    end on a pair of replicas; rendered like the harness renders the real session: status, what
    each side put on its sink, which operations each side's application was handed, and the
    heights of the configured logs after ingesting them.
    [check]: the property evaluated on the *implementation's* observation: each side was handed
    exactly the other side's rows above its own announced height ([expected_ops], Model/LogSync.v),
    the sinks carried exactly those operations inside a complete word of the grammar, and (same
    configuration on both sides) both replicas end with the pointwise maximum of the heights. *)
From Coq Require Import List Arith NArith Bool String.
From PV Require Import Lib.Show Lib.LogSyncShow Model.Dedup Model.LogSync Oracle.C20.
Import ListNotations.
Local Open Scope string_scope.

Definition fair : list label := [LDelivA; LDelivB; LPushA; LPushB; LTickA; LTickB].

Definition heights_after (r : replica) (logs : list (N * list N)) : list (N * N * N) :=
  flat_map (fun al => flat_map (fun l => match height r (fst al) l with
                                         | None => []
                                         | Some h => [(fst al, l, h)]
                                         end) (snd al)) logs.

Definition show_heights_after (hs : list (N * N * N)) : string :=
  show_list (fun x => show_N (fst (fst x)) ++ "." ++ show_N (snd (fst x)) ++ "=" ++ show_N (snd x)) "," hs.

(** [cbuf = None]: unbounded in-memory channels; [cbuf = Some c]: the session runs over
    [futures::mpsc::channel(c)] (transport model of C21).  By [C19_script] / [C19_received_exact]
    the line does not depend on [cbuf] whenever the run finishes; the bounded runs are generated
    only where [C21_outside_known] guarantees that ([c >= 1], one side's sync-phase messages fit
    into [c]). *)
Definition model_line_c (cbuf : option nat) (logsA logsB : list (N * list N)) (rA rB : replica) : string :=
  let y := sim (N.to_nat 200000) true cbuf rA rB fair (sys0 logsA logsB dedup_capacity) in
  let evA := ev_ops (n_hist (sa y)) in
  let evB := ev_ops (n_hist (sb y)) in
  (if finished y then "done" else "stuck")
  ++ " | A " ++ show_msgs (sent (n_hist (sa y))) ++ " | EA " ++ show_ops evA
  ++ " | HA " ++ show_heights_after (heights_after (ingest rA evA) logsA)
  ++ " | B " ++ show_msgs (sent (n_hist (sb y))) ++ " | EB " ++ show_ops evB
  ++ " | HB " ++ show_heights_after (heights_after (ingest rB evB) logsB).

Definition model_line := model_line_c None.

(** Compact rendering of long runs of rows (consecutive sequence numbers, one size), used by the
    python glue for logs with hundreds of entries: [rrun a l z s n] = rows [s .. s+n-1] of log
    [(a, l)], each of size [z], with the operation id the generators use for [(a, l, seq)]. *)
Definition opid (a l s : N) : N := ((a * 64 + l) * 100000 + s)%N.
Fixpoint rrun (a l z s : N) (n : nat) : list row :=
  match n with
  | O => []
  | S k => mkrow s (opid a l s) z :: rrun a l z (N.succ s) k
  end.
Definition oprun (a l z s : N) (n : nat) : list (N * N * row) := map (fun w => (a, l, w)) (rrun a l z s n).
Definition msgrun (a l z s : N) (n : nat) : list msg := map (Operation a l) (rrun a l z s n).

Definition row_eqb (x y : row) : bool :=
  N.eqb (r_seq x) (r_seq y) && N.eqb (r_id x) (r_id y) && N.eqb (r_size x) (r_size y).
Definition op_eqb (x y : N * N * row) : bool :=
  N.eqb (fst (fst x)) (fst (fst y)) && N.eqb (snd (fst x)) (snd (fst y)) && row_eqb (snd x) (snd y).
Fixpoint list_eqb {A} (e : A -> A -> bool) (a b : list A) : bool :=
  match a, b with
  | [], [] => true
  | x :: a', y :: b' => e x y && list_eqb e a' b'
  | _, _ => false
  end.
Definition h3_eqb (x y : N * N * N) : bool :=
  N.eqb (fst (fst x)) (fst (fst y)) && N.eqb (snd (fst x)) (snd (fst y)) && N.eqb (snd x) (snd y).

Definition max_heights (rA rB : replica) (logs : list (N * list N)) : list (N * N * N) :=
  flat_map (fun al => flat_map (fun l => match omax (height rA (fst al) l) (height rB (fst al) l) with
                                         | None => []
                                         | Some h => [(fst al, l, h)]
                                         end) (snd al)) logs.

(** [same_cfg]: both sides were configured with the same logs (then convergence is required). *)
Definition check (logsA logsB : list (N * list N)) (rA rB : replica) (same_cfg : bool)
           (sentA sentB : list msg) (evA evB : list (N * N * row)) (hA_after hB_after : list (N * N * N)) : bool :=
  let hA := local_heights rA logsA in
  let hB := local_heights rB logsB in
  list_eqb op_eqb evA (expected_ops rB logsB hA) &&
  list_eqb op_eqb evB (expected_ops rA logsA hB) &&
  list_eqb op_eqb (ops_of sentA) evB && list_eqb op_eqb (ops_of sentB) evA &&
  gst_eqb (gram sentA) G3 && gst_eqb (gram sentB) G3 &&
  (if same_cfg
   then list_eqb h3_eqb hA_after (max_heights rA rB logsA) && list_eqb h3_eqb hB_after (max_heights rA rB logsA)
   else true).
