(** Property oracle and canonical model line for C32 (group state merge is commutative,
    associative, idempotent).

    A case is three member states [s1 s2 s3] over conditions [N] (totally ordered, [None] = no
    conditions).  The harness prints, for the real [state::merge],
    [merge(s1,s2) | merge(s2,s1) | merge(merge(s1,s2),s3) | merge(s1,merge(s2,s3)) | merge(s1,s1)];
    [model_line] prints the same five states computed by the Gallina [merge_N].

    [check] is the property on the *implementation's* five observed states: the first two agree
    on every lookup (commutative), the next two agree (associative) and the last agrees with
    [s1] (idempotent). *)
From Coq Require Import List Arith NArith Bool String.
From PV Require Import Model.GroupState Lib.Show.
Import ListNotations.
Local Open Scope string_scope.

(** ** Compact case encoding.

    Elaborating record literals is what dominates the evaluation time of the packed cases, so the
    python driver passes every entry as ONE number and the model line prints the same numbers:
    [code = (((id*16 + member_counter)*16 + access_counter)*4 + level)*16 + cond]
    with [cond = 0] for "no conditions" and [k > 0] for [Some k]; counters and conditions < 16. *)
Definition level_of_N (n : N) : AccessLevel :=
  match n with 0%N => Pull | 1%N => Read | 2%N => Write | _ => Manage end.

Definition decode_entry (n : N) : N * MemberState N :=
  let c := N.modulo n 16 in
  let n1 := N.div n 16 in
  let lv := N.modulo n1 4 in
  let n2 := N.div n1 4 in
  let ac := N.modulo n2 16 in
  let n3 := N.div n2 16 in
  let mc := N.modulo n3 16 in
  let id := N.div n3 16 in
  (id, mkMember mc (mkAccess (if N.eqb c 0 then None else Some c) (level_of_N lv)) ac).

Definition decode_state (l : list N) : NState := map decode_entry l.

Definition encode_entry (id : N) (m : MemberState N) : N :=
  (((id * 16 + member_counter m) * 16 + access_counter m) * 4 + level_N (level (access m))) * 16
  + match conditions (access m) with None => 0 | Some k => k end.

(** entries in ascending id order over the ids [0 .. n-1] *)
Definition ids (n : nat) : list N := map N.of_nat (seq 0 n).

Definition show_state (n : nat) (s : NState) : string :=
  join "," (flat_map (fun id => match lookup id s with Some m => [show_N (encode_entry id m)] | None => [] end) (ids n)).

Definition model_line_states (n : nat) (s1 s2 s3 : NState) : string :=
  let m12 := merge_N s1 s2 in
  show_state n m12 ++ " | " ++ show_state n (merge_N s2 s1) ++ " | "
  ++ show_state n (merge_N m12 s3) ++ " | " ++ show_state n (merge_N s1 (merge_N s2 s3)) ++ " | "
  ++ show_state n (merge_N s1 s1).

Definition model_line (n : nat) (c1 c2 c3 : list N) : string :=
  model_line_states n (decode_state c1) (decode_state c2) (decode_state c3).

(** * boolean extensional equality of states *)

Definition optN_eqb (a b : option N) : bool :=
  match a, b with
  | Some x, Some y => N.eqb x y
  | None, None => true
  | _, _ => false
  end.

Definition member_eqb (a b : MemberState N) : bool :=
  N.eqb (member_counter a) (member_counter b)
  && N.eqb (access_counter a) (access_counter b)
  && optN_eqb (conditions (access a)) (conditions (access b))
  && level_eqb (level (access a)) (level (access b)).

Definition opt_member_eqb (a b : option (MemberState N)) : bool :=
  match a, b with
  | Some x, Some y => member_eqb x y
  | None, None => true
  | _, _ => false
  end.

Definition state_eqb (a b : NState) : bool :=
  forallb (fun id => opt_member_eqb (lookup id a) (lookup id b)) (keys a ++ keys b).

Definition check (s1 m12 m21 m12_3 m1_23 m11 : NState) : bool :=
  state_eqb m12 m21 && state_eqb m12_3 m1_23 && state_eqb m11 s1.

(** the oracle on encoded observations *)
Definition check_codes (s1 m12 m21 m12_3 m1_23 m11 : list N) : bool :=
  check (decode_state s1) (decode_state m12) (decode_state m21) (decode_state m12_3)
        (decode_state m1_23) (decode_state m11).
