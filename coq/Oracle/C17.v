(** Property oracle and canonical model line for C17.

    A case is a channel capacity, a list of phases (messages sent back to back, then the
    executor runs the consumer until it is no longer scheduled) and whether the channel is
    closed at the end.  The implementation's observation is the list of bodies yielded per
    phase, whether the stream finished, and (in-runtime mode) whether the time-out fired.

    [check]: the yields are, phase by phase, exactly the valid messages the channel retained
    ([expected]); the stream finished iff the channel was closed; no time-out.  A subscription
    that stalls on an invalid / lagged item fails it (the valid message behind it is available
    but not yielded). *)
From Coq Require Import List NArith Bool Arith String.
From PV Require Import Model.EphemeralSub Lib.Show.
Import ListNotations.

Definition eqb_listN (a b : list N) : bool :=
  Nat.eqb (List.length a) (List.length b) && forallb (fun p => N.eqb (fst p) (snd p)) (combine a b).
Definition eqb_llN (a b : list (list N)) : bool :=
  Nat.eqb (List.length a) (List.length b) && forallb (fun p => eqb_listN (fst p) (snd p)) (combine a b).

Definition check (cap : nat) (phs : list (list item)) (do_close : bool)
           (ys : list (list N)) (fin stall : bool) : bool :=
  eqb_llN ys (expected cap phs) && Bool.eqb fin do_close && negb stall.

Local Open Scope string_scope.
Definition show_phase (l : list N) : string :=
  match l with [] => "-" | _ => show_list show_N "," l end.

Definition model_line (cap : nat) (phs : list (list item)) (do_close : bool) : string :=
  let '(s, ys) := scenario poll_fixed cap phs do_close in
  show_list show_phase " | " ys ++ (if finished s then " END" else "").

(** The same scenario on the code before the repair (used by the regression example only). *)
Definition model_line_asis (cap : nat) (phs : list (list item)) (do_close : bool) : string :=
  let '(s, ys) := scenario poll_asis cap phs do_close in
  show_list show_phase " | " ys ++ (if finished s then " END" else "").
