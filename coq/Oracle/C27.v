(** C27 — canonical model line and property oracle.

    A scenario is a list of transport records [recs] (over the symbolic signature scheme of
    Model/AddressBook.v) and a list of scenario operations that refer to records by index.
    The harness builds the same records with real ed25519 keys / signatures and prints the
    stored record of every node as its index in [recs]. *)
From Coq Require Import List NArith Bool String.
From PV Require Import Model.AddressBook Lib.Show.
Import ListNotations.
Local Open Scope N_scope.

Definition rec := tinfo sym_sig.

Inductive sop :=
| ST (n : N) (i : nat)                        (* AddressBook::insert_transport_info(n, recs[i]) *)
| SN (n : N) (b : bool) (i : option nat).     (* AddressBook::insert_node_info(NodeInfo{n, bootstrap b, recs[i]}) *)

Definition resolve (recs : list rec) (o : sop) : option (op sym_sig) :=
  match o with
  | ST n i => match nth_error recs i with Some r => Some (InsertTransport n r) | None => None end
  | SN n b None => Some (InsertNode n b None)
  | SN n b (Some i) => match nth_error recs i with Some r => Some (InsertNode n b (Some r)) | None => None end
  end.

Fixpoint resolve_all (recs : list rec) (ops : list sop) : list (op sym_sig) :=
  match ops with
  | [] => []
  | o :: t => match resolve recs o with Some x => x :: resolve_all recs t | None => resolve_all recs t end
  end.

Fixpoint find_index (recs : list rec) (r : rec) (i : nat) : option nat :=
  match recs with
  | [] => None
  | x :: t => if tinfo_eqb x r then Some i else find_index t r (S i)
  end.

Local Open Scope string_scope.

Definition show_res (r : res) : string :=
  match r with
  | Ok true => "1" | Ok false => "0"
  | Err InvalidSignature => "Es" | Err NodeIdMismatch => "Ei"
  end.

Definition show_stored (recs : list rec) (t : option rec) : string :=
  match t with
  | None => "-"
  | Some r => match find_index recs r 0 with Some i => show_nat i | None => "?" end
  end.

Definition show_node (recs : list rec) (b : book sym_sig) (n : N) : string :=
  match lookup sym_sig b n with
  | None => "-"
  | Some i => "b" ++ show_bool (ni_bootstrap i) ++ ":" ++ show_stored recs (ni_transports i)
  end.

Definition nodes (k : nat) : list N := map N.of_nat (seq 0 k).

(** actor mode: results of every call, then the entry of every node 0..k-1 *)
Definition model_line_actor (k : nat) (recs : list rec) (ops : list sop) : string :=
  let '(b, rs) := actor_run sym_sig sym_verify [] (resolve_all recs ops) in
  show_list show_res "," rs ++ " | " ++ show_list (show_node recs b) ";" (nodes k).

(** direct mode: [NodeInfo::update_transports] on one [NodeInfo] of node [n] *)
Fixpoint direct_run (n : N) (cur : option rec) (rs : list rec) : option rec * list res :=
  match rs with
  | [] => (cur, [])
  | r :: t =>
      let '(c1, x) := update_transports sym_sig sym_verify n cur r in
      let '(c2, xs) := direct_run n c1 t in
      (c2, x :: xs)
  end.

Fixpoint pick (recs : list rec) (is : list nat) : list rec :=
  match is with
  | [] => []
  | i :: t => match nth_error recs i with Some r => r :: pick recs t | None => pick recs t end
  end.

Definition model_line_direct (n : N) (recs : list rec) (is : list nat) : string :=
  let '(c, rs) := direct_run n None (pick recs is) in
  show_list show_res "," rs ++ " | " ++ show_stored recs c.

Local Close Scope string_scope.

(** * The property as a boolean function of the implementation's observation

    [obs_res] = what every call answered, [obs_final n] = what the implementation stores for
    node [n] at the end (as a record).  The oracle does not run the model's update function: it
    recomputes, per node, "the newest authentic record that arrived since the last local
    overwrite" with [newest_authentic] and compares. *)

(** last successful local overwrite of node [n] (its record) and the records that arrived for
    [n] through insert_transport_info afterwards; [None] when [n] was never touched *)
Fixpoint segment (n : N) (ops : list (op sym_sig)) (acc : option (option rec * list rec))
  : option (option rec * list rec) :=
  match ops with
  | [] => acc
  | InsertNode k _ r :: t =>
      if (k =? n)%N
      then match verify_node_info sym_sig sym_verify n r with
           | None => segment n t (Some (r, []))
           | Some _ => segment n t acc
           end
      else segment n t acc
  | InsertTransport k r :: t =>
      if (k =? n)%N
      then if authentic sym_sig sym_verify n r
           then match acc with
                | None => segment n t (Some (None, [r]))
                | Some (i, l) => segment n t (Some (i, l ++ [r]))
                end
           else segment n t acc
      else segment n t acc
  end.

Definition expected (n : N) (ops : list (op sym_sig)) : option (option rec) :=
  match segment n ops None with
  | None => None
  | Some (i, l) => Some (newest_authentic sym_sig sym_verify n i l)
  end.

Definition opt_rec_eqb (a b : option rec) : bool :=
  match a, b with
  | None, None => true
  | Some x, Some y => tinfo_eqb x y
  | _, _ => false
  end.

(** the answer of one call: error iff not authentic (the variant is compared by the
    correspondence, not here), [Ok true] iff the stored record changed hands *)
Definition res_accepts (r : res) : bool := match r with Ok _ => true | Err _ => false end.

Definition call_ok (o : op sym_sig) (r : res) : bool :=
  match o with
  | InsertTransport n x => Bool.eqb (res_accepts r) (authentic sym_sig sym_verify n x)
  | InsertNode n _ x =>
      Bool.eqb (res_accepts r) (match verify_node_info sym_sig sym_verify n x with None => true | Some _ => false end)
  end.

Fixpoint calls_ok (ops : list (op sym_sig)) (rs : list res) : bool :=
  match ops, rs with
  | [], [] => true
  | o :: t, r :: u => call_ok o r && calls_ok t u
  | _, _ => false
  end.

(** observed entry of a node: absent, or (bootstrap, stored record as index) *)
Definition obs_entry := option (bool * option nat).

Definition entry_ok (recs : list rec) (ops : list (op sym_sig)) (n : N) (e : obs_entry) : bool :=
  match expected n ops, e with
  | None, None => true
  | Some want, Some (_, got) =>
      let got_rec := match got with None => None | Some i => nth_error recs i end in
      (* a stored index must denote a record *)
      (match got with Some i => match nth_error recs i with Some _ => true | None => false end | None => true end)
      && opt_rec_eqb got_rec want
      (* forged / mismatched never in the book, stated directly on the observation *)
      && (match got_rec with Some r => authentic sym_sig sym_verify n r | None => true end)
  | _, _ => false
  end.

Fixpoint entries_ok (recs : list rec) (ops : list (op sym_sig)) (ns : list N) (es : list obs_entry) : bool :=
  match ns, es with
  | [], [] => true
  | n :: t, e :: u => entry_ok recs ops n e && entries_ok recs ops t u
  | _, _ => false
  end.

Definition check_actor (k : nat) (recs : list rec) (ops : list sop)
           (obs_res : list res) (obs_final : list obs_entry) : bool :=
  let o := resolve_all recs ops in
  calls_ok o obs_res && entries_ok recs o (nodes k) obs_final.

Definition check_direct (n : N) (recs : list rec) (is : list nat)
           (obs_res : list res) (obs_final : option nat) : bool :=
  let o := map (InsertTransport n) (pick recs is) in
  calls_ok o obs_res &&
  match is with
  | [] => match obs_final with None => true | Some _ => false end
  | _ =>
    match expected n o with
    | None => match obs_final with None => true | Some _ => false end
    | Some want => entry_ok recs o n (Some (false, obs_final))
    end
  end.
