(** Canonical model line and property oracle for C26 (wire framing).

    A case: the message type of the harness ([picky] selects [de_raw true]), [max], the messages
    (as their postcard payloads), optionally a byte stream to decode instead of what was encoded,
    and the chunk sizes the stream is cut into.

    [model_line] runs the *incremental* model ([feed_chunks] with the case's cuts).
    [check] judges the implementation's observation against the *one-shot* reading of the
    property: which messages [encode] must accept, what the encode buffer must hold, and that
    decoding chunk by chunk gives what decoding the whole stream at once gives
    ([drain_all]); for a stream that was produced by [encode] from deserialisable messages that
    is exactly the accepted messages in order, nothing left, no error. *)
From Coq Require Import List Arith NArith Bool String.
From PV Require Import Model.Codec Lib.Show.
Import ListNotations.
Local Open Scope string_scope.

Definition hexd (n : N) : string :=
  match n with
  | 0 => "0" | 1 => "1" | 2 => "2" | 3 => "3" | 4 => "4" | 5 => "5" | 6 => "6" | 7 => "7"
  | 8 => "8" | 9 => "9" | 10 => "a" | 11 => "b" | 12 => "c" | 13 => "d" | 14 => "e" | _ => "f"
  end%N.
Fixpoint hex (b : bytes) : string :=
  match b with
  | [] => ""
  | x :: r => hexd (x / 16) ++ hexd (x mod 16) ++ hex r
  end.

Definition show_error (e : error) : string :=
  match e with
  | TooLargeMessage l m => "TooLarge:" ++ show_N l ++ ":" ++ show_N m
  | Postcard => "Postcard"
  | Io => "Io"
  end.
Definition show_item (i : item bytes) : string :=
  match i with IOk m => "ok:" ++ hex m | IErr e => "err:" ++ show_error e end.
Definition show_items (l : list (item bytes)) : string :=
  match l with [] => "-" | _ => show_list show_item ";" l end.
Definition show_enc (r : option error) : string :=
  match r with None => "ok" | Some e => show_error e end.
Definition show_encs (l : list (option error)) : string :=
  match l with [] => "-" | _ => show_list show_enc ";" l end.
Definition show_resid (st : option bytes) : string :=
  match st with None => "X" | Some b => show_nat (List.length b) end.

Definition nonempty (c : bytes) : bool := match c with [] => false | _ => true end.

Definition model_line (picky : bool) (max : N) (msgs : list bytes) (override : option bytes)
    (cuts : list nat) : string :=
  let '(enc, s) := encode_all bytes ser_raw max msgs [] in
  let stream := match override with Some x => x | None => s end in
  let chunks := split_at cuts stream in
  let '(o, st) := feed_chunks bytes (de_raw picky) max chunks in
  "E=" ++ show_encs enc ++ " S=" ++ hex s ++ " D=" ++ show_items o ++ " R=" ++ show_resid st
  ++ " F=" ++ show_items (stream_out bytes (de_raw picky) max (filter nonempty chunks)).

(** Kind [huge]: only the size checks of [encode] run; the message is [n] elements of 65539
    bytes. *)
Definition huge_len (n : N) : N := (n * 65539)%N.
Definition model_line_huge (max n : N) : string :=
  "E=" ++ show_enc (enc_check max (huge_len n)) ++ " L=0".

(** * Oracle *)
Definition eqb_bytes (a b : bytes) : bool :=
  Nat.eqb (List.length a) (List.length b) && forallb (fun p => N.eqb (fst p) (snd p)) (combine a b).
Definition eqb_error (a b : error) : bool :=
  match a, b with
  | TooLargeMessage l m, TooLargeMessage l' m' => N.eqb l l' && N.eqb m m'
  | Postcard, Postcard => true
  | Io, Io => true
  | _, _ => false
  end.
Definition eqb_item (a b : item bytes) : bool :=
  match a, b with
  | IOk x, IOk y => eqb_bytes x y
  | IErr x, IErr y => eqb_error x y
  | _, _ => false
  end.
Definition eqb_list {A} (eq : A -> A -> bool) (a b : list A) : bool :=
  Nat.eqb (List.length a) (List.length b) && forallb (fun p => eq (fst p) (snd p)) (combine a b).
Definition eqb_opt {A} (eq : A -> A -> bool) (a b : option A) : bool :=
  match a, b with
  | None, None => true
  | Some x, Some y => eq x y
  | _, _ => false
  end.

(** What [encode] must answer for a payload of this length: refused iff longer than the maximum
    (the u32 cap cannot be reached by a payload that exists as a list). *)
Definition spec_enc_len (max fl : N) : option error :=
  if (max <? fl)%N then Some (TooLargeMessage fl max)
  else if (u32_max <? fl)%N then Some (TooLargeMessage fl u32_max) else None.
Definition spec_enc (max : N) (m : bytes) : option error := spec_enc_len max (blen m).
Definition accepted (max : N) (msgs : list bytes) : list bytes :=
  filter (fun m => match spec_enc max m with None => true | Some _ => false end) msgs.
Definition deserialisable (picky : bool) (m : bytes) : bool :=
  match de_raw picky m with Some _ => true | None => false end.

Definition check (picky : bool) (max : N) (msgs : list bytes) (override : option bytes)
    (obs_enc : list (option error)) (obs_stream : bytes)
    (obs_dec : list (item bytes)) (obs_resid : option N) (obs_framed : list (item bytes)) : bool :=
  let acc := accepted max msgs in
  let stream := match override with Some x => x | None => obs_stream end in
  let '(o, st) := drain_all bytes (de_raw picky) max stream in
  eqb_list (eqb_opt eqb_error) obs_enc (map (spec_enc max) msgs)
  && eqb_bytes obs_stream (List.concat (map (frame bytes ser_raw) acc))
  && eqb_list eqb_item obs_dec o
  && eqb_opt N.eqb obs_resid (option_map blen st)
  && eqb_list eqb_item obs_framed (o ++ eof_items bytes st)
  && match override with
     | Some _ => true
     | None =>
         if forallb (deserialisable picky) acc
         then eqb_list eqb_item obs_framed (map IOk acc) && eqb_opt N.eqb obs_resid (Some 0%N)
         else true
     end.

(** Kind [huge]: refused with the size error, and nothing was written. *)
Definition check_huge (max n : N) (obs : option error) (obs_len : N) : bool :=
  eqb_opt eqb_error obs (spec_enc_len max (huge_len n)) && N.eqb obs_len 0.
