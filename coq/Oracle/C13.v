(** Oracle and canonical lines for C13.

    [check]      the property as a boolean function of what the implementation was OBSERVED to do:
                 the items the source delivered and, per layer, the sequence that left that layer.
                 It is [scheck] of the model applied to observations (lemma [check_is_scheck] in
                 Proofs/ProcessorsOracle.v), i.e. the very predicate the theorems establish.
    [model_line] what every maximal schedule of a loss-free run must show, per layer and origin
                 (schedule independent by the theorems).
    [conform_line] replays the implementation's observed event trace on the model: every event
                 must be an enabled label with the same value, the items dropped with cancelled
                 futures must be the same, and the model must have nothing left to do where the
                 implementation went idle. *)
From Coq Require Import List Arith NArith Bool String.
From PV Require Import Model.Processors Lib.Show.
Import ListNotations.
Local Open Scope string_scope.

Definition show_res (r : res) : string :=
  match r with Ok y => "+" ++ show_N y | Er y => "-" ++ show_N y end.

Definition gone_of := fix gone_of (s : stream) : list N :=
  match s with Src gone _ => gone | Lay _ up _ => gone_of up end.

(** Last layer first. *)
Fixpoint rshape (s : stream) : list lcfg :=
  match s with Src _ _ => [] | Lay c up _ => c :: rshape up end.
Fixpoint remits (s : stream) : list (list out) :=
  match s with Src _ _ => [] | Lay _ up l => emitted l :: remits up end.

Fixpoint ocheck (rcs : list lcfg) (res : list (list out)) (xs pulled : list N) : bool :=
  match rcs, res with
  | [], [] => eqb_list N.eqb pulled xs
  | c :: cr, E :: er =>
      lcheck c (okitems (match er with [] => map (fun x => OQ (Ok x)) pulled | Eu :: _ => Eu end)) E
      && ocheck cr er xs pulled
  | _, _ => false
  end.

(** [cs], [emits]: first layer first (as the scenario lists them). *)
Definition check (cs : list lcfg) (xs pulled : list N) (emits : list (list out)) : bool :=
  ocheck (rev cs) (rev emits) xs pulled.

Definition layer_line (c : lcfg) (I : list N) : string :=
  match c with
  | Single p =>
      "Q=" ++ show_list show_res "," (pushes p I) ++ " F= A=" ++ show_list show_N "," (failed p I) ++ " B="
  | Comp p1 p2 =>
      let mid := pushes p1 I in
      "Q=" ++ show_list show_res "," (pushes p2 (oks mid)) ++ " F=" ++ show_list show_N "," (ers mid)
      ++ " A=" ++ show_list show_N "," (failed p1 I) ++ " B=" ++ show_list show_N "," (failed p2 (oks mid))
  end.

Fixpoint layer_lines (cs : list lcfg) (I : list N) : list string :=
  match cs with
  | [] => []
  | c :: r => layer_line c I :: layer_lines r (lspec c I)
  end.

Definition model_line (cs : list lcfg) (xs : list N) : string :=
  join " / " (layer_lines cs xs) ++ " => " ++ show_list show_N "," (chain_spec cs xs).

Fixpoint replay (s : stream) (tr : list label) (n : nat) : stream * option nat :=
  match tr with
  | [] => (s, None)
  | a :: r => match tstep s a with Some s' => replay s' r (S n) | None => (s, Some n) end
  end.

Definition conform_line (cs : list lcfg) (xs : list N) (tr : list label) (lost_obs : list N) : string :=
  match replay (init cs xs) tr 0 with
  | (_, Some n) => "REJECT@" ++ show_nat n
  | (s, None) =>
      if negb (quiescent s) then "NOT-QUIESCENT"
      else if negb (eqb_list N.eqb (lost_of s) lost_obs) then "LOST-MISMATCH " ++ show_list show_N "," (lost_of s)
      else "OK"
  end.
