(** Oracle and canonical lines for C13.

    [check]      the property as a boolean function of what the implementation was OBSERVED to do:
                 the items the source delivered and, per layer, the sequence that left that layer.
                 It is [scheck] of the model applied to observations (lemma [check_is_scheck] in
                 Proofs/ProcessorsOracle.v), i.e. the very predicate the theorems establish.
    [model_line] what every maximal schedule of a loss-free run must show, per layer and origin
                 (schedule independent by the theorems).
    [conform_line] replays the implementation's observed event trace on the model: every event
                 must be an enabled label with the same value, every observed drop of an item
                 must be one the model allows at that very point ([ED]), the items dropped with
                 cancelled futures must be the same, and the model must have nothing left to do
                 where the implementation went idle.  Traces of any length are judged label by
                 label; nothing is skipped. *)
From Coq Require Import List Arith NArith Bool String.
From PV Require Import Model.Processors Lib.Show.
Import ListNotations.
Local Open Scope string_scope.

Definition show_res (r : res) : string :=
  match r with Ok y => "+" ++ show_N y | Er y => "-" ++ show_N y end.

Definition gone_of := fix gone_of (s : stream) : list N :=
  match s with Src gone _ => gone | Lay _ up _ => gone_of up end.

(** Last layer first. *)
Fixpoint rshape (s : stream) : list lcfg :=
  match s with Src _ _ => [] | Lay c up _ => c :: rshape up end.
Fixpoint remits (s : stream) : list (list out) :=
  match s with Src _ _ => [] | Lay _ up l => emitted l :: remits up end.

Fixpoint ocheck (rcs : list lcfg) (res : list (list out)) (xs pulled : list N) : bool :=
  match rcs, res with
  | [], [] => eqb_list N.eqb pulled xs
  | c :: cr, E :: er =>
      lcheck c (okitems (match er with [] => map (fun x => OQ (Ok x)) pulled | Eu :: _ => Eu end)) E
      && ocheck cr er xs pulled
  | _, _ => false
  end.

(** [cs], [emits]: first layer first (as the scenario lists them). *)
Definition check (cs : list lcfg) (xs pulled : list N) (emits : list (list out)) : bool :=
  ocheck (rev cs) (rev emits) xs pulled.

Definition layer_line (c : lcfg) (I : list N) : string :=
  match c with
  | Single p =>
      "Q=" ++ show_list show_res "," (pushes p I) ++ " F= A=" ++ show_list show_N "," (failed p I) ++ " B="
  | Comp p1 p2 =>
      let mid := pushes p1 I in
      "Q=" ++ show_list show_res "," (pushes p2 (oks mid)) ++ " F=" ++ show_list show_N "," (ers mid)
      ++ " A=" ++ show_list show_N "," (failed p1 I) ++ " B=" ++ show_list show_N "," (failed p2 (oks mid))
  end.

Fixpoint layer_lines (cs : list lcfg) (I : list N) : list string :=
  match cs with
  | [] => []
  | c :: r => layer_line c I :: layer_lines r (lspec c I)
  end.

Definition model_line (cs : list lcfg) (xs : list N) : string :=
  join " / " (layer_lines cs xs) ++ " => " ++ show_list show_N "," (chain_spec cs xs).

(** Observed events: a model label, or [ED d y] = the harness saw the intermediate item [y] of the
    layer [d] levels below the outermost one being DROPPED (the token's destructor ran before any
    [process] consumed it).  The model loses an item only inside a [Recv] step that cancels a
    cancellable hand-over, so an observed drop is accepted only (1) while that layer's [next()]
    holds exactly [y], (2) if the model allows that hand-over to be cancelled ([cancellable]:
    [second.process y] may suspend) and (3) if the very next event is that layer's [Recv] (tokio
    drops the losing futures of a select! before the winning branch's handler runs). *)
Inductive ev := EL (a : label) | ED (d : nat) (y : N).

Fixpoint layer_at (s : stream) (d : nat) : option (lcfg * layer) :=
  match s with
  | Src _ _ => None
  | Lay c up l => match d with O => Some (c, l) | S d' => layer_at up d' end
  end.

Definition in_hand (s : stream) (d : nat) : option (lcfg * N) :=
  match layer_at s d with
  | Some (c, l) => match tk l with TSel (NHand y) => Some (c, y) | _ => None end
  | None => None
  end.

Definition drop_allowed (s : stream) (d : nat) (y : N) : bool :=
  match in_hand s d with
  | Some (c, y') => N.eqb y y' && cancellable c (NHand y')
  | None => false
  end.

Definition recv_at (d : nat) (e : ev) : bool :=
  match e with EL (L d' (Recv _)) => Nat.eqb d d' | _ => false end.

Inductive verdict :=
| VDone
| VReject (n : nat) (holding : option N)   (* label not enabled; the item in hand if it was a Recv *)
| VDrop (n : nat) (y : N).                 (* observed drop the model does not allow *)

Fixpoint replay (s : stream) (tr : list ev) (n : nat) : stream * verdict :=
  match tr with
  | [] => (s, VDone)
  | EL a :: r =>
      match tstep s a with
      | Some s' => replay s' r (S n)
      | None =>
          (s, VReject n match a with
                        | L d (Recv _) => match in_hand s d with Some (_, y) => Some y | None => None end
                        | _ => None
                        end)
      end
  | ED d y :: r =>
      if drop_allowed s d y && match r with e :: _ => recv_at d e | [] => false end
      then replay s r (S n) else (s, VDrop n y)
  end.

Definition conform_line (cs : list lcfg) (xs : list N) (tr : list ev) (lost_obs : list N) : string :=
  match replay (init cs xs) tr 0 with
  | (_, VReject n None) => "REJECT@" ++ show_nat n
  | (_, VReject n (Some y)) => "REJECT@" ++ show_nat n ++ " input-received-while-next()-holds-" ++ show_N y
  | (_, VDrop n y) => "DROP-NOT-ALLOWED@" ++ show_nat n ++ " item-" ++ show_N y
  | (s, VDone) =>
      if negb (quiescent s) then "NOT-QUIESCENT"
      else if negb (eqb_list N.eqb (lost_of s) lost_obs) then "LOST-MISMATCH " ++ show_list show_N "," (lost_of s)
      else "OK"
  end.
