(** Oracle and canonical model line for C31.

    A case is a history (list of operations, in a causal order) plus the list of group ids to
    query.  The harness processes the history on the real [GroupCrdt<.., StrongRemove>] in several
    causal orders and queries every group several times on every replica; each (order, repetition)
    yields one canonical *answer* string:

      acc=<one bit per operation of the case: accepted?> m<g>{<entries>} r<g>{<entries>} ...

    with entries [i<id>=<level>.<cond>] / [g<id>=...] sorted by (kind, id), level 0..3, cond 0 for
    None and c+1 for Some c; [m] is `members(g)`, [r] is `root_members(g)`.

    [check answers] is the property itself on the implementation's observation: all replicas and
    all repeated queries gave the same answer.  [model_line] is the answer the model predicts. *)
From Coq Require Import List NArith Bool String Ascii.
From PV Require Import Lib.Show Lib.AListC31 Model.GroupCrdt.
Import ListNotations.
Local Open Scope string_scope.

Definition check (answers : list string) : bool :=
  match answers with
  | [] => false
  | a :: r => forallb (String.eqb a) r
  end.

(** ** rendering *)
Definition member_ltb (a b : member) : bool :=
  match fst a, fst b with
  | false, true => true
  | true, false => false
  | _, _ => N.ltb (snd a) (snd b)
  end.

Fixpoint insert_sorted (e : member * access) (l : list (member * access)) : list (member * access) :=
  match l with
  | [] => [e]
  | x :: r => if member_ltb (fst e) (fst x) then e :: l else x :: insert_sorted e r
  end.
Definition sort_entries (l : list (member * access)) : list (member * access) :=
  fold_left (fun acc e => insert_sorted e acc) l [].

Definition show_cond (c : option N) : string :=
  match c with None => "0" | Some n => show_N (n + 1) end.
Definition show_entry (e : member * access) : string :=
  (if fst (fst e) then "g" else "i") ++ show_N (snd (fst e)) ++ "=" ++
  show_N (lvl_n (lvl (snd e))) ++ "." ++ show_cond (cond (snd e)).
Definition show_entries (l : list (member * access)) : string :=
  "{" ++ show_list show_entry "," (sort_entries l) ++ "}".

Definition show_group (y : replica) (g : N) : string :=
  "m" ++ show_N g ++ show_entries (members y g) ++ " r" ++ show_N g ++ show_entries (root_members y g).

Definition accepted_bits (y : replica) (ops : list op) : string :=
  show_list (fun o => show_bool (existsb (fun o' => N.eqb (oid o') (oid o)) (r_ops y))) "" ops.

Definition answer (y : replica) (ops : list op) (groups : list N) : string :=
  "acc=" ++ accepted_bits y ops ++ " " ++ show_list (show_group y) " " groups.

(** Which model describes the history: the proved one ([run], StrongRemove filter empty and no
    nested-group cycle possible), the transcription of the filter and of the nested-group cycle
    check ([run_r]), or none (mutual-remove cycles possible). *)
Definition model_line (ops : list op) (groups : list N) : string :=
  if mutual_possible ops then "UNMODELLED"
  else
    let b := answer (run_r ops) ops groups in
    if plain_history ops && negb (cycle_prone ops) then
      let a := answer (run ops) ops groups in
      if String.eqb a b then "A " ++ a else "MODELS-DIFFER " ++ a ++ " <> " ++ b
    else "B " ++ b.
