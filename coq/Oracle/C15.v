(** C15 - model line and property oracle.

    A case is a list of node sessions ("segments") on one file-backed database.  Every session
    starts with a restart from the frontier whose replay is consumed to its end, then runs API
    calls that are each awaited, and ends with a crash.  Optionally the last crash lands inside a
    call (or inside a replay): then the durable state is one of the prefixes of that call's plan
    and the model line lists the alternatives.  A final restart observes what is replayed.

    [model_line] predicts every observation from the history alone; [check] is the property,
    evaluated on the tables and events the implementation showed (rows, associations and cursor
    are read directly from the database file before each restart). *)
From Coq Require Import List Arith NArith Bool String.
From PV Require Import Model.Replay Lib.Show.
Import ListNotations.
Local Open Scope string_scope.

(** The observed topic's log has index 0 (other topics: 1, 2, ...). *)
Definition tlog : logid := 0%N.

(** * Rendering *)

Definition show_body (b : body) : string := match b with NoBody => "n" | Body => "b" | BadBody => "x" end.
Definition show_row (r : row) : string :=
  show_N (r_id r) ++ ":" ++ show_N (r_author r) ++ ":" ++ show_N (r_log r) ++ ":" ++ show_N (r_seq r)
  ++ ":" ++ show_body (r_body r) ++ ":" ++ show_bool (r_prune r).
Definition show_key (k : key) : string := show_N (fst k) ++ ":" ++ show_N (snd k).
Definition show_cur (kv : key * N) : string := show_key (fst kv) ++ "=" ++ show_N (snd kv).
Definition show_dur (d : durable) : string :=
  "R[" ++ show_list show_row "," (rows d) ++ "] A[" ++ show_list show_key "," (assoc d)
  ++ "] C[" ++ show_list show_cur "," (cursor d) ++ "]".
Definition show_kind (k : ekind) : string := match k with Processed => "P" | DecodeFailed => "D" end.
Definition show_event (e : event) : string := show_kind (fst e) ++ ":" ++ show_N (r_id (snd e)).
Definition show_replay (d : durable) (take : option nat) : string :=
  let evs := delivered_on_restart d in
  "T" ++ show_N (total_operations (nacked_log_ranges d)) ++ " E["
  ++ show_list show_event "," (match take with None => evs | Some j => firstn j evs end) ++ "]".

(** * Histories *)

Inductive hop :=
| HPub (id : N) (wb pr : bool)   (* publish / prune on the observed topic                       *)
| HImp (rs : list row)           (* import of a stream of operations                            *)
| HAck (id : N)                  (* StreamSubscription::ack(hash)                               *)
| HAckHeld (id : N)              (* ProcessedOperation::ack on an event kept by the application *)
| HOther (r : row).              (* publish on another topic of the same node                   *)

Record segment := { s_pol : policy; s_ops : list hop }.

(** Model state while running a session: the tables plus the rows of the [Processed] events the
    application received in this session (the events it can still call [ack] on). *)
Definition mstate := (durable * list row)%type.

Definition imp_ok (d : durable) (r : row) : bool := has_id (r_id r) (rows d) || ingest_accepts d r.

Definition imp_event (d : durable) (r : row) : list string :=
  if imp_ok d r
  then match event_of r with Some k => [show_kind k ++ ":" ++ show_N (r_id r)] | None => [] end
  else ["F:" ++ show_N (r_id r)].

Definition is_processed (r : row) : bool := match r_body r with Body => true | _ => false end.

Definition ops_of_hop (me : author) (st : mstate) (h : hop) : list op :=
  match h with
  | HPub id wb pr => [OPublish id wb pr]
  | HImp rs => map OImport rs
  | HAck id => [OAck id]
  | HAckHeld id => match find_id id (snd st) with Some r => [OAckHeld r] | None => [] end
  | HOther r => [OOther r]
  end.

Definition apply1 (p : policy) (me : author) (st : mstate) (o : op) : mstate * list string :=
  let d := fst st in
  let d' := apply_op tlog p me d o in
  match o with
  | OPublish id wb pr =>
      ((d', if wb then (snd st ++ [pub_row tlog me d id wb pr])%list else snd st),
       if wb then ["P:" ++ show_N id] else [])
  | OImport r =>
      ((d', if imp_ok d r && is_processed r then (snd st ++ [r])%list else snd st), imp_event d r)
  | _ => ((d', snd st), [])
  end.

Fixpoint apply_ops (p : policy) (me : author) (st : mstate) (os : list op) : mstate * list string :=
  match os with
  | [] => (st, [])
  | o :: t =>
      let '(st1, e1) := apply1 p me st o in
      let '(st2, e2) := apply_ops p me st1 t in
      (st2, (e1 ++ e2)%list)
  end.

Fixpoint apply_hops (p : policy) (me : author) (st : mstate) (hs : list hop) : mstate * list string :=
  match hs with
  | [] => (st, [])
  | h :: t =>
      let '(st1, e1) := apply_ops p me st (ops_of_hop me st h) in
      let '(st2, e2) := apply_hops p me st1 t in
      (st2, (e1 ++ e2)%list)
  end.

(** Observation of one restart: tables before, replay, tables after the replay ran to its end. *)
Definition show_restart (p : policy) (me : author) (d : durable) : string :=
  show_dur d ++ " # " ++ show_replay d None ++ " # " ++ show_dur (apply_op tlog p me d OReplay).

Definition seg_run (me : author) (st : mstate) (sg : segment) : mstate * string :=
  let p := s_pol sg in
  let d1 := apply_op tlog p me (fst st) OReplay in
  let held := filter is_processed (replay_entries (fst st)) in
  let '(st2, evs) := apply_hops p me (d1, held) (s_ops sg) in
  (st2, show_restart p me (fst st) ++ " # O[" ++ join "," evs ++ "]").

Fixpoint segs_run (me : author) (st : mstate) (sgs : list segment) : mstate * list string :=
  match sgs with
  | [] => (st, [])
  | sg :: t =>
      let '(st1, l1) := seg_run me st sg in
      let '(st2, l2) := segs_run me st1 t in
      (st2, l1 :: l2)
  end.

(** The crash that lands inside a call. *)
Inductive racy :=
| RNone
| ROp (p : policy) (h : hop) (lo : nat)     (* last call of the last session, at least [lo] transitions done *)
| RPartial (p : policy) (j : nat).         (* a session that consumes only [j] replay events, then crashes  *)

(** Transitions that must have been committed once [j] replay events were received. *)
Fixpoint labels_until (p : policy) (rs : list row) (j : nat) : nat :=
  match rs with
  | [] => 0
  | r :: t =>
      match j with
      | 0 => 0
      | S j' => List.length (process_labels p r) +
                match event_of r with Some _ => labels_until p t j' | None => labels_until p t (S j') end
      end
  end.

Definition racy_states (me : author) (st : mstate) (rc : racy) : list durable :=
  match rc with
  | RNone => [fst st]
  | ROp p h lo =>
      match ops_of_hop me st h with
      | [o] => cut_states tlog p me (fst st) o lo
      | _ => [fst st]
      end
  | RPartial p j =>
      cut_states tlog p me (fst st) OReplay (labels_until p (replay_entries (fst st)) j)
  end.

Definition racy_prefix (st : mstate) (rc : racy) : list string :=
  match rc with
  | RPartial p j => [show_dur (fst st) ++ " # " ++ show_replay (fst st) (Some j)]
  | _ => []
  end.

Definition model_line (me : author) (sgs : list segment) (rc : racy) (pf : policy) : string :=
  let '(st, ls) := segs_run me (empty, []) sgs in
  let alt := "ALT{" ++ join " || " (map (show_restart pf me) (racy_states me st rc)) ++ "}" in
  join " ;; " (ls ++ racy_prefix st rc ++ [alt])%list.

(** * Property oracle on observations *)

Definition obs_event := (ekind * N)%type.
Record obs := { o_d : durable; o_events : list obs_event; o_complete : bool; o_explicit : bool }.

Definition kind_eqb (a b : ekind) : bool :=
  match a, b with Processed, Processed => true | DecodeFailed, DecodeFailed => true | _, _ => false end.
Definition oe_eqb (a b : obs_event) : bool := kind_eqb (fst a) (fst b) && N.eqb (snd a) (snd b).
Definition oe_mem (a : obs_event) (l : list obs_event) : bool := existsb (oe_eqb a) l.
Definition subset (a b : list obs_event) : bool := forallb (fun x => oe_mem x b) a.
Fixpoint nodupb (l : list obs_event) : bool :=
  match l with [] => true | x :: t => negb (oe_mem x t) && nodupb t end.

(** What the property demands to be delivered from the observed tables. *)
Definition expected (d : durable) : list obs_event :=
  map (fun e : event => (fst e, r_id (snd e))) (events_of (spec_replay d)).

(** Replayed events of one log arrive in sequence order. *)
Fixpoint orderedb (d : durable) (l : list obs_event) : bool :=
  match l with
  | [] => true
  | x :: t =>
      forallb (fun y => match find_id (snd x) (rows d), find_id (snd y) (rows d) with
                        | Some rx, Some ry => negb (key_eqb (rkey rx) (rkey ry)) || N.ltb (r_seq rx) (r_seq ry)
                        | _, _ => false
                        end) t && orderedb d t
  end.

(** Every stored row of the topic's log is associated with the topic (insert and associate are
    one transaction), so "stored operation of the topic" and "row of a resolved log" coincide. *)
Definition assoc_complete (d : durable) : bool :=
  forallb (fun r => negb (N.eqb (r_log r) tlog) || in_assoc d r) (rows d).

Definition check_obs (o : obs) : bool :=
  subset (o_events o) (expected (o_d o)) &&
  (if o_complete o then subset (expected (o_d o)) (o_events o) else true) &&
  nodupb (o_events o) && orderedb (o_d o) (o_events o) && assoc_complete (o_d o).

(** A fact recorded by the harness in session [fst f] about row [snd f]. *)
Definition fact := (nat * row)%type.

(** Acknowledgements that were committed before a crash (explicit ack returned Ok; under the
    automatic policy: the event reached the application): at every later restart the cursor
    covers them and neither they nor an earlier operation of their log is replayed. *)
Definition check_acked (os : list obs) (f : fact) : bool :=
  forallb (fun io : nat * obs =>
             let (i, o) := io in
             if Nat.ltb (fst f) i then
               (match lookup (rkey (snd f)) (cursor (o_d o)) with Some c => N.leb (r_seq (snd f)) c | None => false end)
               && forallb (fun e => match find_id (snd e) (rows (o_d o)) with
                                    | Some r => negb (key_eqb (rkey r) (rkey (snd f)) && N.leb (r_seq r) (r_seq (snd f)))
                                    | None => false end) (o_events o)
             else true) (combine (seq 0 (List.length os)) os).

(** A publish that returned is in the store at every later restart, unless a later
    prune-flagged operation of the same log removed it. *)
Definition check_stored (os : list obs) (f : fact) : bool :=
  forallb (fun io : nat * obs =>
             let (i, o) := io in
             if Nat.ltb (fst f) i then
               has_id (r_id (snd f)) (rows (o_d o)) ||
               existsb (fun r => key_eqb (rkey r) (rkey (snd f)) && r_prune r && N.ltb (r_seq (snd f)) (r_seq r)) (rows (o_d o))
             else true) (combine (seq 0 (List.length os)) os).

(** Independent of the observed cursor (explicit policy so far): a stored decodable operation of
    the topic is replayed unless an acknowledgement of it or of a later operation of its log was
    at least attempted, or a body-less (self-acknowledged) operation sits at or above it. *)
Definition check_unacked (os : list obs) (attempted : list fact) : bool :=
  forallb (fun io : nat * obs =>
             let (i, o) := io in
             if o_complete o && o_explicit o then
               forallb (fun r =>
                          match r_body r with
                          | Body =>
                              negb (N.eqb (r_log r) tlog)
                              || existsb (fun f : fact => Nat.ltb (fst f) i && key_eqb (rkey (snd f)) (rkey r)
                                                          && N.leb (r_seq r) (r_seq (snd f))) attempted
                              || existsb (fun r' => key_eqb (rkey r') (rkey r) && N.leb (r_seq r) (r_seq r')
                                                    && match r_body r' with NoBody => true | _ => false end) (rows (o_d o))
                              || oe_mem (Processed, r_id r) (o_events o)
                          | _ => true
                          end) (rows (o_d o))
             else true) (combine (seq 0 (List.length os)) os).

Definition check (os : list obs) (acked stored attempted : list fact) : bool :=
  forallb check_obs os && forallb (check_acked os) acked && forallb (check_stored os) stored
  && check_unacked os attempted.
