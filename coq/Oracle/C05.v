(** Property oracle for C05, evaluated on the implementation's observations.

    [check ops ds observed]: whenever a prune-flagged operation at sequence number N was reported
    as ingested (inserted or already stored) for a log, every state observed from then on holds
    only entries of that log with seq >= N. *)
From Coq Require Import List Arith NArith Bool String.
From PV Require Import Lib.Show Model.Ingest Lib.IngestObs Oracle.C03.
Import ListNotations.

Definition above_mark (s : store) (m : N * N * N) : bool :=
  match m with (a, l, n) => forallb (fun r => negb (in_log a l r) || (n <=? r_seq r)%N) s end.

Fixpoint walk5 (marks : list (N * N * N)) (ds : list op) (xs : list obs) : bool :=
  match ds, xs with
  | _, [] => true
  | [], _ :: _ => false
  | o :: dt, x :: xt =>
      if is_panic (ob_res x) then true
      else
        let marks' := if o_prune o && res_ok (ob_res x) then (o_author o, o_log o, o_seq o) :: marks else marks in
        forallb (above_mark (ob_rows x)) marks' && walk5 marks' dt xt
  end.

Definition check (ops : list op) (ds : list nat) (xs : list obs) : bool :=
  let dl := pick ops ds in
  complete dl xs && walk5 [] dl xs.

Definition model_line := Oracle.C03.model_line.

(** * Concurrent cases (overlapping ingest calls, Model/IngestConc.v)

    The harness first runs the deliveries [ds] one after the other, then the calls [batch]
    concurrently on the same store, then the log-prune steps of the successful prune-flagged
    calls.  Observation: the per-delivery observations [xs], the results [cres] of the calls, the
    rows [ins] the batch inserted in commit (rowid) order, all rows before / after the prune steps. *)
From PV Require Import Model.IngestConc.
Local Open Scope string_scope.

Definition show_outcome (na nl : N) (o : outcome) : string :=
  "B=" ++ show_list show_res "," (out_res o) ++ "/ins=" ++ show_list (fun r => show_N (r_id r)) "," (out_ins o)
  ++ "/" ++ show_store na nl (out_before o) ++ "/" ++ show_store na nl (out_after o).

(** Model line: the sequential part, then the outcome of every sequential order of the batch
    (theorem [C05_concurrent_ingest_serialisable]: the implementation must show one of them). *)
Definition model_line_conc (na nl : N) (ops : list op) (ds batch : list nat) : string :=
  let dl := pick ops ds in
  show_trace na nl ops (trace [] dl) ++ " ;; "
  ++ join " || " (map (show_outcome na nl) (outcomes (run dl) (pick ops batch))).

Fixpoint marks_of (marks : list (N * N * N)) (ds : list op) (xs : list obs) : list (N * N * N) :=
  match ds, xs with
  | o :: dt, x :: xt =>
      marks_of (if o_prune o && res_ok (ob_res x) then (o_author o, o_log o, o_seq o) :: marks else marks) dt xt
  | _, _ => marks
  end.

(** No row of the same log below a prune-flagged row committed before it. *)
Fixpoint ins_ok (ins : list row) : bool :=
  match ins with
  | [] => true
  | p :: t =>
      (if r_prune p then forallb (fun r => negb (in_log (r_author p) (r_log p) r) || (r_seq p <=? r_seq r)%N) t else true)
      && ins_ok t
  end.

Definition batch_marks (batch : list op) (cres : list res) : list (N * N * N) :=
  flat_map (fun x => if o_prune (fst x) && res_ok (snd x) then [(o_author (fst x), o_log (fst x), o_seq (fst x))] else [])
           (combine batch cres).

Definition check_conc (ops : list op) (ds : list nat) (xs : list obs) (batch : list nat)
           (cres : list res) (ins before after : store) : bool :=
  let dl := pick ops ds in
  let bl := pick ops batch in
  let pre_marks := marks_of [] dl xs in
  check ops ds xs
  && Nat.eqb (List.length cres) (List.length bl)
  && negb (existsb is_panic cres)
  && forallb (above_mark before) pre_marks
  && forallb (above_mark after) (pre_marks ++ batch_marks bl cres)
  && ins_ok ins
  && subset_rows ins before.
