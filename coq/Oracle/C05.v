(** Property oracle for C05, evaluated on the implementation's observations.

    [check ops ds observed]: whenever a prune-flagged operation at sequence number N was reported
    as ingested (inserted or already stored) for a log, every state observed from then on holds
    only entries of that log with seq >= N. *)
From Coq Require Import List Arith NArith Bool String.
From PV Require Import Lib.Show Model.Ingest Lib.IngestObs Oracle.C03.
Import ListNotations.

Definition above_mark (s : store) (m : N * N * N) : bool :=
  match m with (a, l, n) => forallb (fun r => negb (in_log a l r) || (n <=? r_seq r)%N) s end.

Fixpoint walk5 (marks : list (N * N * N)) (ds : list op) (xs : list obs) : bool :=
  match ds, xs with
  | _, [] => true
  | [], _ :: _ => false
  | o :: dt, x :: xt =>
      if is_panic (ob_res x) then true
      else
        let marks' := if o_prune o && res_ok (ob_res x) then (o_author o, o_log o, o_seq o) :: marks else marks in
        forallb (above_mark (ob_rows x)) marks' && walk5 marks' dt xt
  end.

Definition check (ops : list op) (ds : list nat) (xs : list obs) : bool :=
  let dl := pick ops ds in
  complete dl xs && walk5 [] dl xs.

Definition model_line := Oracle.C03.model_line.
