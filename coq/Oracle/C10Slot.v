(** Scenario runner, canonical model line and observation oracle for the C10 "slot" scenarios:
    task 0 = transaction T with a HELPER (a second future sharing the store clone that issues
    statements of T through [store.tx(..)] without holding the permit), task 1 = the following
    transaction N (always a commit program).  Model: Model/TxSlot.v.

    Harness labels:
      [XS 0] = [LT]   [XS 1] = [LN]   [XC 0] = [LTc]   [XR 0] = [LR]   [XQ] read the committed rows
      [XH]   the helper advances: at [HIdle] one model step (lock the slot mutex, token [L]: the
             helper is parked INSIDE the critical section); at [HLocked] the statement executes
             and the guard is dropped (two model steps, token [hI]; or [hM] = TransactionMissing)
    Tokens of [XS]/[XC]/[XR]/[XQ] as in Oracle/C10.v.  A label that is not enabled is skipped. *)
From Coq Require Import List Arith NArith Bool String.
From PV Require Import Model.Tx Model.TxSlot Oracle.C10 Lib.Show.
Import ListNotations.
Local Open Scope string_scope.

Inductive xl := XS (i : nat) | XC (i : nat) | XR (i : nat) | XH | XQ.

Definition mkc (o : list N * fin) (h n : list N) : scfg :=
  {| ow := fst o; ofin := snd o; hw := h; nw := n |}.

Definition xtok (c : scfg) (s : sstate) (h : xl) : string :=
  match h with
  | XS 0 =>
      match pT s with
      | PInit => if sem s then "G" else "W"
      | PWait => "w"
      | PGranted => match sslot s with None => "B" | Some _ => "PANIC" end
      | PHold k =>
          match nth_error (ow c) k with
          | Some _ => match sslot s with Some _ => "I" | None => "!err" end
          | None =>
              match ofin c with
              | FCommit | FRollback => match sslot s with Some _ => "t" | None => "PANIC" end
              | FDrop => "D"
              | FError => "E"
              end
          end
      | PCommitting _ => "K"
      | PRollingBack _ => "R"
      | PDone _ => "-"
      end
  | XS 1 =>
      match pN s with
      | PInit => if sem s then "G" else "W"
      | PWait => "w"
      | PGranted => match sslot s with None => "B" | Some _ => "PANIC" end
      | PHold k =>
          match sslot s with
          | Some _ => match nth_error (nw c) k with Some _ => "I" | None => "t" end
          | None => "PANIC"
          end
      | PCommitting _ => "K"
      | PRollingBack _ => "R"
      | PDone _ => "-"
      end
  | XS _ => "?"
  | XC 0 => match pT s with PDone _ => "-" | _ => "c" end
  | XC _ => "?"
  | XR 0 => match rT s with RbStart => "s" | RbRolling => "r" | _ => "-" end
  | XR _ => "-"
  | XH =>
      match hP s with
      | HIdle k =>
          match nth_error (hw c) k with
          | Some _ => if negb (mtx s) && t_live s then "L" else "?"
          | None => "-"
          end
      | HLocked _ => match sslot s with Some _ => "hI" | None => "hM" end
      | HExec _ => "?"
      end
  | XQ => "q" ++ show_rows (sdb s)
  end.

Definition xtry (c : scfg) (s : sstate) (l : slabel) : sstate :=
  match sstep false c s l with Some s' => s' | None => s end.

Definition xstep (c : scfg) (s : sstate) (h : xl) : sstate :=
  match h with
  | XS 0 => xtry c s LT
  | XS 1 => xtry c s LN
  | XC 0 => xtry c s LTc
  | XR 0 => xtry c s LR
  | XH =>
      match hP s with
      | HIdle _ => xtry c s LH
      | HLocked _ => let s1 := xtry c s LH in
                     match hP s1 with HExec _ => xtry c s1 LH | _ => s1 end
      | HExec _ => xtry c s LH
      end
  | _ => s
  end.

Fixpoint xrun (c : scfg) (s : sstate) (hs : list xl) : sstate * list string :=
  match hs with
  | [] => (s, [])
  | h :: r => let '(s', ts) := xrun c (xstep c s h) r in (s', xtok c s h :: ts)
  end.

(** End of a scenario (outside the LTS): every future still running is dropped (T, then N, then
    the helper — a helper parked in the critical section unlocks without executing), then the
    detached rollback tasks run freely.  N's own rollback task is taken as one atomic step here. *)
Definition cancel_n (s : sstate) : sstate :=
  match pN s with
  | PInit | PWait => w_pN s (PDone OCancelled)
  | PGranted | PCommitting _ | PRollingBack _ => srelease (w_pN s (PDone OCancelled))
  | PHold _ => srelease (w_pN (w_slot s None) (PDone OCancelled))
  | PDone _ => s
  end.

Definition xdrain (c : scfg) (s : sstate) : sstate :=
  let s1 := xtry c s LTc in
  let s2 := cancel_n s1 in
  let s3 := w_hP (w_mtx s2 false) (HIdle (List.length (hw c))) in
  xtry c (xtry c s3 LR) LR.

Definition slot_model_line (o : list N * fin) (h n : list N) (hs : list xl) : string :=
  let c := mkc o h n in
  let '(s, ts) := xrun c sinit hs in
  let s' := xdrain c s in
  join " " ts ++ " | " ++ show_rows (sdb s') ++ " | " ++ (if sem s' then "P" else "T").

(** * Oracle on the implementation's observation.
    (1) permit ownership: the tokens of the non-helper labels replayed by [Oracle.C10.orun];
    (2) rows: the writes OBSERVED to be issued ([I] of the owner, [hI] of the helper) form the
        pending transaction; it becomes rows at [K], it is discarded where a rollback was observed
        ([R], the rollback task's [s], a drop of the future after [t]); a new transaction may only
        begin ([B]) with nothing pending; every read and the final rows must equal the rows so
        obtained — so nothing of an aborted transaction is there;
    (3) a further transaction could start and commit (probe). *)
Inductive xobs := XO (t : obs) | XoL | XoI | XoM | Xol.

Definition to_hl (h : xl) : option hl :=
  match h with
  | XS i => Some (HS i) | XC i => Some (HC i) | XR i => Some (HR i) | XQ => Some HQ | XH => None
  end.

Fixpoint own_part (hs : list xl) (ts : list xobs) : option (list hl * list obs) :=
  match hs, ts with
  | [], [] => Some ([], [])
  | h :: hr, t :: tr =>
      match own_part hr tr with
      | None => None
      | Some (a, b) =>
          match to_hl h, t with
          | Some (HQ), XO (Tq _) => Some (a, b)            (* rows are checked by (2) *)
          | Some x, XO o => Some (x :: a, o :: b)
          | None, XO Tnone | None, XoL | None, XoI | None, XoM | None, Xol => Some (a, b)
          | _, _ => None
          end
      end
  | _, _ => None
  end.

Record rst := { r_pend : list N; r_rows : list N; r_c0 : nat; r_c1 : nat; r_ch : nat; r_taken : nat -> bool }.
Definition rinit : rst := {| r_pend := []; r_rows := []; r_c0 := 0; r_c1 := 0; r_ch := 0; r_taken := fun _ => false |}.

Definition rstep (c : scfg) (r : rst) (h : xl) (t : xobs) : option rst :=
  match h, t with
  | XS 0, XO TI =>
      match nth_error (ow c) (r_c0 r) with
      | Some w => Some {| r_pend := r_pend r ++ [w]; r_rows := r_rows r; r_c0 := S (r_c0 r); r_c1 := r_c1 r; r_ch := r_ch r; r_taken := r_taken r |}
      | None => None
      end
  | XS 1, XO TI =>
      match nth_error (nw c) (r_c1 r) with
      | Some w => Some {| r_pend := r_pend r ++ [w]; r_rows := r_rows r; r_c0 := r_c0 r; r_c1 := S (r_c1 r); r_ch := r_ch r; r_taken := r_taken r |}
      | None => None
      end
  | XH, XoI =>
      match nth_error (hw c) (r_ch r) with
      | Some w => Some {| r_pend := r_pend r ++ [w]; r_rows := r_rows r; r_c0 := r_c0 r; r_c1 := r_c1 r; r_ch := S (r_ch r); r_taken := r_taken r |}
      | None => None
      end
  | XH, XoM => Some {| r_pend := r_pend r; r_rows := r_rows r; r_c0 := r_c0 r; r_c1 := r_c1 r; r_ch := S (r_ch r); r_taken := r_taken r |}
  | XS i, XO Tt => Some {| r_pend := r_pend r; r_rows := r_rows r; r_c0 := r_c0 r; r_c1 := r_c1 r; r_ch := r_ch r; r_taken := upd (r_taken r) i true |}
  | XS i, XO TK => Some {| r_pend := []; r_rows := r_rows r ++ r_pend r; r_c0 := r_c0 r; r_c1 := r_c1 r; r_ch := r_ch r; r_taken := upd (r_taken r) i false |}
  | XS i, XO TR => Some {| r_pend := []; r_rows := r_rows r; r_c0 := r_c0 r; r_c1 := r_c1 r; r_ch := r_ch r; r_taken := upd (r_taken r) i false |}
  | XR _, XO Ts => Some {| r_pend := []; r_rows := r_rows r; r_c0 := r_c0 r; r_c1 := r_c1 r; r_ch := r_ch r; r_taken := r_taken r |}
  | XC i, XO Tc =>
      if r_taken r i
      then Some {| r_pend := []; r_rows := r_rows r; r_c0 := r_c0 r; r_c1 := r_c1 r; r_ch := r_ch r; r_taken := upd (r_taken r) i false |}
      else Some r
  | XS _, XO TB => match r_pend r with [] => Some r | _ => None end
  | XQ, XO (Tq rows) => if eqb_listN rows (r_rows r) then Some r else None
  | _, XO Tbad => None
  | _, _ => Some r
  end.

Fixpoint rrun (c : scfg) (r : rst) (hs : list xl) (ts : list xobs) : option rst :=
  match hs, ts with
  | [], [] => Some r
  | h :: hr, t :: tr => match rstep c r h t with Some r' => rrun c r' hr tr | None => None end
  | _, _ => None
  end.

Definition slot_check (o : list N * fin) (h n : list N) (hs : list xl) (ts : list xobs)
           (rows : list N) (probe : bool) : bool :=
  let c := mkc o h n in
  match own_part hs ts with
  | Some (ohs, ots) =>
      match orun (mkP [o; (n, FCommit)]) oinit ohs ots, rrun c rinit hs ts with
      | Some _, Some r => eqb_listN rows (r_rows r) && probe
      | _, _ => false
      end
  | None => false
  end.
