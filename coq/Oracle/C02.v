(** Canonical rendering, model lines and property oracle for C02 (header encoding).

    Line formats (shared with harness/header/src/main.rs):
    - token:   [TSeq n] = "[n]", [TUInt n] = decimal, [TBytes b] = "x<hex>", [TBool] = "T"/"F";
               tokens separated by one space.
    - header:  "v=<n> pk=<hex> sig=<hex|-> ps=<n> ph=<hex|-> sq=<n> bl=<hex|-> ext=<e>" with
               <e> = "unit" | "u64:<n>" | "basic:<hex>:<n>:<T|F>" | "causal:<hex>:<n>:<hex,hex,..>"
               (the set [previous] in ascending order).
    Keys of the harness key pool are rendered as 32 times the pool index, the signature the
    harness made as 64 zero bytes (python cannot know them); everything else is literal. *)
From Coq Require Import List NArith Bool Arith String Ascii.
From PV Require Import Lib.Show Model.Header.
Import ListNotations.
Local Open Scope string_scope.

(** * hex *)

Definition hexdigit (n : N) : string :=
  match n with
  | 0 => "0" | 1 => "1" | 2 => "2" | 3 => "3" | 4 => "4" | 5 => "5" | 6 => "6" | 7 => "7"
  | 8 => "8" | 9 => "9" | 10 => "a" | 11 => "b" | 12 => "c" | 13 => "d" | 14 => "e" | _ => "f"
  end%N.

Definition show_byte (b : N) : string := hexdigit (N.div b 16) ++ hexdigit (N.modulo b 16).

Fixpoint show_hex (b : bytes) : string :=
  match b with [] => "" | x :: r => show_byte x ++ show_hex r end.

Definition unhexdigit (c : ascii) : N :=
  let n := N_of_ascii c in
  if (N.leb 48 n && N.leb n 57)%bool then n - 48
  else if (N.leb 97 n && N.leb n 102)%bool then n - 87
  else if (N.leb 65 n && N.leb n 70)%bool then n - 55
  else 0.

(** [hx "0aff"] = [10; 255] *)
Fixpoint hx (s : string) : bytes :=
  match s with
  | String a (String b r) => (16 * unhexdigit a + unhexdigit b)%N :: hx r
  | _ => []
  end.

(** * rendering *)

Definition show_token (t : token) : string :=
  match t with
  | TSeq n => "[" ++ show_nat n ++ "]"
  | TUInt n => show_N n
  | TBytes b => "x" ++ show_hex b
  | TBool true => "T"
  | TBool false => "F"
  end.

Definition show_tokens (ts : list token) : string := show_list show_token " " ts.

Definition show_ext (e : ext) : string :=
  match e with
  | EUnit => "unit"
  | EU64 n => "u64:" ++ show_N n
  | EBasic l t p => "basic:" ++ show_hex l ++ ":" ++ show_N t ++ ":" ++ (if p then "T" else "F")
  | ECausal l t pv => "causal:" ++ show_hex l ++ ":" ++ show_N t ++ ":" ++ show_list show_hex "," pv
  end.

Definition show_header (h : header) : string :=
  "v=" ++ show_N (h_version h) ++ " pk=" ++ show_hex (h_pk h)
  ++ " sig=" ++ show_option show_hex (h_sig h)
  ++ " ps=" ++ show_N (h_psize h) ++ " ph=" ++ show_option show_hex (h_phash h)
  ++ " sq=" ++ show_N (h_seq h) ++ " bl=" ++ show_option show_hex (h_backlink h)
  ++ " ext=" ++ show_ext (h_ext h).

(** * boolean equalities *)

Definition token_eqb (a b : token) : bool :=
  match a, b with
  | TUInt x, TUInt y => N.eqb x y
  | TBytes x, TBytes y => bytes_eqb x y
  | TBool x, TBool y => Bool.eqb x y
  | TSeq x, TSeq y => Nat.eqb x y
  | _, _ => false
  end.

Fixpoint list_eqb {A} (f : A -> A -> bool) (a b : list A) : bool :=
  match a, b with
  | [], [] => true
  | x :: a', y :: b' => f x y && list_eqb f a' b'
  | _, _ => false
  end.

Definition tokens_eqb := list_eqb token_eqb.

Definition opt_bytes_eqb (a b : option bytes) : bool :=
  match a, b with
  | None, None => true
  | Some x, Some y => bytes_eqb x y
  | _, _ => false
  end.

Definition ext_eqb (a b : ext) : bool :=
  match a, b with
  | EUnit, EUnit => true
  | EU64 x, EU64 y => N.eqb x y
  | EBasic l t p, EBasic l' t' p' => bytes_eqb l l' && N.eqb t t' && Bool.eqb p p'
  | ECausal l t pv, ECausal l' t' pv' => bytes_eqb l l' && N.eqb t t' && list_eqb bytes_eqb pv pv'
  | _, _ => false
  end.

Definition header_eqb (a b : header) : bool :=
  N.eqb (h_version a) (h_version b) && bytes_eqb (h_pk a) (h_pk b)
  && opt_bytes_eqb (h_sig a) (h_sig b)
  && N.eqb (h_psize a) (h_psize b) && opt_bytes_eqb (h_phash a) (h_phash b)
  && N.eqb (h_seq a) (h_seq b) && opt_bytes_eqb (h_backlink a) (h_backlink b)
  && ext_eqb (h_ext a) (h_ext b).

(** * evaluation instance *)

(** Which 32-byte strings are curve points is not modelled; the generated cases only use keys
    of the harness key pool (valid) or strings of the wrong length. *)
Definition any_key (b : bytes) : bool := true.

Definition decode (k : ekind) (ts : list token) : option header :=
  option_map fst (dec_header any_key k ts).

(** A header built by the harness from [h] (pool key, consistent or not, then signed): the
    value the Rust side holds has the set [previous] — canonical representative. *)
Definition norm_ext (e : ext) : ext :=
  match e with ECausal l t pv => ECausal l t (canon pv) | _ => e end.

Definition norm (h : header) : header :=
  mkHeader (h_version h) (h_pk h) (h_sig h) (h_psize h) (h_phash h) (h_seq h) (h_backlink h)
           (norm_ext (h_ext h)).

Definition roundtrips (h : header) : bool :=
  match decode (kind_of (h_ext h)) (enc_header0 h) with
  | Some h' => header_eqb h h'
  | None => false
  end.

(** Model line of an "hdr" case. *)
Definition model_hdr (h0 : header) : string :=
  let h := norm h0 in
  let rt := roundtrips h in
  show_tokens (enc_header0 h) ++ " | rt=" ++ show_bool rt ++ " ver=" ++ show_bool rt
  ++ (if rt then " nenc=1 nhash=1 nver=20" else " nenc=0 nhash=0 nver=0").

(** Model line of a "tok" case. *)
Definition model_tok (k : ekind) (ts : list token) : string :=
  match decode k ts with
  | Some h => "OK " ++ show_header h ++ " | " ++ show_tokens (enc_header0 h)
  | None => "ERR"
  end.

(** * Property oracle on the implementation's observation *)

(** "hdr" case: [h0] is the header value the case asked for, [toks] the tokens parsed from the
    bytes the implementation produced, the flags are what the implementation observed on 20
    decodes of those bytes.  For a valid header: the implementation's bytes decode (in the
    model) to exactly that value, the implementation decoded an equal header which still
    verifies, and all 20 decodes re-encode to one byte string / one hash / all verify. *)
Definition check_hdr (h0 : header) (toks : list token) (rt ver : bool) (nenc nhash nver : nat) : bool :=
  let h := norm h0 in
  if valid any_key h then
    match decode (kind_of (h_ext h)) toks with
    | Some h' => header_eqb h h'
    | None => false
    end
    && rt && ver && Nat.eqb nenc 1 && Nat.eqb nhash 1 && Nat.eqb nver 20
  else true.

(** "tok" case: whatever the implementation accepted re-encodes canonically and decodes back to
    itself. [None] = the implementation rejected the tokens. *)
Definition check_tok (k : ekind) (obs : option (header * list token)) : bool :=
  match obs with
  | None => true
  | Some (h, toks') =>
      tokens_eqb (enc_header0 h) toks'
      && match decode k toks' with Some h' => header_eqb h h' | None => false end
  end.
