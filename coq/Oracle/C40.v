(** Property oracle and canonical model line for C40 (topic sync metrics).

    [model_line evs]: what the model of the (repaired) Aggregator answers after each event:
    [running,total_sent,total_received,<returned event>] joined by [|]; a u32 overflow panic ends
    the line with [PANIC].

    [check ns evs obs panicked]: the property as a boolean function of what the IMPLEMENTATION
    reported ([obs] = (running, total_sent, total_received) after each processed event;
    [panicked] = the next event panicked).  For a history whose per-session projections are
    well formed ([wf_history ns]): after every prefix the totals equal the sum of the sessions'
    contributions ([spec_sent]/[spec_recv], each byte once), the running count equals started
    minus ended sessions (when sessions announce themselves, [ns = true]; otherwise 0), and a
    panic may only happen outside the u32 guard.  Histories that are not well formed are outside
    the property (only the correspondence with the model is compared for them). *)
From Coq Require Import List NArith Bool String.
From PV Require Import Model.SyncMetrics Lib.Show.
Import ListNotations.
Local Open Scope N_scope.

Definition show_out (o : out) : string :=
  match o with
  | ONone => "-"
  | OSyncStarted a b c d e => "S:" ++ show_list show_N "," [a; b; c; d; e]
  | OSyncEnded a b c d e f x => "E:" ++ show_list show_N "," [a; b; c; d; e; f] ++ "," ++ show_bool x
  | OOperation a b c d e f x => "O:" ++ show_list show_N "," [a; b; c; d; e; f] ++ "," ++ show_bool x
  end%string.

Definition show_obs (o : option obs) : string :=
  match o with
  | None => "PANIC"
  | Some (r, s, v, o) => (show_N r ++ "," ++ show_N s ++ "," ++ show_N v ++ "," ++ show_out o)%string
  end.

Definition model_line (evs : list (N * ev)) : string :=
  show_list show_obs "|" (fst (run true agg_new evs)).

Definition guard (ns : bool) (evs : list (N * ev)) : bool :=
  all_fit evs && (count is_start evs <? u32_max_plus_1)
  && (spec_sent ns evs <? u32_max_plus_1) && (spec_recv ns evs <? u32_max_plus_1).

Definition check_prefix (ns : bool) (evs : list (N * ev)) (k : nat) (o : N * N * N) : bool :=
  let '(r, s, v) := o in
  let pre := firstn k evs in
  N.eqb s (spec_sent ns pre) && N.eqb v (spec_recv ns pre)
  && N.eqb r (if ns then count is_start pre - count is_end pre else 0).

Definition check (ns : bool) (evs : list (N * ev)) (observed : list (N * N * N)) (panicked : bool) : bool :=
  if wf_history ns evs then
    forallb (fun p => check_prefix ns evs (fst p) (snd p)) (combine (seq 1 (List.length observed)) observed)
    && (if panicked then negb (guard ns (firstn (S (List.length observed)) evs))
        else Nat.eqb (List.length observed) (List.length evs))
  else true.
