(** Property oracle for C04, evaluated on what the real Node reported after every step
    (import / publish / prune / replay), and the canonical model line.

    [check me steps observed]: between two consecutive observed states
    - rows disappear only if the step's operation is validated, prune-flagged and was processed
      successfully, and then only rows of that operation's own (author, log) with a smaller
      sequence number; after such a step none of those is left;
    - a step whose processing failed, and any operation that is not validated, changes nothing;
    - a replay deletes only below prune-flagged rows that are themselves stored. *)
From Coq Require Import List Arith NArith Bool String.
From PV Require Import Lib.Show Model.Ingest Model.Node Lib.IngestObs.
Import ListNotations.

Record nobs := mkNobs { no_ok : bool; no_rows : store }.

Definition deleted (prev new : store) : store := filter (fun r => negb (mem_row r new)) prev.

Definition below (o : op) (r : row) : bool :=
  in_log (o_author o) (o_log o) r && (r_seq r <? o_seq o)%N.

Definition event_ok (prev : store) (o : op) (x : nobs) : bool :=
  let del := deleted prev (no_rows x) in
  (match del with
   | [] => true
   | _ => o_valid o && o_prune o && no_ok x && forallb (below o) del
   end)
  && (if no_ok x && o_prune o then negb (existsb (below o) (no_rows x)) else true)
  && (if no_ok x then true else same_rows prev (no_rows x))
  && (if o_valid o then true else negb (no_ok x)).

Definition step_ok (me : N) (prev : store) (st : nstep) (x : nobs) : bool :=
  match st with
  | NImport o => event_ok prev o x
  | NPublish l prune body id =>
      let o := forge_op me prev l prune body id in
      no_ok x && event_ok prev o x && existsb (fun r => (r_id r =? id)%N) (no_rows x)
  | NReplay l =>
      forallb (fun d => existsb (fun p => r_prune p && in_log (r_author d) (r_log d) p && (r_seq d <? r_seq p)%N
                                          && mem_row p (no_rows x)) prev)
              (deleted prev (no_rows x))
  end.

Fixpoint walk (me : N) (prev : store) (sts : list nstep) (xs : list nobs) : bool :=
  match sts, xs with
  | [], [] => true
  | st :: t, x :: xt => step_ok me prev st x && walk me (no_rows x) t xt
  | _, _ => false
  end.

Definition check (me : N) (sts : list nstep) (xs : list nobs) : bool := walk me [] sts xs.

Definition show_nstep (na nl : N) (x : bool * store) : string :=
  ((if fst x then "ok" else "fail") ++ "/" ++ show_store na nl (snd x))%string.

Definition model_line (me na nl : N) (sts : list nstep) : string :=
  join " ; " (map (show_nstep na nl) (node_trace me [] sts)).
