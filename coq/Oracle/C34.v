(** Oracle and canonical model line for C34 (message ratchet).

    The executable instance takes the chain index itself as the secret ([chain = N.succ],
    [km = id]): the key material of generation [n] *is* [n], which is exactly what the harness
    reports (the index of the sender key that the receiver's key material equals). *)
From Coq Require Import List NArith Bool String.
From PV Require Import Lib.Show Lib.NList Model.Ratchet.
Import ListNotations.
Local Open Scope N_scope.

Definition irun (b : N) (rqs : list (N * N * N)) :=
  run N N N.succ (fun s => s) (ds_at b b) rqs.

Definition show_err (e : err) : string :=
  match e with TooFuture => "F" | TooPast => "P" | Reuse => "R" | IndexOOB => "I" end.

Definition show_res (r : @res N) : string :=
  match r with
  | ROk k => "K" ++ show_N k
  | RErr e => show_err e
  | RPanic => "X"
  end.

Definition model_line (b : N) (rqs : list (N * N * N)) : string :=
  let '(y, os) := irun b rqs in
  (show_list show_res " " os ++ " | H" ++ show_N (r_gen (head y)) ++ " | "
   ++ show_list (show_option show_N) "," (past y))%string.

(** What the harness saw for one request. *)
Inductive obs := OK (i : N) | OKU | OE (e : err) | OX.

Definition err_eqb (a b : err) : bool :=
  match a, b with
  | TooFuture, TooFuture | TooPast, TooPast | IndexOOB, IndexOOB | Reuse, Reuse => true
  | _, _ => false
  end.

(** Acceptable error answers when the window parameters change between requests (the property
    only speaks about a fixed configuration; a kept key may then have been truncated away). *)
Definition lenient (c : cls) (e : err) : bool :=
  match c with
  | CErr TooFuture => err_eqb e TooFuture
  | CErr TooPast => err_eqb e TooPast
  | COk => err_eqb e IndexOOB
  | CErr Reuse => err_eqb e Reuse || err_eqb e IndexOOB
  | CErr IndexOOB => err_eqb e IndexOOB
  | CPanic => false
  end.

Definition check_one (strict : bool) (b : N) (st : N * list N) (rq : N * N * N) (o : obs)
  : bool * (N * list N) :=
  let '(g, fwd, ooo) := rq in
  let guard := (g <? U32MAX) && (ooo <? I32LIM) in
  let '(st', c) := spec_step b st rq in
  match o with
  | OK i => ((i =? g) && match c with COk => true | _ => false end, st')
  | OKU => (false, st)
  | OX => (negb guard, st)
  | OE e =>
      ((if guard then
          if strict then match c with CErr e' => err_eqb e e' | _ => false end else lenient c e
        else true), st)
  end.

Fixpoint check_all (strict : bool) (b : N) (st : N * list N) (rqs : list (N * N * N)) (os : list obs) : bool :=
  match rqs, os with
  | [], [] => true
  | rq :: r, o :: s =>
      let '(ok, st') := check_one strict b st rq o in
      ok && check_all strict b st' r s
  | _, _ => false
  end.

Definition uniform (rqs : list (N * N * N)) : bool :=
  match rqs with
  | [] => true
  | (_, f, o) :: r => forallb (fun q => (snd (fst q) =? f) && (snd q =? o)) r
  end.

(** The property on the implementation's observation: every key handed out is the sender's key
    of the requested generation, is handed out only for an unused generation inside both
    windows, and (fixed configuration, inside the u32/i32 limits) every rejection carries the
    class the window specification prescribes — in particular nothing inside the windows is
    rejected. *)
Definition check (b : N) (rqs : list (N * N * N)) (os : list obs) : bool :=
  check_all (uniform rqs) b (b, []) rqs os.
