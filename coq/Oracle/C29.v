(** C29 — canonical model line and property oracle. *)
From Coq Require Import List Arith Bool String.
From PV Require Import Model.GossipGuard Lib.Show.
Import ListNotations.

Definition memb (g : nat) (l : list nat) : bool := existsb (Nat.eqb g) l.

Local Open Scope string_scope.

Definition show_path (k : nat) : string :=
  match k with 1 => "f" | 2 => "s" | _ => "-" end.

Definition show_thread (s : st) (t : thread) : string :=
  show_path (tpath t) ++
  match tpc t with
  | PDone => ":d"
  | PHold g => (if memb g (dead s) then ":X:" else ":L:") ++ show_nat (get (ctr s) g)
  | _ => ":?"
  end.

Definition show_msg (m : msg) : string := match m with MSub _ => "S" | MUnsub _ => "U" end.

Definition show_state (s : st) : string :=
  show_list (show_thread s) " " (thr s) ++ " | " ++ show_list show_msg "," (log s) ++ " | sub=" ++
  (match sess s with Some _ => "1" | None => "0" end).

(** [fixed] = which variant of Gossip::stream the tree under test contains *)
Definition model_line (fixed : bool) (flags : list bool) (ls : list label) : string :=
  show_state (run_case fixed flags ls).

Local Close Scope string_scope.

(** * The property on the implementation's observation (after everything ran to completion)

    [kept] = for every handle still held: (publishing through it succeeds, counter seen through
    it); [all_done] = every thread reached its end; [log] = joins (true) / leaves (false) in the
    order the manager handled them; [sub] = the manager still has a session for the topic. *)
Fixpoint alt (expect_join : bool) (l : list bool) : bool :=
  match l with
  | [] => true
  | j :: r => Bool.eqb j expect_join && alt (negb expect_join) r
  end.

Definition check (kept : list (bool * nat)) (all_done : bool) (log : list bool) (sub : bool) : bool :=
  all_done
  && forallb (fun k => fst k && (1 <=? snd k)) kept     (* a kept handle is backed by a live session *)
  && alt true log                                        (* never left twice / joined twice in a row *)
  && Bool.eqb sub (negb (match kept with [] => true | _ => false end)).  (* left iff no handle remains *)

(** Runs against the real gossip manager: whether publishing through a handle succeeds is not a
    reliable sign of a live session there (a stopped session's listener keeps the channel open),
    so the oracle uses what the manager itself records: the number of GossipEvent::Left events
    and whether the topic is still registered for the own node in the address book ([sub]). *)
Definition check_real (kept : list (bool * nat)) (all_done : bool) (left : nat) (sub : bool) : bool :=
  all_done
  && forallb (fun k => 1 <=? snd k) kept
  && Bool.eqb sub (negb (match kept with [] => true | _ => false end))
  && (match kept with [] => 1 <=? left | _ => true end).
