(** Case driver, canonical model line and property oracle for C33 (only authorised actors change
    group membership).

    A case is a list of operation specs, each a list of numbers
    [author; group; depref; kind; target; level; m1; m2; ...]
      depref  0 = the replica's current heads,
              k+1 (k < 1000) = the heads after the k-th operation of the case,
              1001+m (m < 2^20) = the subset of the sorted current heads selected by the bits of [m]
                (bit j = j-th head; all heads if that selects nothing),
              2^32+1+m = exactly the operation ids [j] with bit j of [m] set (any set of earlier
                operations: antichains that are not heads, redundant or rejected dependencies)
      kind    0 create (initial members [mi = member*4 + level] follow), 1 add, 2 remove,
              3 promote, 4 demote, 5 = submit operation number [target] again
    Operation number [i] gets operation id [i].

    Per operation the harness prints [outcome;deps;pre;post0/post1/..;heads] (see
    harness/c32/src/c33.rs); [model_line] prints the same from the Gallina [process], and the
    word [OUT] from the first operation on after which the accepted history is no longer
    [conflict_free] (outside the modelled fragment, see Model/GroupProcess.v).  The operation that
    leaves the fragment is itself still validated against a conflict-free history, so its
    decision is exact: its line is [OUT;outcome;deps;pre].

    [check] is the property on the *implementation's* observations. *)
From Coq Require Import List Arith NArith Bool String.
From PV Require Import Model.GroupState Model.GroupProcess Lib.Show.
Import ListNotations.
Local Open Scope string_scope.

(** * decoding *)

Definition level_of_N (n : N) : AccessLevel :=
  match n with 0%N => Pull | 1%N => Read | 2%N => Write | _ => Manage end.

Definition nthN {A} (l : list A) (n : N) (d : A) : A := nth (N.to_nat n) l d.

Fixpoint insert_sorted (x : N) (l : list N) : list N :=
  match l with
  | [] => [x]
  | y :: r => if N.leb x y then x :: l else y :: insert_sorted x r
  end.
Definition sortN (l : list N) : list N := fold_right insert_sorted [] l.

Definition decode_action (kind target level : N) (rest : list N) : Action :=
  match kind with
  | 0%N => Create (map (fun c => (N.div c 4, level_of_N (N.modulo c 4))) rest)
  | 1%N => Add target (level_of_N level)
  | 2%N => Remove target
  | 3%N => Promote target (level_of_N level)
  | _ => Demote target (level_of_N level)
  end.

Definition dummy_op : Op := mkOp 0 0 [] 0 (Remove 0).

(** build operation number [i] from its spec, given the resolved dependencies and the
    operations built so far (for kind 5) *)
Definition build_op (i : N) (spec : list N) (deps : list N) (built : list Op) : Op :=
  let author := nthN spec 0 0%N in
  let g := nthN spec 1 0%N in
  let kind := nthN spec 3 0%N in
  let target := nthN spec 4 0%N in
  let level := nthN spec 5 0%N in
  if N.eqb kind 5 then nthN built target dummy_op
  else mkOp i author deps g (decode_action kind target level (skipn 6 spec)).

(** * printing *)

Definition ids (n : nat) : list N := map N.of_nat (seq 0 n).

Definition show_entry (id : N) (m : MemberState unit) : string :=
  show_N id ++ "." ++ show_N (member_counter m) ++ "." ++ show_N (level_N (level (access m)))
  ++ "." ++ show_N (access_counter m).

Definition show_members (nm : nat) (s : option MState) : string :=
  match s with
  | None => "-"
  | Some st =>
      join "," (flat_map (fun id => match lookup id st with Some m => [show_entry id m] | None => [] end) (ids nm))
  end.

Definition show_error (e : MembershipError) : string :=
  match e with
  | AlreadyAdded => "AlreadyAdded" | AlreadyRemoved => "AlreadyRemoved"
  | InsufficientAccess => "InsufficientAccess" | InactiveActor => "InactiveActor"
  | InactiveMember => "InactiveMember" | UnrecognisedActor => "UnrecognisedActor"
  | UnrecognisedMember => "UnrecognisedMember"
  end.

Definition show_outcome (o : Outcome) : string :=
  match o with
  | OOk => "ok" | ODup => "dup" | OErr e => "err:" ++ show_error e
  | ONoState => "other:Inner" | OPanic => "nogroup"
  end.

Definition show_nums (l : list N) : string := show_list show_N "," l.

(** * running a case on the model *)

Record DState := mkD { rep : Replica; built : list Op; snaps : list (list N); inside : bool }.

Definition current_state (y : Replica) : GroupStates :=
  match state_at y (heads y) with Some gs => gs | None => [] end.

(** the declared dependencies of operation number [i] from its [depref] *)
Definition expl_base : N := 4294967296.   (* 2^32 *)
Definition select_bits {A} (mask : N) (l : list A) : list A :=
  flat_map (fun jx => if N.testbit mask (N.of_nat (fst jx)) then [snd jx] else [])
           (combine (seq 0 (List.length l)) l).
Definition resolve_deps (depref i : N) (hs : list N) (snaps : list (list N)) : list N :=
  if N.eqb depref 0 then hs
  else if N.leb depref 1000 then nthN snaps (depref - 1) []
  else if N.leb depref expl_base then
    match select_bits (depref - 1001) hs with [] => hs | sel => sel end
  else select_bits (depref - 1 - expl_base) (ids (N.to_nat i)).

Definition step (nm ng : nat) (d : DState) (i : N) (spec : list N) : DState * string :=
  let depref := nthN spec 2 0%N in
  let deps0 := resolve_deps depref i (sortN (heads (rep d))) (snaps d) in
  let o := build_op i spec deps0 (built d) in
  let pre := match state_at (rep d) (op_deps o) with
             | Some gs => show_members nm (glookup (op_group o) gs)
             | None => "?"
             end in
  let '(y', out) := process (rep d) o in
  let cs := current_state y' in
  let hs := sortN (heads y') in
  let ins := inside d && conflict_free y' in
  let line :=
    show_outcome out ++ ";" ++ show_nums (sortN (op_deps o)) ++ ";" ++ pre ++ ";"
    ++ join "/" (map (fun g => show_members nm (glookup g cs)) (ids ng)) ++ ";" ++ show_nums hs in
  let decision := show_outcome out ++ ";" ++ show_nums (sortN (op_deps o)) ++ ";" ++ pre in
  (mkD y' (built d ++ [o]) (snaps d ++ [hs]) ins,
   if ins then line else if inside d then "OUT;" ++ decision else "OUT").

Fixpoint steps (nm ng : nat) (d : DState) (i : N) (specs : list (list N)) : list string :=
  match specs with
  | [] => []
  | s :: r => let '(d', line) := step nm ng d i s in line :: steps nm ng d' (i + 1) r
  end.

Definition model_line (nm ng : nat) (specs : list (list N)) : string :=
  join " | " (steps nm ng (mkD init [] [] true) 0 specs).

(** * the oracle on the implementation's observations *)

(** one observed step: outcome (0 ok, 1 dup, 2 rejected with a membership error, 3 panic
    (not accepted either: judged like a rejection here, "never panics" is C39's business),
    4 other error), resolved dependencies, the group's members at the dependencies ([None] =
    group absent) and the members of every group afterwards, as entry codes
    [((id*16 + member_counter)*4 + level)*16 + access_counter], and the heads. *)
Record Obs := mkObs {
  o_outcome : N;
  o_deps : list N;
  o_pre : option (list N);
  o_post : list (option (list N));
  o_heads : list N
}.

Definition e_id (c : N) : N := N.div c 1024.
Definition e_mc (c : N) : N := N.modulo (N.div c 64) 16.
Definition e_lv (c : N) : N := N.modulo (N.div c 16) 4.

Definition e_find (id : N) (l : list N) : option N := find (fun c => N.eqb (e_id c) id) l.
Definition e_active (id : N) (l : list N) : bool :=
  match e_find id l with Some c => N.odd (e_mc c) | None => false end.
Definition e_active_manager (id : N) (l : list N) : bool :=
  match e_find id l with Some c => N.odd (e_mc c) && N.eqb (e_lv c) 3 | None => false end.
Definition e_known (id : N) (l : list N) : bool :=
  match e_find id l with Some _ => true | None => false end.

(** "the author is an active manager (or removes itself) and the action is valid" in the
    observed state at the dependencies *)
Definition authorised (o : Op) (pre : option (list N)) : bool :=
  match op_action o with
  | Create _ => match pre with None => true | Some _ => false end   (* group must not exist yet *)
  | a =>
      match pre with
      | None => false
      | Some l =>
          let au := op_author o in
          match a with
          | Add m _ => e_active_manager au l && negb (e_active m l)
          | Remove m => (e_active_manager au l || (N.eqb au m && e_active au l)) && e_active m l
          | Promote m _ | Demote m _ => e_active_manager au l && e_known m l
          | Create _ => true
          end
      end
  end.

(** member [m] of group [g] was introduced by one of the accepted operations [l] *)
Definition introduces (g m : N) (o : Op) : bool :=
  N.eqb (op_group o) g &&
  match op_action o with
  | Create ini => existsb (fun ml => N.eqb (fst ml) m) ini
  | Add x _ => N.eqb x m
  | _ => false
  end.
Definition introduced (l : list Op) (g m : N) : bool := existsb (introduces g m) l.

Definition eqb_listN (a b : list N) : bool :=
  Nat.eqb (List.length a) (List.length b) && forallb (fun p => N.eqb (fst p) (snd p)) (combine a b).
Definition eqb_optl (a b : option (list N)) : bool :=
  match a, b with
  | Some x, Some y => eqb_listN x y
  | None, None => true
  | _, _ => false
  end.
Definition eqb_posts (a b : list (option (list N))) : bool :=
  Nat.eqb (List.length a) (List.length b) && forallb (fun p => eqb_optl (fst p) (snd p)) (combine a b).

Fixpoint members_introduced (accepted : list Op) (g : N) (posts : list (option (list N))) : bool :=
  match posts with
  | [] => true
  | p :: r =>
      match p with
      | None => true
      | Some l => forallb (fun c => introduced accepted g (e_id c)) l
      end && members_introduced accepted (g + 1) r
  end.

(** state of the replay: accepted operations (newest first), all built operations, previous
    observation's posts and heads *)
Fixpoint check_steps (accepted built : list Op) (prev_post : list (option (list N))) (prev_heads : list N)
         (i : N) (specs : list (list N)) (obs : list Obs) : bool :=
  match specs, obs with
  | [], [] => true
  | s :: sr, ob :: obr =>
      let o := build_op i s (o_deps ob) built in
      let ok := N.eqb (o_outcome ob) 0 in
      let accepted' := if ok then o :: accepted else accepted in
      (* outside the modelled fragment (resolver filters possible): stop judging - but the
         operation that leaves it was still validated against a conflict-free history, and its
         [pre] was read from states stored before it: its acceptance is judged *)
      if negb (conflict_free (mkReplica accepted' [])) then (if ok then authorised o (o_pre ob) else true)
      else
        (if ok then authorised o (o_pre ob)
         else eqb_posts (o_post ob) prev_post && eqb_listN (o_heads ob) prev_heads)
        && members_introduced accepted' 0 (o_post ob)
        && check_steps accepted' (built ++ [o]) (o_post ob) (o_heads ob) (i + 1) sr obr
  | _, _ => false
  end.

Definition check (ng : nat) (specs : list (list N)) (obs : list Obs) : bool :=
  check_steps [] [] (repeat None ng) [] 0 specs obs.
