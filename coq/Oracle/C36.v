(** Oracle and canonical model line for C36 (secret bundle).

    A case is a list of scripts; a script drives a stack of bundles:
    [ONew] push [init]; [OFrom l] push [from_secrets l]; [OIns s] insert into the top;
    [OExt] pop [other] and [extend] the new top with it; [ORem i] remove id [i] from the top;
    [OGen] [generate] on the top with the clock reading [NOWC] and insert the result.
    After every op the top bundle is observed: latest id and content sorted by id.
    Pool secrets have ids 1,2,... (the rank of their SHA-256 id); the j-th generated secret gets
    id [GENBASE + j] (its real id is random; the generators make sure it never ties). *)
From Coq Require Import List NArith Bool String.
From PV Require Import Lib.Show Model.SecretBundle.
Import ListNotations.
Local Open Scope N_scope.

Definition NOWC : N := 2199023255552.     (* model clock: 2^41, after every "past" and before every "future" pool timestamp *)
Definition GENBASE : N := 1000000.

Inductive op := ONew | OFrom (l : list secret) | OIns (s : secret) | OExt | ORem (i : N) | OGen.

Definition idf (l : list secret) : list secret := l.

Fixpoint insert_sorted (e : secret) (l : list secret) : list secret :=
  match l with
  | [] => [e]
  | x :: r => if sid e <=? sid x then e :: l else x :: insert_sorted e r
  end.
Definition sort_by_id (l : list secret) : list secret := fold_right insert_sorted [] l.

Definition show_id (i : N) : string :=
  if GENBASE <=? i then "g" ++ show_N (i - GENBASE) else show_N i.
Definition show_ts (t : N) : string :=
  if (NOWC <=? t) && (t <=? NOWC + 1000) then "N+" ++ show_N (t - NOWC) else show_N t.
Definition show_secret (e : secret) : string := show_id (sid e) ++ "@" ++ show_ts (sts e).
Definition show_state (y : state) : string :=
  show_option show_id (latest y) ++ "/" ++ show_list show_secret "," (sort_by_id (secrets y)).

(** One op on the stack; [None] output = the op panicked (state unchanged). *)
Definition step (stk : list state) (j : N) (o : op) : list state * N * option state :=
  match o, stk with
  | ONew, _ => (init :: stk, j, Some init)
  | OFrom l, _ => let y := from_secrets idf l in (y :: stk, j, Some y)
  | OIns s, y :: r => let y' := insert idf y s in (y' :: r, j, Some y')
  | OExt, o :: y :: r => let y' := extend idf y o in (y' :: r, j, Some y')
  | ORem i, y :: r => let y' := fst (remove idf y i) in (y' :: r, j, Some y')
  | OGen, y :: r =>
      match generate_ts y NOWC with
      | None => (stk, j, None)
      | Some t => let y' := insert idf y (GENBASE + j, t) in (y' :: r, j + 1, Some y')
      end
  | _, _ => (stk, j, None)
  end.

Fixpoint run_script (stk : list state) (j : N) (ops : list op) : list (option state) :=
  match ops with
  | [] => []
  | o :: r => let '(stk', j', out) := step stk j o in out :: run_script stk' j' r
  end.

Definition show_out (o : option state) : string :=
  match o with None => "X" | Some y => show_state y end.

Definition model_line (scripts : list (list op)) : string :=
  show_list (fun ops => show_list show_out " " (run_script [] 0 ops)) " || " scripts.

(** * Oracle on the implementation's observations *)

(** An observation of the top bundle ([None] = the op panicked). *)
Definition obs : Type := option (option N * list secret).

Definition lex_leb (a b : secret) : bool := (sts a <? sts b) || ((sts a =? sts b) && (sid a <=? sid b)).
Definition lex_ltb (a b : secret) : bool := (sts a <? sts b) || ((sts a =? sts b) && (sid a <? sid b)).

(** [latest] is the (timestamp, id)-maximum of [content]. *)
Definition is_max (lat : option N) (content : list secret) : bool :=
  match lat with
  | None => forallb (fun e => (sid e =? 0) && (sts e =? 0)) content
  | Some i => existsb (fun e => (sid e =? i) && forallb (fun e' => lex_leb e' e) content) content
  end.

Definition mem_id (i : N) (l : list secret) : bool := existsb (fun e => sid e =? i) l.

(** After [OGen]: exactly one new entry, strictly later than every previous entry, and it is the
    latest. *)
Definition gen_ok (prev : list secret) (lat : option N) (content : list secret) : bool :=
  match filter (fun e => negb (mem_id (sid e) prev)) content with
  | [e] =>
      forallb (fun p => lex_ltb p e) prev
      && match lat with Some i => i =? sid e | None => false end
      && (N.of_nat (List.length content) =? N.of_nat (List.length prev) + 1)
  | _ => false
  end.

Fixpoint check_script (prev : list (list secret)) (ops : list op) (os : list obs) : bool :=
  match ops, os with
  | [], [] => true
  | o :: r, ob :: s =>
      match ob with
      | None => false                       (* a panic is never what the property allows *)
      | Some (lat, content) =>
          is_max lat content
          && match o, prev with
             | OGen, p :: _ => gen_ok p lat content
             | _, _ => true
             end
          && check_script
               (match o, prev with
                | ONew, _ | OFrom _, _ => content :: prev
                | OExt, _ :: _ :: q => content :: q
                | _, _ :: q => content :: q
                | _, [] => [content]
                end) r s
      end
  | _, _ => false
  end.

Definition final_latest (os : list obs) : option (option N) :=
  match last os None with Some (lat, _) => Some lat | None => None end.

Definition opt_eqb (a b : option N) : bool :=
  match a, b with Some x, Some y => x =? y | None, None => true | _, _ => false end.

Definition all_same (l : list (option (option N))) : bool :=
  match l with
  | [] => true
  | Some a :: r => forallb (fun x => match x with Some b => opt_eqb a b | None => false end) r
  | None :: _ => false
  end.

(** [same] = the scripts insert/merge the same secrets (no removal, no generate): then the final
    latest must be the same in all of them. *)
Definition check (same : bool) (scripts : list (list op)) (os : list (list obs)) : bool :=
  (Nat.eqb (List.length scripts) (List.length os))
  && forallb (fun p => check_script [] (fst p) (snd p)) (combine scripts os)
  && (if same then all_same (map final_latest os) else true).
