(** Property oracles and canonical rendering for C07.

    Two kinds of cases:

    - [adv]: a cursor with initial state [init] and a sequence [xs] of [advance] calls.  The
      implementation's observation is the height of the advanced log read back after every call
      ([seen]) and the final state ([final]).  [check_adv] is true iff every read-back and every
      entry of the final state is the maximum of the initial height and all heights that log was
      advanced to so far (hence: never backwards, order independent).

    - [ack]: [Acked] instances over one store and a sequence of "instance i acks header h".  The
      observation after every call is its result and the cursor of every instance.
      [check_ack] is true iff, at every step, no entry of any cursor decreased or vanished; a
      header of another topic is answered [InvalidTopic] with all cursors unchanged; an accepted
      header moves exactly entry (author, log) of the cursors carrying the acting instance's
      name to max(old, seq_num) and nothing else.

    - [conc]: k acks in flight at once through ONE [Acked] (Model/AckConc.v), a label list
      deciding which call takes its next step.  The observation is the persisted cursor after
      the sequential initial acks, after every label and after all calls have returned, plus each
      call's result.  [check_conc] is true iff no entry of the cursor ever decreased or vanished
      along that sequence, every result is [Ok] exactly for headers of the instance's topic, and
      every entry of the final cursor is the maximum of its initial value and the accepted acks
      of that log. *)
From Coq Require Import List Arith NArith Bool String.
From PV Require Import Model.Heights Model.Cursor Model.AckConc Oracle.C06 Lib.Show.
Import ListNotations.

(** [x <= y] on optional heights; an existing entry may not vanish. *)
Definition ole (x y : option N) : bool :=
  match x, y with
  | None, _ => true
  | Some a, Some b => N.leb a b
  | Some _, None => false
  end.

Definition adv_key (x : adv) : N * N := (fst (fst x), snd (fst x)).

(** ** advance sequences *)

Fixpoint check_seen (init : heights) (done rest : list adv) (seen : list (option N)) : bool :=
  match rest, seen with
  | [], [] => true
  | x :: r, s :: ss =>
      oN_eqb s (pointwise_max init (done ++ [x]) (fst (fst x)) (snd (fst x)))
      && check_seen init (done ++ [x]) r ss
  | _, _ => false
  end.

Definition check_adv (init : heights) (xs : list adv) (seen : list (option N)) (final : heights) : bool :=
  let ks := (pairs init ++ map adv_key xs ++ pairs final)%list in
  wf_heightsb final &&
  check_seen init [] xs seen &&
  forallb (fun k => oN_eqb (lookup2 final (fst k) (snd k)) (pointwise_max init xs (fst k) (snd k))) ks.

(** ** ack sequences *)

Definition res_eqb (x y : ack_result) : bool :=
  match x, y with
  | AckOk, AckOk => true
  | AckInvalidTopic, AckInvalidTopic => true
  | _, _ => false
  end.

(** Expected entry of the cursor of instance [kj] after instance [k] handled header [h]. *)
Definition expected_entry (k kj : acked) (h : header) (prev : heights) (a l : N) : option N :=
  if topic_ok k h && N.eqb (aname kj) (aname k) && N.eqb a (hauthor h) && N.eqb l (hlog h)
  then omax (lookup2 prev a l) (Some (hseq h))
  else lookup2 prev a l.

Definition check_cursor (k kj : acked) (h : header) (prev cur : heights) : bool :=
  let ks := ((hauthor h, hlog h) :: pairs prev ++ pairs cur)%list in
  wf_heightsb cur &&
  forallb (fun q => ole (lookup2 prev (fst q) (snd q)) (lookup2 cur (fst q) (snd q))) ks &&
  forallb (fun q => oN_eqb (lookup2 cur (fst q) (snd q)) (expected_entry k kj h prev (fst q) (snd q))) ks.

Fixpoint check_cursors (k : acked) (insts : list acked) (h : header) (prev cur : list heights) : bool :=
  match insts, prev, cur with
  | [], [], [] => true
  | kj :: ir, p :: pr, c :: cr => check_cursor k kj h p c && check_cursors k ir h pr cr
  | _, _, _ => false
  end.

Fixpoint check_steps (insts : list acked) (prev : list heights) (ops : list (nat * header)) (o : list obs) : bool :=
  match ops, o with
  | [], [] => true
  | (i, h) :: r, (res, cur) :: orest =>
      match nth_error insts i with
      | None => false
      | Some k =>
          res_eqb res (if topic_ok k h then AckOk else AckInvalidTopic)
          && check_cursors k insts h prev cur
          && check_steps insts cur r orest
      end
  | _, _ => false
  end.

Definition check_ack (insts : list acked) (ops : list (nat * header)) (o : list obs) : bool :=
  check_steps insts (map (fun _ => []) insts) ops o.

(** ** rendering *)
Local Open Scope string_scope.

Definition show_heights (st : heights) : string :=
  join " " (flat_map (fun p => match snd p with
                               | [] => [show_N (fst p) ++ "/"]
                               | inner => map (fun e => show_N (fst p) ++ "/" ++ show_N (fst e) ++ "=" ++ show_N (snd e)) inner
                               end) st).

Fixpoint seen_of (c : cursor) (xs : list adv) : list (option N) :=
  match xs with
  | [] => []
  | x :: r =>
      let c1 := advance c (fst (fst x)) (snd (fst x)) (snd x) in
      log_height c1 (fst (fst x)) (snd (fst x)) :: seen_of c1 r
  end.

Definition model_line_adv (init : heights) (xs : list adv) : string :=
  let c := cursor_new 0 init in
  show_list (show_option show_N) "," (seen_of c xs) ++ " | " ++ show_heights (cstate (advance_all c xs)).

Definition show_res (r : ack_result) : string :=
  match r with AckOk => "ok" | AckInvalidTopic => "InvalidTopic" end.

Definition show_obs (o : obs) : string :=
  show_res (fst o) ++ concat "" (map (fun st => " [" ++ show_heights st ++ "]") (snd o)).

Definition model_line_ack (insts : list acked) (ops : list (nat * header)) : string :=
  join " ; " (map show_obs (run_acks insts [] ops)).

(** ** concurrent acks through one instance *)

Definition heights_leb (prev cur : heights) : bool :=
  forallb (fun q => ole (lookup2 prev (fst q) (snd q)) (lookup2 cur (fst q) (snd q))) (pairs prev).

Fixpoint chain_leb (prev : heights) (rest : list heights) : bool :=
  match rest with
  | [] => true
  | c :: r => wf_heightsb c && heights_leb prev c && chain_leb c r
  end.

Definition conc_expected (k : acked) (hs : list header) (init : heights) (a l : N) : option N :=
  fold_left (fun acc h =>
               if topic_ok k h && N.eqb a (hauthor h) && N.eqb l (hlog h) then omax acc (Some (hseq h)) else acc)
            hs (lookup2 init a l).

Definition check_conc (k : acked) (hs : list header) (init : heights) (steps : list heights)
           (res : list (option ack_result)) (final : heights) : bool :=
  let ks := (pairs init ++ map (fun h => (hauthor h, hlog h)) hs ++ pairs final)%list in
  chain_leb init (steps ++ [final]) &&
  Nat.eqb (List.length res) (List.length hs) &&
  forallb (fun hr => match snd hr with
                     | Some r => res_eqb r (if topic_ok k (fst hr) then AckOk else AckInvalidTopic)
                     | None => false
                     end) (combine hs res) &&
  forallb (fun q => oN_eqb (lookup2 final (fst q) (snd q)) (conc_expected k hs init (fst q) (snd q))) ks.

Definition pc_letter (p : pc cursor) : string :=
  match p with
  | PIdle => "I" | PWait => "W" | PHeld => "H" | PRead _ => "R" | PBegun _ => "B" | PWritten => "N"
  | PDone true => "K" | PDone false => "X"
  end.

Definition conc_letters (n : nat) (s : conc_state) : string :=
  concat "" (map (fun i => pc_letter (m_pc s i)) (seq 0 n)).

Fixpoint conc_trace (k : acked) (hs : list header) (s : conc_state) (sched : list nat) : list conc_state :=
  match sched with
  | [] => []
  | i :: r => let s1 := conc_step k hs s i in s1 :: conc_trace k hs s1 r
  end.

Definition conc_init (k : acked) (init : list header) : cstore := ack_all [] (map (pair k) init).

Definition show_cursor_of (k : acked) (s : cstore) : string :=
  "[" ++ show_heights (cstate (acked_cursor s k)) ++ "]".

Definition conc_result (p : pc cursor) : string :=
  match p with PDone true => "ok" | PDone false => "InvalidTopic" | _ => "-" end.

(** Enough labels to let every call return from any reachable state: each pass over
    [serial_sched] completes at least the call that holds the permit. *)
Definition drain_sched (n : nat) : list nat := List.concat (repeat (serial_sched n) (S n)).

(** The model's line: cursor after the initial acks; letters + cursor after every label; after
    the labels every call is run to its end (any order gives the same store:
    Proofs/AckConc.v [concurrent_acks_max]); results; final cursor. *)
Definition model_line_conc (k : acked) (init hs : list header) (sched : list nat) : string :=
  let s0 := conc_init k init in
  let n := List.length hs in
  let fin := conc_run k hs s0 (sched ++ drain_sched n) in
  join " ; " (show_cursor_of k s0 ::
              map (fun s => conc_letters n s ++ " " ++ show_cursor_of k (m_store s)) (conc_trace k hs (m_init s0) sched))
  ++ " | " ++ join " " (map (fun i => conc_result (m_pc fin i)) (seq 0 n))
  ++ " | " ++ show_cursor_of k (m_store fin).
