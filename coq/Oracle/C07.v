(** Property oracles and canonical rendering for C07.

    Two kinds of cases:

    - [adv]: a cursor with initial state [init] and a sequence [xs] of [advance] calls.  The
      implementation's observation is the height of the advanced log read back after every call
      ([seen]) and the final state ([final]).  [check_adv] is true iff every read-back and every
      entry of the final state is the maximum of the initial height and all heights that log was
      advanced to so far (hence: never backwards, order independent).

    - [ack]: [Acked] instances over one store and a sequence of "instance i acks header h".  The
      observation after every call is its result and the cursor of every instance.
      [check_ack] is true iff, at every step, no entry of any cursor decreased or vanished; a
      header of another topic is answered [InvalidTopic] with all cursors unchanged; an accepted
      header moves exactly entry (author, log) of the cursors carrying the acting instance's
      name to max(old, seq_num) and nothing else. *)
From Coq Require Import List Arith NArith Bool String.
From PV Require Import Model.Heights Model.Cursor Oracle.C06 Lib.Show.
Import ListNotations.

(** [x <= y] on optional heights; an existing entry may not vanish. *)
Definition ole (x y : option N) : bool :=
  match x, y with
  | None, _ => true
  | Some a, Some b => N.leb a b
  | Some _, None => false
  end.

Definition adv_key (x : adv) : N * N := (fst (fst x), snd (fst x)).

(** ** advance sequences *)

Fixpoint check_seen (init : heights) (done rest : list adv) (seen : list (option N)) : bool :=
  match rest, seen with
  | [], [] => true
  | x :: r, s :: ss =>
      oN_eqb s (pointwise_max init (done ++ [x]) (fst (fst x)) (snd (fst x)))
      && check_seen init (done ++ [x]) r ss
  | _, _ => false
  end.

Definition check_adv (init : heights) (xs : list adv) (seen : list (option N)) (final : heights) : bool :=
  let ks := (pairs init ++ map adv_key xs ++ pairs final)%list in
  wf_heightsb final &&
  check_seen init [] xs seen &&
  forallb (fun k => oN_eqb (lookup2 final (fst k) (snd k)) (pointwise_max init xs (fst k) (snd k))) ks.

(** ** ack sequences *)

Definition res_eqb (x y : ack_result) : bool :=
  match x, y with
  | AckOk, AckOk => true
  | AckInvalidTopic, AckInvalidTopic => true
  | _, _ => false
  end.

(** Expected entry of the cursor of instance [kj] after instance [k] handled header [h]. *)
Definition expected_entry (k kj : acked) (h : header) (prev : heights) (a l : N) : option N :=
  if topic_ok k h && N.eqb (aname kj) (aname k) && N.eqb a (hauthor h) && N.eqb l (hlog h)
  then omax (lookup2 prev a l) (Some (hseq h))
  else lookup2 prev a l.

Definition check_cursor (k kj : acked) (h : header) (prev cur : heights) : bool :=
  let ks := ((hauthor h, hlog h) :: pairs prev ++ pairs cur)%list in
  wf_heightsb cur &&
  forallb (fun q => ole (lookup2 prev (fst q) (snd q)) (lookup2 cur (fst q) (snd q))) ks &&
  forallb (fun q => oN_eqb (lookup2 cur (fst q) (snd q)) (expected_entry k kj h prev (fst q) (snd q))) ks.

Fixpoint check_cursors (k : acked) (insts : list acked) (h : header) (prev cur : list heights) : bool :=
  match insts, prev, cur with
  | [], [], [] => true
  | kj :: ir, p :: pr, c :: cr => check_cursor k kj h p c && check_cursors k ir h pr cr
  | _, _, _ => false
  end.

Fixpoint check_steps (insts : list acked) (prev : list heights) (ops : list (nat * header)) (o : list obs) : bool :=
  match ops, o with
  | [], [] => true
  | (i, h) :: r, (res, cur) :: orest =>
      match nth_error insts i with
      | None => false
      | Some k =>
          res_eqb res (if topic_ok k h then AckOk else AckInvalidTopic)
          && check_cursors k insts h prev cur
          && check_steps insts cur r orest
      end
  | _, _ => false
  end.

Definition check_ack (insts : list acked) (ops : list (nat * header)) (o : list obs) : bool :=
  check_steps insts (map (fun _ => []) insts) ops o.

(** ** rendering *)
Local Open Scope string_scope.

Definition show_heights (st : heights) : string :=
  join " " (flat_map (fun p => match snd p with
                               | [] => [show_N (fst p) ++ "/"]
                               | inner => map (fun e => show_N (fst p) ++ "/" ++ show_N (fst e) ++ "=" ++ show_N (snd e)) inner
                               end) st).

Fixpoint seen_of (c : cursor) (xs : list adv) : list (option N) :=
  match xs with
  | [] => []
  | x :: r =>
      let c1 := advance c (fst (fst x)) (snd (fst x)) (snd x) in
      log_height c1 (fst (fst x)) (snd (fst x)) :: seen_of c1 r
  end.

Definition model_line_adv (init : heights) (xs : list adv) : string :=
  let c := cursor_new 0 init in
  show_list (show_option show_N) "," (seen_of c xs) ++ " | " ++ show_heights (cstate (advance_all c xs)).

Definition show_res (r : ack_result) : string :=
  match r with AckOk => "ok" | AckInvalidTopic => "InvalidTopic" end.

Definition show_obs (o : obs) : string :=
  show_res (fst o) ++ concat "" (map (fun st => " [" ++ show_heights st ++ "]") (snd o)).

Definition model_line_ack (insts : list acked) (ops : list (nat * header)) : string :=
  join " ; " (map show_obs (run_acks insts [] ops)).
