(** Model lines and property oracle for C01 (only authentic, well-formed operations are ingested).

    The model is evaluated with the ideal free-term instance of Model/Validate.v
    ([ideal_verify], [ideal_hash], iteration order = identity).  Cases describe operations
    symbolically: keys of the harness key pool are 32 x pool index, a signature made by pool key
    [k] over header [h0] is [sig_by k h0], the hash of body [b] is [ideal_hash b]; all other byte
    strings are literal.

    Line formats (shared with harness/header/src/c01.rs):
      val case :  "val=<class> ing=<ingest class> has=<0|1> rows=<ops>+<topics>/<ops>+<topics>"
                  optionally followed by " ing2=<ingest class> rows2=<ops>+<topics>" (same
                  operation ingested a second time)
      resub case: "first=<ingest class> rows=<o>+<t>/<o>+<t> | val=<class> ing=<ingest class> has=<0|1>
                   hasorig=<0|1> rows=<o>+<t> samehash=<0|1> stored=<0|1>" (valid original ingested,
                  then a mutated copy ingested on the same store)
      byte case:  "base=<ingest class>" then either " | NODEC" or
                  " | DEC <header> body=<bytes|-> | val=.. ing=.. has=.. rows=../.. same=<0|1>"
    <class> = OK or the [OperationError] variant name; <ingest class> = NEW | DUP | variant name. *)
From Coq Require Import List NArith Bool Arith String.
From PV Require Import Lib.Show Model.Header Model.Validate Oracle.C02.
Import ListNotations.
Local Open Scope string_scope.

Definition id_order (l : list bytes) : list bytes := l.

Definition v_header := validate_header ideal_verify id_order.
Definition v_operation := validate_operation ideal_verify ideal_hash id_order.

(** signature by pool key [k] (secret key represented by the public key) over [h0] *)
Definition sig_by (k : bytes) (h0 : header) : bytes := ideal_sign k (enc_header0 (unsigned (norm h0))).

(** the operation id: hash of the header bytes, as a free term *)
Definition ideal_header_hash (h : header) : bytes := (1002%N :: ser_tokens (enc_header0 h))%list.

Definition mk_op (h : header) (body : option bytes) : operation := mkOp (ideal_header_hash h) h body.

(** Cases write the set [previous] in any order; [nop] builds the operation from the canonical
    representative ([norm], Oracle/C02.v). *)
Definition nop (h : header) (body : option bytes) : operation := mk_op (norm h) body.

(** The store every case starts from: one unrelated operation (so that "unchanged" is observed on
    a non-empty store). *)
Definition unrelated : operation := mkOp [1003%N] (mkHeader 1 [] None 0 None 0 None EUnit) None.
Definition store0 : lstore := [unrelated].

Definition ingest0 (prune : bool) (s : lstore) (op : operation) : lstore * ingest_result :=
  ingest ideal_verify ideal_hash id_order lstore lhas
         (fun _ o => fresh_log_check prune (op_header o)) linsert s op.

Definition show_err (e : op_error) : string :=
  match e with
  | UnsupportedVersion => "UnsupportedVersion" | MissingSignature => "MissingSignature"
  | SignatureMismatch => "SignatureMismatch" | SeqNumMismatch => "SeqNumMismatch"
  | InconsistentPayloadInfo => "InconsistentPayloadInfo" | MissingPayloadHash => "MissingPayloadHash"
  | PayloadMismatch => "PayloadMismatch" | TooManyAuthors => "TooManyAuthors"
  | SeqNumNonIncremental => "SeqNumNonIncremental" | BacklinkMissing => "BacklinkMissing"
  | BacklinkMismatch => "BacklinkMismatch"
  end.

Definition show_class (r : option op_error) : string :=
  match r with None => "OK" | Some e => show_err e end.

Definition show_ingest (r : ingest_result) : string :=
  match r with Inserted => "NEW" | Existed => "DUP" | Rejected e => show_err e end.

(** rows: operations + topic associations; every stored operation of these scenarios has its own
    (author, log) pair, so both counters equal the number of stored operations. *)
Definition show_rows (s : lstore) : string :=
  let n := show_nat (List.length s) in n ++ "+" ++ n.

Definition model_val (prune twice : bool) (h : header) (body : option bytes) : string :=
  let op := nop h body in
  let '(s1, r1) := ingest0 prune store0 op in
  "val=" ++ show_class (v_operation op) ++ " ing=" ++ show_ingest r1
  ++ " has=" ++ show_bool (lhas s1 (op_hash op))
  ++ " rows=" ++ show_rows store0 ++ "/" ++ show_rows s1
  ++ (if twice then
        let '(s2, r2) := ingest0 prune s1 op in
        " ing2=" ++ show_ingest r2 ++ " rows2=" ++ show_rows s2
      else "").

(** re-submission: two [ingest] steps on one store; the second operation is the mutated copy.
    [stored]: the store still holds the original under its id with the original body. *)
Definition model_resub (h0 : header) (body0 : option bytes) (h : header) (body : option bytes) : string :=
  let op0 := nop h0 body0 in
  let op := nop h body in
  let '(s1, r1) := ingest0 true store0 op0 in
  let '(s2, r2) := ingest0 true s1 op in
  "first=" ++ show_ingest r1 ++ " rows=" ++ show_rows store0 ++ "/" ++ show_rows s1
  ++ " | val=" ++ show_class (v_operation op) ++ " ing=" ++ show_ingest r2
  ++ " has=" ++ show_bool (lhas s2 (op_hash op))
  ++ " hasorig=" ++ show_bool (lhas s2 (op_hash op0))
  ++ " rows=" ++ show_rows s2
  ++ " samehash=" ++ show_bool (bytes_eqb (op_hash op) (op_hash op0))
  ++ " stored=" ++ show_bool (match find (fun o => bytes_eqb (op_hash o) (op_hash op0)) s2 with
                              | Some o => opt_bytes_eq (op_body o) body0
                              | None => false
                              end).

(** byte cases: the untampered operation is accepted *)
Definition model_base (h : header) (body : option bytes) : string :=
  "base=" ++ show_ingest (snd (ingest0 true store0 (nop h body))).

(** * The specification, as a boolean, independent of [validate_operation] *)

Definition authentic_b (h : header) : bool :=
  match h_sig h with
  | Some s => bytes_eqb s (ideal_sign (h_pk h) (enc_header0 (unsigned h)))
  | None => false
  end.

Definition body_matches_b (h : header) (body : option bytes) : bool :=
  match body with
  | None => true
  | Some b => opt_bytes_eq (h_phash h) (Some (ideal_hash b)) && N.eqb (h_psize h) (body_size b)
  end.

Definition good_b (h : header) (body : option bytes) : bool :=
  authentic_b h && N.eqb (h_version h) 1
  && Bool.eqb (is_some (h_phash h)) (negb (N.eqb (h_psize h) 0))
  && Bool.eqb (is_some (h_backlink h)) (negb (N.eqb (h_seq h) 0))
  && body_matches_b h body.

(** * Oracles on the implementation's observation *)

Inductive iclass := INew | IDup | IRej.

Definition accepted (c : iclass) : bool := match c with INew => true | _ => false end.

(** val case. [valok]: the implementation's [validate_operation] returned Ok; [ing]: what
    [ingest_operation] did on the store holding one unrelated operation; [has]: has_operation
    afterwards; rows before/after as (operations, topic associations); [ing2]/rows after the
    optional second ingest of the same operation.
    - validation accepts exactly the good operations (authentic, version 1, consistent, body
      matches);
    - ingest inserts only good operations (and then the operation is there, one row more);
    - anything else leaves the store exactly as it was and the operation absent;
    - a second ingest of an inserted operation is a no-op reported as duplicate. *)
Definition check_val (prune : bool) (h : header) (body : option bytes)
           (valok : bool) (ing : iclass) (has : bool) (ob tb oa ta : N)
           (second : option (iclass * N * N)) : bool :=
  let h := norm h in
  let g := good_b h body in
  Bool.eqb valok g
  && (if accepted ing then g && has && N.eqb oa (ob + 1) && N.eqb ta (tb + 1)
      else negb has && N.eqb oa ob && N.eqb ta tb)
  && (if g then (if negb prune && N.ltb 0 (h_seq h)
                 then match ing with IRej => true | _ => false end      (* BacklinkMissing on a fresh log *)
                 else match ing with INew => true | _ => false end)
      else match ing with IRej => true | _ => false end)
  && match second with
     | None => true
     | Some (c2, o2, t2) =>
         N.eqb o2 oa && N.eqb t2 ta
         && (if accepted ing then match c2 with IDup => true | _ => false end
             else match c2 with IRej => true | _ => false end)
     end.

(** resub case. The valid original (h0, body0) is stored first ([first_new], one row more), then
    (h, body) is submitted on the same store.
    - validation accepts exactly the good operations;
    - a submission that is not good (in particular: the original header with an attached body that
      does not match its claimed hash / size, whatever is already stored under that id) is
      REJECTED; a good one with the original header (identical, or body left out) is a duplicate;
    - unless something new was inserted the rows are unchanged; in every case the original is
      still stored under its id with its original body. *)
Definition check_resub (h0 : header) (body0 : option bytes) (h : header) (body : option bytes)
           (first_new valok : bool) (ing : iclass) (has hasorig : bool)
           (ob tb om tm oa ta : N) (samehash stored : bool) : bool :=
  let h0 := norm h0 in
  let h := norm h in
  let g := good_b h body in
  let same_header := bytes_eqb (ideal_header_hash h) (ideal_header_hash h0) in
  first_new && good_b h0 body0 && N.eqb om (ob + 1) && N.eqb tm (tb + 1)
  && Bool.eqb samehash same_header
  && Bool.eqb valok g
  && (if g then (if same_header then match ing with IDup => true | _ => false end
                 else match ing with INew => true | _ => false end)
      else match ing with IRej => true | _ => false end)
  && (if accepted ing then N.eqb oa (om + 1) && has
      else N.eqb oa om && N.eqb ta tm && Bool.eqb has same_header)
  && hasorig && stored.

(** byte case. [h0]/[b0]: the valid operation whose bytes were tampered with; [dec]: what the
    implementation decoded from the tampered bytes ([None] = the bytes did not decode, nothing
    reaches validation); [cls]: the implementation's [validate_operation] result on it;
    [same]: the decoded operation re-encodes to exactly the original header and body bytes.
    - the model's [validate_operation] gives the implementation's verdict on the decoded value;
    - accepted => the content is the original content ([same]) and it is stored;
    - rejected => store unchanged, operation absent. *)
Definition class_eqb (a b : option op_error) : bool :=
  String.eqb (show_class a) (show_class b).

Definition check_byte (base_new : bool) (dec : option (header * option bytes * option op_error))
           (ing : iclass) (has same : bool) (ob tb oa ta : N) : bool :=
  base_new
  && match dec with
     | None => true
     | Some (h0, body, cls) =>
         let h := norm h0 in
         class_eqb (v_operation (mk_op h body)) cls
         && Bool.eqb (match cls with None => true | _ => false end) (good_b h body)
         && (if accepted ing then same && has && N.eqb oa (ob + 1) && N.eqb ta (tb + 1)
             else negb has && N.eqb oa ob && N.eqb ta tb)
         && (match cls with None => accepted ing | Some _ => match ing with IRej => true | _ => false end end)
     end.
