(** Property oracle and canonical model line for C37 (two-party secure messaging).

    [check evs os]: [os] are the observations the *implementation* produced for the events
    [evs].  It is true iff
    - every in-order receive ([Recv p] with a message pending) returned exactly the plaintext of
      that message (the next one in send order of that direction),
    - every replay of an already processed message was rejected,
    - receives with nothing pending / replays of nothing produced nothing,
    as long as no out-of-order ([Future]) delivery was *accepted* before (after that the
    property's premise "processed in send order" no longer holds and nothing is demanded). *)
From Coq Require Import List NArith Bool String.
From PV Require Import Model.TwoParty Lib.Show.
Import ListNotations.

Record track := {
  t_plains : party -> list N;   (* plaintexts sent to p, in send order *)
  t_ptr : party -> nat;         (* how many of them p has processed in order *)
  t_clean : bool                (* no out-of-order delivery was accepted so far *)
}.

Definition track0 : track := {| t_plains := fun _ => []; t_ptr := fun _ => 0%nat; t_clean := true |}.

Definition check_step (t : track) (e : event) (o : obs) : track * bool :=
  match e with
  | Send p x =>
      match o with
      | OSent _ => ({| t_plains := upd (t_plains t) (other p) (t_plains t (other p) ++ [x]);
                       t_ptr := t_ptr t; t_clean := t_clean t |}, true)
      | OSendErr _ => (t, true)
      | _ => (t, false)
      end
  | Recv p =>
      match nth_error (t_plains t p) (t_ptr t p) with
      | None => (t, match o with ONone => true | _ => false end)
      | Some x =>
          match o with
          | ORecv y => ({| t_plains := t_plains t; t_ptr := upd (t_ptr t) p (S (t_ptr t p));
                           t_clean := t_clean t |}, negb (t_clean t) || N.eqb x y)
          | ORecvErr _ => (t, negb (t_clean t))
          | _ => (t, false)
          end
      end
  | Replay p i =>
      if Nat.ltb i (t_ptr t p) then
        (t, match o with
            | ORecvErr _ => true
            | ORecv _ => negb (t_clean t)
            | _ => false
            end)
      else (t, match o with ONone => true | _ => false end)
  | Future p k =>
      match nth_error (t_plains t p) (S (t_ptr t p + k)) with
      | None => (t, match o with ONone => true | _ => false end)
      | Some _ =>
          match o with
          | ORecv _ => ({| t_plains := t_plains t; t_ptr := t_ptr t; t_clean := false |}, true)
          | ORecvErr _ => (t, true)
          | _ => (t, false)
          end
      end
  end.

Fixpoint check_from (t : track) (evs : list event) (os : list obs) : bool :=
  match evs, os with
  | [], [] => true
  | e :: evs', o :: os' => let '(t', ok) := check_step t e o in ok && check_from t' evs' os'
  | _, _ => false
  end.

Definition check (evs : list event) (os : list obs) : bool := check_from track0 evs os.

(** * Canonical rendering (same format as harness/enc_b/src/c37.rs) *)
Local Open Scope string_scope.

Definition show_used (u : key_used) : string :=
  match u with PreKey => "p" | ReceivedKey => "r" | OwnKey i => "o" ++ show_N i end.

Definition show_err (e : err) : string :=
  match e with
  | EPreKeyReuse => "PreKeyReuse"
  | EUnknownSecretUsed => "UnknownSecretUsed"
  | EUnknownPreKeyUsed => "UnknownPreKeyUsed"
  | EInvalidCiphertextType => "InvalidCiphertextType"
  | EHpke => "Hpke"
  | EX3dh => "X3dh"
  end.

Definition show_obs (o : obs) : string :=
  match o with
  | OSent u => "S:" ++ show_used u
  | OSendErr e => "SE:" ++ show_err e
  | ORecv x => "R" ++ show_N x
  | ORecvErr e => "E:" ++ show_err e
  | ONone => "-"
  end.

Definition show_opt {A} (o : option A) : string := match o with Some _ => "1" | None => "0" end.

Definition show_st (s : st) (g : mgr) : string :=
  "n" ++ show_N (next_idx s) ++ " m" ++ show_N (min_idx s)
  ++ " k" ++ show_list (fun e => show_N (fst e)) "," (own_keys s)
  ++ " r" ++ show_opt (recv_key s) ++ " u" ++ show_used (next_used s)
  ++ " b" ++ show_opt (their_bundle s) ++ " v" ++ show_opt (their_vk s)
  ++ " o" ++ show_nat (List.length (mg_onetime g)).

Definition model_line (onetime sym : bool) (evs : list event) : string :=
  let '(w, os) := run (init_world onetime sym) evs in
  show_list show_obs " " os ++ " | " ++ show_st (wst w PA) (wmgr w PA)
  ++ " | " ++ show_st (wst w PB) (wmgr w PB).
