(** Oracle and model line for C20.

    [model_line]: what the model's single-side driver sends for a case (configuration, initial
    replica, scripted store changes [(k, replica from store call k on)], scripted peer messages).
    [check]: the property on the *implementation's* sink: the observed messages are a prefix of
    a word of Have . (Done | PreSync . Operation* . Done), and a complete word if the session
    returned Ok.  (Soundness: Proofs/LogSyncC20.v [gram_complete], [gram_nothing_after_done].) *)
From Coq Require Import List Arith NArith Bool String.
From PV Require Import Lib.Show Lib.LogSyncShow Model.Dedup Model.LogSync.
Import ListNotations.
Local Open Scope string_scope.

Definition gst_eqb (a b : gst) : bool :=
  match a, b with
  | G0, G0 | G1, G1 | G2, G2 | G3, G3 | GBad, GBad => true
  | _, _ => false
  end.

Definition check (observed : list msg) (returned_ok : bool) : bool :=
  negb (gst_eqb (gram observed) GBad) && (if returned_ok then gst_eqb (gram observed) G3 else true).

Definition dedup_capacity : nat := 1024.

Definition model_line (logs : list (N * list N)) (r0 : replica) (sched : list (nat * replica))
           (incoming : list msg) : string :=
  let res := drive 4000 true r0 sched (init logs dedup_capacity) 0 incoming in
  let s := fst (fst res) in
  let outs := snd (fst res) in
  show_msgs (sent outs) ++ " | " ++ show_status s outs ++ " | calls=" ++ show_nat (snd res)
  ++ " recv=" ++ show_nat (List.length (ev_ops outs)).
