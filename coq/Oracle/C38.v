(** Oracle and canonical model line for C38 (key registry). *)
From Coq Require Import List NArith Bool String.
From PV Require Import Lib.Show Model.KeyRegistry.
Import ListNotations.
Local Open Scope N_scope.

Definition op_time (o : op) : N :=
  match o with
  | AddOT t _ _ | AddLT t _ _ | GetOT t _ | GetLT t _ | RemoveExpired t
  | SetOT t _ _ | SetLT t _ _ | Count t _ => t
  end.

Definition show_out (t : N) (x : out) : string :=
  match x with
  | Accepted => "A"
  | Rejected ELifetime => "RL"
  | Rejected ESig => "RS"
  | Got None => "G-"
  | Got (Some b) => "G" ++ show_N (tag b) ++ (if valid_at t b then ":ok" else ":bad")
  | Expired => "E"
  | Cnt a b => "N" ++ show_N a ++ "/" ++ show_N b
  | Done => "D"
  end.

Definition model_line (ops : list op) : string :=
  show_list (fun p => show_out (op_time (fst p)) (snd p)) " "
            (combine ops (snd (run get_onetime init ops))).

(** What the harness saw: [OG (Some k) v] = returned the bundle with tag [k], and calling
    [verify()] on it at that moment gave [v]. *)
Inductive obs := OA | OR | OG (k : option N) (v : bool) | OE | OD | ON.

Fixpoint find_tag (pool : list bundle) (k : N) : option bundle :=
  match pool with
  | [] => None
  | b :: r => if tag b =? k then Some b else find_tag r k
  end.

(** (one-time?, member, tag) *)
Definition rec : Type := bool * N * N.
Definition rec_eqb (a b : rec) : bool :=
  Bool.eqb (fst (fst a)) (fst (fst b)) && (snd (fst a) =? snd (fst b)) && (snd a =? snd b).
Definition mem_rec (x : rec) (l : list rec) : bool := existsb (rec_eqb x) l.

(** One occurrence of [x] taken out of the multiset [l]. *)
Fixpoint remove_one (x : rec) (l : list rec) : list rec :=
  match l with
  | [] => []
  | y :: r => if rec_eqb x y then r else y :: remove_one x r
  end.
(** All records of kind [k] of member [i] dropped (the member's Vec was replaced). *)
Definition drop_member (k : bool) (i : N) (l : list rec) : list rec :=
  filter (fun r => negb (Bool.eqb (fst (fst r)) k && (snd (fst r) =? i))) l.
Definition recs_of (k : bool) (i : N) (l : list bundle) : list rec := map (fun b => (k, i, tag b)) l.

(** [acc] = multiset of the bundles put into the registry so far (accepted by [add_*] or
    installed by a restore) and not yet handed out; a one-time bundle that is handed out is
    taken out once (the same bundle registered twice may be handed out twice, not three times). *)
Fixpoint check_all (pool : list bundle) (acc : list rec) (ops : list op) (os : list obs) : bool :=
  match ops, os with
  | [], [] => true
  | o :: r, x :: s =>
      match o, x with
      | AddOT t i b, OA => valid_at t b && check_all pool ((true, i, tag b) :: acc) r s
      | AddLT t i b, OA => valid_at t b && check_all pool ((false, i, tag b) :: acc) r s
      | AddOT _ _ _, OR | AddLT _ _ _, OR => check_all pool acc r s
      | GetOT t i, OG (Some k) v =>
          match find_tag pool k with
          | Some b => valid_at t b && v && mem_rec (true, i, k) acc
          | None => false
          end && check_all pool (remove_one (true, i, k) acc) r s
      | GetLT t i, OG (Some k) v =>
          match find_tag pool k with
          | Some b => valid_at t b && v && mem_rec (false, i, k) acc
          | None => false
          end && check_all pool acc r s
      | SetOT _ i l, OD => check_all pool (recs_of true i l ++ drop_member true i acc) r s
      | SetLT _ i l, OD => check_all pool (recs_of false i l ++ drop_member false i acc) r s
      | GetOT _ _, OG None _ | GetLT _ _, OG None _ | GetLT _ _, OE | RemoveExpired _, OD
      | Count _ _, ON =>
          check_all pool acc r s
      | _, _ => false
      end
  | _, _ => false
  end.

(** The property on the implementation's observation: everything accepted was valid at that
    moment; everything returned is valid at the moment it is returned (by the model's clock
    arithmetic *and* by the implementation's own [verify()]), was put into the registry for that
    member (accepted or restored), and a one-time bundle is not handed out more often than it
    was put in. *)
Definition check (pool : list bundle) (ops : list op) (os : list obs) : bool :=
  check_all pool [] ops os.
