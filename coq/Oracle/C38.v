(** Oracle and canonical model line for C38 (key registry). *)
From Coq Require Import List NArith Bool String.
From PV Require Import Lib.Show Model.KeyRegistry.
Import ListNotations.
Local Open Scope N_scope.

Definition op_time (o : op) : N :=
  match o with AddOT t _ _ | AddLT t _ _ | GetOT t _ | GetLT t _ | RemoveExpired t => t end.

Definition show_out (t : N) (x : out) : string :=
  match x with
  | Accepted => "A"
  | Rejected ELifetime => "RL"
  | Rejected ESig => "RS"
  | Got None => "G-"
  | Got (Some b) => "G" ++ show_N (tag b) ++ (if valid_at t b then ":ok" else ":bad")
  | Expired => "E"
  | Done => "D"
  end.

Definition model_line (ops : list op) : string :=
  show_list (fun p => show_out (op_time (fst p)) (snd p)) " "
            (combine ops (snd (run get_onetime init ops))).

(** What the harness saw: [OG (Some k) v] = returned the bundle with tag [k], and calling
    [verify()] on it at that moment gave [v]. *)
Inductive obs := OA | OR | OG (k : option N) (v : bool) | OE | OD.

Fixpoint find_tag (pool : list bundle) (k : N) : option bundle :=
  match pool with
  | [] => None
  | b :: r => if tag b =? k then Some b else find_tag r k
  end.

(** (one-time?, member, tag) *)
Definition rec : Type := bool * N * N.
Definition rec_eqb (a b : rec) : bool :=
  Bool.eqb (fst (fst a)) (fst (fst b)) && (snd (fst a) =? snd (fst b)) && (snd a =? snd b).
Definition mem_rec (x : rec) (l : list rec) : bool := existsb (rec_eqb x) l.

(** [acc] = accepted so far, [ret] = one-time bundles handed out so far. *)
Fixpoint check_all (pool : list bundle) (acc ret : list rec) (ops : list op) (os : list obs) : bool :=
  match ops, os with
  | [], [] => true
  | o :: r, x :: s =>
      match o, x with
      | AddOT t i b, OA => valid_at t b && check_all pool ((true, i, tag b) :: acc) ret r s
      | AddLT t i b, OA => valid_at t b && check_all pool ((false, i, tag b) :: acc) ret r s
      | AddOT _ _ _, OR | AddLT _ _ _, OR => check_all pool acc ret r s
      | GetOT t i, OG (Some k) v =>
          match find_tag pool k with
          | Some b => valid_at t b && v && mem_rec (true, i, k) acc && negb (mem_rec (true, i, k) ret)
          | None => false
          end && check_all pool acc ((true, i, k) :: ret) r s
      | GetLT t i, OG (Some k) v =>
          match find_tag pool k with
          | Some b => valid_at t b && v && mem_rec (false, i, k) acc
          | None => false
          end && check_all pool acc ret r s
      | GetOT _ _, OG None _ | GetLT _ _, OG None _ | GetLT _ _, OE | RemoveExpired _, OD =>
          check_all pool acc ret r s
      | _, _ => false
      end
  | _, _ => false
  end.

(** The property on the implementation's observation: everything accepted was valid at that
    moment; everything returned is valid at the moment it is returned (by the model's clock
    arithmetic *and* by the implementation's own [verify()]), was accepted for that member, and
    a one-time bundle is not handed out twice. *)
Definition check (pool : list bundle) (ops : list op) (os : list obs) : bool :=
  check_all pool [] [] ops os.
