(** Property oracle for C24, evaluated on what the *implementation* answered.

    [check c xs answers final] is true iff the observed answers are exactly "duplicate iff among
    the last [c] accepted items", and the observed final content is the last [c] accepted items
    (hence at most [c] of them). *)
From Coq Require Import List Arith NArith Bool String.
From PV Require Import Model.Dedup Lib.Show.
Import ListNotations.

Definition eqb_listN (a b : list N) : bool :=
  Nat.eqb (List.length a) (List.length b) && forallb (fun p => N.eqb (fst p) (snd p)) (combine a b).
Definition eqb_listb (a b : list bool) : bool :=
  Nat.eqb (List.length a) (List.length b) && forallb (fun p => Bool.eqb (fst p) (snd p)) (combine a b).

(** The harness observes the content indirectly: it inserts fresh items one by one and records
    after how many of them each original item disappeared.  With [len] items in a buffer of
    capacity [c], the j-th oldest (0-based) must go with fresh insert number [c - len + j + 1];
    in particular everything is gone after [c] fresh inserts, which is how "never more than
    [c] items" is observed. *)
Definition evict_schedule (c len : nat) : list nat := map (fun j => c - len + j + 1) (seq 0 len).

Definition eqb_listnat (a b : list nat) : bool :=
  Nat.eqb (List.length a) (List.length b) && forallb (fun p => Nat.eqb (fst p) (snd p)) (combine a b).

Definition check (c : nat) (xs : list N) (answers : list bool) (final : list N) (evicted_at : list nat) : bool :=
  let '(acc, oks) := spec_run c [] xs in
  eqb_listb answers oks && eqb_listN final (lastn c acc) && Nat.leb (List.length final) c
  && eqb_listnat evicted_at (evict_schedule c (List.length final)).

(** Canonical model line: answers as 0/1, then the final content oldest first. *)
Definition model_line (c : nat) (xs : list N) : string :=
  let '(b, oks) := run (new c) xs in
  (show_list show_bool "" oks ++ " | " ++ show_list show_N "," (items b) ++ " | "
   ++ show_list show_nat "," (evict_schedule c (List.length (items b))))%string.
