(** Oracle and canonical rendering for C09 (operation, topic and cursor stores).

    [model_line cmds]: the row-level model's answers in the harness' format, one token per command.
    [check cmds obs]: every answer of the implementation equals the model's answer for the state
    reached by the same commands (resolve answers compared as sorted lists, duplicates visible);
    no [ERR], no [PANIC]. *)
From Coq Require Import List NArith Bool String.
From PV Require Import Lib.Show Model.Stores.
Import ListNotations.
Local Open Scope N_scope.

Inductive iobs :=
| IB (b : bool)
| IOp (o : option (N * bool))          (* operation index, has body *)
| IPairs (l : list (N * N))            (* (author, log), ascending *)
| ICur (o : option N)
| IUnit
| IErr
| IPanic
| IBad.

Definition pair_le (x y : N * N) : bool :=
  (fst x <? fst y) || ((fst x =? fst y) && (snd x <=? snd y)).

Fixpoint ins_pair (x : N * N) (l : list (N * N)) : list (N * N) :=
  match l with
  | [] => [x]
  | y :: t => if pair_le x y then x :: y :: t else y :: ins_pair x t
  end.

Definition sort_pairs (l : list (N * N)) : list (N * N) := fold_right ins_pair [] l.

Definition eqb_pair (x y : N * N) : bool := (fst x =? fst y) && (snd x =? snd y).

Fixpoint eqb_list {A} (e : A -> A -> bool) (a b : list A) : bool :=
  match a, b with
  | [], [] => true
  | x :: a', y :: b' => e x y && eqb_list e a' b'
  | _, _ => false
  end.

Definition eqb_optN (a b : option N) : bool :=
  match a, b with
  | None, None => true
  | Some x, Some y => x =? y
  | _, _ => false
  end.

Definition is_someb {A} (o : option A) : bool := match o with Some _ => true | None => false end.

Definition obs_ok (m : out) (i : iobs) : bool :=
  match m, i with
  | OB b, IB b' => Bool.eqb b b'
  | OOp None, IOp None => true
  | OOp (Some (id, hdr, body)), IOp (Some (k, hb)) => (id =? k) && (hdr =? k) && Bool.eqb (is_someb body) hb
  | OPairs l, IPairs l' => eqb_list eqb_pair (sort_pairs l) l'
  | OCur c, ICur c' => eqb_optN c c'
  | OUnit, IUnit => true
  | _, _ => false
  end.

Fixpoint all2 {A B} (f : A -> B -> bool) (a : list A) (b : list B) : bool :=
  match a, b with
  | [], [] => true
  | x :: a', y :: b' => f x y && all2 f a' b'
  | _, _ => false
  end.

Definition check (cs : list cmd) (io : list iobs) : bool :=
  all2 obs_ok (snd (run_impl empty cs)) io.

Local Open Scope string_scope.

Fixpoint show_groups (cur : option N) (l : list (N * N)) : string :=
  match l with
  | [] => ""
  | (a, x) :: t =>
      (match cur with
       | None => show_N a ++ ":" ++ show_N x
       | Some c => if (c =? a)%N then "." ++ show_N x else ";" ++ show_N a ++ ":" ++ show_N x
       end) ++ show_groups (Some a) t
  end.

Definition show_out (o : out) : string :=
  match o with
  | OB b => show_bool b
  | OOp None => "-"
  | OOp (Some (id, _, body)) => show_N id ++ "." ++ (if is_someb body then "y" else "n")
  | OPairs [] => "-"
  | OPairs l => show_groups None (sort_pairs l)
  | OCur None => "-"
  | OCur (Some v) => show_N v
  | OUnit => "u"
  end.

Definition model_line (cs : list cmd) : string :=
  show_list show_out " " (snd (run_impl empty cs)).
