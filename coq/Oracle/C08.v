(** Oracle and canonical rendering for C08.

    [model_line tab items]: what the model predicts, in the harness' format
    [h=<header sizes> | <one token per item>].  For latest-entry queries the model prints every
    admissible answer (rows with the maximal seq_num) separated by [/], rowid order first.

    [check tab items hs obs]: the property as a boolean over the *implementation's* observation:
    every answer equals the model's answer for the state reached by the same commands; a latest
    entry must be one of the admissible rows; no [ERR] the model does not predict, never [PANIC]. *)
From Coq Require Import List NArith Bool String.
From PV Require Import Lib.Show Model.LogStore.
Import ListNotations.
Local Open Scope N_scope.

(** What the harness reports per item (parsed by the python side). *)
Inductive iobs :=
| IBool (b : bool)
| INum (n : N)
| ILatest (e : option (N * N * bool))       (* id, seq, has body *)
| IHeights (h : option (list (N * N)))
| IEntries (e : option (list (N * bool))) (* id, has body *)
| ISize (sz : option (N * N))
| IErr
| IPanic
| IBad.                                     (* unparsable / flagged token *)

Definition eqb_NN (x y : N * N) : bool := (fst x =? fst y) && (snd x =? snd y).
Definition eqb_Nb (x y : N * bool) : bool := (fst x =? fst y) && Bool.eqb (snd x) (snd y).

Fixpoint eqb_list {A} (e : A -> A -> bool) (a b : list A) : bool :=
  match a, b with
  | [], [] => true
  | x :: a', y :: b' => e x y && eqb_list e a' b'
  | _, _ => false
  end.

Definition eqb_opt {A} (e : A -> A -> bool) (a b : option A) : bool :=
  match a, b with
  | None, None => true
  | Some x, Some y => e x y
  | _, _ => false
  end.

Definition entry_of (r : row) : N * bool := (r_id r, r_body r).

Definition obs_ok (m : obs) (i : iobs) : bool :=
  match m, i with
  | OBool b, IBool b' => Bool.eqb b b'
  | ONum n, INum n' => n =? n'
  | OLatest [], ILatest None => true
  | OLatest cs, ILatest (Some (id, sq, bd)) =>
      existsb (fun r => (r_id r =? id) && (r_seq r =? sq) && Bool.eqb (r_body r) bd) cs
  | OHeights h, IHeights h' => eqb_opt (eqb_list eqb_NN) h h'
  | OEntries e, IEntries e' => eqb_opt (eqb_list eqb_Nb) (option_map (map entry_of) e) e'
  | OSize z, ISize z' => eqb_opt eqb_NN z z'
  | OErr, IErr => true
  | _, _ => false
  end.

Fixpoint all2 {A B} (f : A -> B -> bool) (a : list A) (b : list B) : bool :=
  match a, b with
  | [], [] => true
  | x :: a', y :: b' => f x y && all2 f a' b'
  | _, _ => false
  end.

Definition check (tab : list opdef) (its : list item) (hs : list N) (io : list iobs) : bool :=
  eqb_list N.eqb (map header_size tab) hs && all2 obs_ok (snd (run tab [] its)) io.

(** * Rendering *)
Local Open Scope string_scope.

Definition show_latest1 (r : row) : string :=
  show_N (r_id r) ++ "." ++ show_N (r_seq r) ++ "." ++ show_bool (r_body r).

Definition show_obs (o : obs) : string :=
  match o with
  | OBool b => show_bool b
  | ONum n => show_N n
  | OLatest [] => "-"
  | OLatest cs => show_list show_latest1 "/" cs
  | OHeights None => "-"
  | OHeights (Some h) => show_list (fun p => show_N (fst p) ++ ":" ++ show_N (snd p)) "," h
  | OEntries None => "-"
  | OEntries (Some e) => show_list (fun r => show_N (r_id r) ++ "." ++ show_bool (r_body r)) "," e
  | OSize None => "-"
  | OSize (Some (c, b)) => show_N c ++ ":" ++ show_N b
  | OErr => "ERR"
  | OPanic => "PANIC"
  end.

Definition model_line (tab : list opdef) (its : list item) : string :=
  "h=" ++ show_list show_N "," (map header_size tab) ++ " | "
  ++ show_list show_obs " " (snd (run tab [] its)).
