(** Property oracle and canonical model line for C12.

    [check del observed]: every item the orderer has released (= grounded in the delivered set,
    C11) was handed out by some [next] call -- during the attempts or by the final drain -- and
    nothing else was.  Evaluated on the *implementation's* observation. *)
From Coq Require Import List Arith NArith Bool String.
From PV Require Import Model.Orderer Model.OrdererCancel Lib.Show.
Import ListNotations.

Definition check (del : list entry) (observed : list id) : bool :=
  let g := ground_iter (List.length del) del in
  forallb (fun x => memN x observed) g && forallb (fun x => memN x g) observed.

Definition class_name (p : pc) : string :=
  match p with
  | PLock => "lock" | PBegin => "begin" | PTake => "take" | PCommit _ _ => "commit0"
  | PCommitted _ => "commit1" | PGetOp _ => "getop" | PNotified => "notified" | PDone _ => "done"
  end.

Definition show_attempt (p : pc) : string :=
  (class_name p ++ "=" ++ match p with PDone (ROk x) => show_N x | _ => "-" end)%string.

(** [nodes]: ids with an operation in the operation store; [ss]: deliveries and attempts.
    Line: one token per attempt ([<where it was dropped or done>=<returned id or ->]), then what
    the final drain (fresh [next] calls awaited to completion) hands out. *)
Definition model_line (nodes : list id) (ss : list sstep) : string :=
  let '(w, ps) := srun (S (List.length ss)) (mkW empty nodes []) ss in
  let wd := wdrain (S (List.length (ready_tbl (st w)))) w in
  (show_list show_attempt " " ps ++ " | [" ++ show_list show_N "," (skipn (List.length (ret w)) (ret wd)) ++ "]")%string.
