(** Property oracle and canonical model lines for C16 (evaluated on the symbolic instance
    [Model.Ephemeral.Sym]: keys are scenario indices, a signature is the pair (key, fields)).

    Case kinds:
    - [forge]: scenario key [signer] signs fields [f1] (optionally the signature is then
      damaged, [sigmut]); the message arrives with fields [f2].  Oracle: whatever the
      subscription yields must be authentic — it reports [f2]'s author, time and body, and
      [f2] is exactly what its author signed ([f1 = f2], [signer] = author, version 1,
      signature intact).  Yielding nothing always satisfies the oracle (the model line, by
      correspondence, additionally pins *that* honest messages are yielded).
    - [bytes]: an honest message tampered with at byte level: anything yielded must still be
      the honest content.
    - [pub]: a publisher under a clock script: timestamps of successive publishes strictly
      increase (starting above the creation time), the published byte strings are pairwise
      distinct, every published message is yielded back unchanged by a subscription.
    - [seq]: a SEQUENCE of forge-style messages delivered in order to ONE subscription, either
      drained after every message ([step]: one group of yields per message) or after the last
      one ([bulk]: one flat list).  Oracle: every yielded item must be authentic — [step]: the
      group of message i holds at most one item and it passes [check_forge] of message i;
      [bulk]: the yielded list is a subsequence of the authentic messages of the sequence.
      The model line is [Sym.sub_run]: exactly the authentic ones, in order, exact duplicates
      of an authentic message again. *)
From Coq Require Import List NArith Bool String.
From PV Require Import Model.Timestamp Model.Ephemeral Oracle.C18 Lib.Show.
Import ListNotations.
Local Open Scope N_scope.

Definition obs : Type := (N * N * N)%type.   (* key index, wall-clock time, body *)

Definition obs_matches (f : fields N) (y : obs) : bool :=
  let '(p, t, b) := y in (p =? author f) && (t =? time f) && (b =? body f).

Definition check_forge (signer : N) (f1 f2 : fields N) (sigmut : bool) (y : option obs) : bool :=
  match y with
  | None => true
  | Some o =>
      negb sigmut && (ver f2 =? MESSAGE_VERSION) && Sym.fields_eqb f1 f2
      && (signer =? author f2) && obs_matches f2 o
  end.

Definition check_bytes (f : fields N) (y : option obs) : bool :=
  match y with
  | None => true
  | Some o => (ver f =? MESSAGE_VERSION) && obs_matches f o
  end.

Definition eqb_listN (a b : list N) : bool :=
  Nat.eqb (List.length a) (List.length b) && forallb (fun p => N.eqb (fst p) (snd p)) (combine a b).

(** [outs]: per publish (timestamp, body, yielded back unchanged). *)
Definition check_pub (t0 : N) (script : list (N * N)) (outs : list (hts * N * bool))
           (uniq complete : bool) : bool :=
  complete && uniq
  && check_seq (hnow t0) (map fst script) (map (fun o => fst (fst o)) outs) false
  && eqb_listN (map (fun o => snd (fst o)) outs) (map snd script)
  && forallb (fun o => snd o) outs.

(** [remix]: a really published message with one field changed ([field] 0 = none, 1 = version,
    2 = author, 3 = time, 4 = logical, 5 = body) under the original signature: nothing may be
    yielded unless nothing was changed, in which case the authentic content is expected back
    (that second half is what makes the case meaningful). *)
Definition remix_fields (field : N) (f : fields N) : fields N :=
  match field with
  | 1 => {| ver := ver f + 1; author := author f; time := time f; logical := logical f; body := body f |}
  | 2 => {| ver := ver f; author := (author f + 1) mod 6; time := time f; logical := logical f; body := body f |}
  | 3 => {| ver := ver f; author := author f; time := time f + 1; logical := logical f; body := body f |}
  | 4 => {| ver := ver f; author := author f; time := time f; logical := logical f + 1; body := body f |}
  | 5 => {| ver := ver f; author := author f; time := time f; logical := logical f; body := body f * 256 + 120 |}
  | _ => f
  end.

Definition check_remix (field : N) (y : option obs) : bool :=
  match y with
  | None => true
  | Some _ => field =? 0
  end.

(** Canonical lines *)
Local Open Scope string_scope.

Definition show_yield (y : option (wrapped N Sym.sigT)) : string :=
  match y with
  | None => "-"
  | Some m => "Y" ++ show_N (author (wf m)) ++ ":" ++ show_N (time (wf m)) ++ ":" ++ show_N (body (wf m))
  end.

Definition model_line_forge (signer : N) (f1 f2 : fields N) (sigmut : bool) : string :=
  let s := if sigmut then Sym.Junk else Sym.sign signer (Sym.enc f1) in
  show_yield (Sym.accept (Decoded {| wf := f2; wsig := s |})).

(** [tampered]: one byte changed or the message cut short (see Model/Ephemeral.v header);
    otherwise untouched or a carrier-only edit (trailing bytes, over-long / indefinite array
    header), which decodes to the same tuple. *)
Definition model_line_bytes (pk t l b : N) (tampered : bool) : string :=
  show_yield (Sym.accept (if tampered then Undecodable else Decoded (Sym.new_message pk (t, l) b))).

(** The message the publisher (created at [t0]) sends at clock [now], remixed.  Time and
    logical are u64 on the wire, so the harness' +1 wraps; the generator stays below that. *)
Definition model_line_remix (pk t0 now b field : N) : string :=
  match Sym.pub_run pk (hnow t0) [(now, b)] with
  | ([w], _) => show_yield (Sym.accept (Decoded {| wf := remix_fields field (wf w); wsig := wsig w |}))
  | _ => "PANIC"
  end.

Definition wrapped_eqb (a b : wrapped N Sym.sigT) : bool :=
  Sym.fields_eqb (wf a) (wf b) &&
  match wsig a, wsig b with
  | Sym.Sg k m, Sym.Sg k' m' => (k =? k')%N && Sym.fields_eqb m m'
  | Sym.Junk, Sym.Junk => true
  | _, _ => false
  end.

Fixpoint nodupb (l : list (wrapped N Sym.sigT)) : bool :=
  match l with
  | [] => true
  | x :: r => negb (existsb (wrapped_eqb x) r) && nodupb r
  end.

Definition model_line_pub (pk t0 : N) (script : list (N * N)) : string :=
  let '(ms, ok) := Sym.pub_run pk (hnow t0) script in
  let one w :=
    show_hts (msg_ts N Sym.sigT w) ++ ":" ++ show_N (body (wf w)) ++ ":" ++
    (match Sym.accept (Decoded w) with Some m => show_bool (wrapped_eqb m w) | None => "0" end) in
  with_panic (map one ms) ok ++ " uniq=" ++ show_bool (nodupb ms).

(** ** [seq]: sequences on one subscription *)
Local Open Scope N_scope.

Definition seq_spec : Type := (N * fields N * fields N * bool)%type.   (* signer, f1, f2, sigmut *)

Definition spec_incoming (s : seq_spec) : incoming N Sym.sigT :=
  let '(signer, f1, f2, sigmut) := s in
  Decoded {| wf := f2; wsig := if sigmut then Sym.Junk else Sym.sign signer (Sym.enc f1) |}.

(** The acceptance predicate of [check_forge], without an observation. *)
Definition spec_authentic (s : seq_spec) : bool :=
  let '(signer, f1, f2, sigmut) := s in
  negb sigmut && (ver f2 =? MESSAGE_VERSION) && Sym.fields_eqb f1 f2 && (signer =? author f2).

Definition spec_obs (s : seq_spec) : obs :=
  let '(_, _, f2, _) := s in (author f2, time f2, body f2).

Definition obs_eqb (a b : obs) : bool :=
  let '(p, t, x) := a in let '(p', t', x') := b in (p =? p') && (t =? t') && (x =? x').

Fixpoint check_step (specs : list seq_spec) (ys : list (list obs)) : bool :=
  match specs, ys with
  | [], [] => true
  | (signer, f1, f2, sigmut) :: specs', g :: ys' =>
      match g with
      | [] => true
      | [o] => check_forge signer f1 f2 sigmut (Some o)
      | _ => false
      end && check_step specs' ys'
  | _, _ => false
  end.

Fixpoint subseq_obs (auth ys : list obs) {struct auth} : bool :=
  match ys with
  | [] => true
  | y :: ys' =>
      match auth with
      | [] => false
      | a :: auth' => if obs_eqb y a then subseq_obs auth' ys' else subseq_obs auth' ys
      end
  end.

Definition check_bulk (specs : list seq_spec) (ys : list obs) : bool :=
  subseq_obs (map spec_obs (filter spec_authentic specs)) ys.

Local Open Scope string_scope.

Definition show_msg (m : wrapped N Sym.sigT) : string :=
  "Y" ++ show_N (author (wf m)) ++ ":" ++ show_N (time (wf m)) ++ ":" ++ show_N (body (wf m)).

Definition show_group (l : list (wrapped N Sym.sigT)) : string :=
  match l with [] => "-" | _ => join "," (map show_msg l) end.

(** [step]: the subscription is drained after every message: one group per message. *)
Definition model_line_seq (step : bool) (specs : list seq_spec) : string :=
  if step then join " " (map (fun s => show_group (Sym.sub_run [spec_incoming s])) specs)
  else show_group (Sym.sub_run (map spec_incoming specs)).

(** [rseq]: a really published message O and its remixed copy R (as [remix]) on one
    subscription; [place] 0 = O R, 1 = O O R, 2 = R O, 3 = O R O R ([true] = O). *)
Definition rseq_order (place : N) : list bool :=
  match place with
  | 0%N => [true; false]
  | 1%N => [true; true; false]
  | 2%N => [false; true]
  | _ => [true; false; true; false]
  end.

Definition model_line_rseq (pk t0 now b field place : N) : string :=
  match Sym.pub_run pk (hnow t0) [(now, b)] with
  | ([w], _) =>
      let r := {| wf := remix_fields field (wf w); wsig := wsig w |} in
      show_group (Sym.sub_run (map (fun o : bool => Decoded (if o then w else r)) (rseq_order place)))
  | _ => "PANIC"
  end.

(** Everything yielded is the published content, and no more often than it was delivered
    (the copy counts only when nothing was changed). *)
Definition check_rseq (pk t0 now b field place : N) (ys : list obs) : bool :=
  match Sym.pub_run pk (hnow t0) [(now, b)] with
  | ([w], _) =>
      let o := (author (wf w), time (wf w), body (wf w)) in
      let nmax := List.length (filter (fun x : bool => x || (field =? 0)%N) (rseq_order place)) in
      forallb (fun y => obs_eqb y o) ys && Nat.leb (List.length ys) nmax
  | _ => false
  end.
