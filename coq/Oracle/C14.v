(** Canonical model line and property oracle for C14 (task tracker / pipeline submissions).

    [model_line ids picks]: where every submitter's [Pipeline::process] is parked before the
    first pick ([Kt]: at the entry of [TaskTracker::track], nothing done yet — the model's [S0]),
    then the program counters the model of the REPAIRED code predicts for the explicit picks,
    then for the drain rounds, then [OK] (every submitter returned) or [DEADLOCK]; the harness
    prints the same from the schedule points the REAL [Pipeline::process] future stops at, so the
    line shows the order in which the real code tracks and sends:
      Kt parked before track (S0)
      T tracked, parked in send (S1)   Q event sent, parked at the entry of Task::ready (S2)
      E Notified created + enabled (S3r)
      C checked, no result yet (S4)   W woken (S5)   D<r> returned result r
      P1 event received   P2 entry removed (lock held)   P3 result set   P0 notified, unlocked
      -  the picked actor cannot move.

    [check ids results]: the property on what the IMPLEMENTATION's submitters returned
    ([None] = never returned): every submitter returned, and returned the result of an event
    with its own id.

    [stress_line]/[check_stress]: the stress run through the real [Pipeline::process]: all [k]
    submissions return their own operation (what the theorems predict).  [count_line tag k] /
    [check_count]: the same shape for the other whole-run scenarios — [PAUSED] (real pipeline
    thread, the hand-polled submitters pause at every schedule point) and [MT] ([k] waiters of one
    task on [k] OS threads with a slow [Clone] of the result, i.e. contention on the result
    mutex; predicted by [C14_contended_readers_return]). *)
From Coq Require Import List Arith NArith Bool String.
From PV Require Import Model.Tasks Lib.Show.
Import ListNotations.

Definition show_spc (p : spc) : string :=
  match p with
  | S0 => "Kt" | S1 _ => "T" | S2 _ => "Q" | S3 _ => "c" | S3r _ _ => "E" | S4 _ _ => "C" | S5 _ => "W"
  | SDone r => "D" ++ show_nat r
  end%string.
Definition show_ppc (p : ppc) : string :=
  match p with P0 => "P0" | P1 _ _ => "P1" | P2 _ _ => "P2" | P3 _ => "P3" end%string.
Definition show_tok (t : tok) : string :=
  match t with TBlocked => "-" | TSub p => show_spc p | TPipe p => show_ppc p end%string.

(** Before the first pick every submitter is at [S0]: parked in front of [track]. *)
Definition show_parked (ids : list nat) : string :=
  show_list (fun i => show_spc (subs init i)) " " (seq 0 (List.length ids)).

Definition model_line (ids : list nat) (picks : list nat) : string :=
  let '(s, ts, ds) := run_schedule true ids picks in
  (show_parked ids ++ " / " ++ show_list show_tok " " ts ++ " / " ++ show_list show_tok " " ds ++ " / "
   ++ (if all_doneb ids s then "OK" else "DEADLOCK"))%string.

(** The same for the order before the repair (used only to document the regression witness). *)
Definition model_line_asis (ids : list nat) (picks : list nat) : string :=
  let '(s, ts, ds) := run_schedule false ids picks in
  (show_list show_tok " " ts ++ " / " ++ show_list show_tok " " ds ++ " / "
   ++ (if all_doneb ids s then "OK" else "DEADLOCK"))%string.

Definition own (ids : list nat) (i : nat) (o : option nat) : bool :=
  match o with
  | Some r => Nat.ltb r (List.length ids) && Nat.eqb (idof ids r) (idof ids i)
  | None => false
  end.

Definition check (ids : list nat) (results : list (option nat)) : bool :=
  Nat.eqb (List.length results) (List.length ids)
  && forallb (fun p => own ids (fst p) (snd p)) (combine (seq 0 (List.length results)) results).

Definition stress_line (k : N) : string := ("STRESS returned=" ++ show_N k ++ " own=" ++ show_N k)%string.
Definition check_stress (k returned owned : N) : bool := N.eqb returned k && N.eqb owned k.

Definition count_line (tag : string) (k : N) : string :=
  (tag ++ " returned=" ++ show_N k ++ " own=" ++ show_N k)%string.
Definition check_count (k returned owned : N) : bool := N.eqb returned k && N.eqb owned k.
