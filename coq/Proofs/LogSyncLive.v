(** Progress of the joint system: no reachable state is a deadlock, provided the transport is
    unbounded, or is [futures::mpsc::channel(c)] with [c >= 1] and at least one side's sync-phase
    messages (operations + Done) fit into [c]; and every run is finite.  (C19 termination, C21
    outside the known finding.) *)
From Coq Require Import List Arith NArith Bool Lia.
From PV Require Import Model.Dedup Model.LogSync Proofs.LogSyncC20 Proofs.LogSyncScript Proofs.LogSyncNode
  Proofs.LogSyncJoint.
Import ListNotations.

(** ** How many messages a side has emitted, by phase (any store) *)
Definition einv (s : st) (ms : list msg) : Prop :=
  match ph s with
  | PStart _ | PSendHave _ _ => length ms = 0
  | PReceiveHave _ | PSendPreSync _ _ _ _ => length ms = 1
  | PReceivePreSyncOrDone _ _ _ => length ms = 2
  | PSync _ _ | PEnd => 2 <= length ms
  | PFailed => True
  end.

Lemma tick_einv r s ms : einv s ms -> einv (fst (tick true r s)) (ms ++ sent (snd (tick true r s))).
Proof.
  unfold einv, tick. destruct s as [p dr ds d]. cbn [ph done_sent done_recv dd].
  destruct p as [logs|todo acc|local|needs todo ops bytes|needs ops bytes|rest cur| |]; intros H;
    try (cbn; rewrite ?app_nil_r; exact H).
  - destruct todo; cbn; rewrite ?app_nil_r, ?app_length; cbn; lia.
  - destruct todo; [destruct (N.ltb 0 bytes)|]; cbn; rewrite ?app_nil_r, ?app_length; cbn; lia.
  - destruct cur as [[a lrs]|].
    + destruct lrs as [|lr more].
      * destruct rest; cbn; rewrite app_length; cbn; lia.
      * cbn [fst snd ph]. rewrite app_length. lia.
    + destruct (arm_on true _ rest); [destruct rest; cbn; rewrite ?app_nil_r; exact H|].
      destruct (_ && _); cbn; rewrite ?app_nil_r; exact H.
Qed.

Lemma recv_sends_nothing s m : sent (snd (recv s m)) = [].
Proof.
  unfold recv. destruct (ph s); try reflexivity.
  - destruct m; reflexivity.
  - destruct m; reflexivity.
  - destruct cur; [reflexivity|]. destruct (done_recv s); [reflexivity|].
    destruct m; try reflexivity. destruct (snd (insert _ _)); reflexivity.
Qed.

Lemma recv_einv s m ms : einv s ms -> einv (fst (recv s m)) ms.
Proof.
  unfold einv, recv. destruct s as [p dr ds d]. cbn [ph done_sent done_recv dd].
  destruct p as [logs|todo acc|local|needs todo ops bytes|needs ops bytes|rest cur| |]; intros H;
    try (cbn; exact H).
  - destruct m; cbn; auto.
  - destruct m; cbn; auto; lia.
  - destruct cur as [[a lrs]|]; [cbn; exact H|]. destruct dr; [cbn; exact H|]. destruct m; cbn; auto.
Qed.

Lemma tick_to_end_silent r s : ph (fst (tick true r s)) = PEnd -> ph s <> PEnd -> sent (snd (tick true r s)) = [].
Proof.
  unfold tick. destruct s as [p dr ds d]. cbn [ph done_sent done_recv dd].
  destruct p as [logs|todo acc|local|needs todo ops bytes|needs ops bytes|rest cur| |]; try (cbn; congruence).
  - destruct todo; cbn; congruence.
  - destruct todo; [destruct (N.ltb 0 bytes)|]; cbn; congruence.
  - destruct cur as [[a lrs]|].
    + destruct lrs; [destruct rest|]; cbn; congruence.
    + destruct (arm_on true _ rest); [destruct rest; cbn; congruence|].
      destruct (_ && _); cbn; congruence.
Qed.

Lemma recv_not_to_end s m : ph s <> PEnd -> ph (fst (recv s m)) <> PEnd.
Proof.
  unfold recv. destruct s as [p dr ds d]. cbn [ph done_sent done_recv dd].
  destruct p as [logs|todo acc|local|needs todo ops bytes|needs ops bytes|rest cur| |]; try (cbn; congruence).
  - destruct m; cbn; congruence.
  - destruct m; cbn; congruence.
  - destruct cur; [cbn; congruence|]. destruct dr; [cbn; congruence|]. destruct m; cbn; congruence.
Qed.

(** A node's local bookkeeping: emitted count by phase, and nothing pending at the end. *)
Definition binv (n : node) : Prop :=
  einv (n_st n) (sent (n_hist n)) /\
  (ph (n_st n) = PEnd -> n_pend n = [] /\ n_parked n = false).

Section Live.
  Variables rA rB : replica.
  Variables logsA logsB : list (N * list N).
  Variable cbuf : option nat.

  Notation scA := (scA rA rB logsA logsB).
  Notation scB := (scB rA rB logsA logsB).
  Notation J := (J rA rB logsA logsB cbuf).

  Definition B2 (y : sys) : Prop := binv (sa y) /\ binv (sb y).

  Lemma binv_tick r n n' : binv n -> node_tick true r n = Some n' -> binv n'.
  Proof.
    intros [E P] T. unfold node_tick in T.
    destruct (n_pend n) eqn:Pe; [|discriminate]. destruct (n_parked n) eqn:Pa; [discriminate|].
    destruct (tick_enabled true (n_st n)) eqn:En; [|discriminate]. injection T as <-.
    unfold binv. cbn [n_st n_pend n_parked n_hist]. rewrite sent_app. split; [apply tick_einv; exact E|].
    intros PE. split; [|reflexivity]. apply tick_to_end_silent; [exact PE|].
    intros Q. unfold tick_enabled in En. rewrite Q in En. discriminate.
  Qed.

  Lemma binv_recv n q n' q' : binv n -> node_recv n q = Some (n', q') -> binv n'.
  Proof.
    intros [E P] T. unfold node_recv in T.
    destruct (n_pend n) eqn:Pe; [|discriminate]. destruct (n_parked n) eqn:Pa; [discriminate|].
    destruct q as [|m q0]; [discriminate|].
    destruct (can_recv (n_st n)) eqn:En; [|discriminate]. injection T as <- <-.
    unfold binv. cbn [n_st n_pend n_parked n_hist]. rewrite sent_app, recv_sends_nothing, app_nil_r.
    split; [apply recv_einv; exact E|]. intros PE. exfalso. revert PE. apply recv_not_to_end.
    intros Q. unfold can_recv in En. rewrite Q in En. discriminate.
  Qed.

  Lemma binv_push n q n' q' : binv n -> node_push cbuf n q = Some (n', q') -> binv n'.
  Proof.
    intros [E P] T. unfold node_push in T.
    destruct (n_pend n) as [|m p] eqn:Pe; [discriminate|]. destruct (n_parked n); [discriminate|].
    injection T as <- <-. unfold binv. cbn [n_st n_pend n_parked n_hist]. split; [exact E|].
    intros PE. destruct (P PE) as [Z _]. discriminate.
  Qed.

  Lemma binv_unpark n : binv n -> binv (unpark n).
  Proof.
    intros [E P]. unfold binv, unpark. cbn [n_st n_pend n_parked n_hist]. split; [exact E|].
    intros PE. destruct (P PE) as [Z _]. auto.
  Qed.

  Lemma B2_step y l y' : B2 y -> sys_step true cbuf rA rB y l = Some y' -> B2 y'.
  Proof.
    intros [BA BB] St. destruct l; cbn [sys_step] in St.
    - destruct (node_tick true rA (sa y)) as [n'|] eqn:T; [|discriminate]. injection St as <-.
      split; [exact (binv_tick _ _ _ BA T)|exact BB].
    - destruct (node_tick true rB (sb y)) as [n'|] eqn:T; [|discriminate]. injection St as <-.
      split; [exact BA|exact (binv_tick _ _ _ BB T)].
    - destruct (node_push cbuf (sa y) (qab y)) as [[n' q']|] eqn:T; [|discriminate]. injection St as <-.
      split; [exact (binv_push _ _ _ _ BA T)|exact BB].
    - destruct (node_push cbuf (sb y) (qba y)) as [[n' q']|] eqn:T; [|discriminate]. injection St as <-.
      split; [exact BA|exact (binv_push _ _ _ _ BB T)].
    - destruct (node_recv (sa y) (qba y)) as [[n' q']|] eqn:T; [|discriminate]. injection St as <-.
      split; [exact (binv_recv _ _ _ _ BA T)|apply binv_unpark; exact BB].
    - destruct (node_recv (sb y) (qab y)) as [[n' q']|] eqn:T; [|discriminate]. injection St as <-.
      split; [apply binv_unpark; exact BA|exact (binv_recv _ _ _ _ BB T)].
  Qed.

  Lemma B2_init cap : B2 (sys0 logsA logsB cap).
  Proof. split; (split; [reflexivity|discriminate]). Qed.

  Lemma B2_exec ls : forall y y', B2 y -> exec true cbuf rA rB y ls = Some y' -> B2 y'.
  Proof.
    induction ls as [|l ls IH]; intros y y' By E; cbn [exec] in E.
    - injection E as <-. exact By.
    - destruct (sys_step true cbuf rA rB y l) as [y1|] eqn:S; [|discriminate].
      apply (IH y1 y' (B2_step y l y1 By S) E).
  Qed.
End Live.

(** ** Counting facts of one node *)
Section Counts.
  Variable r : replica.
  Variable logs : list (N * list N).
  Variable h_peer : heights.
  Variable sc_peer : list msg.
  Hypothesis peer_word : complete_word sc_peer.

  Notation sc_own := (script r logs h_peer).
  Notation ninv := (ninv r logs h_peer sc_peer).

  Definition ecount (n : node) : nat := length (sent (n_hist n)).
  Definition kcount (n : node) : nat := length (n_cons n).

  Lemma prefix_length {A} (l suf full : list A) : l ++ suf = full -> length l <= length full.
  Proof. intros <-. rewrite app_length. lia. Qed.

  Lemma prefix_full {A} (l suf full : list A) : l ++ suf = full -> length l = length full -> l = full.
  Proof.
    intros E L. rewrite <- E in L. rewrite app_length in L. destruct suf; [|cbn in L; lia].
    rewrite app_nil_r in E. exact E.
  Qed.

  Lemma counts_bounds n : ninv n ->
    ecount n <= length sc_own /\ kcount n <= length sc_peer /\ 2 <= length sc_own /\ 2 <= length sc_peer.
  Proof.
    intros NI. destruct (ninv_sent_prefix r logs h_peer sc_peer peer_word n NI) as [suf E].
    destruct NI as [_ [_ [[suf' E'] _]]].
    repeat split.
    - exact (prefix_length _ _ _ E).
    - exact (prefix_length _ _ _ E').
    - apply word_length. apply script_complete.
    - apply word_length. exact peer_word.
  Qed.

  (** The possible (emitted, consumed) pairs. *)
  Lemma phase_counts n : ninv n -> binv n ->
    (ecount n = 0 /\ kcount n = 0) \/ (ecount n = 1 /\ kcount n = 0) \/ (ecount n = 1 /\ kcount n = 1) \/
    (ecount n = 2 /\ kcount n = 1) \/ (2 <= ecount n /\ 2 <= kcount n).
  Proof.
    intros [_ [_ [_ C]]] [E _]. unfold einv in E. unfold ecount, kcount.
    pose proof (word_length _ peer_word) as WL.
    revert C E. destruct (ph (n_st n)); intros C E.
    - destruct C as [C1 _]. rewrite C1. left. auto.
    - destruct C as [C1 _]. rewrite C1. left. auto.
    - destruct C as [C1 _]. rewrite C1. right. left. auto.
    - destruct C as [C1 _]. right. right. left. auto.
    - destruct C as [C1 _]. right. right. right. left. auto.
    - destruct C as [C1 _]. right. right. right. right. auto.
    - right. right. right. right. rewrite C. auto.
    - destruct C.
  Qed.

  (** A node that is not parked, has nothing pending and cannot tick is at its end or waiting
      for a message. *)
  Inductive stuck_class (n : node) : Prop :=
  | StuckEnd : ph (n_st n) = PEnd -> ecount n = length sc_own -> kcount n = length sc_peer -> stuck_class n
  | StuckHave : can_recv (n_st n) = true -> ecount n = 1 -> kcount n = 0 -> stuck_class n
  | StuckPre : can_recv (n_st n) = true -> ecount n = 2 -> kcount n = 1 -> stuck_class n
  | StuckSync : can_recv (n_st n) = true -> ecount n = length sc_own -> 2 <= kcount n ->
                kcount n < length sc_peer -> stuck_class n.

  Lemma stuck_classify n :
    ninv n -> binv n -> tick_enabled true (n_st n) = false -> stuck_class n.
  Proof.
    intros NI [E _] T. pose proof NI as [K [S [Pfx C]]].
    unfold einv in E. unfold kinv in K. unfold tick_enabled in T. unfold ecount, kcount.
    destruct (ph (n_st n)) eqn:P; try discriminate.
    - (* PReceiveHave *) destruct C as [C1 _]. apply StuckHave; unfold ecount, kcount, can_recv; rewrite ?P, ?C1; auto.
    - (* PReceivePreSyncOrDone *) destruct C as [C1 _]. apply StuckPre; unfold ecount, kcount, can_recv; rewrite ?P; auto.
    - (* PSync *) destruct cur; [discriminate|].
      apply orb_false_iff in T. destruct T as [Arm DD]. unfold arm_on in Arm.
      assert (DS : done_sent (n_st n) = true).
      { destruct (done_sent (n_st n)) eqn:DS; [reflexivity|]. exfalso.
        destruct rest; [exact (K eq_refl eq_refl)|]. discriminate. }
      rewrite DS, andb_true_r in DD.
      destruct C as [C1 C2].
      assert (Sent : sent (n_hist n) = sc_own).
      { pose proof (ninv_post_script r logs h_peer sc_peer n NI) as Q. rewrite P in Q.
        specialize (Q eq_refl). unfold remaining in Q. rewrite P, DS, app_nil_r in Q. exact Q. }
      apply StuckSync; unfold ecount, kcount, can_recv; rewrite ?P, ?DD, ?Sent; auto.
      destruct Pfx as [suf Pf]. pose proof (prefix_length _ _ _ Pf) as Le.
      destruct (Nat.eq_dec (length (n_cons n)) (length sc_peer)) as [Eq|Ne]; [|lia].
      exfalso. pose proof (prefix_full _ _ _ Pf Eq) as Full. apply C2 in Full. congruence.
    - (* PEnd *) apply StuckEnd; unfold ecount, kcount; auto.
      + destruct (end_facts r logs h_peer sc_peer peer_word n NI P) as [Q _]. rewrite Q. reflexivity.
      + rewrite C. reflexivity.
    - destruct C.
  Qed.
End Counts.

(** ** No reachable deadlock *)
Section Progress.
  Variables rA rB : replica.
  Variables logsA logsB : list (N * list N).
  Variable cbuf : option nat.

  Notation scA := (scA rA rB logsA logsB).
  Notation scB := (scB rA rB logsA logsB).
  Notation hA := (hA rA logsA).
  Notation hB := (hB rB logsB).
  Notation J := (J rA rB logsA logsB cbuf).
  Notation B2 := (B2).

  (** Messages a side sends in the sync phase: its operations and the final Done (0 if it has
      nothing to send: its Done then goes out in place of PreSync). *)
  Definition msgs (sc : list msg) : nat := length sc - 2.

  (** The transport does not block both sides: unbounded, or [channel(c)] with [c >= 1] and one
      side's sync-phase messages fitting into [c]. *)
  Definition safe : Prop :=
    match cbuf with
    | None => True
    | Some c => 1 <= c /\ (msgs scA <= c \/ msgs scB <= c)
    end.

  Lemma node_blocked n r q_out q_in :
    node_tick true r n = None -> node_push cbuf n q_out = None -> node_recv n q_in = None ->
    n_parked n = true \/
    (n_parked n = false /\ n_pend n = [] /\ tick_enabled true (n_st n) = false /\
     (can_recv (n_st n) = false \/ q_in = [])).
  Proof.
    unfold node_tick, node_push, node_recv. destruct (n_parked n); [left; reflexivity|].
    destruct (n_pend n); [|discriminate]. intros T _ R. right.
    destruct (tick_enabled true (n_st n)); [discriminate|].
    repeat split; auto. destruct q_in; [right; reflexivity|].
    destruct (can_recv (n_st n)); [discriminate|left; reflexivity].
  Qed.

  Lemma option_map_none {A B} (f : A -> B) o : option_map f o = None -> o = None.
  Proof. destruct o; [discriminate|reflexivity]. Qed.

  Lemma enabled_false y l : enabled true cbuf rA rB y l = false -> sys_step true cbuf rA rB y l = None.
  Proof. unfold enabled. destruct (sys_step _ _ _ _ _ _); [discriminate|reflexivity]. Qed.

  Lemma link_counts x y q :
    link cbuf x y q -> length (sent (n_hist x)) = length (n_cons y) + length q + length (n_pend x).
  Proof. intros [L _]. rewrite L, !app_length. lia. Qed.

  Theorem deadlock_free y : J y -> B2 y -> safe -> deadlocked true cbuf rA rB y = false.
  Proof.
    intros [NA [NB [LAB LBA]]] [BA BB] Safe.
    destruct (deadlocked true cbuf rA rB y) eqn:D; [exfalso|reflexivity].
    unfold deadlocked in D. apply andb_true_iff in D. destruct D as [NF All].
    apply negb_true_iff in NF. unfold all_labels in All. cbn [forallb] in All.
    repeat (apply andb_true_iff in All; destruct All as [?E All]).
    repeat match goal with H : negb _ = true |- _ => apply negb_true_iff in H; apply enabled_false in H end.
    cbn [sys_step] in *.
    repeat match goal with H : option_map _ _ = None |- _ => apply option_map_none in H end.
    destruct (node_blocked (sa y) rA (qab y) (qba y)) as [PA|[PA [PeA [TA RA]]]]; try assumption.
    all: destruct (node_blocked (sb y) rB (qba y) (qab y)) as [PB|[PB [PeB [TB RB]]]]; try assumption.
    all: pose proof (link_counts _ _ _ LAB) as CA; pose proof (link_counts _ _ _ LBA) as CB.
    all: destruct (counts_bounds rA logsA hB scB (scB_word rA rB logsA logsB) (sa y) NA) as [UA [VA [WA WB]]].
    all: destruct (counts_bounds rB logsB hA scA (scA_word rA rB logsA logsB) (sb y) NB) as [UB [VB _]].
    all: unfold ecount, kcount in *.
    all: change (script rA logsA hB) with scA in *; change (script rB logsB hA) with scB in *.
    - (* both parked *)
      destruct LAB as [_ PkA], LBA as [_ PkB]. specialize (PkA PA). specialize (PkB PB).
      unfold safe, msgs in Safe. destruct cbuf as [c|]; [|contradiction].
      pose proof (phase_counts rA logsA hB scB (scB_word rA rB logsA logsB) (sa y) NA BA) as FA.
      pose proof (phase_counts rB logsB hA scA (scA_word rA rB logsA logsB) (sb y) NB BB) as FB.
      unfold ecount, kcount in *. lia.
    - (* A parked, B waiting or ended *)
      destruct LAB as [_ PkA]. specialize (PkA PA).
      unfold safe in Safe. destruct cbuf as [c|]; [|contradiction].
      destruct RB as [RB|RB]; [|rewrite RB in PkA; cbn in PkA; lia].
      destruct (stuck_classify rB logsB hA scA (scA_word rA rB logsA logsB) (sb y) NB BB TB)
        as [Pp Ee Kk|Cr|Cr|Cr]; try congruence.
      unfold ecount, kcount in *. change (script rB logsB hA) with scB in *. lia.
    - (* B parked, A waiting or ended *)
      destruct LBA as [_ PkB]. specialize (PkB PB).
      unfold safe in Safe. destruct cbuf as [c|]; [|contradiction].
      destruct RA as [RA|RA]; [|rewrite RA in PkB; cbn in PkB; lia].
      destruct (stuck_classify rA logsA hB scB (scB_word rA rB logsA logsB) (sa y) NA BA TA)
        as [Pp Ee Kk|Cr|Cr|Cr]; try congruence.
      unfold ecount, kcount in *. change (script rA logsA hB) with scA in *. lia.
    - (* nobody parked: both wait or ended *)
      rewrite PeA in CA. rewrite PeB in CB. cbn [length] in CA, CB.
      assert (QA : can_recv (n_st (sa y)) = true -> length (qba y) = 0).
      { intros Cr. destruct RA as [RA|RA]; [congruence|rewrite RA; reflexivity]. }
      assert (QB : can_recv (n_st (sb y)) = true -> length (qab y) = 0).
      { intros Cr. destruct RB as [RB|RB]; [congruence|rewrite RB; reflexivity]. }
      destruct (stuck_classify rA logsA hB scB (scB_word rA rB logsA logsB) (sa y) NA BA TA)
        as [PEA EA1 KA1|CrA EA1 KA1|CrA EA1 KA1|CrA EA1 KA1 KA2];
      destruct (stuck_classify rB logsB hA scA (scA_word rA rB logsA logsB) (sb y) NB BB TB)
        as [PEB EB1 KB1|CrB EB1 KB1|CrB EB1 KB1|CrB EB1 KB1 KB2];
      unfold ecount, kcount in *;
      change (script rA logsA hB) with scA in *; change (script rB logsB hA) with scB in *;
      try (specialize (QA CrA)); try (specialize (QB CrB)); try lia.
      (* both ended: the state is finished *)
      unfold finished, is_end in NF. rewrite PEA, PEB, PeA, PeB, PA, PB in NF. discriminate.
  Qed.
End Progress.
