(** Proofs about overlapping ingest calls (Model/IngestConc.v): every interleaving is equivalent
    to awaiting the calls one after the other in their commit order. *)
From Coq Require Import List Arith NArith Bool Lia Permutation.
From PV Require Import Model.Ingest Model.IngestConc Proofs.Ingest.
Import ListNotations.

Lemma upd_same : forall (A : Type) (f : nat -> A) i v, upd f i v i = v.
Proof. intros. unfold upd. rewrite Nat.eqb_refl. reflexivity. Qed.

Lemma upd_other : forall (A : Type) (f : nat -> A) i v j, j <> i -> upd f i v j = f j.
Proof. intros A f i v j H. unfold upd. apply Nat.eqb_neq in H. rewrite H. reflexivity. Qed.

Section Serialisable.
  Variable vpb : option row -> op -> bool -> vres.
  Variable ops : list op.
  Variable s0 : store.

  Notation opn := (opn ops).
  Notation step := (step vpb ops).
  Notation seq_run := (seq_run vpb ops).
  Notation seq_step := (seq_step vpb ops).

  Definition holding (t : tstate) : Prop :=
    match t with THold | TCheck | TRead _ | TIns => True | _ => False end.

  Definition holder_ok (s : store) (o : op) (t : tstate) : Prop :=
    match t with
    | THold => True
    | TCheck => has_op s (o_id o) = false
    | TRead p => has_op s (o_id o) = false /\ p = latest s (o_author o) (o_log o)
    | TIns => has_op s (o_id o) = false /\ vpb (latest s (o_author o) (o_log o)) o (o_prune o) = VOk
    | _ => False
    end.

  Definition lock_ok (s : store) (lock : option nat) (th : nat -> tstate) : Prop :=
    match lock with
    | None => forall j, ~ holding (th j)
    | Some h => holder_ok s (opn h) (th h) /\ forall j, j <> h -> ~ holding (th j)
    end.

  Record Inv (c : config) (order : list nat) : Prop := mkInv {
    inv_store : c_store c = fst (seq_run s0 order);
    inv_res : forall i r, In (i, r) (snd (seq_run s0 order)) -> c_th c i = TDone r;
    inv_done : forall i, is_done (c_th c i) = true -> In i order;
    inv_nodup : NoDup order;
    inv_lt : forall i, In i order -> i < List.length ops;
    inv_valid : forall i, c_th c i <> TStart -> is_done (c_th c i) = false -> o_valid (opn i) = true;
    inv_lock : lock_ok (c_store c) (c_lock c) (c_th c) }.

  Lemma seq_run_snoc : forall pi i, seq_run s0 (pi ++ [i]) = seq_step (seq_run s0 pi) i.
  Proof. intros. unfold IngestConc.seq_run. rewrite fold_left_app. reflexivity. Qed.

  Lemma seq_run_order : forall pi, map fst (snd (seq_run s0 pi)) = pi.
  Proof.
    intros pi. induction pi as [|i t IH] using rev_ind; [reflexivity|].
    rewrite seq_run_snoc. unfold IngestConc.seq_step.
    destruct (ingest_with vpb (fst (seq_run s0 t)) (opn i)) as [s r]. cbn [snd].
    rewrite map_app, IH. reflexivity.
  Qed.

  Lemma in_order_done : forall c order i, Inv c order -> In i order -> is_done (c_th c i) = true.
  Proof.
    intros c order i HI Hi. rewrite <- (seq_run_order order) in Hi.
    apply in_map_iff in Hi. destruct Hi as ((j & r) & Hj & Hin). cbn [fst] in Hj. subst j.
    rewrite (inv_res _ _ HI _ _ Hin). reflexivity.
  Qed.

  Lemma holder_is : forall c order i, Inv c order -> holding (c_th c i) ->
    c_lock c = Some i /\ holder_ok (c_store c) (opn i) (c_th c i) /\ forall j, j <> i -> ~ holding (c_th c j).
  Proof.
    intros c order i HI Hh. pose proof (inv_lock _ _ HI) as HL. unfold lock_ok in HL.
    destruct (c_lock c) as [h|].
    - destruct HL as (Hok & Hoth). destruct (Nat.eq_dec i h) as [->|Hne]; [auto|].
      exfalso. exact (Hoth i Hne Hh).
    - exfalso. exact (HL i Hh).
  Qed.

  (** A call returns: its result and effect are those of [ingest] on the committed store. *)
  Lemma inv_finish : forall c order i s' r lock',
    Inv c order -> i < List.length ops -> is_done (c_th c i) = false ->
    ingest_with vpb (c_store c) (opn i) = (s', r) ->
    lock_ok s' lock' (upd (c_th c) i (TDone r)) ->
    Inv (mkCfg s' lock' (upd (c_th c) i (TDone r))) (order ++ [i]).
  Proof.
    intros c order i s' r lock' HI Hlt Hnd Hing HL.
    assert (Hni : ~ In i order).
    { intros Hin. rewrite (in_order_done _ _ _ HI Hin) in Hnd. discriminate. }
    constructor; cbn [c_store c_lock c_th].
    - rewrite seq_run_snoc. unfold IngestConc.seq_step. rewrite <- (inv_store _ _ HI), Hing. reflexivity.
    - intros j r' Hin. rewrite seq_run_snoc in Hin. unfold IngestConc.seq_step in Hin.
      rewrite <- (inv_store _ _ HI), Hing in Hin. cbn [snd] in Hin.
      apply in_app_iff in Hin. destruct Hin as [Hin|[Heq|[]]].
      + assert (Hj : j <> i).
        { intros ->. apply Hni. rewrite <- (seq_run_order order). apply in_map_iff. exists (i, r'). auto. }
        rewrite upd_other by exact Hj. exact (inv_res _ _ HI _ _ Hin).
      + inversion Heq; subst. apply upd_same.
    - intros j Hd. apply in_app_iff. destruct (Nat.eq_dec j i) as [->|Hj]; [right; left; reflexivity|].
      left. rewrite upd_other in Hd by exact Hj. exact (inv_done _ _ HI _ Hd).
    - apply NoDup_snoc; [exact (inv_nodup _ _ HI)|exact Hni].
    - intros j Hin. apply in_app_iff in Hin. destruct Hin as [Hin|[<-|[]]]; [exact (inv_lt _ _ HI _ Hin)|exact Hlt].
    - intros j Hs Hd. destruct (Nat.eq_dec j i) as [->|Hj].
      + rewrite upd_same in Hd. discriminate.
      + rewrite upd_other in Hs, Hd by exact Hj. exact (inv_valid _ _ HI _ Hs Hd).
    - exact HL.
  Qed.

  (** A call advances to its next await point without returning. *)
  Lemma inv_move : forall c order i t' lock',
    Inv c order -> is_done (c_th c i) = false -> is_done t' = false -> t' <> TStart ->
    o_valid (opn i) = true ->
    lock_ok (c_store c) lock' (upd (c_th c) i t') ->
    Inv (mkCfg (c_store c) lock' (upd (c_th c) i t')) order.
  Proof.
    intros c order i t' lock' HI Hnd Hnd' Hns Hv HL.
    constructor; cbn [c_store c_lock c_th].
    - exact (inv_store _ _ HI).
    - intros j r Hin. pose proof (inv_res _ _ HI _ _ Hin) as Hj.
      destruct (Nat.eq_dec j i) as [->|Hne]; [rewrite Hj in Hnd; discriminate|].
      rewrite upd_other by exact Hne. exact Hj.
    - intros j Hd. destruct (Nat.eq_dec j i) as [->|Hne].
      + rewrite upd_same in Hd. congruence.
      + rewrite upd_other in Hd by exact Hne. exact (inv_done _ _ HI _ Hd).
    - exact (inv_nodup _ _ HI).
    - exact (inv_lt _ _ HI).
    - intros j Hs Hd. destruct (Nat.eq_dec j i) as [->|Hne]; [exact Hv|].
      rewrite upd_other in Hs, Hd by exact Hne. exact (inv_valid _ _ HI _ Hs Hd).
    - exact HL.
  Qed.

  Lemma not_holding_upd : forall (th : nat -> tstate) i t' j,
    ~ holding t' -> (j <> i -> ~ holding (th j)) -> ~ holding (upd th i t' j).
  Proof.
    intros th i t' j Ht Hj. destruct (Nat.eq_dec j i) as [->|Hne].
    - rewrite upd_same. exact Ht.
    - rewrite upd_other by exact Hne. exact (Hj Hne).
  Qed.

  Lemma step_inv : forall c order i, Inv c order -> exists order', Inv (step c i) order'.
  Proof.
    intros c order i HI. unfold IngestConc.step.
    destruct (i <? List.length ops) eqn:Elt; cbn [negb]; [|exists order; exact HI].
    apply Nat.ltb_lt in Elt.
    destruct (c_th c i) eqn:Et.
    - (* TStart *)
      assert (Hnd : is_done (c_th c i) = false) by (rewrite Et; reflexivity).
      assert (Hlk : forall t', ~ holding t' -> lock_ok (c_store c) (c_lock c) (upd (c_th c) i t')).
      { intros t' Ht. pose proof (inv_lock _ _ HI) as HL. unfold lock_ok in *.
        destruct (c_lock c) as [h|].
        - destruct HL as (Hok & Hoth). assert (Hne : h <> i).
          { intros ->. rewrite Et in Hok. exact Hok. }
          split; [rewrite upd_other by exact Hne; exact Hok|].
          intros j Hj. apply not_holding_upd; [exact Ht|intros _; exact (Hoth j Hj)].
        - intros j. apply not_holding_upd; [exact Ht|intros _; exact (HL j)]. }
      destruct (o_valid (opn i)) eqn:Ev.
      + exists order. apply inv_move; try reflexivity; try discriminate; try assumption. apply Hlk. exact (fun H => H).
      + exists (order ++ [i]). apply inv_finish; try assumption.
        * unfold ingest_with. rewrite Ev. reflexivity.
        * apply Hlk. exact (fun H => H).
    - (* TWait *)
      assert (Hnd : is_done (c_th c i) = false) by (rewrite Et; reflexivity).
      assert (Hv : o_valid (opn i) = true).
      { apply (inv_valid _ _ HI); [rewrite Et; discriminate|exact Hnd]. }
      pose proof (inv_lock _ _ HI) as HL. unfold lock_ok in HL.
      destruct (c_lock c) as [h|] eqn:El; [exists order; exact HI|].
      exists order. apply inv_move; try reflexivity; try discriminate; try assumption.
      unfold lock_ok. split; [rewrite upd_same; exact I|].
      intros j Hj. rewrite upd_other by exact Hj. exact (HL j).
    - (* THold *)
      assert (Hnd : is_done (c_th c i) = false) by (rewrite Et; reflexivity).
      assert (Hv : o_valid (opn i) = true).
      { apply (inv_valid _ _ HI); [rewrite Et; discriminate|exact Hnd]. }
      destruct (holder_is c order i HI) as (Hl & Hok & Hoth); [rewrite Et; exact I|].
      destruct (has_op (c_store c) (o_id (opn i))) eqn:Eh.
      + exists (order ++ [i]). apply inv_finish; try assumption.
        * unfold ingest_with. rewrite Hv, Eh. reflexivity.
        * intros j. apply not_holding_upd; [exact (fun H => H)|exact (Hoth j)].
      + exists order. apply inv_move; try reflexivity; try discriminate; try assumption. rewrite Hl.
        split; [rewrite upd_same; exact Eh|]. intros j Hj. rewrite upd_other by exact Hj. exact (Hoth j Hj).
    - (* TCheck *)
      assert (Hnd : is_done (c_th c i) = false) by (rewrite Et; reflexivity).
      assert (Hv : o_valid (opn i) = true).
      { apply (inv_valid _ _ HI); [rewrite Et; discriminate|exact Hnd]. }
      destruct (holder_is c order i HI) as (Hl & Hok & Hoth); [rewrite Et; exact I|].
      rewrite Et in Hok. cbn [holder_ok] in Hok.
      exists order. apply inv_move; try reflexivity; try discriminate; try assumption. rewrite Hl.
      split; [rewrite upd_same; split; [exact Hok|reflexivity]|].
      intros j Hj. rewrite upd_other by exact Hj. exact (Hoth j Hj).
    - (* TRead *)
      assert (Hnd : is_done (c_th c i) = false) by (rewrite Et; reflexivity).
      assert (Hv : o_valid (opn i) = true).
      { apply (inv_valid _ _ HI); [rewrite Et; discriminate|exact Hnd]. }
      destruct (holder_is c order i HI) as (Hl & Hok & Hoth); [rewrite Et; exact I|].
      rewrite Et in Hok. cbn [holder_ok] in Hok. destruct Hok as (Eh & ->).
      destruct (vpb (latest (c_store c) (o_author (opn i)) (o_log (opn i))) (opn i) (o_prune (opn i))) eqn:Ep.
      + exists order. apply inv_move; try reflexivity; try discriminate; try assumption. rewrite Hl.
        split; [rewrite upd_same; split; [exact Eh|exact Ep]|].
        intros j Hj. rewrite upd_other by exact Hj. exact (Hoth j Hj).
      + exists (order ++ [i]). apply inv_finish; try assumption.
        * unfold ingest_with. rewrite Hv, Eh, Ep. reflexivity.
        * intros j. apply not_holding_upd; [exact (fun H => H)|exact (Hoth j)].
      + exists (order ++ [i]). apply inv_finish; try assumption.
        * unfold ingest_with. rewrite Hv, Eh, Ep. reflexivity.
        * intros j. apply not_holding_upd; [exact (fun H => H)|exact (Hoth j)].
    - (* TIns *)
      assert (Hnd : is_done (c_th c i) = false) by (rewrite Et; reflexivity).
      assert (Hv : o_valid (opn i) = true).
      { apply (inv_valid _ _ HI); [rewrite Et; discriminate|exact Hnd]. }
      destruct (holder_is c order i HI) as (Hl & Hok & Hoth); [rewrite Et; exact I|].
      rewrite Et in Hok. cbn [holder_ok] in Hok. destruct Hok as (Eh & Ep).
      exists (order ++ [i]). apply inv_finish; try assumption.
      + unfold ingest_with. rewrite Hv, Eh, Ep. reflexivity.
      + intros j. apply not_holding_upd; [exact (fun H => H)|exact (Hoth j)].
    - (* TDone *) exists order. exact HI.
  Qed.

  Lemma init_inv : Inv (init s0) [].
  Proof.
    constructor; cbn [init c_store c_lock c_th is_done lock_ok holding].
    - reflexivity.
    - intros i r H. destruct H.
    - intros i H. discriminate.
    - constructor.
    - intros i H. destruct H.
    - intros i H. exfalso. apply H. reflexivity.
    - intros j H. exact H.
  Qed.

  Lemma run_sched_inv : forall sch c order, Inv c order -> exists order', Inv (run_sched vpb ops sch c) order'.
  Proof.
    induction sch as [|i t IH]; intros c order HI; [exists order; exact HI|].
    cbn [run_sched fold_left]. destruct (step_inv c order i HI) as (o' & HI'). exact (IH _ _ HI').
  Qed.

  (** Serialisability, at every moment of every interleaving: the committed store is the store of
      the calls that have returned so far, awaited one after the other in their commit order
      [order], and each of them returned what it returns in that sequential run. *)
  Theorem sched_prefix_serialisable : forall sch,
    let c := run_sched vpb ops sch (init s0) in
    exists order, NoDup order /\ (forall i, In i order <-> is_done (c_th c i) = true) /\
      (forall i, In i order -> i < List.length ops) /\
      c_store c = fst (seq_run s0 order) /\
      forall i r, In (i, r) (snd (seq_run s0 order)) -> c_th c i = TDone r.
  Proof.
    intros sch c. destruct (run_sched_inv sch _ _ init_inv) as (order & HI). fold c in HI.
    exists order. split; [exact (inv_nodup _ _ HI)|]. split.
    - intros i. split; [apply (in_order_done _ _ _ HI)|apply (inv_done _ _ HI)].
    - split; [exact (inv_lt _ _ HI)|]. split; [exact (inv_store _ _ HI)|exact (inv_res _ _ HI)].
  Qed.

  (** When all [k] calls have returned, [order] is a permutation of the calls. *)
  Theorem concurrent_ingest_serialisable : forall sch,
    let c := run_sched vpb ops sch (init s0) in
    all_done (List.length ops) c = true ->
    exists pi, Permutation pi (seq 0 (List.length ops)) /\
      c_store c = fst (seq_run s0 pi) /\
      forall i r, In (i, r) (snd (seq_run s0 pi)) -> c_th c i = TDone r.
  Proof.
    intros sch c Hall. destruct (sched_prefix_serialisable sch) as (order & Hnd & Hiff & Hlt & Hs & Hr).
    fold c in Hiff, Hs, Hr. exists order. split; [|split; assumption].
    apply NoDup_Permutation; [exact Hnd|apply seq_NoDup|].
    intros i. rewrite in_seq. split.
    - intros Hi. specialize (Hlt i Hi). lia.
    - intros Hi. apply Hiff. unfold all_done in Hall. rewrite forallb_forall in Hall.
      apply Hall. apply in_seq. lia.
  Qed.
End Serialisable.

(** * Consequences for C05 *)

Lemma low_water_ingest : forall s o a l n,
  low_water a l n s -> low_water a l n (fst (ingest s o)).
Proof.
  intros s o a l n (Hall & x & Hx & Hxl).
  destruct (ingest s o) as [s1 r1] eqn:E. cbn [fst].
  destruct (ingest_with_shape _ _ _ _ _ E) as [(_ & -> & _ & _ & Hok)|(_ & ->)].
  - apply vpb_ok_iff in Hok. split.
    + intros r Hr Hl. apply in_app_iff in Hr. destruct Hr as [Hr|[<-|[]]]; [apply Hall; assumption|].
      cbn [row_of r_seq]. apply in_log_true in Hl. cbn [row_of r_author r_log] in Hl. destruct Hl as (<- & <-).
      pose proof (extends_above _ _ Hok x Hx Hxl). specialize (Hall x Hx Hxl). lia.
    + exists x. split; [apply in_app_iff; left; exact Hx|exact Hxl].
  - split; [exact Hall|eauto].
Qed.

Lemma low_water_seq_run : forall ops pi s0 a l n,
  low_water a l n s0 -> low_water a l n (fst (seq_run validate_prunable_backlink ops s0 pi)).
Proof.
  intros ops pi. induction pi as [|i t IH] using rev_ind; intros s0 a l n HL; [exact HL|].
  rewrite seq_run_snoc. unfold seq_step.
  pose proof (low_water_ingest (fst (seq_run validate_prunable_backlink ops s0 t)) (opn ops i) a l n (IH _ _ _ _ HL)) as H.
  unfold ingest in H.
  destruct (ingest_with validate_prunable_backlink (fst (seq_run validate_prunable_backlink ops s0 t)) (opn ops i)) as [s r].
  exact H.
Qed.

(** C05 for concurrent deliveries: once the prune point [o] at N went through the pipeline, any
    batch [ops] of overlapping ingest calls (any operations: older prune points, duplicates,
    forged copies), under every interleaving and at every moment of it, leaves no entry of that
    log below N in the committed store. *)
Theorem no_resurrection_concurrent : forall pre o ops sch,
  wf_history (pre ++ [o]) = true ->
  o_prune o = true -> res_ok (snd (deliver (run pre) o)) = true ->
  forall r, In r (c_store (run_sched validate_prunable_backlink ops sch (init (run (pre ++ [o]))))) ->
    in_log (o_author o) (o_log o) r = true -> (o_seq o <= r_seq r)%N.
Proof.
  intros pre o ops sch Hwf Hpr Hok.
  set (ds := pre ++ [o]) in *.
  assert (Ho : In o ds) by (apply in_app_iff; right; left; reflexivity).
  assert (HI : Proofs.Ingest.Inv ds (run pre)).
  { apply run_from_Inv; [exact Hwf| |apply Inv_nil]. intros x Hx. apply in_app_iff. left. exact Hx. }
  assert (HL : low_water (o_author o) (o_log o) (o_seq o) (run ds)).
  { unfold ds. rewrite run_app. cbn [run_from fold_left].
    apply low_water_established with (ds := ds); assumption. }
  destruct (sched_prefix_serialisable validate_prunable_backlink ops (run ds) sch) as (order & _ & _ & _ & Hs & _).
  rewrite Hs. destruct (low_water_seq_run ops order _ _ _ _ HL) as (Hall & _). exact Hall.
Qed.

(** Commit order inside a batch: every row a call appends lies strictly above everything its log
    holds at that moment, so in insertion order sequence numbers per log strictly increase --
    no call stores an entry below (or at) a prune point, or any entry, committed before it. *)
Lemma incr_snoc : forall s r, incr s ->
  (forall x, In x s -> in_log (r_author x) (r_log x) r = true -> (r_seq x < r_seq r)%N) -> incr (s ++ [r]).
Proof.
  induction s as [|y t IH]; intros r Hi Hall.
  - cbn. split; [intros x []|exact I].
  - cbn [app incr] in *. destruct Hi as (Hy & Ht). split.
    + intros x Hx Hl. apply in_app_iff in Hx. destruct Hx as [Hx|[<-|[]]]; [exact (Hy x Hx Hl)|].
      apply Hall; [left; reflexivity|exact Hl].
    + apply IH; [exact Ht|]. intros x Hx. apply Hall. right. exact Hx.
Qed.

Lemma incr_ingest : forall s o, incr s -> incr (fst (ingest s o)).
Proof.
  intros s o Hi. destruct (ingest s o) as [s1 r1] eqn:E. cbn [fst].
  destruct (ingest_with_shape _ _ _ _ _ E) as [(_ & -> & _ & _ & Hok)|(_ & ->)]; [|exact Hi].
  apply vpb_ok_iff in Hok. apply incr_snoc; [exact Hi|].
  intros x Hx Hl. cbn [row_of r_seq]. apply (extends_above _ _ Hok x Hx).
  apply in_log_true in Hl. cbn [row_of r_author r_log] in Hl. destruct Hl as (Ha & Hb).
  apply in_log_true. split; congruence.
Qed.

Lemma incr_seq_run : forall ops pi s0, incr s0 -> incr (fst (seq_run validate_prunable_backlink ops s0 pi)).
Proof.
  intros ops pi. induction pi as [|i t IH] using rev_ind; intros s0 Hi; [exact Hi|].
  rewrite seq_run_snoc. unfold seq_step.
  pose proof (incr_ingest (fst (seq_run validate_prunable_backlink ops s0 t)) (opn ops i) (IH _ Hi)) as H.
  unfold ingest in H.
  destruct (ingest_with validate_prunable_backlink (fst (seq_run validate_prunable_backlink ops s0 t)) (opn ops i)) as [s r].
  exact H.
Qed.

Theorem concurrent_commit_order_increasing : forall s0 ops sch,
  incr s0 -> incr (c_store (run_sched validate_prunable_backlink ops sch (init s0))).
Proof.
  intros s0 ops sch Hi.
  destruct (sched_prefix_serialisable validate_prunable_backlink ops s0 sch) as (order & _ & _ & _ & Hs & _).
  rewrite Hs. apply incr_seq_run. exact Hi.
Qed.

Lemma incr_app_inv : forall s1 p s2 r, incr (s1 ++ p :: s2) -> In r s2 ->
  in_log (r_author p) (r_log p) r = true -> (r_seq p < r_seq r)%N.
Proof.
  induction s1 as [|y t IH]; intros p s2 r Hi Hr Hl.
  - cbn [app incr] in Hi. destruct Hi as (Hp & _). exact (Hp r Hr Hl).
  - cbn [app incr] in Hi. destruct Hi as (_ & Ht). exact (IH _ _ _ Ht Hr Hl).
Qed.

Lemma incrb_sound : forall s, incrb s = true -> incr s.
Proof.
  induction s as [|r t IH]; intros H; [exact I|].
  cbn [incrb] in H. apply andb_true_iff in H. destruct H as (Ha & Hb). split; [|exact (IH Hb)].
  intros x Hx Hl. rewrite forallb_forall in Ha. specialize (Ha x Hx). rewrite Hl in Ha. cbn [negb orb] in Ha.
  apply N.ltb_lt. exact Ha.
Qed.

(** * Regression witness about the VARIANT that reads the tip before [begin()]

    Two prune points of one log, seq 5 (call 0) and seq 3 (call 1), empty store.  Schedule: both
    calls read the (empty) tip, call 0 runs to its commit, then call 1 validates against its stale
    tip and commits: the store is [5; 3] in commit order -- entry 3 was stored after the prune
    point 5 was ingested.  No sequential order of the two calls gives that. *)
Definition st_ops : list op := [w_op 1 1 5 5 (Some 4%N) true true; w_op 1 1 3 3 (Some 2%N) true true].
Definition st_sched : list nat := [0; 1; 0; 0; 0; 0; 1; 1; 1; 1]%nat.

Theorem stale_tip_refuted :
  wf_history st_ops = true /\
  let c := vrun_sched validate_prunable_backlink st_ops st_sched (vinit []) in
  v_all_done 2 c = true /\ map r_seq (v_store c) = [5; 3]%N /\
  v_th c 0%nat = VDone Inserted /\ v_th c 1%nat = VDone Inserted /\
  incrb (v_store c) = false /\
  (forall pi, In pi [[0; 1]; [1; 0]]%nat ->
     map r_seq (fst (seq_run validate_prunable_backlink st_ops [] pi)) <> [5; 3]%N).
Proof.
  split; [vm_compute; reflexivity|]. cbv zeta.
  repeat split; try (vm_compute; reflexivity).
  intros pi [<-|[<-|[]]]; vm_compute; discriminate.
Qed.

(** The code as it is, same calls, same schedule: the older prune point is rejected. *)
Definition st_sched_real : list nat := [0; 1; 0; 0; 0; 0; 0]%nat.

Example st_real_code :
  let c := run_sched validate_prunable_backlink st_ops st_sched_real (init []) in
  map r_seq (c_store c) = [5]%N /\ c_th c 1%nat = TWait.
Proof. vm_compute. split; reflexivity. Qed.

Example st_real_code_complete :
  let c := run_sched validate_prunable_backlink st_ops (st_sched_real ++ [1; 1; 1; 1]%nat) (init []) in
  all_done 2 c = true /\ map r_seq (c_store c) = [5]%N /\ c_th c 1%nat = TDone (Rejected ESeqNonIncremental).
Proof. vm_compute. repeat split; reflexivity. Qed.

(** Hypotheses of the theorems are satisfiable by non-trivial values. *)
Example ex_conc_hyp :
  let pre := [w_op 1 1 0 1 None false true; w_op 1 1 1 2 (Some 1%N) false true] in
  let o := w_op 1 1 4 7 (Some 9%N) true true in
  wf_history (pre ++ [o]) = true /\ res_ok (snd (deliver (run pre) o)) = true /\
  all_done 2 (run_sched validate_prunable_backlink st_ops (st_sched_real ++ [1; 1; 1; 1]%nat) (init (run (pre ++ [o])))) = true.
Proof. vm_compute. repeat split; reflexivity. Qed.
