(** Proofs about the replay model (C15). *)
From Coq Require Import List Arith NArith Bool Lia Sorted.
From PV Require Import Model.Replay.
Import ListNotations.

(** * Keys, association lists, sets *)

Lemma key_eqb_eq (a b : key) : key_eqb a b = true <-> a = b.
Proof.
  destruct a as [a1 a2], b as [b1 b2]. unfold key_eqb. cbn [fst snd].
  rewrite andb_true_iff, !N.eqb_eq. split.
  - intros [-> ->]. reflexivity.
  - intros H. injection H as -> ->. split; reflexivity.
Qed.

Lemma key_eqb_refl (a : key) : key_eqb a a = true.
Proof. apply key_eqb_eq. reflexivity. Qed.

Lemma key_eqb_neq (a b : key) : key_eqb a b = false <-> a <> b.
Proof.
  split.
  - intros H E. apply key_eqb_eq in E. congruence.
  - intros H. destruct (key_eqb a b) eqn:E; [apply key_eqb_eq in E; contradiction | reflexivity].
Qed.

Lemma key_eqb_sym (a b : key) : key_eqb a b = key_eqb b a.
Proof.
  destruct (key_eqb a b) eqn:E.
  - apply key_eqb_eq in E. subst. symmetry. apply key_eqb_refl.
  - symmetry. apply key_eqb_neq. apply key_eqb_neq in E. congruence.
Qed.

Lemma set_insert_In (k x : key) (s : list key) : In x (set_insert k s) <-> x = k \/ In x s.
Proof.
  induction s as [|y s IH]; cbn [set_insert].
  - cbn. intuition.
  - destruct (key_eqb k y) eqn:E.
    + apply key_eqb_eq in E. subst y. cbn. intuition.
    + destruct (key_ltb k y); cbn [In]; [intuition|]. rewrite IH. intuition.
Qed.

Lemma lookup_upsert (k k' : key) (v : N) (m : list (key * N)) :
  lookup k (upsert k' v m) = if key_eqb k k' then Some v else lookup k m.
Proof.
  induction m as [|[k0 v0] m IH]; cbn [upsert lookup].
  - destruct (key_eqb k k'); reflexivity.
  - destruct (key_eqb k' k0) eqn:E0; cbn [lookup].
    + apply key_eqb_eq in E0. subst k0. destruct (key_eqb k k'); reflexivity.
    + destruct (key_eqb k k0) eqn:E1.
      * apply key_eqb_eq in E1. subst k0. rewrite key_eqb_sym, E0. reflexivity.
      * exact IH.
Qed.

Definition omax (o : option N) (n : N) : N := match o with None => n | Some m => N.max m n end.

Lemma lookup_advance (k k' : key) (n : N) (c : list (key * N)) :
  lookup k (advance k' n c) = if key_eqb k k' then Some (omax (lookup k' c) n) else lookup k c.
Proof.
  unfold advance. destruct (lookup k' c) as [cur|] eqn:L; cbn [omax].
  - destruct (N.leb_spec n cur) as [H|H].
    + destruct (key_eqb k k') eqn:E; [|reflexivity].
      apply key_eqb_eq in E. subst k'. rewrite L. f_equal. lia.
    + rewrite lookup_upsert. destruct (key_eqb k k'); [|reflexivity]. f_equal. lia.
  - rewrite lookup_upsert. reflexivity.
Qed.

(** * [max_seq] *)

Definition mstep (k : key) (acc : option N) (r : row) : option N :=
  if key_eqb (rkey r) k then Some (omax acc (r_seq r)) else acc.

Lemma max_seq_fold (rs : list row) (k : key) : max_seq rs k = fold_left (mstep k) rs None.
Proof.
  unfold max_seq. generalize (@None N). induction rs as [|r rs IH]; intro acc; [reflexivity|].
  cbn [fold_left]. rewrite IH. unfold mstep, omax. destruct (key_eqb (rkey r) k); [|reflexivity].
  destruct acc; reflexivity.
Qed.

Lemma max_seq_snoc (rs : list row) (r : row) (k : key) :
  max_seq (rs ++ [r]) k = mstep k (max_seq rs k) r.
Proof. rewrite !max_seq_fold, fold_left_app. reflexivity. Qed.

Lemma max_seq_nil (k : key) : max_seq [] k = None.
Proof. reflexivity. Qed.

Lemma fold_mstep_some (k : key) (rs : list row) (n : N) : fold_left (mstep k) rs (Some n) <> None.
Proof.
  revert n. induction rs as [|z rs IH]; intros n; cbn [fold_left]; [discriminate|].
  unfold mstep at 2. destruct (key_eqb (rkey z) k); apply IH.
Qed.

Lemma fold_mstep_in (k : key) (rs : list row) (r : row) (acc : option N) :
  In r rs -> rkey r = k -> fold_left (mstep k) rs acc <> None.
Proof.
  revert acc. induction rs as [|y rs IH]; intros acc Hin Hk; [destruct Hin|].
  cbn [fold_left]. destruct Hin as [->|Hin].
  - unfold mstep at 2. rewrite Hk, key_eqb_refl. apply fold_mstep_some.
  - apply IH; assumption.
Qed.

Lemma max_seq_in_some (rs : list row) (r : row) (k : key) :
  In r rs -> rkey r = k -> max_seq rs k <> None.
Proof. intros Hin Hk. rewrite max_seq_fold. apply (fold_mstep_in k rs r None Hin Hk). Qed.

Lemma max_seq_ub (rs : list row) (k : key) (h : N) :
  max_seq rs k = Some h -> forall r, In r rs -> rkey r = k -> (r_seq r <= h)%N.
Proof.
  revert h. induction rs as [|x rs IH] using rev_ind; intros h Hm r Hin Hk; [destruct Hin|].
  rewrite max_seq_snoc in Hm. unfold mstep in Hm.
  apply in_app_or in Hin. destruct Hin as [Hin|[->|[]]].
  - destruct (key_eqb (rkey x) k).
    + destruct (max_seq rs k) as [m|] eqn:Em; cbn [omax] in Hm.
      * injection Hm as <-. specialize (IH m eq_refl r Hin Hk). lia.
      * exfalso. apply (max_seq_in_some rs r k Hin Hk Em).
    + apply (IH h Hm r Hin Hk).
  - rewrite Hk, key_eqb_refl in Hm. injection Hm as <-.
    destruct (max_seq rs k); cbn [omax]; lia.
Qed.

Lemma max_seq_some (rs : list row) (r : row) :
  In r rs -> exists h, max_seq rs (rkey r) = Some h /\ (r_seq r <= h)%N.
Proof.
  intros Hin.
  destruct (max_seq rs (rkey r)) as [h|] eqn:E.
  - exists h. split; [reflexivity|]. apply (max_seq_ub rs (rkey r) h E r Hin eq_refl).
  - exfalso. apply (max_seq_in_some rs r (rkey r) Hin eq_refl E).
Qed.

Lemma max_seq_none_iff (rs : list row) (k : key) :
  max_seq rs k = None -> forall r, In r rs -> rkey r <> k.
Proof.
  intros E r Hin Hk. destruct (max_seq_some rs r Hin) as [h [Hh _]]. rewrite Hk in Hh. congruence.
Qed.

(** * Sorting by sequence number *)

Lemma insert_seq_In (r x : row) (l : list row) : In x (insert_seq r l) <-> x = r \/ In x l.
Proof.
  induction l as [|y l IH]; cbn [insert_seq].
  - cbn. intuition.
  - destruct (N.leb (r_seq r) (r_seq y)); cbn [In]; [intuition|]. rewrite IH. intuition.
Qed.

Lemma sort_seq_In (x : row) (l : list row) : In x (sort_seq l) <-> In x l.
Proof.
  induction l as [|y l IH]; cbn [sort_seq fold_right]; [reflexivity|].
  change (fold_right insert_seq [] l) with (sort_seq l).
  rewrite insert_seq_In, IH. cbn. intuition.
Qed.

Definition seq_le (a b : row) : Prop := (r_seq a <= r_seq b)%N.

Lemma insert_seq_sorted (r : row) (l : list row) :
  Sorted seq_le l -> Sorted seq_le (insert_seq r l).
Proof.
  induction l as [|y l IH]; intros Hs; cbn [insert_seq].
  - constructor; constructor.
  - destruct (N.leb_spec (r_seq r) (r_seq y)) as [H|H].
    + constructor; [exact Hs|]. constructor. exact H.
    + inversion Hs as [|? ? Hs' Hhd]; subst. constructor; [apply IH; exact Hs'|].
      destruct l as [|z l]; cbn [insert_seq].
      * constructor. unfold seq_le. lia.
      * destruct (N.leb (r_seq r) (r_seq z)).
        -- constructor. unfold seq_le. lia.
        -- constructor. inversion Hhd; subst. assumption.
Qed.

Lemma sort_seq_sorted (l : list row) : Sorted seq_le (sort_seq l).
Proof.
  induction l as [|y l IH]; cbn [sort_seq fold_right]; [constructor|].
  apply insert_seq_sorted. exact IH.
Qed.

Lemma get_log_entries_In (rs : list row) (k : key) (a : option N) (u : N) (r : row) :
  In r (get_log_entries rs k a u) <-> In r rs /\ rkey r = k /\ in_range a u (r_seq r) = true.
Proof.
  unfold get_log_entries. rewrite sort_seq_In, filter_In, andb_true_iff, key_eqb_eq. reflexivity.
Qed.

Lemma get_log_entries_sorted (rs : list row) (k : key) (a : option N) (u : N) :
  Sorted seq_le (get_log_entries rs k a u).
Proof. apply sort_seq_sorted. Qed.

(** * The restart function, for ANY durable state *)

Lemma local_heights_In (d : durable) (k : key) (h : N) :
  In (k, h) (local_heights d) <-> In k (assoc d) /\ max_seq (rows d) k = Some h.
Proof.
  unfold local_heights. rewrite in_flat_map. split.
  - intros [k' [Hk Hin]]. destruct (max_seq (rows d) k') as [h'|] eqn:E; [|destruct Hin].
    destruct Hin as [Heq|[]]. injection Heq as -> ->. split; assumption.
  - intros [Hk Hm]. exists k. split; [exact Hk|]. rewrite Hm. left. reflexivity.
Qed.

Lemma compare_In (local remote : list (key * N)) (k : key) (a : option N) (u : N) :
  In (k, (a, u)) (compare local remote) <->
  In (k, u) local /\
  match lookup k remote with
  | None => a = None
  | Some c => a = Some c /\ (c < u)%N
  end.
Proof.
  unfold compare. rewrite in_flat_map. split.
  - intros [[k' h] [Hl Hin]]. destruct (lookup k' remote) as [c|] eqn:L.
    + destruct (N.ltb_spec c h) as [Hlt|Hge]; [|destruct Hin].
      destruct Hin as [Heq|[]]. injection Heq as -> <- ->. split; [exact Hl|]. rewrite L. split; [reflexivity|exact Hlt].
    + destruct Hin as [Heq|[]]. injection Heq as -> <- ->. split; [exact Hl|]. rewrite L. reflexivity.
  - intros [Hl Hm]. exists (k, u). split; [exact Hl|].
    destruct (lookup k remote) as [c|].
    + destruct Hm as [-> Hlt]. apply N.ltb_lt in Hlt. rewrite Hlt. left. reflexivity.
    + subst a. left. reflexivity.
Qed.

(** [replay_entries] is, as a set, the comprehension [spec_replay]: a stored row of one of the
    topic's logs that lies above the cursor.  No invariant is needed: this holds for whatever a
    crash left in the tables. *)
Theorem replay_entries_In (d : durable) (r : row) :
  In r (replay_entries d) <->
  In r (rows d) /\ In (rkey r) (assoc d) /\ above_cursor d r = true.
Proof.
  unfold replay_entries, nacked_log_ranges. rewrite in_flat_map. split.
  - intros [[k [a u]] [Hc Hg]]. cbn [fst snd] in Hg.
    apply get_log_entries_In in Hg. destruct Hg as [Hin [Hk Hr]].
    apply compare_In in Hc. destruct Hc as [Hl Hm]. apply local_heights_In in Hl. destruct Hl as [Ha _].
    subst k. split; [exact Hin|]. split; [exact Ha|].
    unfold above_cursor. unfold in_range in Hr. apply andb_true_iff in Hr. destruct Hr as [Hr _].
    destruct (lookup (rkey r) (cursor d)) as [c|]; [|reflexivity].
    destruct Hm as [-> _]. exact Hr.
  - intros [Hin [Ha Hab]].
    destruct (max_seq_some (rows d) r Hin) as [h [Hh Hle]].
    unfold above_cursor in Hab.
    destruct (lookup (rkey r) (cursor d)) as [c|] eqn:L.
    + apply N.ltb_lt in Hab.
      exists (rkey r, (Some c, h)). split.
      * apply compare_In. split; [apply local_heights_In; split; assumption|]. rewrite L. split; [reflexivity|lia].
      * cbn [fst snd]. apply get_log_entries_In. split; [exact Hin|]. split; [reflexivity|].
        unfold in_range. apply andb_true_iff. split; [apply N.ltb_lt; exact Hab|apply N.leb_le; exact Hle].
    + exists (rkey r, (None, h)). split.
      * apply compare_In. split; [apply local_heights_In; split; assumption|]. rewrite L. reflexivity.
      * cbn [fst snd]. apply get_log_entries_In. split; [exact Hin|]. split; [reflexivity|].
        unfold in_range. cbn [andb]. apply N.leb_le. exact Hle.
Qed.

Lemma in_assoc_In (d : durable) (r : row) : in_assoc d r = true <-> In (rkey r) (assoc d).
Proof.
  unfold in_assoc. rewrite existsb_exists. split.
  - intros [k [Hk E]]. apply key_eqb_eq in E. rewrite E. exact Hk.
  - intros H. exists (rkey r). split; [exact H|apply key_eqb_refl].
Qed.

Theorem replay_entries_spec (d : durable) (r : row) :
  In r (replay_entries d) <-> In r (spec_replay d).
Proof.
  rewrite replay_entries_In. unfold spec_replay. rewrite filter_In, andb_true_iff, in_assoc_In. reflexivity.
Qed.

Lemma events_of_In (rs : list row) (k : ekind) (r : row) :
  In (k, r) (events_of rs) <-> In r rs /\ event_of r = Some k.
Proof.
  unfold events_of. rewrite in_flat_map. split.
  - intros [r' [Hin He]]. destruct (event_of r') as [k'|] eqn:E; [|destruct He].
    destruct He as [Heq|[]]. injection Heq as -> ->. split; assumption.
  - intros [Hin He]. exists r. split; [exact Hin|]. rewrite He. left. reflexivity.
Qed.

Theorem delivered_In (d : durable) (k : ekind) (r : row) :
  In (k, r) (delivered_on_restart d) <->
  In r (rows d) /\ In (rkey r) (assoc d) /\ event_of r = Some k /\ above_cursor d r = true.
Proof.
  unfold delivered_on_restart. rewrite events_of_In, replay_entries_In. intuition.
Qed.

(** Within one log the replay is in sequence order: every range is emitted sorted. *)
Theorem replay_ranges_sorted (d : durable) (k : key) (a : option N) (u : N) :
  Sorted seq_le (get_log_entries (rows d) k a u).
Proof. apply get_log_entries_sorted. Qed.

(** * Traces: invariants of the durable state *)

Section Trace.
Variable tlog : logid.

Lemma dexec_snoc (d : durable) (tr : list label) (l : label) :
  dexec tlog d (tr ++ [l]) = dstep tlog (dexec tlog d tr) l.
Proof. unfold dexec. rewrite fold_left_app. reflexivity. Qed.

Lemma dexec_app (d : durable) (t1 t2 : list label) :
  dexec tlog d (t1 ++ t2) = dexec tlog (dexec tlog d t1) t2.
Proof. unfold dexec. apply fold_left_app. Qed.

Lemma dur_step (s : state) (l : label) : dur (step tlog s l) = dstep tlog (dur s) l.
Proof. destruct l; reflexivity. Qed.

Lemma dur_exec (s : state) (tr : list label) : dur (exec tlog s tr) = dexec tlog (dur s) tr.
Proof.
  revert s. induction tr as [|l tr IH]; intro s; [reflexivity|].
  cbn [exec dexec fold_left]. change (fold_left (step tlog) tr (step tlog s l)) with (exec tlog (step tlog s l) tr).
  rewrite IH, dur_step. reflexivity.
Qed.

(** A crash loses exactly the volatile part. *)
Lemma crash_keeps_durable (s : state) :
  dur (step tlog s LCrash) = dur s /\ inflight (step tlog s LCrash) = [] /\ appq (step tlog s LCrash) = [].
Proof. repeat split. Qed.

Definition assoc_ok (d : durable) : Prop :=
  (forall r, In r (rows d) -> r_log r = tlog -> In (rkey r) (assoc d)) /\
  (forall k, In k (assoc d) -> snd k = tlog).

Lemma assoc_ok_empty : assoc_ok empty.
Proof. split; intros ? []. Qed.

Lemma prune_rows_In (k : key) (n : N) (rs : list row) (r : row) :
  In r (prune_rows k n rs) <-> In r rs /\ ~ (rkey r = k /\ (r_seq r < n)%N).
Proof.
  unfold prune_rows. rewrite filter_In, negb_true_iff, andb_false_iff, key_eqb_neq, N.ltb_ge.
  split; intros [H1 H2]; (split; [exact H1|]).
  - intros [E L]. destruct H2; [contradiction|lia].
  - destruct (key_eqb (rkey r) k) eqn:E.
    + apply key_eqb_eq in E. right. destruct (N.le_gt_cases n (r_seq r)); [assumption|]. exfalso. apply H2. split; assumption.
    + left. apply key_eqb_neq. exact E.
Qed.

Lemma assoc_ok_step (d : durable) (l : label) : assoc_ok d -> assoc_ok (dstep tlog d l).
Proof.
  intros [H1 H2]. destruct l as [r|k n|r|r|e| |]; try (split; assumption).
  - cbn [dstep]. split; cbn [rows assoc].
    + intros x Hin Hx. apply in_app_or in Hin. destruct Hin as [Hin|[->|[]]].
      * destruct (N.eqb (r_log r) tlog); [apply set_insert_In; right|]; apply H1; assumption.
      * apply N.eqb_eq in Hx. rewrite Hx. apply set_insert_In. left. reflexivity.
    + intros k Hk. destruct (N.eqb (r_log r) tlog) eqn:E; [|apply H2; exact Hk].
      apply set_insert_In in Hk. destruct Hk as [->|Hk]; [apply N.eqb_eq in E; exact E|apply H2; exact Hk].
  - cbn [dstep]. split; cbn [rows assoc]; [|exact H2].
    intros x Hin Hx. apply prune_rows_In in Hin. apply H1; [apply Hin|exact Hx].
  - cbn [dstep]. destruct (N.eqb (r_log r) tlog); split; assumption.
Qed.

Lemma assoc_ok_dexec (d : durable) (tr : list label) : assoc_ok d -> assoc_ok (dexec tlog d tr).
Proof.
  revert d. induction tr as [|l tr IH]; intros d H; [exact H|].
  cbn [dexec fold_left]. apply IH. apply assoc_ok_step. exact H.
Qed.

(** The cursor is, per log, the greatest acknowledged sequence number. *)
Definition cursor_ok (d : durable) (acked : list row) : Prop :=
  forall k, lookup k (cursor d) = max_seq acked k.

Lemma acked_of_snoc (tr : list label) (l : label) :
  acked_of tlog (tr ++ [l]) = acked_of tlog tr ++ acked_of tlog [l].
Proof. unfold acked_of. rewrite flat_map_app. reflexivity. Qed.

Lemma cursor_ok_step (d : durable) (acked : list row) (l : label) :
  cursor_ok d acked -> cursor_ok (dstep tlog d l) (acked ++ acked_of tlog [l]).
Proof.
  intros H k. destruct l as [r|k' n|r|r|e| |]; cbn [acked_of flat_map dstep cursor]; rewrite ?app_nil_r; try apply H.
  destruct (N.eqb (r_log r) tlog); cbn [app cursor]; rewrite ?app_nil_r; [|apply H].
  rewrite lookup_advance, max_seq_snoc. unfold mstep. rewrite (key_eqb_sym k (rkey r)).
  destruct (key_eqb (rkey r) k) eqn:E; [|apply H].
  apply key_eqb_eq in E. subst k. rewrite H. reflexivity.
Qed.

Lemma cursor_ok_trace (tr : list label) : cursor_ok (dexec tlog empty tr) (acked_of tlog tr).
Proof.
  induction tr as [|l tr IH] using rev_ind.
  - intros k. reflexivity.
  - rewrite dexec_snoc, acked_of_snoc. apply cursor_ok_step. exact IH.
Qed.

(** * Main theorems: the state after ANY trace, crashes anywhere *)

Definition after (tr : list label) : durable := dur (exec tlog init tr).

Lemma after_dexec (tr : list label) : after tr = dexec tlog empty tr.
Proof. unfold after. rewrite dur_exec. reflexivity. Qed.

Lemma after_assoc_ok (tr : list label) : assoc_ok (after tr).
Proof. rewrite after_dexec. apply assoc_ok_dexec, assoc_ok_empty. Qed.

(** replay_exact: what a restart from the frontier replays is exactly the stored operations of
    the topic's logs above the cursor. *)
Theorem replay_exact (tr : list label) (r : row) :
  In r (replay_entries (after tr)) <->
  In r (rows (after tr)) /\ r_log r = tlog /\ above_cursor (after tr) r = true.
Proof.
  rewrite replay_entries_In. destruct (after_assoc_ok tr) as [H1 H2]. split.
  - intros [Hin [Ha Hc]]. split; [exact Hin|]. split; [apply (H2 _ Ha)|exact Hc].
  - intros [Hin [Hl Hc]]. split; [exact Hin|]. split; [apply H1; assumption|exact Hc].
Qed.

(** ... and what reaches the application is exactly those of them that carry a body
    ([Processed] when it decodes, [DecodeFailed] otherwise). *)
Theorem delivered_exact (tr : list label) (k : ekind) (r : row) :
  In (k, r) (delivered_on_restart (after tr)) <->
  In r (rows (after tr)) /\ r_log r = tlog /\ event_of r = Some k /\ above_cursor (after tr) r = true.
Proof.
  unfold delivered_on_restart. rewrite events_of_In, replay_exact. intuition.
Qed.

Theorem cursor_is_max_acked (tr : list label) (k : key) :
  lookup k (cursor (after tr)) = max_seq (acked_of tlog tr) k.
Proof. rewrite after_dexec. apply cursor_ok_trace. Qed.

Lemma above_cursor_covered (tr : list label) (r : row) :
  above_cursor (after tr) r = negb (covered_by (acked_of tlog tr) r).
Proof.
  unfold above_cursor. rewrite cursor_is_max_acked.
  set (ak := acked_of tlog tr). clearbody ak.
  destruct (max_seq ak (rkey r)) as [c|] eqn:E.
  - destruct (N.ltb_spec c (r_seq r)) as [H|H]; symmetry.
    + apply negb_true_iff. unfold covered_by. apply not_true_is_false. intros Hex.
      apply existsb_exists in Hex. destruct Hex as [a [Hin Hb]]. apply andb_true_iff in Hb.
      destruct Hb as [Hk Hle]. apply key_eqb_eq in Hk. apply N.leb_le in Hle.
      pose proof (max_seq_ub ak (rkey r) c E a Hin Hk). lia.
    + apply negb_false_iff. unfold covered_by. apply existsb_exists.
      (* the maximum is attained *)
      assert (Hex : exists a, In a ak /\ rkey a = rkey r /\ r_seq a = c).
      { clear H. revert c E. induction ak as [|x ak IH] using rev_ind; intros c E; [discriminate|].
        rewrite max_seq_snoc in E. unfold mstep in E.
        destruct (key_eqb (rkey x) (rkey r)) eqn:Ek.
        - apply key_eqb_eq in Ek. injection E as E.
          destruct (max_seq ak (rkey r)) as [m|] eqn:Em; cbn [omax] in E.
          + destruct (N.max_spec m (r_seq x)) as [[_ Hm]|[_ Hm]]; rewrite Hm in E.
            * exists x. split; [apply in_or_app; right; left; reflexivity|]. split; assumption.
            * subst m. destruct (IH c eq_refl) as [a [Ha1 Ha2]]. exists a. split; [apply in_or_app; left; exact Ha1|exact Ha2].
          + exists x. split; [apply in_or_app; right; left; reflexivity|]. split; assumption.
        - destruct (IH c E) as [a [Ha1 Ha2]]. exists a. split; [apply in_or_app; left; exact Ha1|exact Ha2]. }
      destruct Hex as [a [Hin [Hk Hs]]]. exists a. split; [exact Hin|].
      apply andb_true_iff. split; [apply key_eqb_eq; exact Hk|apply N.leb_le; lia].
  - symmetry. apply negb_true_iff. unfold covered_by. apply not_true_is_false. intros Hex.
    apply existsb_exists in Hex. destruct Hex as [a [Hin Hb]]. apply andb_true_iff in Hb.
    destruct Hb as [Hk _]. apply key_eqb_eq in Hk. apply (max_seq_none_iff ak (rkey r) E a Hin Hk).
Qed.

(** The replay set is exactly "stored, of this topic, and not acknowledged - neither itself nor
    a later operation of the same log". *)
Theorem replay_iff_not_acked (tr : list label) (r : row) :
  In r (replay_entries (after tr)) <->
  In r (rows (after tr)) /\ r_log r = tlog /\
  ~ exists a, In a (acked_of tlog tr) /\ rkey a = rkey r /\ (r_seq r <= r_seq a)%N.
Proof.
  rewrite replay_exact, above_cursor_covered, negb_true_iff.
  assert (Hc : covered_by (acked_of tlog tr) r = false <->
               ~ exists a, In a (acked_of tlog tr) /\ rkey a = rkey r /\ (r_seq r <= r_seq a)%N).
  { unfold covered_by. split.
    - intros Hf [a [Hin [Hk Hle]]]. assert (Ht : existsb (fun a0 => key_eqb (rkey a0) (rkey r) && N.leb (r_seq r) (r_seq a0)) (acked_of tlog tr) = true).
      { apply existsb_exists. exists a. split; [exact Hin|]. apply andb_true_iff. split; [apply key_eqb_eq; exact Hk|apply N.leb_le; exact Hle]. }
      congruence.
    - intros Hn. apply not_true_is_false. intros Ht. apply Hn. apply existsb_exists in Ht.
      destruct Ht as [a [Hin Hb]]. apply andb_true_iff in Hb. destruct Hb as [Hk Hle].
      exists a. split; [exact Hin|]. split; [apply key_eqb_eq; exact Hk|apply N.leb_le; exact Hle]. }
  rewrite Hc. reflexivity.
Qed.

Lemma acked_of_In (tr : list label) (r : row) :
  In r (acked_of tlog tr) <-> In (LAck r) tr /\ r_log r = tlog.
Proof.
  unfold acked_of. rewrite in_flat_map. split.
  - intros [l [Hin Hl]]. destruct l as [x|k n|x|x|e| |]; try destruct Hl.
    destruct (N.eqb (r_log x) tlog) eqn:E; [|destruct Hl]. destruct Hl as [->|[]].
    split; [exact Hin|apply N.eqb_eq; exact E].
  - intros [Hin Hl]. exists (LAck r). split; [exact Hin|]. apply N.eqb_eq in Hl. rewrite Hl. left. reflexivity.
Qed.

(** acked_not_redelivered: once an acknowledgement of [a] was committed, no later restart -
    whatever happens in between, crashes included - replays [a] or an earlier operation of its log. *)
Theorem acked_not_redelivered (tr1 tr2 : list label) (a r : row) :
  In (LAck a) tr1 -> r_log a = tlog -> rkey r = rkey a -> (r_seq r <= r_seq a)%N ->
  ~ In r (replay_entries (after (tr1 ++ tr2))).
Proof.
  intros Hin Hl Hk Hle Hr. apply replay_iff_not_acked in Hr. destruct Hr as [_ [_ Hn]].
  apply Hn. exists a. split; [|split; [symmetry; exact Hk|exact Hle]].
  apply acked_of_In. split; [apply in_or_app; left; exact Hin|exact Hl].
Qed.

(** unacked_replayed: a stored operation with a decodable body that is not covered by any
    acknowledgement is delivered again as [Processed] by the next restart. *)
Theorem unacked_replayed (tr : list label) (r : row) :
  In r (rows (after tr)) -> r_log r = tlog -> r_body r = Body ->
  (forall a, In (LAck a) tr -> rkey a = rkey r -> (r_seq a < r_seq r)%N) ->
  In (Processed, r) (delivered_on_restart (after tr)).
Proof.
  intros Hin Hl Hb Hn. unfold delivered_on_restart. apply events_of_In. split.
  - apply replay_iff_not_acked. split; [exact Hin|]. split; [exact Hl|].
    intros [a [Ha [Hk Hle]]]. apply acked_of_In in Ha. destruct Ha as [Ha _].
    specialize (Hn a Ha Hk). lia.
  - unfold event_of. rewrite Hb. reflexivity.
Qed.

(** * API calls with a crash anywhere inside them are traces *)

(** A history: API calls, each either run to completion ([None]) or cut by a crash after [n]
    of its durable transitions ([Some n]). *)
Fixpoint trace_hist (p : policy) (me : author) (d : durable) (h : list (op * option nat)) : list label :=
  match h with
  | [] => []
  | (o, c) :: t =>
      let pl := plan tlog p me d o in
      let pl' := match c with None => pl | Some n => firstn n pl ++ [LCrash] end in
      pl' ++ trace_hist p me (dexec tlog d pl') t
  end.

Definition run_hist (p : policy) (me : author) (h : list (op * option nat)) : durable :=
  after (trace_hist p me empty h).

Lemma dexec_crash (d : durable) (tr : list label) : dexec tlog d (tr ++ [LCrash]) = dexec tlog d tr.
Proof. rewrite dexec_snoc. reflexivity. Qed.

(** Running the calls one after the other with [apply_op] (no cut) is the special case. *)
Lemma run_ops_trace (p : policy) (me : author) (d : durable) (os : list op) :
  run_ops tlog p me d os = dexec tlog d (trace_hist p me d (map (fun o => (o, None)) os)).
Proof.
  revert d. induction os as [|o os IH]; intro d; [reflexivity|].
  cbn [run_ops fold_left map trace_hist]. rewrite dexec_app.
  change (fold_left (apply_op tlog p me) os (apply_op tlog p me d o)) with (run_ops tlog p me (apply_op tlog p me d o) os).
  rewrite IH. reflexivity.
Qed.

(** Histories of API calls with crashes inside them are traces, so the characterisation of the
    replay set holds for the state they leave. *)
Theorem crash_anywhere_in_api_calls (p : policy) (me : author) (h : list (op * option nat)) (r : row) :
  In r (replay_entries (run_hist p me h)) <->
  In r (rows (run_hist p me h)) /\ r_log r = tlog /\
  ~ exists a, In a (acked_of tlog (trace_hist p me empty h)) /\ rkey a = rkey r /\ (r_seq r <= r_seq a)%N.
Proof. apply replay_iff_not_acked. Qed.

(** Every state of [cut_states] is the state after a prefix of the plan. *)
Lemma cut_states_In (p : policy) (me : author) (d : durable) (o : op) (lo : nat) (x : durable) :
  In x (cut_states tlog p me d o lo) ->
  exists n, lo <= n /\ x = dexec tlog d (firstn n (plan tlog p me d o)).
Proof.
  unfold cut_states. rewrite in_map_iff. intros [n [<- Hn]]. apply in_seq in Hn.
  exists n. split; [lia|reflexivity].
Qed.

(** The replay run to its end acknowledges what it delivered: under the automatic policy a
    second restart replays none of the operations the first one processed. *)
Theorem replay_then_restart (p : policy) (tr : list label) (r : row) :
  In r (replay_entries (after tr)) -> self_acks p r = true -> r_log r = tlog ->
  forall tr2, ~ In r (replay_entries (after (tr ++ replay_plan p (after tr) ++ tr2))).
Proof.
  intros Hin Hs Hl tr2. rewrite app_assoc.
  apply (acked_not_redelivered (tr ++ replay_plan p (after tr)) tr2 r r); [|exact Hl|reflexivity|lia].
  apply in_or_app. right. unfold replay_plan. apply in_flat_map. exists r. split; [exact Hin|].
  unfold process_labels. apply in_or_app. right. rewrite Hs. left. reflexivity.
Qed.

End Trace.

(** * Non-vacuity: a concrete history with crashes inside calls *)

Definition ex_hist : list (op * option nat) :=
  [ (OPublish 1%N true false, None);          (* stored, delivered, not acknowledged            *)
    (OPublish 2%N true false, Some 1%nat);    (* crash after the forge commit                   *)
    (OImport {| r_id := 3%N; r_author := 9%N; r_log := 7%N; r_seq := 0%N; r_body := Body; r_prune := false |}, None);
    (OAck 1%N, None);
    (OPublish 4%N false false, Some 1%nat) ]. (* body-less, crash before its automatic ack      *)

Example ex_replay :
  map (fun e => r_id (snd e)) (delivered_on_restart (run_hist 7%N Explicit 5%N ex_hist)) = [2; 3]%N.
Proof. vm_compute. reflexivity. Qed.

Example ex_replay_auto :
  map (fun e => r_id (snd e)) (delivered_on_restart (run_hist 7%N Automatic 5%N ex_hist)) = [2]%N.
Proof. vm_compute. reflexivity. Qed.

Example ex_acked : map r_id (acked_of 7%N (trace_hist 7%N Explicit 5%N empty ex_hist)) = [1]%N.
Proof. vm_compute. reflexivity. Qed.

(** Boundary of the property (not a violation of it): under the automatic policy the stream
    commits the acknowledgement BEFORE the event is handed to the application channel
    (stream.rs [process_operation] / [ack_published_operation]).  A crash in between leaves an
    operation that is stored, acknowledged, was never delivered and will not be replayed. *)
Definition ex_gap_row : row :=
  {| r_id := 1%N; r_author := 5%N; r_log := 7%N; r_seq := 0%N; r_body := Body; r_prune := false |}.
Definition ex_gap_trace : list label := [LStore ex_gap_row; LEnqueue ex_gap_row; LAck ex_gap_row; LCrash].

Example auto_ack_before_delivery_gap :
  let s := exec 7%N init ex_gap_trace in
  In ex_gap_row (rows (dur s)) /\ appq s = [] /\ ~ In (LDeliver) ex_gap_trace /\
  delivered_on_restart (dur s) = [].
Proof.
  vm_compute. repeat split; try reflexivity.
  - left. reflexivity.
  - intros H. repeat (destruct H as [H|H]; [discriminate H|]). exact H.
Qed.
