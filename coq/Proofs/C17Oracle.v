(** The C17 oracle accepts exactly what the theorem [never_stalls] predicts for the model. *)
From Coq Require Import List NArith Bool Arith Lia.
From PV Require Import Model.EphemeralSub Proofs.EphemeralSub Oracle.C17.
Import ListNotations.

Lemma eqb_listN_refl (a : list N) : eqb_listN a a = true.
Proof.
  unfold eqb_listN. rewrite Nat.eqb_refl. cbn [andb].
  induction a as [|x a IH]; [reflexivity|]. cbn [combine forallb fst snd]. rewrite N.eqb_refl. exact IH.
Qed.

Lemma eqb_llN_refl (a : list (list N)) : eqb_llN a a = true.
Proof.
  unfold eqb_llN. rewrite Nat.eqb_refl. cbn [andb].
  induction a as [|x a IH]; [reflexivity|]. cbn [combine forallb fst snd]. rewrite eqb_listN_refl. exact IH.
Qed.

Lemma eqb_listN_eq (a b : list N) : eqb_listN a b = true -> a = b.
Proof.
  unfold eqb_listN. revert b. induction a as [|x a IH]; intros [|y b] H; try reflexivity; try discriminate.
  cbn [length combine forallb fst snd] in H. apply andb_true_iff in H. destruct H as [L H].
  apply andb_true_iff in H. destruct H as [E H]. apply N.eqb_eq in E. subst.
  f_equal. apply IH. change (Nat.eqb (length a) (length b) = true) in L. rewrite L. exact H.
Qed.

Lemma eqb_llN_eq (a b : list (list N)) : eqb_llN a b = true -> a = b.
Proof.
  unfold eqb_llN. revert b. induction a as [|x a IH]; intros [|y b] H; try reflexivity; try discriminate.
  cbn [length combine forallb fst snd] in H. apply andb_true_iff in H. destruct H as [L H].
  apply andb_true_iff in H. destruct H as [E H]. apply eqb_listN_eq in E. subst.
  f_equal. apply IH. change (Nat.eqb (length a) (length b) = true) in L. rewrite L. exact H.
Qed.

(** Soundness: an accepted observation yields every retained valid message, in order. *)
Lemma check_sound (cap : nat) (phs : list (list item)) (c : bool) (ys : list (list N)) (fin stall : bool) :
  check cap phs c ys fin stall = true ->
  ys = expected cap phs /\ fin = c /\ stall = false.
Proof.
  unfold check. intros H. apply andb_true_iff in H. destruct H as [H S].
  apply andb_true_iff in H. destruct H as [Y F].
  apply eqb_llN_eq in Y. apply eqb_prop in F. destruct stall; [discriminate|]. auto.
Qed.

(** The repaired model always passes the oracle. *)
Lemma model_passes_check (cap : nat) (phs : list (list item)) (c : bool) :
  1 <= cap -> Forall no_lagged phs ->
  check cap phs c (snd (scenario poll_fixed cap phs c)) (finished (fst (scenario poll_fixed cap phs c))) false = true.
Proof.
  intros Hc Hn. pose proof (never_stalls cap phs c Hc Hn) as H.
  destruct (scenario poll_fixed cap phs c) as [s ys]. destruct H as [A [B [C D]]].
  cbn [fst snd]. unfold check. rewrite A, C, eqb_llN_refl, eqb_reflx. reflexivity.
Qed.
