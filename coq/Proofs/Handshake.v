(** Proofs about the topic handshake model (Model/Handshake.v) — property C25.

    Trusted assumptions (Section variables): the topic type [T] is arbitrary (no hypothesis on it).

    Main results
      [run_terminates]            either side returns within 16 machine steps in every environment
      [initiator_ok_iff] / [acceptor_ok_iff]
                                  complete characterisation of the successful runs: Ok iff the
                                  incoming items start with the honest transcript shape, no sink
                                  operation failed and the event receiver is alive; the acceptor's
                                  output is the topic carried by the first message
      [fault_gives_error]         every other environment yields Err (never Ok with some topic)
      [truncation_gives_closure], [substitution_gives_error]  the two fault families of the property
      [no_wait_after_close]       after the stream reported closure the machine performs no further
                                  action (no poll, send or event) and returns UnexpectedStreamClosure
      [honest_*]                  the two machines composed over FIFO channels: for every schedule
                                  no side errs, outputs are right, no deadlock, at most 20 steps. *)
From Coq Require Import List Arith Bool Lia.
From PV Require Import Model.Handshake.
Import ListNotations.

Section HandshakeProofs.
Variable T : Type.

Notation item := (item T).
Notation msg := (msg T).
Notation result := (result T).
Notation role := (role T).

Definition result_of (x : option result * env T * obs T) : option result := fst (fst x).
Definition obs_of (x : option result * env T * obs T) : obs T := snd x.

(** Sink operations each side performs on a complete run: initiator 5 (send, send, flush),
    acceptor 3 (send, flush). *)
Definition sink_faulty (nops : nat) (sf : option nat) : bool :=
  match sf with Some k => Nat.ltb k nops | None => false end.

Ltac ditem i := destruct i as [[?t|]|].
Ltac ditems l :=
  destruct l as [|?i l]; [| ditem i; (destruct l as [|?j l]; [| ditem j])].
Ltac dsf sf := destruct sf as [[|[|[|[|[|?k]]]]]|].

(** ** Termination *)
Theorem run_terminates : forall (r : role) items sf evo,
  exists res, result_of (run_side r (mkenv items sf evo)) = Some res.
Proof.
  intros r items sf evo. destruct r as [t|]; ditems items; dsf sf; destruct evo;
    cbv; eexists; reflexivity.
Qed.

(** ** Successful runs, characterised *)
Theorem initiator_ok_iff : forall t items sf evo o,
  result_of (run_side (Initiator t) (mkenv items sf evo)) = Some (Ok o) <->
  (o = None /\ (exists rest, items = IMsg Done :: rest) /\ sink_faulty 5 sf = false /\ evo = true).
Proof.
  intros t items sf evo o. split.
  - ditems items; dsf sf; destruct evo; cbv; intro H; try discriminate H;
      inversion H; subst; repeat split; eauto.
  - intros (-> & (rest & ->) & Hs & ->). dsf sf; cbv in Hs; try discriminate Hs; reflexivity.
Qed.

Theorem acceptor_ok_iff : forall items sf evo o,
  result_of (run_side Acceptor (mkenv items sf evo)) = Some (Ok o) <->
  (exists t', o = Some t' /\ (exists rest, items = IMsg (Topic t') :: IMsg Done :: rest)
              /\ sink_faulty 3 sf = false /\ evo = true).
Proof.
  intros items sf evo o. split.
  - ditems items; dsf sf; destruct evo; cbv; intro H; try discriminate H;
      inversion H; subst; eexists; repeat split; eauto.
  - intros (t' & -> & (rest & ->) & Hs & ->). dsf sf; cbv in Hs; try discriminate Hs; reflexivity.
Qed.

(** The acceptor never outputs a topic other than the one carried by the first message it
    received — under any fault whatsoever. *)
Corollary acceptor_output_is_received_topic : forall items sf evo t',
  result_of (run_side Acceptor (mkenv items sf evo)) = Some (Ok (Some t')) ->
  hd_error items = Some (IMsg (Topic t')).
Proof.
  intros items sf evo t' H. apply acceptor_ok_iff in H.
  destruct H as (t2 & E & (rest & ->) & _). inversion E; subst. reflexivity.
Qed.

(** ** Faults give errors *)
Definition clean (r : role) (items : list item) (sf : option nat) (evo : bool) : Prop :=
  match r with
  | Initiator _ => (exists rest, items = IMsg Done :: rest) /\ sink_faulty 5 sf = false /\ evo = true
  | Acceptor => (exists t' rest, items = IMsg (Topic t') :: IMsg Done :: rest) /\ sink_faulty 3 sf = false /\ evo = true
  end.

Theorem fault_gives_error : forall (r : role) items sf evo,
  ~ clean r items sf evo ->
  exists e, result_of (run_side r (mkenv items sf evo)) = Some (Err e).
Proof.
  intros r items sf evo Hn.
  destruct (run_terminates r items sf evo) as [res Hres].
  destruct res as [o|e]; [exfalso | eauto].
  apply Hn. destruct r as [t|].
  - apply initiator_ok_iff in Hres. destruct Hres as (_ & H1 & H2 & H3). repeat split; assumption.
  - apply acceptor_ok_iff in Hres. destruct Hres as (t' & _ & (rest & H1) & H2 & H3).
    repeat split; eauto.
Qed.

(** Truncation of the honest transcript after [k] messages (then the stream closes). *)
Theorem truncation_gives_closure_acceptor : forall t k, k < 2 ->
  result_of (run_side Acceptor (mkenv (firstn k (honest_to_acceptor t)) None true)) = Some (Err EClosure).
Proof. intros t k Hk. destruct k as [|[|k]]; [reflexivity | reflexivity | lia]. Qed.

Theorem truncation_gives_closure_initiator : forall t k, k < 1 ->
  result_of (run_side (Initiator t) (mkenv (firstn k honest_to_initiator) None true)) = Some (Err EClosure).
Proof. intros t k Hk. destruct k as [|k]; [reflexivity | lia]. Qed.

(** Substitution of message [k] of the honest transcript by a different item [x] (anything may
    follow).  The only substitution that does not produce an error is replacing the topic message
    by another topic message — then the acceptor outputs exactly that substituted topic (from its
    point of view this *is* the initiator's topic) or an error; it never outputs anything else. *)
Theorem substitution_gives_error_acceptor : forall t k h x rest,
  nth_error (honest_to_acceptor t) k = Some h -> x <> h ->
  let items := firstn k (honest_to_acceptor t) ++ x :: rest in
  (exists e, result_of (run_side Acceptor (mkenv items None true)) = Some (Err e)) \/
  (k = 0 /\ exists t', x = IMsg (Topic t') /\
     result_of (run_side Acceptor (mkenv items None true)) = Some (Ok (Some t'))).
Proof.
  intros t k h x rest Hn Hx items.
  destruct k as [|[|k]]; cbn in Hn.
  - inversion Hn; subst h. subst items. cbn [firstn app honest_to_acceptor].
    ditem x.
    + (* another topic *) ditems rest; try (left; eexists; reflexivity);
        right; (split; [reflexivity|]); eexists; split; reflexivity.
    + left; eexists; reflexivity.
    + left; eexists; reflexivity.
  - inversion Hn; subst h. subst items. cbn [firstn app honest_to_acceptor].
    ditem x; try (left; eexists; reflexivity). exfalso; apply Hx; reflexivity.
  - destruct k; discriminate Hn.
Qed.

Theorem substitution_gives_error_initiator : forall t k h x rest,
  nth_error (@honest_to_initiator T) k = Some h -> x <> h ->
  exists e, result_of (run_side (Initiator t) (mkenv (firstn k honest_to_initiator ++ x :: rest) None true))
            = Some (Err e).
Proof.
  intros t k h x rest Hn Hx. destruct k as [|k]; cbn in Hn.
  - inversion Hn; subst h. cbn [firstn app].
    ditem x; try (eexists; reflexivity). exfalso; apply Hx; reflexivity.
  - destruct k; discriminate Hn.
Qed.

(** ** Nothing happens after the stream reported closure *)
Definition is_close (x : action T * resp T) : bool :=
  match x with (ARecv, RItem None) => true | _ => false end.

Definition is_failed_ack (x : action T * resp T) : bool :=
  match x with (_, RAck false) => true | _ => false end.

Fixpoint stops_at (bad : action T * resp T -> bool) (tr : list (action T * resp T)) : bool :=
  match tr with
  | [] => true
  | x :: rest => if bad x then (match rest with [] => true | _ => false end) else stops_at bad rest
  end.

Lemma stops_at_spec : forall bad tr, stops_at bad tr = true ->
  forall pre x post, tr = pre ++ x :: post -> bad x = true -> post = [].
Proof.
  intros bad tr. induction tr as [|y tr IH]; intros Hs pre x post E Hb.
  - destruct pre; discriminate E.
  - destruct pre as [|p pre]; cbn in E; inversion E; subst.
    + cbn in Hs. rewrite Hb in Hs. destruct post; [reflexivity | discriminate Hs].
    + cbn in Hs. destruct (bad p).
      * destruct pre; discriminate Hs.
      * eapply IH; eauto.
Qed.

Lemma trace_stops_at_close : forall (r : role) items sf evo,
  stops_at is_close (trace (obs_of (run_side r (mkenv items sf evo)))) = true.
Proof.
  intros r items sf evo. destruct r as [t|]; ditems items; dsf sf; destruct evo; reflexivity.
Qed.

Lemma trace_stops_at_failure : forall (r : role) items sf evo,
  stops_at is_failed_ack (trace (obs_of (run_side r (mkenv items sf evo)))) = true.
Proof.
  intros r items sf evo. destruct r as [t|]; ditems items; dsf sf; destruct evo; reflexivity.
Qed.

Lemma close_in_trace_gives_closure : forall (r : role) items sf evo,
  existsb is_close (trace (obs_of (run_side r (mkenv items sf evo)))) = true ->
  result_of (run_side r (mkenv items sf evo)) = Some (Err EClosure).
Proof.
  intros r items sf evo. destruct r as [t|]; ditems items; dsf sf; destruct evo; cbv;
    intro H; try discriminate H; reflexivity.
Qed.

Theorem no_wait_after_close : forall (r : role) items sf evo pre post,
  trace (obs_of (run_side r (mkenv items sf evo))) = pre ++ (ARecv, RItem None) :: post ->
  post = [] /\ result_of (run_side r (mkenv items sf evo)) = Some (Err EClosure).
Proof.
  intros r items sf evo pre post E. split.
  - eapply stops_at_spec; [apply trace_stops_at_close | exact E | reflexivity].
  - apply close_in_trace_gives_closure. rewrite E. rewrite existsb_app. cbn. apply orb_true_r.
Qed.

(** After a failed sink operation or a failed event send, likewise nothing more is done. *)
Theorem no_action_after_failure : forall (r : role) items sf evo pre a post,
  trace (obs_of (run_side r (mkenv items sf evo))) = pre ++ (a, RAck false) :: post -> post = [].
Proof.
  intros r items sf evo pre a post E.
  eapply stops_at_spec; [apply trace_stops_at_failure | exact E | reflexivity].
Qed.

(** The stream is polled at most once more than it has items (never again after [None]). *)
Definition recv_count (tr : list (action T * resp T)) : nat :=
  length (filter (fun x => match fst x with ARecv => true | _ => false end) tr).

Theorem polls_bounded : forall (r : role) items sf evo,
  recv_count (trace (obs_of (run_side r (mkenv items sf evo)))) <= 2 /\
  recv_count (trace (obs_of (run_side r (mkenv items sf evo)))) <= S (length items).
Proof.
  intros r items sf evo. destruct r as [t|]; ditems items; dsf sf; destruct evo; cbv; lia.
Qed.

(** ** The honest pair, every schedule *)

(** State of the initiator / acceptor after [n] successful steps on the honest path. *)
Definition stI (n : nat) : state T := if Nat.ltb n 10 then Run n None else Fin (Ok None).
Definition stA (t : T) (n : nat) : state T :=
  if Nat.ltb n 2 then Run n None else if Nat.ltb n 10 then Run n (Some t) else Fin (Ok (Some t)).

Definition sentI (t : T) (n : nat) : list item :=
  (if Nat.ltb 1 n then [IMsg (Topic t)] else []) ++ (if Nat.ltb 4 n then [IMsg Done] else []).
Definition sentA (n : nat) : list item := if Nat.ltb 3 n then [IMsg (@Done T)] else [].
Definition readI (n : nat) : nat := if Nat.ltb 3 n then 1 else 0.
Definition readA (n : nat) : nat := (if Nat.ltb 1 n then 1 else 0) + (if Nat.ltb 5 n then 1 else 0).
Definition evsI (t : T) (n : nat) : list (event T) :=
  (if Nat.ltb 0 n then [EvInitiate t] else []) ++ (if Nat.ltb 6 n then [EvDone t] else []).
Definition evsA (t : T) (n : nat) : list (event T) :=
  (if Nat.ltb 0 n then [EvAccept] else []) ++ (if Nat.ltb 2 n then [EvTopicReceived t] else [])
  ++ (if Nat.ltb 6 n then [EvDone t] else []).

(** The unique configuration with the initiator [i] steps and the acceptor [a] steps in. *)
Definition canon (t : T) (i a : nat) : pstate T :=
  {| sI := stI i; sA := stA t a;
     cIA := {| q := skipn (readA a) (sentI t i); pushed := length (sentI t i) |};
     cAI := {| q := skipn (readI i) (sentA a); pushed := length (sentA a) |};
     evI := evsI t i; evA := evsA t a |}.

(** Reachable step counts: nobody has read more than the other side sent. *)
Definition validp (t : T) (i a : nat) : bool :=
  Nat.leb i 10 && Nat.leb a 10 && Nat.leb (readA a) (length (sentI t i)) && Nat.leb (readI i) (length (sentA a)).

Ltac dnat n := destruct n as [|[|[|[|[|[|[|[|[|[|[|?n]]]]]]]]]]].

Lemma canon_step_I : forall t i a, validp t i a = true ->
  match pstep t NoMitm SI (canon t i a) with
  | Some p' => p' = canon t (S i) a /\ validp t (S i) a = true
  | None => i = 10 \/ (i = 3 /\ a <= 3)
  end.
Proof.
  intros t i a Hv. dnat i; dnat a; try discriminate Hv; cbv; try (split; reflexivity); lia.
Qed.

Lemma canon_step_A : forall t i a, validp t i a = true ->
  match pstep t NoMitm SA (canon t i a) with
  | Some p' => p' = canon t i (S a) /\ validp t i (S a) = true
  | None => a = 10 \/ (a = 1 /\ i <= 1) \/ (a = 5 /\ i <= 4)
  end.
Proof.
  intros t i a Hv. dnat i; dnat a; try discriminate Hv; cbv; try (split; reflexivity); lia.
Qed.

(** Invariant: every state reachable under any schedule is a canonical one. *)
Definition Inv (t : T) (p : pstate T) : Prop := exists i a, validp t i a = true /\ p = canon t i a.

Lemma inv_init : forall t, Inv t pinit.
Proof. intro t. exists 0, 0. split; reflexivity. Qed.

Lemma inv_step : forall t w p, Inv t p -> Inv t (match pstep t NoMitm w p with Some p' => p' | None => p end).
Proof.
  intros t w p (i & a & Hv & ->). destruct w.
  - pose proof (canon_step_I t i a Hv) as H. destruct (pstep t NoMitm SI (canon t i a)).
    + destruct H as [-> Hv']. exists (S i), a. split; [assumption | reflexivity].
    + exists i, a. split; [assumption | reflexivity].
  - pose proof (canon_step_A t i a Hv) as H. destruct (pstep t NoMitm SA (canon t i a)).
    + destruct H as [-> Hv']. exists i, (S a). split; [assumption | reflexivity].
    + exists i, a. split; [assumption | reflexivity].
Qed.

Lemma inv_prun : forall t sched p, Inv t p -> Inv t (prun t NoMitm sched p).
Proof.
  intros t sched. induction sched as [|w r IH]; intros p Hp; cbn [prun]; [assumption|].
  apply IH. apply inv_step. assumption.
Qed.

(** Safety under every schedule: no side ever holds an error, a returned acceptor holds exactly
    the initiator's topic, a returned initiator holds [Ok ()]. *)
Definition no_error (s : state T) : Prop := forall e, s <> Fin (Err e).

Theorem honest_safe : forall (t : T) sched,
  let p := prun t NoMitm sched pinit in
  no_error (sI p) /\ no_error (sA p) /\
  (forall o, sA p = Fin (Ok o) -> o = Some t) /\
  (forall o, sI p = Fin (Ok o) -> o = None).
Proof.
  intros t sched p. destruct (inv_prun t sched pinit (inv_init t)) as (i & a & Hv & E).
  fold p in E. rewrite E. cbn [sI sA canon]. repeat split.
  - intros e. unfold stI. destruct (Nat.ltb i 10); discriminate.
  - intros e. unfold stA. destruct (Nat.ltb a 2); [discriminate|]. destruct (Nat.ltb a 10); discriminate.
  - intros o. unfold stA. destruct (Nat.ltb a 2); [discriminate|]. destruct (Nat.ltb a 10); [discriminate|].
    intro H; inversion H; reflexivity.
  - intros o. unfold stI. destruct (Nat.ltb i 10); [discriminate|].
    intro H; inversion H; reflexivity.
Qed.

(** No deadlock: if neither side can move, both have returned Ok (with the right outputs). *)
Theorem honest_no_deadlock : forall (t : T) sched,
  let p := prun t NoMitm sched pinit in
  stuck t NoMitm p = true -> sI p = Fin (Ok None) /\ sA p = Fin (Ok (Some t)).
Proof.
  intros t sched p. destruct (inv_prun t sched pinit (inv_init t)) as (i & a & Hv & E).
  fold p in E. rewrite E. unfold stuck.
  pose proof (canon_step_I t i a Hv) as HI. pose proof (canon_step_A t i a Hv) as HA.
  destruct (pstep t NoMitm SI (canon t i a)); [discriminate|].
  destruct (pstep t NoMitm SA (canon t i a)); [discriminate|].
  intros _.
  assert (i = 10 /\ a = 10) as [-> ->].
  { unfold validp in Hv. dnat i; dnat a; cbv in Hv; try discriminate Hv; lia. }
  split; reflexivity.
Qed.

(** Progress measure: every effective step advances exactly one side by one statement, and no
    side has more than 10, so every schedule performs at most 20 effective steps; a schedule that
    keeps choosing an enabled side therefore ends — by [honest_no_deadlock] — with both Ok. *)
Definition steps_done (t : T) (p : pstate T) (n : nat) : Prop :=
  exists i a, validp t i a = true /\ p = canon t i a /\ n = i + a.

Theorem honest_bounded : forall t w p n, steps_done t p n ->
  match pstep t NoMitm w p with
  | Some p' => steps_done t p' (S n) /\ S n <= 20
  | None => True
  end.
Proof.
  intros t w p n (i & a & Hv & -> & ->). destruct w.
  - pose proof (canon_step_I t i a Hv) as H. destruct (pstep t NoMitm SI (canon t i a)); [|exact I].
    destruct H as [-> Hv']. split.
    + exists (S i), a. repeat split; try assumption; try lia.
    + unfold validp in Hv'. dnat i; dnat a; cbv in Hv'; try discriminate Hv'; lia.
  - pose proof (canon_step_A t i a Hv) as H. destruct (pstep t NoMitm SA (canon t i a)); [|exact I].
    destruct H as [-> Hv']. split.
    + exists i, (S a). repeat split; try assumption; try lia.
    + unfold validp in Hv'. dnat i; dnat a; cbv in Hv'; try discriminate Hv'; lia.
Qed.

Lemma effective_bounded_from : forall t sched p n, steps_done t p n -> n + effective t NoMitm sched p <= 20.
Proof.
  intros t sched. induction sched as [|w r IH]; intros p n Hs; cbn [effective].
  - destruct Hs as (i & a & Hv & _ & ->). unfold validp in Hv.
    dnat i; dnat a; cbv in Hv; try discriminate Hv; lia.
  - pose proof (honest_bounded t w p n Hs) as H. destruct (pstep t NoMitm w p).
    + destruct H as [Hs' _]. specialize (IH _ _ Hs'). lia.
    + apply IH. assumption.
Qed.

(** Every schedule performs at most 20 effective steps (10 statements per side). *)
Theorem honest_effective_bounded : forall (t : T) sched, effective t NoMitm sched pinit <= 20.
Proof.
  intros t sched. apply (effective_bounded_from t sched pinit 0).
  exists 0, 0. repeat split.
Qed.

(** The canonical run (round robin): both complete, acceptor outputs the initiator's topic. *)
Theorem honest_run : forall (t : T),
  let p := pair t NoMitm in
  sI p = Fin (Ok None) /\ sA p = Fin (Ok (Some t)) /\
  evI p = [EvInitiate t; EvDone t] /\ evA p = [EvAccept; EvTopicReceived t; EvDone t] /\
  stuck t NoMitm p = true.
Proof. intro t. cbv. repeat split. Qed.

(** Every single-direction truncation of the pair makes the side whose input was cut return an
    error (round-robin run; [k] below the number of messages of that direction). *)
Theorem pair_truncation : forall (t : T),
  (forall k, k < 2 -> exists e, sA (pair t (Truncate ItoA k)) = Fin (Err e)) /\
  (exists e, sI (pair t (Truncate AtoI 0)) = Fin (Err e)).
Proof.
  intro t. split.
  - intros k Hk. destruct k as [|[|k]]; [cbv; eexists; reflexivity | cbv; eexists; reflexivity | lia].
  - cbv; eexists; reflexivity.
Qed.

End HandshakeProofs.

Arguments result_of {T}. Arguments obs_of {T}. Arguments clean {T}.

(** Non-vacuity: the hypotheses of the main theorems are satisfiable by non-trivial values. *)
Example ex_clean_acceptor :
  clean Acceptor [IMsg (Topic 7); IMsg Done] None true /\
  result_of (run_side Acceptor (mkenv [IMsg (Topic 7); IMsg Done] None true)) = Some (Ok (Some 7)).
Proof. split; [cbn; repeat split; eauto | reflexivity]. Qed.

Example ex_fault_sink :
  ~ clean (Initiator 3) [IMsg Done] (Some 2) true /\
  result_of (run_side (Initiator 3) (mkenv [IMsg Done] (Some 2) true)) = Some (Err ESink).
Proof. split; [cbn; intros (_ & H & _); discriminate H | reflexivity]. Qed.

Example ex_close_trace :
  trace (obs_of (run_side Acceptor (mkenv [IMsg (Topic 5)] None true)))
  = [(AEmit EvAccept, RAck true); (ARecv, RItem (Some (IMsg (Topic 5)))); (AEmit (EvTopicReceived 5), RAck true);
     (AStart Done, RAck true); (AFlush, RAck true)] ++ (ARecv, RItem None) :: [].
Proof. reflexivity. Qed.

Example ex_subst_topic :
  result_of (run_side Acceptor (mkenv (firstn 0 (honest_to_acceptor 1) ++ IMsg (Topic 2) :: [IMsg Done]) None true))
  = Some (Ok (Some 2)).
Proof. reflexivity. Qed.

Example ex_schedule :
  stuck 4 NoMitm (prun 4 NoMitm [SA; SA; SI; SI; SI; SA; SA; SA; SA; SI; SI; SI; SI; SI; SI; SI; SI; SA; SA; SA; SA; SA; SA] pinit) = true.
Proof. reflexivity. Qed.
