(** Proofs about the message-ratchet model (C34). *)
From Coq Require Import List NArith Bool Lia.
From PV Require Import Lib.NList Model.Ratchet.
Import ListNotations.
Local Open Scope N_scope.

Section RatchetProofs.
  Variables (S K : Type).
  Variable chain : S -> S.
  Variable km : S -> K.
  Variable s0 : S.

  Notation rs := (rs S).
  Notation ds := (ds S K).
  Notation ratchet_forward := (ratchet_forward S K chain km).
  Notation push1 := (push1 S K chain km).
  Notation sfd := (secret_for_decryption S K chain km).
  Notation run := (run S K chain km).
  Notation sender := (sender S K chain km).

  (** Secret of generation [n]: the free term [chain^n s0]. *)
  Definition sec (n : N) : S := N.iter n chain s0.

  Lemma sec_succ n : sec (n + 1) = chain (sec n).
  Proof. unfold sec. rewrite N.add_1_r. apply N.iter_succ. Qed.

  Definition gen (y : ds) : N := r_gen (head y).

  (** Invariant for arbitrary (even changing) window parameters.  [U] = generations handed out. *)
  Definition Inv (b : N) (U : list N) (y : ds) : Prop :=
    r_secret (head y) = sec (gen y) /\
    b <= gen y /\
    (forall i k, nthN (past y) i = Some (Some k) ->
       i + b < gen y /\ k = km (sec (gen y - 1 - i)) /\ ~ In (gen y - 1 - i) U) /\
    (forall g, In g U -> g < gen y) /\
    NoDup U.

  (** Every [None] slot of the window is a generation that was handed out. *)
  Definition NoneUsed (U : list N) (y : ds) : Prop :=
    forall i, nthN (past y) i = Some None -> i < gen y /\ In (gen y - 1 - i) U.

  Lemma Inv_init b : Inv b [] (ds_at b (sec b)).
  Proof.
    unfold Inv, gen. cbn [ds_at head past rs_at r_secret r_gen].
    repeat split; try lia; try (intros; discriminate); try (intros ? []). constructor.
  Qed.

  Lemma rf_some y y' g k :
    ratchet_forward y = Some (y', g, k) ->
    r_gen y <> U32MAX /\ y' = {| r_secret := chain (r_secret y); r_gen := r_gen y + 1 |} /\
    g = r_gen y /\ k = km (r_secret y).
  Proof.
    unfold Ratchet.ratchet_forward. destruct (N.eqb_spec (r_gen y) U32MAX); [discriminate|].
    intros H. injection H as <- <- <-. auto.
  Qed.

  Lemma rf_none y : ratchet_forward y = None -> r_gen y = U32MAX.
  Proof.
    unfold Ratchet.ratchet_forward. destruct (N.eqb_spec (r_gen y) U32MAX); [auto|discriminate].
  Qed.

  (** One loop iteration keeps the invariant (with the same used set) and moves the head by 1. *)
  Lemma push1_inv b U y y' :
    Inv b U y -> push1 (Some y) = Some y' ->
    Inv b U y' /\ gen y' = gen y + 1 /\ past y' = Some (km (sec (gen y))) :: past y.
  Proof.
    intros (Hs & Hb & Hp & Hu & Hn) H. cbn [Ratchet.push1] in H.
    destruct (ratchet_forward (head y)) as [[[h' g0] k0]|] eqn:E; [|discriminate].
    apply rf_some in E. destruct E as (_ & -> & -> & ->). injection H as <-.
    unfold Inv, gen in *. cbn [head past r_gen r_secret].
    rewrite Hs. repeat split; try lia.
    - now rewrite sec_succ.
    - destruct (N.eq_dec i 0) as [->|Hi].
      + lia.
      + rewrite nthN_cons_pos in H by lia. apply Hp in H. lia.
    - destruct (N.eq_dec i 0) as [->|Hi].
      + rewrite nthN_cons_0 in H. injection H as <-. f_equal. f_equal. lia.
      + rewrite nthN_cons_pos in H by lia. apply Hp in H. destruct H as (? & -> & ?).
        f_equal. f_equal. lia.
    - destruct (N.eq_dec i 0) as [->|Hi].
      + intros HI. apply Hu in HI. lia.
      + rewrite nthN_cons_pos in H by lia. apply Hp in H. destruct H as (? & ? & HN).
        replace (r_gen (head y) + 1 - 1 - i) with (r_gen (head y) - 1 - (i - 1)) by lia. exact HN.
    - intros g HI. apply Hu in HI. lia.
    - exact Hn.
  Qed.

  Lemma push1_noneused U y y' :
    NoneUsed U y -> push1 (Some y) = Some y' -> NoneUsed U y'.
  Proof.
    intros HN H. cbn [Ratchet.push1] in H.
    destruct (ratchet_forward (head y)) as [[[h' g0] k0]|] eqn:E; [|discriminate].
    apply rf_some in E. destruct E as (_ & -> & -> & ->). injection H as <-.
    unfold NoneUsed, gen in *. cbn [head past r_gen]. intros i Hi.
    destruct (N.eq_dec i 0) as [->|Hi0].
    - rewrite nthN_cons_0 in Hi. discriminate.
    - rewrite nthN_cons_pos in Hi by lia. apply HN in Hi. destruct Hi as [L I]. split; [lia|].
      replace (r_gen (head y) + 1 - 1 - i) with (r_gen (head y) - 1 - (i - 1)) by lia. exact I.
  Qed.

  Lemma iter_push1 b U y n :
    Inv b U y ->
    forall y1, N.iter n push1 (Some y) = Some y1 ->
      Inv b U y1 /\ gen y1 = gen y + n /\ lenN (past y1) = lenN (past y) + n /\
      (NoneUsed U y -> NoneUsed U y1).
  Proof.
    intros HI.
    apply (N.iter_ind _ push1 (Some y)
             (fun n o => forall y1, o = Some y1 ->
                Inv b U y1 /\ gen y1 = gen y + n /\ lenN (past y1) = lenN (past y) + n /\
                (NoneUsed U y -> NoneUsed U y1))).
    - intros y1 E. injection E as <-. split; [exact HI|]. split; [lia|]. split; [lia|auto].
    - intros m o IH y1 E. destruct o as [y0|]; [|discriminate].
      destruct (IH y0 eq_refl) as (I0 & G0 & L0 & N0).
      destruct (push1_inv b U y0 y1 I0 E) as (I1 & G1 & P1).
      split; [exact I1|]. split; [lia|]. split.
      + rewrite P1, lenN_cons. lia.
      + intros HN. exact (push1_noneused U y0 y1 (N0 HN) E).
  Qed.

  (** A panic of the forward loop means the requested generation is [u32::MAX] or beyond. *)
  Lemma iter_push1_none b U y n :
    Inv b U y -> N.iter n push1 (Some y) = None -> U32MAX < gen y + n.
  Proof.
    intros HI.
    apply (N.iter_ind _ push1 (Some y)
             (fun n o => (forall y1, o = Some y1 -> gen y1 = gen y + n) /\
                         (o = None -> U32MAX < gen y + n))).
    - split; [intros y1 E; injection E as <-; lia|discriminate].
    - intros m o [IHs IHn]. split.
      + intros y1 E. destruct o as [y0|]; [|discriminate].
        cbn [Ratchet.push1] in E.
        destruct (ratchet_forward (head y0)) as [[[h' g0] k0]|] eqn:E0; [|discriminate].
        apply rf_some in E0. destruct E0 as (_ & -> & _ & _). injection E as <-.
        unfold gen in *. cbn [head r_gen]. rewrite (IHs y0 eq_refl). lia.
      + intros E. destruct o as [y0|].
        * cbn [Ratchet.push1] in E.
          destruct (ratchet_forward (head y0)) as [[[h' g0] k0]|] eqn:E0; [discriminate|].
          apply rf_none in E0. specialize (IHs y0 eq_refl). unfold gen in *. lia.
        * specialize (IHn eq_refl). lia.
  Qed.

  (** * One request *)

  Lemma step_inv b U y g fwd ooo :
    Inv b U y ->
    match snd (sfd y g fwd ooo) with
    | ROk k => k = km (sec g) /\ Inv b (g :: U) (fst (sfd y g fwd ooo))
    | _ => fst (sfd y g fwd ooo) = y
    end.
  Proof.
    intros HI. unfold Ratchet.secret_for_decryption. fold (gen y).
    destruct ((gen y <? U32MAX - fwd) && (gen y + fwd <? g)); [reflexivity|].
    destruct ((g <? gen y) && (ooo <? gen y - g)); [reflexivity|].
    destruct (N.leb_spec (gen y) g) as [Hge|Hlt].
    - destruct (N.iter (g - gen y) push1 (Some y)) as [y1|] eqn:E1; [|reflexivity].
      destruct (iter_push1 b U y (g - gen y) HI y1 E1) as (I1 & G1 & _ & _).
      destruct (ratchet_forward (head y1)) as [[[h' g0] k0]|] eqn:E2; [|reflexivity].
      apply rf_some in E2. destruct E2 as (_ & -> & _ & ->).
      cbn [fst snd]. destruct I1 as (Hs & Hb & Hp & Hu & Hn).
      assert (Hg : gen y1 = g) by lia.
      split; [now rewrite Hs, Hg|].
      unfold Inv, gen in *. cbn [head past r_gen r_secret].
      rewrite Hs, Hg. repeat split; try lia.
      + now rewrite sec_succ.
      + apply nthN_truncN in H. destruct (N.eq_dec i 0) as [->|Hi]; [discriminate|].
        rewrite nthN_cons_pos in H by lia. apply Hp in H. lia.
      + apply nthN_truncN in H. destruct (N.eq_dec i 0) as [->|Hi]; [discriminate|].
        rewrite nthN_cons_pos in H by lia. apply Hp in H. destruct H as (? & -> & ?).
        f_equal. f_equal. lia.
      + apply nthN_truncN in H. destruct (N.eq_dec i 0) as [->|Hi]; [discriminate|].
        rewrite nthN_cons_pos in H by lia. apply Hp in H. destruct H as (L & _ & HN).
        intros [HE|HI']; [lia|].
        apply HN. replace (r_gen (head y1) - 1 - (i - 1)) with (g + 1 - 1 - i) by lia. exact HI'.
      + intros g' [<-|HI']; [lia|]. apply Hu in HI'. lia.
      + constructor; [|exact Hn]. intros HI'. apply Hu in HI'. lia.
    - destruct (gen y - g =? I32LIM); [reflexivity|].
      destruct (I32LIM <? gen y - g); [reflexivity|].
      destruct (nthN (past y) (gen y - g - 1)) as [[k|]|] eqn:E; try reflexivity.
      cbn [fst snd]. destruct HI as (Hs & Hb & Hp & Hu & Hn).
      destruct (Hp _ _ E) as (L & -> & HN).
      replace (gen y - 1 - (gen y - g - 1)) with g in * by lia.
      split; [reflexivity|].
      unfold Inv, gen in *. cbn [head past].
      repeat split; try lia; auto.
      + destruct (N.eq_dec i (r_gen (head y) - g - 1)) as [->|Hi].
        * rewrite nthN_setN_same in H; [discriminate|]. eapply nthN_some_lt; eauto.
        * rewrite nthN_setN_other in H by auto. apply Hp in H. lia.
      + destruct (N.eq_dec i (r_gen (head y) - g - 1)) as [->|Hi].
        * rewrite nthN_setN_same in H; [discriminate|]. eapply nthN_some_lt; eauto.
        * rewrite nthN_setN_other in H by auto. apply Hp in H. tauto.
      + destruct (N.eq_dec i (r_gen (head y) - g - 1)) as [->|Hi].
        * rewrite nthN_setN_same in H; [discriminate|]. eapply nthN_some_lt; eauto.
        * rewrite nthN_setN_other in H by auto. apply Hp in H. destruct H as (L' & _ & HN').
          intros [HE|HI']; [lia|]. auto.
      + intros g' [<-|HI']; [lia|]. auto.
      + constructor; auto.
  Qed.

  (** Generations that were answered with key material, in request order. *)
  Fixpoint ok_gens (rqs : list (N * N * N)) (os : list (@res K)) : list N :=
    match rqs, os with
    | rq :: a, o :: c =>
        match o with ROk _ => rq_g rq :: ok_gens a c | _ => ok_gens a c end
    | _, _ => []
    end.

  Lemma run_inv : forall rqs b U y,
    Inv b U y ->
    Forall2 (fun rq o => forall k, o = ROk k -> k = km (sec (rq_g rq))) rqs (snd (run y rqs)) /\
    Inv b (rev (ok_gens rqs (snd (run y rqs))) ++ U) (fst (run y rqs)).
  Proof.
    induction rqs as [|[[g fwd] ooo] rqs IH]; intros b U y HI.
    - cbn [Ratchet.run fst snd ok_gens rev app]. split; [constructor|exact HI].
    - cbn [Ratchet.run]. pose proof (step_inv b U y g fwd ooo HI) as HS.
      destruct (sfd y g fwd ooo) as [y1 o] eqn:E1. cbn [fst snd] in HS.
      destruct (run y1 rqs) as [y2 os] eqn:E2. cbn [fst snd].
      destruct o as [k| |].
      + destruct HS as [Hk HI1]. specialize (IH b (g :: U) y1 HI1). rewrite E2 in IH.
        cbn [fst snd] in IH. destruct IH as [F I2]. split.
        * constructor; [|exact F]. intros k' Ek. injection Ek as <-. exact Hk.
        * cbn [ok_gens rq_g fst rev]. rewrite <- app_assoc. exact I2.
      + subst y1. specialize (IH b U y HI). rewrite E2 in IH. cbn [fst snd] in IH.
        destruct IH as [F I2]. split; [constructor; [discriminate|exact F]|exact I2].
      + subst y1. specialize (IH b U y HI). rewrite E2 in IH. cbn [fst snd] in IH.
        destruct IH as [F I2]. split; [constructor; [discriminate|exact F]|exact I2].
  Qed.

  (** ** Main theorems, any window parameters (even changing between requests) *)

  Theorem key_correct b rqs :
    Forall2 (fun rq o => forall k, o = ROk k -> k = km (sec (rq_g rq)))
            rqs (snd (run (ds_at b (sec b)) rqs)).
  Proof. exact (proj1 (run_inv rqs b [] _ (Inv_init b))). Qed.

  Theorem at_most_once b rqs :
    NoDup (ok_gens rqs (snd (run (ds_at b (sec b)) rqs))).
  Proof.
    destruct (run_inv rqs b [] _ (Inv_init b)) as [_ (_ & _ & _ & _ & HN)].
    rewrite app_nil_r in HN. apply NoDup_rev in HN. now rewrite rev_involutive in HN.
  Qed.

  (** The sender's [n]-th key is [km (chain^(b+n) s0)] with generation number [b + n]. *)
  Theorem sender_keys : forall n b i g k,
    nth_error (sender (rs_at b (sec b)) n) i = Some (g, k) ->
    g = b + N.of_nat i /\ k = km (sec g).
  Proof.
    induction n as [|n IH]; intros b i g k H.
    - destruct i; discriminate.
    - cbn [Ratchet.sender] in H.
      destruct (ratchet_forward (rs_at b (sec b))) as [[[y' g0] k0]|] eqn:E; [|destruct i; discriminate].
      apply rf_some in E. cbn [rs_at r_gen r_secret] in E. destruct E as (_ & -> & -> & ->).
      destruct i as [|i].
      + cbn in H. injection H as <- <-. split; [lia|reflexivity].
      + cbn [nth_error] in H. rewrite <- sec_succ in H.
        apply (IH (b + 1) i g k) in H. rewrite Nat2N.inj_succ. destruct H as [-> ->]. split; [lia|reflexivity].
  Qed.

  (** * Fixed configuration: refinement to the window/used-set specification *)

  Definition Inv2 (b ooo : N) (U : list N) (y : ds) : Prop :=
    Inv b U y /\ NoneUsed U y /\ lenN (past y) = N.min (gen y - b) ooo.

  Lemma Inv2_init b ooo : Inv2 b ooo [] (ds_at b (sec b)).
  Proof.
    split; [apply Inv_init|]. split.
    - intros i H. discriminate.
    - unfold gen. cbn [ds_at head past rs_at r_gen]. unfold lenN. cbn [length]. lia.
  Qed.

  Lemma memN_In x l : memN x l = true <-> In x l.
  Proof.
    unfold memN. rewrite existsb_exists. split.
    - intros (y & HI & E). apply N.eqb_eq in E. now subst.
    - intros HI. exists x. split; [exact HI|apply N.eqb_refl].
  Qed.

  Ltac unchanged :=
    cbn [fst snd class_of]; intros _; split; [reflexivity|];
    split; [split; [assumption|split; assumption]|reflexivity].

  Lemma step_refines b ooo U y g fwd :
    Inv2 b ooo U y -> g < U32MAX -> ooo < I32LIM ->
    let '(st', c) := spec_step b (gen y, U) (g, fwd, ooo) in
    class_of (snd (sfd y g fwd ooo)) = c /\
    Inv2 b ooo (snd st') (fst (sfd y g fwd ooo)) /\
    fst st' = gen (fst (sfd y g fwd ooo)).
  Proof.
    intros (HI & HN & HL) Hg Ho.
    assert (Hbh : b <= gen y) by (destruct HI as (_ & ? & _); assumption).
    pose proof (step_inv b U y g fwd ooo HI) as HS.
    unfold spec_step, Ratchet.secret_for_decryption in *. fold (gen y) in *.
    assert (HF : (gen y <? U32MAX - fwd) && (gen y + fwd <? g) = (gen y + fwd <? g)).
    { destruct (N.ltb_spec (gen y + fwd) g) as [L|L]; [|apply andb_false_r].
      rewrite andb_true_r. apply N.ltb_lt. unfold U32MAX in *. lia. }
    rewrite HF in *. clear HF. revert HS.
    destruct (N.ltb_spec (gen y + fwd) g) as [Lf|Lf].
    { unchanged. }
    destruct ((g <? gen y) && (ooo <? gen y - g)) eqn:Ep.
    { unchanged. }
    destruct (N.leb_spec (gen y) g) as [Hge|Hlt].
    - (* forward *)
      assert (Hb : b <= g) by (destruct HI as (_ & ? & _); lia).
      destruct (N.ltb_spec g b) as [Lb|_]; [lia|].
      assert (Hmem : memN g U = false).
      { destruct (memN g U) eqn:E; [|reflexivity]. apply memN_In in E.
        destruct HI as (_ & _ & _ & Hu & _). apply Hu in E. lia. }
      rewrite Hmem.
      destruct (N.iter (g - gen y) push1 (Some y)) as [y1|] eqn:E1.
      2:{ apply (iter_push1_none b U y _ HI) in E1. lia. }
      destruct (iter_push1 b U y (g - gen y) HI y1 E1) as (I1 & G1 & L1 & N1).
      specialize (N1 HN).
      destruct (ratchet_forward (head y1)) as [[[h' g0] k0]|] eqn:E2.
      2:{ apply rf_none in E2. unfold gen in *. lia. }
      apply rf_some in E2. destruct E2 as (_ & -> & _ & ->).
      cbn [fst snd class_of]. intros [_ HI'].
      split; [reflexivity|]. split; [|unfold gen in *; cbn [head r_gen]; lia].
      split; [exact HI'|]. split.
      + unfold NoneUsed, gen in *. cbn [head past r_gen]. intros i Hi.
        apply nthN_truncN in Hi.
        destruct (N.eq_dec i 0) as [->|Hi0].
        * split; [lia|]. left. lia.
        * rewrite nthN_cons_pos in Hi by lia. apply N1 in Hi. destruct Hi as [L I]. split; [lia|].
          right. replace (r_gen (head y1) + 1 - 1 - i) with (r_gen (head y1) - 1 - (i - 1)) by lia.
          exact I.
      + unfold gen in *. cbn [head past r_gen]. rewrite lenN_truncN, lenN_cons, L1, HL. lia.
    - (* past, inside the window *)
      apply andb_false_iff in Ep. destruct Ep as [Ep|Ep]; [apply N.ltb_ge in Ep; lia|].
      apply N.ltb_ge in Ep.
      destruct (N.eqb_spec (gen y - g) I32LIM) as [E|_]; [lia|].
      destruct (N.ltb_spec I32LIM (gen y - g)) as [L|_]; [lia|].
      destruct (N.ltb_spec g b) as [Lb|Lb].
      + (* below the base: the slot does not exist *)
        destruct (nthN (past y) (gen y - g - 1)) as [o|] eqn:E.
        * apply nthN_some_lt in E. lia.
        * unchanged.
      + destruct (nthN_lt_some (past y) (gen y - g - 1)) as [o E]; [lia|].
        rewrite E. destruct o as [k|].
        * destruct HI as (Hs & Hb & Hp & Hu & Hn). destruct (Hp _ _ E) as (_ & _ & HNI).
          replace (gen y - 1 - (gen y - g - 1)) with g in HNI by lia.
          destruct (memN g U) eqn:Em; [apply memN_In in Em; contradiction|].
          cbn [fst snd class_of]. intros [_ HI'].
          split; [reflexivity|]. split; [|unfold gen in *; cbn [head]; lia].
          split; [exact HI'|]. split.
          -- unfold NoneUsed, gen in *. cbn [head past]. intros i Hi.
             destruct (N.eq_dec i (r_gen (head y) - g - 1)) as [->|Hne].
             ++ split; [lia|]. left. lia.
             ++ rewrite nthN_setN_other in Hi by auto. apply HN in Hi. destruct Hi; split; auto.
                now right.
          -- unfold gen in *. cbn [head past]. now rewrite lenN_setN.
        * destruct (HN _ E) as [_ HIn].
          replace (gen y - 1 - (gen y - g - 1)) with g in HIn by lia.
          apply memN_In in HIn. rewrite HIn.
          unchanged.
  Qed.

  Definition fixed (fwd ooo : N) (gs : list N) : list (N * N * N) :=
    map (fun g => (g, fwd, ooo)) gs.

  Lemma run_refines fwd ooo : forall gs b U y,
    Inv2 b ooo U y -> ooo < I32LIM -> Forall (fun g => g < U32MAX) gs ->
    map class_of (snd (run y (fixed fwd ooo gs))) =
    snd (spec_run b (gen y, U) (fixed fwd ooo gs)).
  Proof.
    induction gs as [|g gs IH]; intros b U y HI Ho HF; [reflexivity|].
    inversion HF as [|? ? Hg HF']; subst.
    cbn [fixed map Ratchet.run spec_run].
    pose proof (step_refines b ooo U y g fwd HI Hg Ho) as HS.
    destruct (spec_step b (gen y, U) (g, fwd, ooo)) as [[h' U'] c] eqn:E.
    destruct (sfd y g fwd ooo) as [y1 o]. cbn [fst snd] in HS. destruct HS as (Hc & HI' & Hh).
    specialize (IH b U' y1 HI' Ho HF'). fold (fixed fwd ooo gs).
    destruct (run y1 (fixed fwd ooo gs)) as [y2 os].
    rewrite <- Hh in IH.
    destruct (spec_run b (h', U') (fixed fwd ooo gs)) as [st2 cs].
    cbn [fst snd map] in *. now rewrite Hc, IH.
  Qed.

  (** With a fixed configuration the ratchet answers exactly like the specification: a head
      counter plus the set of used generations. *)
  Theorem window_exact b fwd ooo gs :
    ooo < I32LIM -> Forall (fun g => g < U32MAX) gs ->
    map class_of (snd (run (ds_at b (sec b)) (fixed fwd ooo gs))) =
    snd (spec_run b (b, []) (fixed fwd ooo gs)).
  Proof.
    intros Ho HF. apply (run_refines fwd ooo gs b [] _ (Inv2_init b ooo) Ho HF).
  Qed.
End RatchetProofs.

(** * What the specification says, spelled out (no model involved). *)

Lemma spec_step_ok_iff b h used g fwd ooo :
  snd (spec_step b (h, used) (g, fwd, ooo)) = COk <->
  (g <= h + fwd /\ (h <= g \/ h - g <= ooo) /\ b <= g /\ ~ In g used).
Proof.
  unfold spec_step.
  destruct (N.ltb_spec (h + fwd) g) as [L1|L1]; [cbn [snd]; split; [discriminate|lia]|].
  destruct (N.ltb_spec g h) as [L2|L2]; destruct (N.ltb_spec ooo (h - g)) as [L3|L3];
    cbn [andb]; try (cbn [snd]; split; [discriminate|lia]).
  all: destruct (N.ltb_spec g b) as [L4|L4]; try (cbn [snd]; split; [discriminate|lia]).
  all: destruct (memN g used) eqn:Em; cbn [snd].
  all: try (split; [discriminate|]; intros (_ & _ & _ & HN); exfalso; apply HN;
            unfold memN in Em; apply existsb_exists in Em; destruct Em as (x & HI & E);
            apply N.eqb_eq in E; now subst).
  all: split; [intros _|reflexivity]; repeat split; try lia.
  all: intros HI; assert (memN g used = true) as E
         by (unfold memN; apply existsb_exists; exists g; split; [exact HI|apply N.eqb_refl]);
       congruence.
Qed.

Lemma spec_step_err b h used g fwd ooo :
  (snd (spec_step b (h, used) (g, fwd, ooo)) = CErr TooFuture <-> h + fwd < g) /\
  (snd (spec_step b (h, used) (g, fwd, ooo)) = CErr TooPast <-> (g <= h + fwd /\ g < h /\ ooo < h - g)) /\
  (b = 0 -> snd (spec_step b (h, used) (g, fwd, ooo)) <> CErr IndexOOB) /\
  snd (spec_step b (h, used) (g, fwd, ooo)) <> CPanic.
Proof.
  unfold spec_step.
  destruct (N.ltb_spec (h + fwd) g); destruct (N.ltb_spec g h); destruct (N.ltb_spec ooo (h - g));
    destruct (N.ltb_spec g b); destruct (memN g used); cbn [andb snd].
  all: split; [split; intros; first [reflexivity | congruence | lia]|].
  all: split; [split; [intros; first [congruence | lia] | intros (? & ? & ?); first [reflexivity | lia]]|].
  all: split; [intros; first [congruence | lia] | congruence].
Qed.

Lemma spec_run_no_oob : forall rqs st,
  Forall (fun c => c <> CErr IndexOOB /\ c <> CPanic) (snd (spec_run 0 st rqs)).
Proof.
  induction rqs as [|[[g fwd] ooo] rqs IH]; intros [h used]; [constructor|].
  cbn [spec_run].
  pose proof (spec_step_err 0 h used g fwd ooo) as (_ & _ & H3 & H4).
  destruct (spec_step 0 (h, used) (g, fwd, ooo)) as [st1 c].
  specialize (IH st1). destruct (spec_run 0 st1 rqs) as [st2 cs].
  cbn [snd] in *. constructor; [split; auto|exact IH].
Qed.

(** Inside a fixed configuration (and below the u32/i32 limits) the window index is always in
    bounds and nothing overflows: the answers [IndexOutOfBounds] and a panic never occur. *)
Theorem index_in_bounds (S K : Type) (chain : S -> S) (km : S -> K) (s0 : S) fwd ooo gs :
  ooo < I32LIM -> Forall (fun g => g < U32MAX) gs ->
  Forall (fun o => o <> RErr IndexOOB /\ o <> RPanic)
         (snd (run S K chain km (ds_at 0 s0) (fixed fwd ooo gs))).
Proof.
  intros Ho HF.
  pose proof (window_exact S K chain km s0 0 fwd ooo gs Ho HF) as HW.
  change (sec S chain s0 0) with s0 in HW.
  pose proof (spec_run_no_oob (fixed fwd ooo gs) (0, [])) as HS. rewrite <- HW in HS.
  apply Forall_map in HS. eapply Forall_impl; [|exact HS].
  intros o [H1 H2]. split; intros ->; [apply H1|apply H2]; reflexivity.
Qed.

(** Non-vacuity: the hypotheses of [window_exact] hold for ordinary inputs and the run below
    exercises every answer class (chain = successor on [N], key material = the secret itself). *)
Example window_exact_example :
  let gs := [0; 4; 3; 3; 1; 9; 5]%N in
  (3 < I32LIM)%N /\ Forall (fun g => g < U32MAX)%N gs /\
  map class_of (snd (run N N N.succ (fun s => s) (ds_at 0%N 0%N) (fixed 3 3 gs)))
  = [COk; COk; COk; CErr Reuse; CErr TooPast; CErr TooFuture; COk].
Proof.
  cbv zeta. split; [reflexivity|]. split; [|vm_compute; reflexivity].
  repeat constructor.
Qed.
