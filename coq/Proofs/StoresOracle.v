(** Soundness of the C09 oracle: an accepted implementation observation is, command by command,
    the row-level model's answer; it contains no error and no panic. *)
From Coq Require Import List NArith Bool.
From PV Require Import Model.Stores Oracle.C09.
Import ListNotations.
Local Open Scope N_scope.

Lemma all2_Forall2 {A B} (f : A -> B -> bool) a : forall b,
  all2 f a b = true <-> Forall2 (fun x y => f x y = true) a b.
Proof.
  induction a as [|x a IH]; intros [|y b]; cbn [all2]; split; intros H; try discriminate; try constructor;
    try (inversion H; fail).
  - apply andb_true_iff in H. tauto.
  - apply andb_true_iff in H. apply IH. tauto.
  - inversion H; subst. apply andb_true_iff. split; auto. now apply IH.
Qed.

Lemma obs_ok_not_panic m : obs_ok m IPanic = false.
Proof. destruct m as [|[[[? ?] ?]|]| | |]; reflexivity. Qed.

Lemma obs_ok_not_err m : obs_ok m IErr = false.
Proof. destruct m as [|[[[? ?] ?]|]| | |]; reflexivity. Qed.

Theorem check_sound : forall cs io,
  check cs io = true ->
  Forall2 (fun m i => obs_ok m i = true) (snd (run_impl empty cs)) io /\
  ~ In IPanic io /\ ~ In IErr io.
Proof.
  intros cs io H. unfold check in H. apply all2_Forall2 in H. split; [auto|].
  split; intros Hin; induction H as [|m i ms is_ Hmi _ IH]; try (inversion Hin; fail);
    (destruct Hin as [->|Hin]; [|auto]).
  - rewrite obs_ok_not_panic in Hmi. discriminate.
  - rewrite obs_ok_not_err in Hmi. discriminate.
Qed.

Example check_ex :
  check [OpInsert 0 0 (Some 0) 1 true; OpInsert 0 0 (Some 0) 2 true; OpDeletePayload 0; OpGet 0;
         TAssociate 1 2 0; TAssociate 1 0 1; TResolve 1; CSet 0 4; CGet 0; CDelete 0; CGet 0]
        [IB true; IB false; IB true; IOp (Some (0, false)); IB true; IB true; IPairs [(0, 1); (2, 0)];
         IUnit; ICur (Some 4); IUnit; ICur None] = true.
Proof. vm_compute. reflexivity. Qed.
