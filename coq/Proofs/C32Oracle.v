(** Soundness of the C32 oracle: if [check] accepts the five observed states, the three laws
    hold extensionally (on every lookup) for these observations. *)
From Coq Require Import List Arith NArith Bool.
From PV Require Import Model.GroupState Proofs.GroupState Oracle.C32.
Import ListNotations.

Lemma member_eqb_sound (a b : MemberState N) : member_eqb a b = true -> a = b.
Proof.
  destruct a as [c1 [o1 l1] k1], b as [c2 [o2 l2] k2]. unfold member_eqb, level_eqb.
  cbn [member_counter access access_counter conditions level].
  rewrite !andb_true_iff, !N.eqb_eq. intros [[[-> ->] Ho] Hl].
  apply level_N_inj in Hl. subst l2.
  destruct o1 as [x|], o2 as [y|]; cbn [optN_eqb] in Ho; try discriminate; [|reflexivity].
  apply N.eqb_eq in Ho. subst y. reflexivity.
Qed.

Lemma state_eqb_sound (a b : NState) :
  state_eqb a b = true -> forall id, lookup id a = lookup id b.
Proof.
  unfold state_eqb. rewrite forallb_forall. intros H id.
  destruct (in_dec N.eq_dec id (keys a ++ keys b)) as [Hin|Hnin].
  - specialize (H id Hin). destruct (lookup id a) as [x|], (lookup id b) as [y|];
      cbn [opt_member_eqb] in H; try discriminate; [|reflexivity].
    f_equal. apply member_eqb_sound. exact H.
  - rewrite (lookup_not_in id a), (lookup_not_in id b); [reflexivity| |];
      intros X; apply Hnin; apply in_or_app; [right|left]; exact X.
Qed.

Theorem check_sound (s1 m12 m21 m12_3 m1_23 m11 : NState) :
  check s1 m12 m21 m12_3 m1_23 m11 = true ->
  (forall id, lookup id m12 = lookup id m21) /\
  (forall id, lookup id m12_3 = lookup id m1_23) /\
  (forall id, lookup id m11 = lookup id s1).
Proof.
  unfold check. rewrite !andb_true_iff. intros [[H1 H2] H3].
  repeat split; apply state_eqb_sound; assumption.
Qed.
