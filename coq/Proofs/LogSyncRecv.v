(** C19 received_exact: every operation the peer sent is forwarded to the application exactly
    once, in the order sent -- the de-duplication buffer never drops a first occurrence, given
    that operation ids are pairwise distinct over what the two sides send. *)
From Coq Require Import List Arith NArith Bool Lia.
From PV Require Import Model.Dedup Model.LogSync Proofs.Dedup Proofs.LogSyncC20 Proofs.LogSyncScript
  Proofs.LogSyncOps Proofs.LogSyncNode Proofs.LogSyncJoint Proofs.LogSyncLive.
Import ListNotations.

Definition id3 (x : N * N * row) : N := r_id (snd x).
Definition ids (ms : list msg) : list N := map id3 (ops_of ms).

Lemma ids_app m1 m2 : ids (m1 ++ m2) = ids m1 ++ ids m2.
Proof. unfold ids. rewrite ops_of_app, map_app. reflexivity. Qed.

Lemma ev_ops_app o1 o2 : ev_ops (o1 ++ o2) = ev_ops o1 ++ ev_ops o2.
Proof.
  induction o1 as [|o o1 IH]; [reflexivity|].
  destruct o as [m|e|e]; cbn [app ev_ops]; try exact IH. destruct e; cbn [ev_ops]; rewrite ?IH; reflexivity.
Qed.

Lemma in_tl {A} (x : A) l : In x (tl l) -> In x l.
Proof. destruct l; [intros []|intros H; right; exact H]. Qed.

Lemma insert_items b x y : In y (items (fst (insert b x))) -> y = x \/ In y (items b).
Proof.
  unfold insert. destruct (memN x (items b)); cbn [fst items]; [auto|].
  intros H. apply in_app_iff in H. destruct H as [H|[<-|[]]]; [|auto].
  right. destruct (Nat.ltb _ _); [apply in_tl|]; exact H.
Qed.

Lemma insert_fresh b x : ~ In x (items b) -> snd (insert b x) = true.
Proof.
  intros H. unfold insert. destruct (memN x (items b)) eqn:M; [|reflexivity].
  exfalso. apply H. apply memN_true_in. exact M.
Qed.

Lemma dd_insert_all_items ws : forall d y,
  In y (items (dd_insert_all d ws)) -> In y (map r_id ws) \/ In y (items d).
Proof.
  unfold dd_insert_all. induction ws as [|w ws IH]; intros d y H; [right; exact H|].
  cbn [fold_left] in H. destruct (IH _ _ H) as [H1|H1]; [left; right; exact H1|].
  destruct (insert_items _ _ _ H1) as [->|H2]; [left; left; reflexivity|right; exact H2].
Qed.

Lemma ev_ops_op_msgs a l ws : ev_ops (op_msgs a l ws) = [].
Proof. induction ws; [reflexivity|exact IHws]. Qed.

Lemma ids_op_msgs a l ws : ids (sent (op_msgs a l ws)) = map r_id ws.
Proof.
  rewrite sent_op_msgs. unfold ids. induction ws as [|w ws IH]; [reflexivity|]. cbn. f_equal. exact IH.
Qed.

(** ** The invariant: events = consumed operations; the buffer only knows seen or sent ids *)
Definition dinv (n : node) : Prop :=
  ev_ops (n_hist n) = ops_of (n_cons n) /\
  (forall x, In x (items (dd (n_st n))) -> In x (ids (n_cons n)) \/ In x (ids (sent (n_hist n)))).

Lemma tick_events_dd r s :
  ev_ops (snd (tick true r s)) = [] /\
  (forall x, In x (items (dd (fst (tick true r s)))) ->
             In x (items (dd s)) \/ In x (ids (sent (snd (tick true r s))))).
Proof.
  unfold tick. destruct s as [p dr ds d]. cbn [ph done_sent done_recv dd].
  destruct p as [logs|todo acc|local|needs todo ops bytes|needs ops bytes|rest cur| |];
    try (cbn; split; auto; fail).
  - destruct todo; cbn; split; auto.
  - destruct todo; [destruct (N.ltb 0 bytes)|]; cbn; split; auto.
  - destruct cur as [[a lrs]|].
    + destruct lrs as [|lr more].
      * destruct rest; cbn; split; auto.
      * cbn [fst snd dd]. split; [apply ev_ops_op_msgs|]. intros x H.
        rewrite ids_op_msgs. destruct (dd_insert_all_items _ _ _ H); auto.
    + destruct (arm_on true _ rest); [destruct rest; cbn; split; auto|].
      destruct (_ && _); cbn; split; auto.
Qed.

Lemma dinv_tick r n n' : dinv n -> node_tick true r n = Some n' -> dinv n'.
Proof.
  intros [E D] T. unfold node_tick in T.
  destruct (n_pend n); [|discriminate]. destruct (n_parked n); [discriminate|].
  destruct (tick_enabled true (n_st n)); [|discriminate]. injection T as <-.
  destruct (tick_events_dd r (n_st n)) as [Ev Dd].
  unfold dinv. cbn [n_st n_hist n_cons]. rewrite ev_ops_app, Ev, app_nil_r. split; [exact E|].
  intros x H. rewrite sent_app, ids_app. destruct (Dd x H) as [H1|H1].
  - destruct (D x H1); [left; assumption|right; apply in_or_app; left; assumption].
  - right. apply in_or_app. right. exact H1.
Qed.

Lemma ops_of_snoc ms m :
  ops_of (ms ++ [m]) = ops_of ms ++ match m with Operation a l w => [(a, l, w)] | _ => [] end.
Proof. rewrite ops_of_app. destruct m; reflexivity. Qed.

Lemma dinv_recv n m q n' q' :
  dinv n -> node_recv n (m :: q) = Some (n', q') ->
  ph (n_st n') <> PFailed ->
  (forall a l w, m = Operation a l w ->
                 ~ In (r_id w) (ids (n_cons n)) /\ ~ In (r_id w) (ids (sent (n_hist n)))) ->
  dinv n'.
Proof.
  intros [E D] T NF Fresh. unfold node_recv in T.
  destruct (n_pend n); [|discriminate]. destruct (n_parked n); [discriminate|].
  destruct (can_recv (n_st n)) eqn:Cr; [|discriminate]. injection T as <- <-.
  cbn [n_st] in NF. unfold dinv. cbn [n_st n_hist n_cons].
  rewrite ev_ops_app, sent_app, recv_sends_nothing, app_nil_r, ops_of_snoc, E.
  unfold recv in *. unfold can_recv in Cr. destruct (n_st n) as [p dr ds d].
  cbn [ph done_sent done_recv dd] in *.
  destruct p as [logs|todo acc|local|needs todo ops bytes|needs ops bytes|rest cur| |]; try discriminate.
  - destruct m; cbn in NF; try congruence. cbn. rewrite app_nil_r. split; [reflexivity|].
    intros x H. rewrite ids_app. destruct (D x H); [left; apply in_or_app; left|right]; assumption.
  - destruct m; cbn in NF; try congruence; cbn; rewrite app_nil_r; (split; [reflexivity|]);
      intros x H; rewrite ids_app; (destruct (D x H); [left; apply in_or_app; left|right]; assumption).
  - destruct cur; [discriminate|]. destruct dr; [discriminate|].
    destruct m; cbn in NF; try congruence.
    + (* Operation *)
      destruct (Fresh a l w eq_refl) as [F1 F2].
      assert (Fr : ~ In (r_id w) (items d)) by (intros H; destruct (D _ H); contradiction).
      cbn [fst snd dd]. rewrite (insert_fresh d (r_id w) Fr). cbn. split; [reflexivity|].
      intros x H. rewrite ids_app. destruct (insert_items _ _ _ H) as [->|H1].
      * left. apply in_or_app. right. left. reflexivity.
      * destruct (D x H1); [left; apply in_or_app; left|right]; assumption.
    + (* Done *)
      cbn. rewrite app_nil_r. split; [reflexivity|].
      intros x H. rewrite ids_app. destruct (D x H); [left; apply in_or_app; left|right]; assumption.
Qed.

Section Recv.
  Variables rA rB : replica.
  Variables logsA logsB : list (N * list N).
  Variable cbuf : option nat.

  Notation scA := (scA rA rB logsA logsB).
  Notation scB := (scB rA rB logsA logsB).
  Notation hA := (hA rA logsA).
  Notation hB := (hB rB logsB).
  Notation J := (J rA rB logsA logsB cbuf).

  (** Operation ids are pairwise distinct over everything the two sides send to each other. *)
  Hypothesis ids_distinct : NoDup (ids scA ++ ids scB).

  Definition D2 (y : sys) : Prop := dinv (sa y) /\ dinv (sb y).

  Lemma dinv_unpark n : dinv n -> dinv (unpark n).
  Proof. intros H. exact H. Qed.

  Lemma nodup_app_l {A} (l1 l2 : list A) : NoDup (l1 ++ l2) -> NoDup l1.
  Proof. induction l1 as [|x l1 IH]; [constructor|]. cbn. intros H. inversion H; subst. constructor; [|apply IH; assumption]. intros Hin. apply H2. apply in_or_app. left. exact Hin. Qed.

  Lemma nodup_app_r {A} (l1 l2 : list A) : NoDup (l1 ++ l2) -> NoDup l2.
  Proof. induction l1 as [|x l1 IH]; [auto|]. cbn. intros H. inversion H; subst. apply IH. assumption. Qed.

  Lemma nodup_app_disj {A} (l1 l2 : list A) x : NoDup (l1 ++ l2) -> In x l1 -> In x l2 -> False.
  Proof.
    induction l1 as [|y l1 IH]; [intros _ []|]. cbn. intros H [->|H1] H2; inversion H; subst.
    - apply H3. apply in_or_app. right. exact H2.
    - apply IH; assumption.
  Qed.

  Lemma nodup_mid {A} (l1 l2 : list A) x : NoDup (l1 ++ x :: l2) -> ~ In x l1.
  Proof.
    intros H Hin. apply NoDup_remove_2 in H. apply H. apply in_or_app. left. exact Hin.
  Qed.

  (** The operation at the head of the queue is new to the receiver. *)
  Lemma fresh_next (sc_own sc_peer cons sent_so_far suf suf' : list msg) a l w :
    NoDup (ids sc_own ++ ids sc_peer) \/ NoDup (ids sc_peer ++ ids sc_own) ->
    cons ++ Operation a l w :: suf = sc_peer -> sent_so_far ++ suf' = sc_own ->
    ~ In (r_id w) (ids cons) /\ ~ In (r_id w) (ids sent_so_far).
  Proof.
    intros ND E P.
    assert (Ip : In (r_id w) (ids sc_peer)).
    { rewrite <- E, ids_app. apply in_or_app. right. left. reflexivity. }
    split.
    - assert (NDp : NoDup (ids sc_peer)) by (destruct ND as [ND|ND]; [eapply nodup_app_r|eapply nodup_app_l]; exact ND).
      rewrite <- E, ids_app in NDp. cbn in NDp. apply (nodup_mid _ _ _ NDp).
    - intros Hin. assert (Io : In (r_id w) (ids sc_own)).
      { rewrite <- P, ids_app. apply in_or_app. left. exact Hin. }
      destruct ND as [ND|ND]; eapply nodup_app_disj; eauto.
  Qed.

  Lemma D2_step y l y' : J y -> D2 y -> sys_step true cbuf rA rB y l = Some y' -> D2 y'.
  Proof.
    intros Jy [DA DB] St. pose proof (J_step rA rB logsA logsB cbuf y l y' Jy St) as Jy'.
    destruct Jy as [NA [NB [LAB LBA]]]. destruct Jy' as [NA' [NB' _]].
    destruct l; cbn [sys_step] in St.
    - destruct (node_tick true rA (sa y)) as [n'|] eqn:T; [|discriminate]. injection St as <-.
      split; [exact (dinv_tick _ _ _ DA T)|exact DB].
    - destruct (node_tick true rB (sb y)) as [n'|] eqn:T; [|discriminate]. injection St as <-.
      split; [exact DA|exact (dinv_tick _ _ _ DB T)].
    - unfold node_push in St. destruct (n_pend (sa y)); [discriminate|].
      destruct (n_parked (sa y)); [discriminate|]. injection St as <-. split; assumption.
    - unfold node_push in St. destruct (n_pend (sb y)); [discriminate|].
      destruct (n_parked (sb y)); [discriminate|]. injection St as <-. split; assumption.
    - destruct (node_recv (sa y) (qba y)) as [[n' q']|] eqn:T; [|discriminate]. injection St as <-.
      cbn [sa sb] in *. split; [|exact DB].
      destruct (qba y) as [|m q] eqn:Q.
      { unfold node_recv in T. destruct (n_pend (sa y)), (n_parked (sa y)); discriminate. }
      destruct (ninv_sent_prefix rB logsB hA scA (scA_word rA rB logsA logsB) (sb y) NB) as [suf0 Pf].
      destruct (ninv_sent_prefix rA logsA hB scB (scB_word rA rB logsA logsB) (sa y) NA) as [sufA PfA].
      destruct LBA as [LBA _].
      assert (E : n_cons (sa y) ++ m :: (q ++ n_pend (sb y) ++ suf0) = scB).
      { change scB with (sc_own rB logsB hA). rewrite <- Pf, LBA, <- !app_assoc. reflexivity. }
      apply (dinv_recv (sa y) m q n' q' DA T).
      + destruct NA' as [_ [_ [_ C]]]. intros F. rewrite F in C. exact C.
      + intros a l w ->. apply (fresh_next scA scB _ _ _ sufA a l w (or_introl ids_distinct) E PfA).
    - destruct (node_recv (sb y) (qab y)) as [[n' q']|] eqn:T; [|discriminate]. injection St as <-.
      cbn [sa sb] in *. split; [exact DA|].
      destruct (qab y) as [|m q] eqn:Q.
      { unfold node_recv in T. destruct (n_pend (sb y)), (n_parked (sb y)); discriminate. }
      destruct (ninv_sent_prefix rA logsA hB scB (scB_word rA rB logsA logsB) (sa y) NA) as [suf0 Pf].
      destruct (ninv_sent_prefix rB logsB hA scA (scA_word rA rB logsA logsB) (sb y) NB) as [sufB PfB].
      destruct LAB as [LAB _].
      assert (E : n_cons (sb y) ++ m :: (q ++ n_pend (sa y) ++ suf0) = scA).
      { change scA with (sc_own rA logsA hB). rewrite <- Pf, LAB, <- !app_assoc. reflexivity. }
      apply (dinv_recv (sb y) m q n' q' DB T).
      + destruct NB' as [_ [_ [_ C]]]. intros F. rewrite F in C. exact C.
      + intros a l w ->. apply (fresh_next scB scA _ _ _ sufB a l w (or_intror ids_distinct) E PfB).
  Qed.

  Lemma D2_exec ls : forall y y', J y -> D2 y -> exec true cbuf rA rB y ls = Some y' -> D2 y'.
  Proof.
    induction ls as [|l ls IH]; intros y y' Jy Dy E; cbn [exec] in E.
    - injection E as <-. exact Dy.
    - destruct (sys_step true cbuf rA rB y l) as [y1|] eqn:S; [|discriminate].
      apply (IH y1 y' (J_step rA rB logsA logsB cbuf y l y1 Jy S) (D2_step y l y1 Jy Dy S) E).
  Qed.

  (** At the end of any run: each side sent its script, and the application of each side was
      handed exactly the operations of the other side's script, once each, in order. *)
  Theorem received_exact cap ls y :
    exec true cbuf rA rB (sys0 logsA logsB cap) ls = Some y -> finished y = true ->
    sent (n_hist (sa y)) = scA /\ sent (n_hist (sb y)) = scB /\
    ev_ops (n_hist (sa y)) = ops_of scB /\ ev_ops (n_hist (sb y)) = ops_of scA.
  Proof.
    intros E F. pose proof (J_reachable rA rB logsA logsB cbuf cap ls y E) as Jy.
    assert (D0 : D2 (sys0 logsA logsB cap)) by (split; split; cbn; auto; intros x []).
    pose proof (D2_exec ls _ _ (J_init rA rB logsA logsB cbuf cap) D0 E) as [[EA _] [EB _]].
    destruct (joint_final rA rB logsA logsB cbuf y Jy F) as [SA [CA [SB CB]]].
    rewrite EA, EB, CA, CB. auto.
  Qed.
End Recv.
