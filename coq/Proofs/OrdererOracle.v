(** Soundness of the C11 oracle: an observation accepted by [check] is a trace in which every
    release comes after the release of a delivered dependency list of the item. *)
From Coq Require Import List Arith NArith Bool.
From PV Require Import Model.Orderer Proofs.OrdererBase Proofs.OrdererSafety Oracle.C11.
Import ListNotations.

Lemma rel_ok_sound tr x :
  rel_ok (dels tr) (rels tr) x = true ->
  exists ds, In (EDel x ds) tr /\ forall d, In d ds -> In (ERel d) tr.
Proof.
  unfold rel_ok. intros H. apply existsb_exists in H. destruct H as [[y ds] [Hin H]].
  cbn [fst snd] in H. apply andb_true_iff in H. destruct H as [E Hall]. apply N.eqb_eq in E. subst y.
  exists ds. split; [apply dels_In; exact Hin|].
  intros d Hd. rewrite forallb_forall in Hall. apply rels_In. apply memN_In. exact (Hall d Hd).
Qed.

Lemma rels_snoc tr x : rels (tr ++ [ERel x]) = rels tr ++ [x].
Proof. rewrite rels_app. reflexivity. Qed.
Lemma dels_snoc_rel tr x : dels (tr ++ [ERel x]) = dels tr.
Proof. rewrite dels_app. cbn. apply app_nil_r. Qed.
Lemma dels_snoc_del tr x ds : dels (tr ++ [EDel x ds]) = dels tr ++ [(x, ds)].
Proof. rewrite dels_app. reflexivity. Qed.
Lemma rels_snoc_del tr x ds : rels (tr ++ [EDel x ds]) = rels tr.
Proof. rewrite rels_app. cbn. apply app_nil_r. Qed.

Lemma rel_seq_sound : forall l tr rel',
  safe_trace tr -> rel_seq (dels tr) (rels tr) l = Some rel' ->
  safe_trace (tr ++ map ERel l) /\ rel' = rels (tr ++ map ERel l) /\ dels (tr ++ map ERel l) = dels tr.
Proof.
  induction l as [|x l IH]; intros tr rel' Hs H.
  - cbn [rel_seq] in H. inversion H. cbn [map]. rewrite app_nil_r. auto.
  - cbn [rel_seq] in H. destruct (rel_ok (dels tr) (rels tr) x) eqn:Eok; [|discriminate].
    pose proof (safe_snoc_rel tr x Hs (rel_ok_sound tr x Eok)) as Hs'.
    rewrite <- rels_snoc, <- (dels_snoc_rel tr x) in H.
    destruct (IH _ _ Hs' H) as [A [B C]].
    cbn [map]. change (tr ++ ERel x :: map ERel l) with (tr ++ [ERel x] ++ map ERel l).
    rewrite app_assoc. split; [exact A|]. split; [exact B|]. rewrite C. apply dels_snoc_rel.
Qed.

Lemma check_go_sound : forall ops outs tr,
  safe_trace tr -> check_go ops outs (dels tr) (rels tr) = true -> safe_trace (tr ++ events_of ops outs).
Proof.
  induction ops as [|o ops IH]; intros outs tr Hs H.
  - cbn [events_of]. rewrite app_nil_r. exact Hs.
  - destruct o as [x ds| |]; cbn [check_go events_of] in *.
    + rewrite <- dels_snoc_del, <- (rels_snoc_del tr x ds) in H.
      specialize (IH outs _ (safe_snoc_del tr x ds Hs) H). rewrite <- app_assoc in IH. exact IH.
    + destruct outs as [|[[y|]|l] outs']; try discriminate.
      * apply andb_true_iff in H. destruct H as [Hok H]. cbn [out_events].
        rewrite <- rels_snoc, <- (dels_snoc_rel tr y) in H.
        specialize (IH outs' _ (safe_snoc_rel tr y Hs (rel_ok_sound tr y Hok)) H).
        rewrite <- app_assoc in IH. exact IH.
      * apply andb_true_iff in H. destruct H as [_ H]. cbn [out_events app]. exact (IH outs' tr Hs H).
    + destruct outs as [|[o|l] outs']; try discriminate.
      destruct (rel_seq (dels tr) (rels tr) l) as [rel'|] eqn:Er; [|discriminate].
      apply andb_true_iff in H. destruct H as [_ H]. cbn [out_events].
      destruct (rel_seq_sound l tr rel' Hs Er) as [A [B C]]. subst rel'. rewrite <- C in H.
      specialize (IH outs' _ A H). rewrite <- app_assoc in IH. exact IH.
Qed.

Theorem check_sound : forall ops outs, check ops outs = true -> safe_trace (events_of ops outs).
Proof. intros ops outs H. exact (check_go_sound ops outs [] safe_nil H). Qed.
