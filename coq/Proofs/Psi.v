(** Proofs about the confidential discovery model (Model/Psi.v).

    Trusted assumptions (section hypotheses, see DESIGN §3):
    - [teqb_spec]   : [Topic]'s [Eq]/[Hash] is equality of the 32 bytes;
    - [H_inj]       : for a fixed salt the salted hash is injective in the topic
                      (BLAKE3 collision resistance);
    - [H_not_raw]   : no salted hash equals a raw topic ([raw] is the set of raw topics in
                      play; BLAKE3 collision/preimage resistance: a hash output that equals a
                      secret random 32-byte topic). *)
From Coq Require Import List Arith NArith Bool Lia.
From PV Require Import Model.Psi.
Import ListNotations.

(** * BTreeMap insert, interleave *)
Lemma bt_insert_In k v m k0 v0 :
  In (k0, v0) (bt_insert k v m) -> (k0, v0) = (k, v) \/ In (k0, v0) m.
Proof.
  induction m as [|[k' v'] r IH]; cbn [bt_insert]; intros Hin.
  - destruct Hin as [E|[]]. left. symmetry. exact E.
  - destruct (N.ltb k k').
    + destruct Hin as [E|Hin]; [left; symmetry; exact E|right; exact Hin].
    + destruct (N.eqb k k').
      * destruct Hin as [E|Hin]; [left; symmetry; exact E|right; right; exact Hin].
      * destruct Hin as [E|Hin]; [right; left; exact E|].
        destruct (IH Hin) as [E|Hin']; [left; exact E|right; right; exact Hin'].
Qed.

Lemma bt_insert_key k v m : exists v', In (k, v') (bt_insert k v m).
Proof.
  induction m as [|[k' v'] r IH]; cbn [bt_insert].
  - exists v. left. reflexivity.
  - destruct (N.ltb k k'); [exists v; left; reflexivity|].
    destruct (N.eqb k k'); [exists v; left; reflexivity|].
    destruct IH as [w Hw]. exists w. right. exact Hw.
Qed.

Lemma bt_insert_keeps_key k v m k0 v0 :
  In (k0, v0) m -> exists v', In (k0, v') (bt_insert k v m).
Proof.
  induction m as [|[k' v'] r IH]; cbn [bt_insert]; intros Hin; [destruct Hin|].
  destruct (N.ltb k k'); [exists v0; right; exact Hin|].
  destruct (N.eqb_spec k k') as [E|NE].
  - destruct Hin as [E0|Hin].
    + inversion E0; subst. exists v. left. reflexivity.
    + exists v0. right. exact Hin.
  - destruct Hin as [E0|Hin].
    + exists v0. left. exact E0.
    + destruct (IH Hin) as [w Hw]. exists w. right. exact Hw.
Qed.

Lemma interleave_In {A} (l1 l2 : list A) x : In x (interleave l1 l2) <-> In x l1 \/ In x l2.
Proof.
  revert l2; induction l1 as [|a r1 IH]; intros l2.
  - destruct l2; cbn; tauto.
  - destruct l2 as [|b r2].
    + cbn. tauto.
    + cbn [interleave In]. rewrite IH. tauto.
Qed.

Section PsiProofs.
  Variable topic : Type.
  Variable half : Type.
  Variable teqb : topic -> topic -> bool.
  Hypothesis teqb_spec : forall a b, teqb a b = true <-> a = b.
  Variable H : topic -> salt half -> topic.
  Hypothesis H_inj : forall s t1 t2, H t1 s = H t2 s -> t1 = t2.
  Variable raw : topic -> Prop.
  Hypothesis H_not_raw : forall t s, ~ raw (H t s).

  Local Notation mem := (mem topic teqb).
  Local Notation dedup := (dedup topic teqb).
  Local Notation hash_vector := (hash_vector topic half H).
  Local Notation hash_set := (hash_set topic half teqb H).
  Local Notation compute_intersection := (compute_intersection topic half teqb H).
  Local Notation node := (node topic).
  Local Notation party := (party topic).
  Local Notation msg := (msg topic half).
  Local Notation rx := (rx topic half).
  Local Notation selected := (selected topic teqb).
  Local Notation gather := (gather topic teqb).
  Local Notation assemble := (assemble topic).
  Local Notation alice_run := (alice_run topic half teqb H).
  Local Notation bob_run := (bob_run topic half teqb H).
  Local Notation session := (session topic half teqb H).
  Local Notation transcript := (transcript topic half teqb H).
  Local Notation alice_sent := (alice_sent topic half teqb H).
  Local Notation bob_sent := (bob_sent topic half teqb H).
  Local Notation alice_outcome := (alice_outcome topic half teqb H).
  Local Notation bob_outcome := (bob_outcome topic half teqb H).
  Local Notation send_nodes := (send_nodes topic half teqb).
  Local Notation occurs := (occurs topic half).
  Local Notation words := (words topic half).
  Local Notation infos_of := (infos_of topic half).
  Local Notation rxs := (rxs topic half).
  Local Notation expect := (expect topic half).
  Local Notation shares_common := (shares_common topic).
  Local Notation in_scope := (in_scope topic).
  Local Notation in_scope_of := (in_scope_of topic).
  Local Notation outcome_err := (outcome_err topic).

  (** * Sets as lists *)
  Lemma mem_In t l : mem t l = true <-> In t l.
  Proof.
    unfold Psi.mem. rewrite existsb_exists. split.
    - intros [x [Hin Heq]]. apply teqb_spec in Heq. subst. exact Hin.
    - intros Hin. exists t. split; [exact Hin|]. apply teqb_spec. reflexivity.
  Qed.

  Lemma mem_false t l : mem t l = false <-> ~ In t l.
  Proof.
    rewrite <- mem_In. destruct (mem t l); split; intros Hx; congruence.
  Qed.

  Lemma dedup_In t l : In t (dedup l) <-> In t l.
  Proof.
    induction l as [|x r IH]; cbn [Psi.dedup]; [tauto|].
    destruct (mem x r) eqn:E.
    - rewrite IH. apply mem_In in E. cbn [In]. split; [tauto|].
      intros [->|Hin]; assumption.
    - cbn [In]. rewrite IH. tauto.
  Qed.

  Lemma dedup_NoDup l : NoDup (dedup l).
  Proof.
    induction l as [|x r IH]; cbn [Psi.dedup]; [constructor|].
    destruct (mem x r) eqn:E; [exact IH|].
    constructor; [|exact IH]. rewrite dedup_In. apply mem_false. exact E.
  Qed.

  Lemma hash_set_In h ts s : In h (hash_set ts s) <-> exists t, In t ts /\ h = H t s.
  Proof.
    unfold Psi.hash_set, Psi.hash_vector. rewrite dedup_In, in_map_iff. split.
    - intros [t [E Hin]]. exists t. auto.
    - intros [t [Hin E]]. exists t. auto.
  Qed.

  Lemma compute_intersection_In t local remote s :
    In t (compute_intersection local remote s) <-> In t local /\ In (H t s) remote.
  Proof.
    unfold Psi.compute_intersection. rewrite dedup_In, filter_In, mem_In. tauto.
  Qed.

  Lemma compute_intersection_NoDup local remote s : NoDup (compute_intersection local remote s).
  Proof. apply dedup_NoDup. Qed.

  (** The heart of the protocol: intersecting my topics with the peer's set hashed under the
      same salt yields exactly the common topics. *)
  Lemma intersection_of_hashed t mine theirs s :
    In t (compute_intersection mine (hash_set theirs s) s) <-> In t mine /\ In t theirs.
  Proof.
    rewrite compute_intersection_In, hash_set_In. split.
    - intros [Hm [t' [Hin E]]]. apply H_inj in E. subst. auto.
    - intros [Hm Ht]. split; [exact Hm|]. exists t. auto.
  Qed.

  (** * gather_transport_infos *)
  Lemma assemble_fold_In (ns : list node) acc k v :
    In (k, v) (fold_left (fun m n => match ntransport topic n with
                                     | Some tr => bt_insert (nid topic n) tr m
                                     | None => m
                                     end) ns acc) ->
    In (k, v) acc \/ exists n, In n ns /\ nid topic n = k /\ ntransport topic n = Some v.
  Proof.
    revert acc; induction ns as [|n r IH]; intros acc Hin; cbn [fold_left] in Hin.
    - left. exact Hin.
    - apply IH in Hin. destruct Hin as [Hin|[n' [Hn' Hp]]].
      + destruct (ntransport topic n) as [tr|] eqn:E.
        * apply bt_insert_In in Hin. destruct Hin as [E0|Hin]; [|left; exact Hin].
          inversion E0; subst. right. exists n. cbn [In]. auto.
        * left. exact Hin.
      + right. exists n'. cbn [In]. tauto.
  Qed.

  Lemma assemble_In (ns : list node) k v :
    In (k, v) (assemble ns) -> exists n, In n ns /\ nid topic n = k /\ ntransport topic n = Some v.
  Proof.
    unfold Psi.assemble. intros Hin. apply assemble_fold_In in Hin.
    destruct Hin as [[]|Hn]. exact Hn.
  Qed.

  Lemma assemble_fold_keeps (ns : list node) acc k v :
    In (k, v) acc ->
    exists v', In (k, v') (fold_left (fun m n => match ntransport topic n with
                                                 | Some tr => bt_insert (nid topic n) tr m
                                                 | None => m
                                                 end) ns acc).
  Proof.
    revert acc v; induction ns as [|n r IH]; intros acc v Hin; cbn [fold_left].
    - exists v. exact Hin.
    - destruct (ntransport topic n) as [tr|].
      + destruct (bt_insert_keeps_key (nid topic n) tr acc k v Hin) as [w Hw]. eapply IH. exact Hw.
      + eapply IH. exact Hin.
  Qed.

  (** Every node with transport info that was selected ends up in the map (under its id). *)
  Lemma assemble_complete (ns : list node) n tr :
    In n ns -> ntransport topic n = Some tr -> exists v, In (nid topic n, v) (assemble ns).
  Proof.
    unfold Psi.assemble. generalize (@nil (N * N)) as acc.
    induction ns as [|n0 r IH]; intros acc Hin Htr; [destruct Hin|].
    cbn [fold_left]. destruct Hin as [->|Hin].
    - rewrite Htr. destruct (bt_insert_key (nid topic n) tr acc) as [w Hw].
      eapply assemble_fold_keeps. exact Hw.
    - apply IH; assumption.
  Qed.

  Lemma by_topics_In n ts b :
    In n (node_infos_by_topics topic teqb ts b) <->
    In n b /\ nstale topic n = false /\ shares_common n ts.
  Proof.
    unfold Psi.node_infos_by_topics, Psi.shares_common.
    rewrite filter_In, andb_true_iff, negb_true_iff, existsb_exists.
    split.
    - intros [Hin [Hs [t [Ht Hm]]]]. apply mem_In in Hm. eauto 6.
    - intros [Hin [Hs [t [Ht Hm]]]]. apply mem_In in Hm. eauto 6.
  Qed.

  Lemma node_info_Some id b n : node_info topic id b = Some n -> In n b /\ nid topic n = id.
  Proof.
    unfold Psi.node_info. intros Hf. apply find_some in Hf. destruct Hf as [Hin E].
    apply N.eqb_eq in E. auto.
  Qed.

  Lemma selected_restricted_In n me b common :
    In n (selected true me b common) ->
    In n b /\ (nid topic n = me \/ (nstale topic n = false /\ shares_common n common)).
  Proof.
    unfold Psi.selected.
    destruct (existsb _ (node_infos_by_topics topic teqb common b)).
    - rewrite by_topics_In. tauto.
    - destruct (node_info topic me b) as [n0|] eqn:E.
      + rewrite in_app_iff, by_topics_In. intros [Hin|[->|[]]]; [tauto|].
        apply node_info_Some in E. tauto.
      + rewrite by_topics_In. tauto.
  Qed.

  Lemma selected_unrestricted_In n me b common :
    In n (selected false me b common) <-> In n b /\ nstale topic n = false.
  Proof.
    unfold Psi.selected, Psi.all_node_infos. rewrite filter_In, negb_true_iff. tauto.
  Qed.

  (** Scope of restricted sharing, for [gather] alone (any [common]). *)
  Lemma gather_restricted_scope me b common id tr :
    In (id, tr) (gather true me b common) ->
    exists n, In n b /\ nid topic n = id /\ ntransport topic n = Some tr /\
              (id = me \/ (nstale topic n = false /\ shares_common n common)).
  Proof.
    unfold Psi.gather. intros Hin. apply assemble_In in Hin.
    destruct Hin as [n [Hsel [Hid Htr]]]. apply selected_restricted_In in Hsel.
    exists n. rewrite <- Hid. tauto.
  Qed.

  Lemma gather_unrestricted_scope me b common id tr :
    In (id, tr) (gather false me b common) ->
    exists n, In n b /\ nid topic n = id /\ ntransport topic n = Some tr /\ nstale topic n = false.
  Proof.
    unfold Psi.gather. intros Hin. apply assemble_In in Hin.
    destruct Hin as [n [Hsel [Hid Htr]]]. apply selected_unrestricted_In in Hsel.
    exists n. tauto.
  Qed.

  (** Converse: a non-stale node of a common topic that has transport info is shared. *)
  Lemma gather_restricted_complete me b common n tr :
    In n b -> nstale topic n = false -> shares_common n common -> ntransport topic n = Some tr ->
    exists v, In (nid topic n, v) (gather true me b common).
  Proof.
    intros Hin Hs Hc Htr. unfold Psi.gather. apply assemble_complete with (tr := tr); [|exact Htr].
    assert (Hby : In n (node_infos_by_topics topic teqb common b)) by (apply by_topics_In; tauto).
    unfold Psi.selected.
    destruct (existsb _ (node_infos_by_topics topic teqb common b)); [exact Hby|].
    destruct (node_info topic me b); [apply in_app_iff; left; exact Hby|exact Hby].
  Qed.

  (** "plus itself": the own entry is always shared when the book has one with transport info. *)
  Lemma gather_restricted_self me b common n tr :
    node_info topic me b = Some n -> ntransport topic n = Some tr ->
    (forall n', In n' b -> nid topic n' = me -> n' = n) ->
    exists v, In (me, v) (gather true me b common).
  Proof.
    intros Hme Htr Huniq. destruct (node_info_Some _ _ _ Hme) as [Hin Hid].
    unfold Psi.gather, Psi.selected.
    destruct (existsb _ (node_infos_by_topics topic teqb common b)) eqn:E.
    - apply existsb_exists in E. destruct E as [n' [Hn' Hid']]. apply N.eqb_eq in Hid'.
      assert (n' = n).
      { apply Huniq; [|exact Hid']. apply by_topics_In in Hn'. tauto. }
      subst n'. rewrite <- Hid. apply assemble_complete with (tr := tr); assumption.
    - rewrite Hme. rewrite <- Hid. apply assemble_complete with (tr := tr); [|exact Htr].
      apply in_app_iff. right. left. reflexivity.
  Qed.

  (** * The honest session, unfolded *)
  Definition asalt (sa sb : half) : salt half := combine_salt half sa sb false.
  Definition bsalt (sa sb : half) : salt half := combine_salt half sa sb true.

  Definition common_a (pa pb : party) sa sb :=
    compute_intersection (p_topics topic pa) (hash_set (p_topics topic pb) (bsalt sa sb)) (bsalt sa sb).
  Definition common_b (pa pb : party) sa sb :=
    compute_intersection (p_topics topic pb) (hash_set (p_topics topic pa) (asalt sa sb)) (asalt sa sb).

  Definition m1 (sa : half) : msg := AliceSaltHalf sa.
  Definition m2 (pb : party) sa sb : msg := BobSaltHalfAndHashedData sb (hash_set (p_topics topic pb) (bsalt sa sb)).
  Definition m3 (pa : party) sa sb : msg := AliceHashedData (hash_set (p_topics topic pa) (asalt sa sb)).
  Definition m4 (pa pb : party) sa sb : msg := send_nodes pb (common_b pa pb sa sb).
  Definition m5 (pa pb : party) sa sb : msg := send_nodes pa (common_a pa pb sa sb).

  Lemma session_eq pa pb sa sb :
    session pa pb sa sb =
    (([m1 sa; m3 pa sa sb; m5 pa pb sa sb],
      Done {| res_remote := p_remote topic pa;
              res_infos := gather (p_restricted topic pb) (p_me topic pb) (p_book topic pb) (common_b pa pb sa sb);
              res_topics := common_a pa pb sa sb |}),
     ([m2 pb sa sb; m4 pa pb sa sb],
      Done {| res_remote := p_remote topic pb;
              res_infos := gather (p_restricted topic pa) (p_me topic pa) (p_book topic pa) (common_a pa pb sa sb);
              res_topics := common_b pa pb sa sb |})).
  Proof. reflexivity. Qed.

  Lemma transcript_eq pa pb sa sb :
    transcript pa pb sa sb = [m1 sa; m2 pb sa sb; m3 pa sa sb; m4 pa pb sa sb; m5 pa pb sa sb].
  Proof. reflexivity. Qed.

  Lemma common_a_In pa pb sa sb t :
    In t (common_a pa pb sa sb) <-> In t (p_topics topic pa) /\ In t (p_topics topic pb).
  Proof. apply intersection_of_hashed. Qed.

  Lemma common_b_In pa pb sa sb t :
    In t (common_b pa pb sa sb) <-> In t (p_topics topic pa) /\ In t (p_topics topic pb).
  Proof. unfold common_b. rewrite intersection_of_hashed. tauto. Qed.

  (** * Main theorems *)

  (** Both peers finish, and each one's [DiscoveryResult.topics] is, as a set, exactly the
      intersection of the two topic sets (and is repetition-free). *)
  Theorem both_get_intersection pa pb sa sb :
    exists ra rb,
      alice_outcome pa pb sa sb = Done ra /\ bob_outcome pa pb sa sb = Done rb /\
      (forall t, In t (res_topics topic ra) <-> In t (p_topics topic pa) /\ In t (p_topics topic pb)) /\
      (forall t, In t (res_topics topic rb) <-> In t (p_topics topic pa) /\ In t (p_topics topic pb)) /\
      NoDup (res_topics topic ra) /\ NoDup (res_topics topic rb).
  Proof.
    unfold Psi.alice_outcome, Psi.bob_outcome. rewrite session_eq. cbn [fst snd].
    eexists. eexists. split; [reflexivity|]. split; [reflexivity|]. cbn [res_topics].
    split; [intros t; apply common_a_In|]. split; [intros t; apply common_b_In|].
    split; apply compute_intersection_NoDup.
  Qed.

  (** Each side receives exactly the node infos the other one sent, and names the right peer. *)
  Theorem results_carry_peer_infos pa pb sa sb :
    exists ra rb,
      alice_outcome pa pb sa sb = Done ra /\ bob_outcome pa pb sa sb = Done rb /\
      In (Nodes (res_infos topic ra)) (bob_sent pa pb sa sb) /\
      In (Nodes (res_infos topic rb)) (alice_sent pa pb sa sb) /\
      res_remote topic ra = p_remote topic pa /\ res_remote topic rb = p_remote topic pb.
  Proof.
    unfold Psi.alice_outcome, Psi.bob_outcome, Psi.alice_sent, Psi.bob_sent.
    rewrite session_eq. cbn [fst snd].
    eexists. eexists. split; [reflexivity|]. split; [reflexivity|]. cbn [res_infos res_remote].
    split; [right; left; reflexivity|]. split; [right; right; left; reflexivity|]. split; reflexivity.
  Qed.

  Lemma hashed_not_raw ts s w : In w (hash_set ts s) -> ~ raw w.
  Proof. intros Hin. apply hash_set_In in Hin. destruct Hin as [t [_ ->]]. apply H_not_raw. Qed.

  (** No [Topic]-typed value in any message of the session is a raw topic. *)
  Theorem no_raw_word_in_messages pa pb sa sb m :
    In m (transcript pa pb sa sb) -> forall t, raw t -> ~ occurs t m.
  Proof.
    rewrite transcript_eq. unfold Psi.occurs.
    intros Hm t Hraw Hocc.
    repeat (destruct Hm as [<-|Hm]); try (destruct Hm); cbn [Psi.words m1 m2 m3 m4 m5 Psi.send_nodes] in Hocc;
      try (destruct Hocc); eapply hashed_not_raw; eauto.
  Qed.

  (** In particular: none of the topics of either side (all raw) occurs in any message. *)
  Theorem no_raw_topic_in_messages pa pb sa sb :
    Forall raw (p_topics topic pa) -> Forall raw (p_topics topic pb) ->
    forall m, In m (transcript pa pb sa sb) ->
    forall t, In t (p_topics topic pa) \/ In t (p_topics topic pb) -> ~ occurs t m.
  Proof.
    intros Ha Hb m Hm t Ht. apply (no_raw_word_in_messages pa pb sa sb m Hm).
    rewrite Forall_forall in Ha, Hb. destruct Ht; auto.
  Qed.

  (** A party that restricts sharing sends node infos only of itself and of non-stale nodes of its
      own address book that subscribe to a topic common to both peers. *)
  Theorem restricted_sharing_scope pa pb sa sb :
    (p_restricted topic pa = true ->
     forall m id tr, In m (alice_sent pa pb sa sb) -> In (id, tr) (infos_of m) -> in_scope pa pb id tr) /\
    (p_restricted topic pb = true ->
     forall m id tr, In m (bob_sent pa pb sa sb) -> In (id, tr) (infos_of m) -> in_scope pb pa id tr).
  Proof.
    unfold Psi.alice_sent, Psi.bob_sent. rewrite session_eq. cbn [fst snd]. split.
    - intros Hr m id tr Hm Hin.
      repeat (destruct Hm as [<-|Hm]); try (destruct Hm); cbn [Psi.infos_of m1 m3 m5 Psi.send_nodes] in Hin;
        try (destruct Hin).
      rewrite Hr in Hin. apply gather_restricted_scope in Hin.
      destruct Hin as [n [Hb [Hid [Htr Hsc]]]]. exists n. repeat (split; [assumption|]).
      destruct Hsc as [->|[Hs [t [Ht Hc]]]]; [left; reflexivity|right].
      split; [exact Hs|]. exists t. apply common_a_In in Hc. tauto.
    - intros Hr m id tr Hm Hin.
      repeat (destruct Hm as [<-|Hm]); try (destruct Hm); cbn [Psi.infos_of m2 m4 Psi.send_nodes] in Hin;
        try (destruct Hin).
      rewrite Hr in Hin. apply gather_restricted_scope in Hin.
      destruct Hin as [n [Hb [Hid [Htr Hsc]]]]. exists n. repeat (split; [assumption|]).
      destruct Hsc as [->|[Hs [t [Ht Hc]]]]; [left; reflexivity|right].
      split; [exact Hs|]. exists t. apply common_b_In in Hc. tauto.
  Qed.

  (** Without the restriction everything non-stale (with transport info) is shared, nothing else. *)
  Theorem unrestricted_sharing_scope pa pb sa sb :
    p_restricted topic pa = false ->
    forall m id tr, In m (alice_sent pa pb sa sb) -> In (id, tr) (infos_of m) ->
    exists n, In n (p_book topic pa) /\ nid topic n = id /\ ntransport topic n = Some tr /\ nstale topic n = false.
  Proof.
    unfold Psi.alice_sent. rewrite session_eq. cbn [fst snd].
    intros Hr m id tr Hm Hin.
    repeat (destruct Hm as [<-|Hm]); try (destruct Hm); cbn [Psi.infos_of m1 m3 m5 Psi.send_nodes] in Hin;
      try (destruct Hin).
    rewrite Hr in Hin. apply gather_unrestricted_scope in Hin. exact Hin.
  Qed.

  (** Restricted sharing is not over-restrictive: every non-stale node of a common topic that has
      transport info is in what Alice sends. *)
  Theorem restricted_sharing_complete pa pb sa sb n tr :
    p_restricted topic pa = true ->
    In n (p_book topic pa) -> nstale topic n = false -> ntransport topic n = Some tr ->
    (exists t, In t (ntopics topic n) /\ In t (p_topics topic pa) /\ In t (p_topics topic pb)) ->
    exists m v, In m (alice_sent pa pb sa sb) /\ In (nid topic n, v) (infos_of m).
  Proof.
    intros Hr Hin Hs Htr [t [Ht Hc]].
    unfold Psi.alice_sent. rewrite session_eq. cbn [fst snd].
    destruct (gather_restricted_complete (p_me topic pa) (p_book topic pa) (common_a pa pb sa sb) n tr Hin Hs) as [v Hv].
    - exists t. split; [exact Ht|]. apply common_a_In. exact Hc.
    - exact Htr.
    - exists (m5 pa pb sa sb), v. split; [right; right; left; reflexivity|].
      cbn [Psi.infos_of m5 Psi.send_nodes]. rewrite Hr. exact Hv.
  Qed.

  (** * The protocol state machine: any peer, any stream content *)

  (** Alice succeeds exactly when her stream delivers [S2, Nodes] in this order; a message of
      another kind at either position is [UnexpectedMessage], a closed or failing stream is
      [Stream]; she has sent one message more than she accepted. *)
  Theorem alice_message_order p sa inc :
    outcome_err (snd (alice_run p sa inc)) = fst (expect (alice_expects) inc 0) /\
    length (fst (alice_run p sa inc)) = S (snd (expect (alice_expects) inc 0)).
  Proof.
    destruct inc as [|[[a|b hs|hs|i]|] rest]; try (split; reflexivity).
    destruct rest as [|[[a'|b' hs'|hs'|i']|] rest']; split; reflexivity.
  Qed.

  Theorem bob_message_order p sb inc :
    outcome_err (snd (bob_run p sb inc)) = fst (expect (bob_expects) inc 0) /\
    length (fst (bob_run p sb inc)) = Nat.min 2 (snd (expect (bob_expects) inc 0)).
  Proof.
    destruct inc as [|[[a|b hs|hs|i]|] rest]; try (split; reflexivity).
    destruct rest as [|[[a'|b' hs'|hs'|i']|] rest']; try (split; reflexivity).
    destruct rest' as [|[[a''|b'' hs''|hs''|i'']|] rest'']; split; reflexivity.
  Qed.

  (** Causality: what a side has sent after reading a prefix of its stream is a prefix of what
      it sends after reading more (so the ping-pong composition in [session] is the only run). *)
  Ltac destruct_rx l := destruct l as [|[[?|? ?|?|?]|] ?].
  Ltac mono_step :=
    cbn [app fst Psi.alice_run Psi.bob_run];
    first
      [ solve [eexists; cbn [app fst Psi.alice_run Psi.bob_run]; reflexivity]
      | match goal with
        | |- context [?l ++ _] => is_var l; destruct_rx l
        end
      | match goal with
        | |- context [match ?l with _ => _ end] => is_var l; destruct_rx l
        end
      | match goal with
        | |- context [Psi.alice_run _ _ _ _ _ _ ?l] => is_var l; destruct_rx l
        | |- context [Psi.bob_run _ _ _ _ _ _ ?l] => is_var l; destruct_rx l
        end ].

  Theorem alice_sent_monotone p sa inc more :
    exists later, fst (alice_run p sa (inc ++ more)) = fst (alice_run p sa inc) ++ later.
  Proof. repeat mono_step. Qed.

  Theorem bob_sent_monotone p sb inc more :
    exists later, fst (bob_run p sb (inc ++ more)) = fst (bob_run p sb inc) ++ later.
  Proof. repeat mono_step. Qed.

  (** A sink that accepts only [k] messages: the side does exactly what it would do otherwise,
      up to the first refused send, which is reported as [Sink]. *)
  Theorem alice_sink_failure k p sa inc :
    alice_run_k topic half teqb H k p sa inc = with_sink topic half k (alice_run p sa inc).
  Proof.
    unfold Psi.with_sink.
    destruct inc as [|[[a|b hs|hs|i]|] rest]; cbn [Psi.alice_run_k Psi.alice_run fst length];
      try (destruct k as [|[|[|k]]]; reflexivity).
    destruct rest as [|[[a'|b' hs'|hs'|i']|] rest']; cbn [fst length];
      destruct k as [|[|[|k]]]; reflexivity.
  Qed.

  Theorem bob_sink_failure k p sb inc :
    bob_run_k topic half teqb H k p sb inc = with_sink topic half k (bob_run p sb inc).
  Proof.
    unfold Psi.with_sink.
    destruct inc as [|[[a|b hs|hs|i]|] rest]; cbn [Psi.bob_run_k Psi.bob_run fst length];
      try (destruct k as [|[|[|k]]]; reflexivity).
    destruct rest as [|[[a'|b' hs'|hs'|i']|] rest']; cbn [fst length];
      try (destruct k as [|[|[|k]]]; reflexivity).
    destruct rest' as [|[[a''|b'' hs''|hs''|i'']|] rest'']; cbn [fst length];
      destruct k as [|[|[|k]]]; reflexivity.
  Qed.

  (** The session is closed: each side's messages and outcome are its reaction to exactly the
      messages the other side sent. *)
  Theorem session_closed pa pb sa sb :
    alice_run pa sa (rxs (bob_sent pa pb sa sb)) = (alice_sent pa pb sa sb, alice_outcome pa pb sa sb) /\
    bob_run pb sb (rxs (alice_sent pa pb sa sb)) = (bob_sent pa pb sa sb, bob_outcome pa pb sa sb).
  Proof. split; reflexivity. Qed.

  (** Whatever the peer sends: a side never puts a raw topic on the wire, ... *)
  Theorem alice_never_sends_raw p sa inc m :
    In m (fst (alice_run p sa inc)) -> forall t, raw t -> ~ occurs t m.
  Proof.
    unfold Psi.occurs. intros Hm t Hraw Hocc.
    destruct inc as [|[[a|b hs|hs|i]|] rest]; cbn [Psi.alice_run fst] in Hm;
      try (destruct Hm as [<-|[]]; destruct Hocc).
    destruct rest as [|[[a'|b' hs'|hs'|i']|] rest']; cbn [fst] in Hm;
      repeat (destruct Hm as [<-|Hm]); try (destruct Hm); cbn [Psi.words Psi.send_nodes] in Hocc;
      try (destruct Hocc); eapply hashed_not_raw; eauto.
  Qed.

  Theorem bob_never_sends_raw p sb inc m :
    In m (fst (bob_run p sb inc)) -> forall t, raw t -> ~ occurs t m.
  Proof.
    unfold Psi.occurs. intros Hm t Hraw Hocc.
    destruct inc as [|[[a|b hs|hs|i]|] rest]; cbn [Psi.bob_run fst] in Hm; try (destruct Hm).
    destruct rest as [|[[a'|b' hs'|hs'|i']|] rest']; cbn [fst] in Hm;
      try (destruct Hm as [<-|[]]; cbn [Psi.words] in Hocc; eapply hashed_not_raw; eauto).
    destruct rest' as [|[[a''|b'' hs''|hs''|i'']|] rest'']; cbn [fst] in Hm;
      repeat (destruct Hm as [<-|Hm]); try (destruct Hm); cbn [Psi.words Psi.send_nodes] in Hocc;
      try (destruct Hocc); eapply hashed_not_raw; eauto.
  Qed.

  (** ... never reports a topic it does not itself subscribe to, ... *)
  Theorem alice_result_within_own_topics p sa inc r :
    snd (alice_run p sa inc) = Done r -> forall t, In t (res_topics topic r) -> In t (p_topics topic p).
  Proof.
    destruct inc as [|[[a|b hs|hs|i]|] rest]; cbn [Psi.alice_run snd]; try discriminate.
    destruct rest as [|[[a'|b' hs'|hs'|i']|] rest']; cbn [snd]; try discriminate.
    intros E t Hin. inversion E; subst r. cbn [res_topics] in Hin.
    apply compute_intersection_In in Hin. tauto.
  Qed.

  Theorem bob_result_within_own_topics p sb inc r :
    snd (bob_run p sb inc) = Done r -> forall t, In t (res_topics topic r) -> In t (p_topics topic p).
  Proof.
    destruct inc as [|[[a|b hs|hs|i]|] rest]; cbn [Psi.bob_run snd]; try discriminate.
    destruct rest as [|[[a'|b' hs'|hs'|i']|] rest']; cbn [snd]; try discriminate.
    destruct rest' as [|[[a''|b'' hs''|hs''|i'']|] rest'']; cbn [snd]; try discriminate.
    intros E t Hin. inversion E; subst r. cbn [res_topics] in Hin.
    apply compute_intersection_In in Hin. tauto.
  Qed.

  (** ... and under restricted sharing the node infos it sends are limited to itself and
      non-stale nodes of a topic it reported as common (a subset of its own topics). *)
  Theorem alice_restricted_scope_any_peer p sa inc r :
    p_restricted topic p = true -> snd (alice_run p sa inc) = Done r ->
    forall m id tr, In m (fst (alice_run p sa inc)) -> In (id, tr) (infos_of m) ->
    in_scope_of p (res_topics topic r) id tr.
  Proof.
    intros Hr.
    destruct inc as [|[[a|b hs|hs|i]|] rest]; cbn [Psi.alice_run snd fst]; try discriminate.
    destruct rest as [|[[a'|b' hs'|hs'|i']|] rest']; cbn [snd fst]; try discriminate.
    intros E m id tr Hm Hin. inversion E; subst r. cbn [res_topics].
    repeat (destruct Hm as [<-|Hm]); try (destruct Hm); cbn [Psi.infos_of Psi.send_nodes] in Hin;
      try (destruct Hin).
    rewrite Hr in Hin. apply gather_restricted_scope in Hin. exact Hin.
  Qed.

  Theorem bob_restricted_scope_any_peer p sb inc :
    p_restricted topic p = true ->
    forall m id tr, In m (fst (bob_run p sb inc)) -> In (id, tr) (infos_of m) ->
    exists common, (forall t, In t common -> In t (p_topics topic p)) /\ in_scope_of p common id tr.
  Proof.
    intros Hr m id tr Hm Hin.
    destruct inc as [|[[a|b hs|hs|i]|] rest]; cbn [Psi.bob_run fst] in Hm; try (destruct Hm).
    destruct rest as [|[[a'|b' hs'|hs'|i']|] rest']; cbn [fst] in Hm;
      try (destruct Hm as [<-|[]]; destruct Hin).
    assert (Hgen : forall common',
               (forall t, In t common' -> In t (p_topics topic p)) ->
               In (id, tr) (infos_of (send_nodes p common')) ->
               exists common, (forall t, In t common -> In t (p_topics topic p)) /\ in_scope_of p common id tr).
    { intros c Hc Hi. exists c. split; [exact Hc|]. cbn [Psi.infos_of Psi.send_nodes] in Hi.
      rewrite Hr in Hi. apply gather_restricted_scope in Hi. exact Hi. }
    destruct rest' as [|[[a''|b'' hs''|hs''|i'']|] rest'']; cbn [fst] in Hm;
      (destruct Hm as [<-|[<-|[]]]; [destruct Hin|]);
      (eapply Hgen; [|exact Hin]; intros t Ht; apply compute_intersection_In in Ht; tauto).
  Qed.
End PsiProofs.
