(** Soundness of the C34 oracle for a fixed configuration inside the guards: what [check_all]
    accepts is, answer by answer, what the window specification prescribes, with the right key. *)
From Coq Require Import List NArith Bool Lia.
From PV Require Import Lib.NList Model.Ratchet Oracle.C34.
Import ListNotations.
Local Open Scope N_scope.

Definition obs_cls (o : obs) : cls :=
  match o with OK _ => COk | OKU => COk | OE e => CErr e | OX => CPanic end.

Definition guard (rq : N * N * N) : bool :=
  let '(g, _, ooo) := rq in (g <? U32MAX) && (ooo <? I32LIM).

Lemma err_eqb_eq a b : err_eqb a b = true -> a = b.
Proof. destruct a, b; cbn; congruence. Qed.

Theorem check_strict_sound b : forall rqs os st,
  forallb guard rqs = true ->
  check_all true b st rqs os = true ->
  map obs_cls os = snd (spec_run b st rqs) /\
  Forall2 (fun rq o => forall i, o = OK i -> i = rq_g rq) rqs os.
Proof.
  induction rqs as [|[[g fwd] ooo] rqs IH]; intros os st HG H; destruct os as [|o os]; try discriminate.
  - split; [reflexivity|constructor].
  - cbn [forallb] in HG. apply andb_true_iff in HG. destruct HG as [Hg HG].
    cbn [check_all] in H.
    destruct (check_one true b st (g, fwd, ooo) o) as [ok st'] eqn:E.
    apply andb_true_iff in H. destruct H as [Hok H]. subst ok.
    unfold check_one in E. unfold guard in Hg. rewrite Hg in E.
    cbn [spec_run].
    destruct (spec_step b st (g, fwd, ooo)) as [st1 c] eqn:ES.
    destruct o as [i| |e|].
    + injection E as E1 E2. subst st'. apply andb_true_iff in E1. destruct E1 as [Ei Ec].
      destruct c; try discriminate.
      destruct (IH os st1 HG H) as [IH1 IH2].
      destruct (spec_run b st1 rqs) as [st2 cs]. cbn [map snd obs_cls] in *.
      split; [now rewrite IH1|]. constructor; [|exact IH2].
      intros j Hj. injection Hj as <-. apply N.eqb_eq in Ei. exact Ei.
    + injection E as E1 _. discriminate.
    + injection E as E1 E2. subst st'. destruct c as [|e'|]; try discriminate.
      apply err_eqb_eq in E1. subst e'.
      (* a rejected request leaves the specification state unchanged *)
      assert (st1 = st).
      { unfold spec_step in ES. destruct st as [h used].
        destruct (h + fwd <? g); [now injection ES as <- _|].
        destruct ((g <? h) && (ooo <? h - g)); [now injection ES as <- _|].
        destruct (g <? b); [now injection ES as <- _|].
        destruct (memN g used); [now injection ES as <- _|]. injection ES as _ ?. discriminate. }
      subst st1.
      destruct (IH os st HG H) as [IH1 IH2].
      destruct (spec_run b st rqs) as [st2 cs]. cbn [map snd obs_cls] in *.
      split; [now rewrite IH1|]. constructor; [discriminate|exact IH2].
    + injection E as E1 _. discriminate.
Qed.
