(** Soundness of the C08 oracle: [check] accepts an implementation observation only if it is,
    call by call, what the model answers (a latest entry being one of the admissible rows), and
    hence contains no panic. *)
From Coq Require Import List NArith Bool.
From PV Require Import Model.LogStore Oracle.C08 Proofs.LogStore.
Import ListNotations.
Local Open Scope N_scope.

Lemma all2_Forall2 {A B} (f : A -> B -> bool) a : forall b,
  all2 f a b = true <-> Forall2 (fun x y => f x y = true) a b.
Proof.
  induction a as [|x a IH]; intros [|y b]; cbn [all2]; split; intros H; try discriminate; try constructor;
    try (inversion H; fail).
  - apply andb_true_iff in H. tauto.
  - apply andb_true_iff in H. apply IH. tauto.
  - inversion H; subst. apply andb_true_iff. split; auto. now apply IH.
Qed.

Lemma eqb_listN_eq a : forall b, eqb_list N.eqb a b = true -> a = b.
Proof.
  induction a as [|x a IH]; intros [|y b] H; cbn [eqb_list] in H; try discriminate; auto.
  apply andb_true_iff in H. destruct H as [H1 H2]. apply N.eqb_eq in H1. f_equal; auto.
Qed.

Lemma obs_ok_not_panic m : obs_ok m IPanic = false.
Proof. destruct m as [| |[|]| | | | |]; reflexivity. Qed.

Theorem check_sound : forall tab its hs io,
  check tab its hs io = true ->
  hs = map header_size tab /\
  Forall2 (fun m i => obs_ok m i = true) (snd (run tab [] its)) io /\
  ~ In IPanic io.
Proof.
  intros tab its hs io H. unfold check in H. apply andb_true_iff in H. destruct H as [H1 H2].
  apply eqb_listN_eq in H1. apply all2_Forall2 in H2. split; [auto|]. split; [auto|].
  intros Hin. clear H1. induction H2 as [|m i ms is_ Hmi _ IH]; [inversion Hin|].
  destruct Hin as [->|Hin]; auto. rewrite obs_ok_not_panic in Hmi. discriminate.
Qed.

Example check_ex :
  check [mkop 0 0 0 false; mkop 0 1 7 true] [Ins 0 0; Ins 1 0; Ins 1 1; Latest 0 0; Heights 0 []; Size 0 0 None None]
        [104; 172] [IBool true; IBool true; IBool false; ILatest (Some (1, 1, true)); IHeights None; ISize (Some (2, 283))] = true.
Proof. vm_compute. reflexivity. Qed.
