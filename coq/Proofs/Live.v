(** Proofs about the live-mode forwarding model (Model/Live.v) — property C23.

    Trusted assumptions = the Section hypotheses below, which become explicit premises of every
    exported theorem ("within the de-duplication window"): the operations occurring in the flow
    and in the sync-phase seeds come from a finite universe [U] that fits into every
    buffer ([length U <= capS], [length U <= capM]), so no buffer ever evicts during the flow;
    seeds are duplicate free and identical across the sessions of a topic (all sessions of a
    manager sync the same store).

    Main results, for EVERY label sequence (every interleaving of arrivals — with duplicates from
    several sessions —, manager steps, session pumps and local publications):
      [forward_step]                 a manager step appends the operation to the live channel of
                                     every other session of the topic, and to no other channel
      [forwarded_to_all_others]      once nothing is in flight, an operation that arrived on one
                                     session is known to every session of the topic (it was sent
                                     to, or came from, or was synced to that session's remote)
      [at_most_once_per_session]     no session sends an operation twice
      [never_back_to_origin]         after an operation arrived on a session it is never sent on
                                     that session; [never_back_to_origin_peer]: nor to the same
                                     peer on any session, if the topic's sessions have distinct peers
      [consumer_at_most_once]        the consumer sees an operation at most once
      [same_peer_refuted]            with two sessions to one peer the per-peer statement fails. *)
From Coq Require Import List Arith NArith Bool Lia.
From PV Require Import Model.Dedup Proofs.Dedup Model.Live.
Import ListNotations.

(** ** Generic list facts *)
Lemma snoc_split {A} : forall (l : list A) e l1 e' l2,
  l ++ [e] = l1 ++ e' :: l2 ->
  (l2 = [] /\ l1 = l /\ e' = e) \/ (exists l2', l2 = l2' ++ [e] /\ l = l1 ++ e' :: l2').
Proof.
  intros l e l1. revert l. induction l1 as [|a l1 IH]; intros l e' l2 H.
  - destruct l as [|b l]; cbn in H; inversion H; subst.
    + left. auto.
    + right. exists l. auto.
  - destruct l as [|b l]; cbn in H; inversion H; subst.
    + destruct l1; discriminate.
    + destruct (IH l e' l2 H2) as [(-> & -> & ->) | (l2' & -> & ->)].
      * left. auto.
      * right. exists l2'. auto.
Qed.

Lemma nodup_snoc {A} : forall (l : list A) x, NoDup l -> ~ In x l -> NoDup (l ++ [x]).
Proof.
  induction l as [|y l IH]; intros x Hnd Hx; cbn.
  - constructor; [intros [] | constructor].
  - inversion Hnd; subst. constructor.
    + intro H. apply in_app_or in H. destruct H as [H|[<-|[]]]; [contradiction | apply Hx; left; reflexivity].
    + apply IH; [assumption | intro H; apply Hx; right; exact H].
Qed.

Lemma upd_same {A} (f : N -> A) k v : upd f k v k = v.
Proof. unfold upd. rewrite N.eqb_refl. reflexivity. Qed.

Lemma upd_other {A} (f : N -> A) k v x : x <> k -> upd f k v x = f x.
Proof. intro H. unfold upd. destruct (N.eqb x k) eqn:E; [apply N.eqb_eq in E; contradiction | reflexivity]. Qed.

(** ** Topics *)
Lemma same_topic_spec : forall c a b,
  same_topic c a b = true <-> exists t, topic_of c a = Some t /\ topic_of c b = Some t.
Proof.
  intros c a b. unfold same_topic, in_topic. split.
  - destruct (topic_of c a) as [t|]; [|discriminate]. destruct (topic_of c b) as [t'|]; [|discriminate].
    intro H. apply N.eqb_eq in H. subst. eauto.
  - intros (t & -> & ->). apply N.eqb_refl.
Qed.

Lemma same_topic_sym : forall c a b, same_topic c a b = true -> same_topic c b a = true.
Proof. intros c a b H. apply same_topic_spec in H. destruct H as (t & H1 & H2). apply same_topic_spec. eauto. Qed.

Lemma same_topic_trans : forall c a b d, same_topic c a b = true -> same_topic c b d = true -> same_topic c a d = true.
Proof.
  intros c a b d H1 H2. apply same_topic_spec in H1, H2. destruct H1 as (t & A1 & B1). destruct H2 as (t' & B2 & D2).
  rewrite B1 in B2. inversion B2; subst. apply same_topic_spec. eauto.
Qed.

Lemma same_topic_refl_l : forall c a b, same_topic c a b = true -> same_topic c a a = true.
Proof. intros c a b H. eapply same_topic_trans; [exact H | apply same_topic_sym; exact H]. Qed.

Lemma in_topic_same : forall c a b t, in_topic c a t = true -> same_topic c a b = true -> in_topic c b t = true.
Proof.
  intros c a b t H1 H2. apply same_topic_spec in H2. destruct H2 as (t' & A & B).
  unfold in_topic in *. rewrite A in H1. rewrite B. exact H1.
Qed.

Lemma in_topic_both : forall c a b t, in_topic c a t = true -> in_topic c b t = true -> same_topic c a b = true.
Proof.
  intros c a b t H1 H2. unfold in_topic in *. apply same_topic_spec.
  destruct (topic_of c a) as [ta|]; [|discriminate]. destruct (topic_of c b) as [tb|]; [|discriminate].
  apply N.eqb_eq in H1, H2. subst. eauto.
Qed.

Lemma topic_of_in : forall c s t, topic_of c s = Some t -> In s (map sid c).
Proof.
  induction c as [|x r IH]; intros s t H; cbn in *; [discriminate|].
  destruct (N.eqb (sid x) s) eqn:E; [left; apply N.eqb_eq; exact E | right; eapply IH; exact H].
Qed.

Lemma quiescent_spec : forall c st s, quiescent c st = true -> In s (map sid c) -> inq st s = [] /\ evq st s = [].
Proof.
  intros c st s H Hin. unfold quiescent in H. rewrite forallb_forall in H.
  apply in_map_iff in Hin. destruct Hin as (x & <- & Hx). specialize (H x Hx).
  destruct (inq st (sid x)); [|discriminate]. destruct (evq st (sid x)); [|discriminate]. auto.
Qed.

Section LiveProofs.
Variable c : config.
Variable seed : N -> list N.
Variables capS capM : nat.
Variable U : list N.
Hypothesis HcapS : length U <= capS.
Hypothesis HcapM : length U <= capM.
Hypothesis Hseed_U : forall s op, In op (seed s) -> In op U.
Hypothesis Hseed_nd : forall s, NoDup (seed s).
Hypothesis Hseed_same : forall a b, same_topic c a b = true -> incl (seed a) (seed b).

Definition label_ok (l : label) : Prop :=
  match l with Arrive _ op | Publish _ op => In op U | _ => True end.

(** ** Insertion never evicts inside the window *)
Lemma insert_noevict : forall b x,
  NoDup (items b) -> incl (items b) U -> In x U -> length U <= cap b ->
  snd (insert b x) = negb (memN x (items b)) /\
  (forall y, In y (items (fst (insert b x))) <-> In y (items b) \/ y = x) /\
  NoDup (items (fst (insert b x))) /\ incl (items (fst (insert b x))) U /\ cap (fst (insert b x)) = cap b.
Proof.
  intros b x Hnd Hin Hx Hcap. unfold insert. destruct (memN x (items b)) eqn:Em; cbn [fst snd negb].
  - apply memN_true_in in Em. repeat split; auto.
    + intros [H| ->]; assumption.
  - apply memN_false_notin in Em.
    assert (Hlen : length (items b) + 1 <= cap b).
    { assert (NoDup (x :: items b)) as Hnd2 by (constructor; assumption).
      assert (incl (x :: items b) U) as Hin2 by (intros y [<-|Hy]; auto).
      pose proof (NoDup_incl_length Hnd2 Hin2) as Hl. cbn in Hl. lia. }
    assert (Nat.ltb (cap b) (length (items b) + 1) = false) as -> by (apply Nat.ltb_ge; lia).
    cbn [items cap]. repeat split.
    + intro H. apply in_app_or in H. destruct H as [H|[<-|[]]]; auto.
    + intros [H| ->]; apply in_or_app; [left; assumption | right; left; reflexivity].
    + apply nodup_snoc; assumption.
    + intros y H. apply in_app_or in H. destruct H as [H|[<-|[]]]; auto.
Qed.

Lemma insert_facts : forall b x b' fresh,
  insert b x = (b', fresh) ->
  NoDup (items b) -> incl (items b) U -> In x U -> length U <= cap b ->
  (fresh = true <-> ~ In x (items b)) /\
  (forall y, In y (items b') <-> In y (items b) \/ y = x) /\
  NoDup (items b') /\ incl (items b') U /\ cap b' = cap b /\ (fresh = false -> In x (items b)).
Proof.
  intros b x b' fresh E Hnd Hin Hx Hcap.
  destruct (insert_noevict b x Hnd Hin Hx Hcap) as (F1 & F2 & F3 & F4 & F5).
  rewrite E in *. cbn [fst snd] in *.
  assert (F6 : fresh = false -> In x (items b)).
  { intros ->. destruct (memN x (items b)) eqn:Em; [apply memN_true_in; exact Em | discriminate F1]. }
  repeat split; auto.
  - intros -> Hi. destruct (memN x (items b)) eqn:Em; [discriminate F1|].
    apply memN_false_notin in Em. contradiction.
  - intro Hn. rewrite F1. destruct (memN x (items b)) eqn:Em; [|reflexivity].
    apply memN_true_in in Em. contradiction.
  - apply F2.
  - apply F2.
Qed.

(** ** Invariant, part A: buffers stay duplicate free, inside [U], with their capacity *)
Record InvA (st : state) : Prop := {
  a_dd_nd : forall s, NoDup (items (dd st s));
  a_dd_U : forall s, incl (items (dd st s)) U;
  a_dd_cap : forall s, cap (dd st s) = capS;
  a_m_nd : NoDup (items (mdd st));
  a_m_U : incl (items (mdd st)) U;
  a_m_cap : cap (mdd st) = capM;
  a_q_U : forall s op, In op (inq st s) \/ In op (evq st s) -> In op U
}.

Definition known (st : state) (s op : N) : Prop := In op (items (dd st s)).

Lemma invA_init : InvA (init seed capS capM).
Proof.
  constructor; cbn; intros; auto.
  - intros op H. eapply Hseed_U; exact H.
  - constructor.
  - intros op [].
  - destruct H as [[]|[]].
Qed.

Ltac upd_cases s s0 := unfold upd; destruct (N.eqb s s0) eqn:?E; [apply N.eqb_eq in E; subst s|apply N.eqb_neq in E].

Lemma invA_step : forall st l, InvA st -> label_ok l -> InvA (step c st l).
Proof.
  intros st l HA Hl. destruct HA as [A1 A2 A3 A4 A5 A6 A7]. destruct l as [s0 op0|s0|s0|t op0]; cbn [step label_ok] in *.
  - destruct (insert (dd st s0) op0) as [b fresh] eqn:Ei.
    destruct (insert_facts _ _ _ _ Ei (A1 s0) (A2 s0) Hl ltac:(rewrite A3; exact HcapS)) as (F1 & F2 & F3 & F4 & F5 & _).
    constructor; cbn [dd inq evq mdd log]; auto.
    + intro s. upd_cases s s0; auto.
    + intro s. upd_cases s s0; auto.
    + intro s. upd_cases s s0; auto. rewrite F5. apply A3.
    + intros s op [H|H]; [eapply A7; left; exact H|].
      destruct fresh; [|eapply A7; right; exact H].
      revert H. upd_cases s s0; intro H; [|eapply A7; right; exact H].
      apply in_app_or in H. destruct H as [H|[<-|[]]]; [eapply A7; right; exact H | exact Hl].
  - destruct (evq st s0) as [|op r] eqn:Ee; [constructor; auto|].
    assert (HopU : In op U) by (apply (A7 s0 op); right; rewrite Ee; left; reflexivity).
    destruct (insert (mdd st) op) as [b fresh] eqn:Ei.
    destruct (insert_facts _ _ _ _ Ei A4 A5 HopU ltac:(rewrite A6; exact HcapM)) as (F1 & F2 & F3 & F4 & F5 & _).
    constructor; cbn [dd inq evq mdd log]; auto.
    + rewrite F5. exact A6.
    + intros s op1 [H|H].
      * destruct (fwd c s0 s); [|eapply A7; left; exact H].
        apply in_app_or in H. destruct H as [H|[<-|[]]]; [eapply A7; left; exact H | exact HopU].
      * revert H. upd_cases s s0; intro H; [|eapply A7; right; exact H].
        apply (A7 s0 op1). right. rewrite Ee. right. exact H.
  - destruct (inq st s0) as [|op r] eqn:Ee; [constructor; auto|].
    assert (HopU : In op U) by (apply (A7 s0 op); left; rewrite Ee; left; reflexivity).
    destruct (insert (dd st s0) op) as [b fresh] eqn:Ei.
    destruct (insert_facts _ _ _ _ Ei (A1 s0) (A2 s0) HopU ltac:(rewrite A3; exact HcapS)) as (F1 & F2 & F3 & F4 & F5 & _).
    constructor; cbn [dd inq evq mdd log]; auto.
    + intro s. upd_cases s s0; auto.
    + intro s. upd_cases s s0; auto.
    + intro s. upd_cases s s0; auto. rewrite F5. apply A3.
    + intros s op1 [H|H]; [|eapply A7; right; exact H].
      revert H. upd_cases s s0; intro H; [|eapply A7; left; exact H].
      apply (A7 s0 op1). left. rewrite Ee. right. exact H.
  - constructor; cbn [dd inq evq mdd log]; auto.
    intros s op1 [H|H]; [|eapply A7; right; exact H].
    destruct (in_topic c s t); [|eapply A7; left; exact H].
    apply in_app_or in H. destruct H as [H|[<-|[]]]; [eapply A7; left; exact H | exact Hl].
Qed.

(** What a session knows only grows (no eviction inside the window). *)
Lemma known_mono : forall st l s op, InvA st -> label_ok l -> known st s op -> known (step c st l) s op.
Proof.
  intros st l s op HA Hl Hk. destruct HA as [A1 A2 A3 A4 A5 A6 A7]. unfold known in *.
  destruct l as [s0 op0|s0|s0|t op0]; cbn [step label_ok] in *.
  - destruct (insert (dd st s0) op0) as [b fresh] eqn:Ei.
    destruct (insert_facts _ _ _ _ Ei (A1 s0) (A2 s0) Hl ltac:(rewrite A3; exact HcapS)) as (F1 & F2 & _).
    cbn [dd]. upd_cases s s0; auto. apply F2. left. exact Hk.
  - destruct (evq st s0) as [|op1 r]; [exact Hk|]. destruct (insert (mdd st) op1). exact Hk.
  - destruct (inq st s0) as [|op1 r] eqn:Ee; [exact Hk|].
    assert (HopU : In op1 U) by (apply (A7 s0 op1); left; rewrite Ee; left; reflexivity).
    destruct (insert (dd st s0) op1) as [b fresh] eqn:Ei.
    destruct (insert_facts _ _ _ _ Ei (A1 s0) (A2 s0) HopU ltac:(rewrite A3; exact HcapS)) as (F1 & F2 & _).
    cbn [dd]. upd_cases s s0; auto. apply F2. left. exact Hk.
  - exact Hk.
Qed.

Lemma in_snoc {A} : forall (l : list A) x y, In x (l ++ [y]) <-> In x l \/ x = y.
Proof.
  intros l x y. rewrite in_app_iff. cbn. split; intros [H|H]; auto.
  - destruct H as [H|[]]; auto.
Qed.

(** ** Invariant, part B: the log tells exactly what the buffers contain; sends and consumer
    events are logged only for operations that were new *)
Definition good (l : list entry) : Prop :=
  forall l1 e l2, l = l1 ++ e :: l2 ->
    match e with
    | ESent s op => ~ In (ESent s op) l1 /\ ~ In (EArr s op) l1 /\ ~ In op (seed s)
    | ECons _ op => forall s', ~ In (ECons s' op) l1
    | EArr _ _ => True
    end.

Lemma good_nil : good [].
Proof. intros l1 e l2 H. destruct l1; discriminate H. Qed.

Lemma good_snoc : forall l e, good l ->
  match e with
  | ESent s op => ~ In (ESent s op) l /\ ~ In (EArr s op) l /\ ~ In op (seed s)
  | ECons _ op => forall s', ~ In (ECons s' op) l
  | EArr _ _ => True
  end -> good (l ++ [e]).
Proof.
  intros l e Hg He l1 e' l2 H. apply snoc_split in H. destruct H as [(-> & -> & ->) | (l2' & -> & ->)].
  - exact He.
  - eapply Hg. reflexivity.
Qed.

Record InvB (st : state) : Prop := {
  b_dd_log : forall s op, known st s op <-> (In op (seed s) \/ In (EArr s op) (log st) \/ In (ESent s op) (log st));
  b_m_log : forall op, In op (items (mdd st)) <-> exists s, In (ECons s op) (log st);
  b_good : good (log st)
}.

Lemma invB_init : InvB (init seed capS capM).
Proof.
  constructor; cbn.
  - intros s op. unfold known. cbn. split; [auto | intros [H|[[]|[]]]; exact H].
  - intros op. split; [intros [] | intros [s []]].
  - apply good_nil.
Qed.

Lemma invB_step : forall st l, InvA st -> InvB st -> label_ok l -> InvB (step c st l).
Proof.
  intros st l HA HB Hl. destruct HA as [A1 A2 A3 A4 A5 A6 A7]. destruct HB as [B1 B2 B3].
  destruct l as [s0 op0|s0|s0|t op0]; cbn [step label_ok] in *.
  - (* Arrive *)
    destruct (insert (dd st s0) op0) as [b fresh] eqn:Ei.
    destruct (insert_facts _ _ _ _ Ei (A1 s0) (A2 s0) Hl ltac:(rewrite A3; exact HcapS)) as (F1 & F2 & _).
    constructor; cbn [dd inq evq mdd log].
    + intros s op. unfold known. cbn [dd]. rewrite !in_snoc. upd_cases s s0.
      * rewrite F2. fold (known st s0 op). rewrite B1. split.
        -- intros [[H|[H|H]]| ->]; auto.
        -- intros [H|[[H|H]|[H|H]]]; auto; [inversion H; auto | discriminate H].
      * fold (known st s op). rewrite B1. split.
        -- intros [H|[H|H]]; auto.
        -- intros [H|[[H|H]|[H|H]]]; auto; [inversion H; subst; contradiction | discriminate H].
    + intros op. rewrite B2. split; intros [s H]; exists s.
      * apply in_snoc. left. exact H.
      * apply in_snoc in H. destruct H as [H|H]; [exact H | discriminate H].
    + apply good_snoc; [exact B3 | exact I].
  - (* Mgr *)
    destruct (evq st s0) as [|op r] eqn:Ee; [constructor; auto|].
    assert (HopU : In op U) by (apply (A7 s0 op); right; rewrite Ee; left; reflexivity).
    destruct (insert (mdd st) op) as [b fresh] eqn:Ei.
    destruct (insert_facts _ _ _ _ Ei A4 A5 HopU ltac:(rewrite A6; exact HcapM)) as (F1 & F2 & _ & _ & _ & F6).
    constructor; cbn [dd inq evq mdd log].
    + intros s op1. unfold known. cbn [dd]. fold (known st s op1). rewrite B1. destruct fresh; [|reflexivity].
      rewrite !in_snoc. split.
      * intros [H|[H|H]]; auto.
      * intros [H|[[H|H]|[H|H]]]; auto; discriminate H.
    + intros op1. rewrite F2. rewrite B2. destruct fresh.
      * split.
        -- intros [[s H]| ->]; [exists s; apply in_snoc; left; exact H | exists s0; apply in_snoc; right; reflexivity].
        -- intros [s H]. apply in_snoc in H. destruct H as [H|H]; [left; exists s; exact H | right; inversion H; reflexivity].
      * split.
        -- intros [H| ->]; [exact H | apply B2; apply F6; reflexivity].
        -- intro H. left. exact H.
    + destruct fresh; [|exact B3]. apply good_snoc; [exact B3|].
      intros s' H. apply (proj1 F1 eq_refl). apply B2. exists s'. exact H.
  - (* Pump *)
    destruct (inq st s0) as [|op r] eqn:Ee; [constructor; auto|].
    assert (HopU : In op U) by (apply (A7 s0 op); left; rewrite Ee; left; reflexivity).
    destruct (insert (dd st s0) op) as [b fresh] eqn:Ei.
    destruct (insert_facts _ _ _ _ Ei (A1 s0) (A2 s0) HopU ltac:(rewrite A3; exact HcapS)) as (F1 & F2 & _ & _ & _ & F6).
    constructor; cbn [dd inq evq mdd log].
    + intros s op1. unfold known. cbn [dd]. upd_cases s s0.
      * rewrite F2. fold (known st s0 op1). rewrite B1. destruct fresh.
        -- rewrite !in_snoc. split.
           ++ intros [[H|[H|H]]| ->]; auto.
           ++ intros [H|[[H|H]|[H|H]]]; auto; [discriminate H | inversion H; auto].
        -- split.
           ++ intros [H| ->]; [exact H | apply B1; apply F6; reflexivity].
           ++ intro H. left. exact H.
      * fold (known st s op1). rewrite B1. destruct fresh; [|reflexivity]. rewrite !in_snoc. split.
        -- intros [H|[H|H]]; auto.
        -- intros [H|[[H|H]|[H|H]]]; auto; [discriminate H | inversion H; subst; contradiction].
    + intros op1. rewrite B2. destruct fresh; [|reflexivity]. split; intros [s H]; exists s.
      * apply in_snoc. left. exact H.
      * apply in_snoc in H. destruct H as [H|H]; [exact H | discriminate H].
    + destruct fresh; [|exact B3]. apply good_snoc; [exact B3|].
      assert (Hn : ~ known st s0 op) by (apply F1; reflexivity). rewrite B1 in Hn.
      repeat split; intro H; apply Hn; auto.
  - (* Publish *)
    constructor; cbn [dd inq evq mdd log]; auto.
Qed.

(** ** Invariant, part C: whatever one session of a topic knows (or has queued) is known to,
    queued for, or on its way to every session of that topic *)
Definition covered (st : state) (s' op : N) : Prop :=
  known st s' op \/ In op (inq st s') \/ exists s2, In op (evq st s2) /\ fwd c s2 s' = true.

Definition touched (st : state) (s op : N) : Prop := known st s op \/ In op (inq st s).

Record InvC (st : state) : Prop := {
  c_evq_known : forall s op, In op (evq st s) -> known st s op;
  c_cover : forall s op s', touched st s op -> same_topic c s s' = true -> covered st s' op
}.

Lemma invC_init : InvC (init seed capS capM).
Proof.
  constructor; cbn.
  - intros s op [].
  - intros s op s' [H|[]] Hs. left. unfold known in *. cbn in *. eapply Hseed_same; eassumption.
Qed.

Lemma fwd_intro : forall s0 s', same_topic c s0 s' = true -> s' <> s0 -> fwd c s0 s' = true.
Proof.
  intros s0 s' H Hn. unfold fwd. rewrite H. cbn. apply negb_true_iff. apply N.eqb_neq. exact Hn.
Qed.

Lemma fwd_same_topic : forall s0 x, fwd c s0 x = true -> same_topic c s0 x = true.
Proof. intros s0 x H. unfold fwd in H. apply andb_true_iff in H. destruct H as [H _]. exact H. Qed.

Lemma invC_step : forall st l, InvA st -> InvC st -> label_ok l -> InvC (step c st l).
Proof.
  intros st l HA HC Hl. pose proof (known_mono st l) as Hmono.
  destruct HA as [A1 A2 A3 A4 A5 A6 A7]. destruct HC as [C1 C2].
  assert (HA : InvA st) by (constructor; assumption).
  destruct l as [s0 op0|s0|s0|t op0]; cbn [step label_ok] in *.
  - (* Arrive *)
    destruct (insert (dd st s0) op0) as [b fresh] eqn:Ei.
    destruct (insert_facts _ _ _ _ Ei (A1 s0) (A2 s0) Hl ltac:(rewrite A3; exact HcapS)) as (F1 & F2 & _ & _ & _ & F6).
    set (st' := {| dd := upd (dd st) s0 b; inq := inq st;
                   evq := if fresh then upd (evq st) s0 (evq st s0 ++ [op0]) else evq st;
                   mdd := mdd st; log := log st ++ [EArr s0 op0] |}) in *.
    assert (Hk' : forall s op, known st s op -> known st' s op) by (intros s op H; apply (Hmono s op HA Hl H)).
    assert (Hk0 : known st' s0 op0).
    { unfold known, st'. cbn [dd]. rewrite upd_same. apply F2. right. reflexivity. }
    assert (Hev : forall s op, In op (evq st s) -> In op (evq st' s)).
    { intros s op H. unfold st'. cbn [evq]. destruct fresh; [|exact H].
      upd_cases s s0; [apply in_or_app; left; exact H | exact H]. }
    assert (Hcov : forall s' op, covered st s' op -> covered st' s' op).
    { intros s' op [H|[H|(s2 & H & Hf)]]; [left; auto | right; left; exact H | right; right; exists s2; auto]. }
    constructor.
    + intros s op H. unfold st' in H. cbn [evq] in H. destruct fresh; [|apply Hk'; apply C1; exact H].
      revert H. upd_cases s s0; intro H; [|apply Hk'; apply C1; exact H].
      apply in_app_or in H. destruct H as [H|[<-|[]]]; [apply Hk'; apply C1; exact H | exact Hk0].
    + intros s op s' Ht Hs.
      assert (Hold : touched st s op \/ (s = s0 /\ op = op0 /\ fresh = true)).
      { destruct Ht as [H|H]; [|left; right; exact H].
        unfold known, st' in H. cbn [dd] in H. revert H. upd_cases s s0; intro H; [|left; left; exact H].
        apply F2 in H. destruct H as [H| ->]; [left; left; exact H|].
        destruct fresh; [right; auto | left; left; apply F6; reflexivity]. }
      destruct Hold as [Hold|(-> & -> & ->)]; [apply Hcov; eapply C2; eassumption|].
      destruct (N.eq_dec s' s0) as [->|Hne]; [left; exact Hk0|].
      right. right. exists s0. split; [|apply fwd_intro; assumption].
      unfold st'. cbn [evq]. rewrite upd_same. apply in_or_app. right. left. reflexivity.
  - (* Mgr *)
    destruct (evq st s0) as [|op0 r] eqn:Ee; [constructor; assumption|].
    destruct (insert (mdd st) op0) as [b fresh] eqn:Ei.
    set (st' := {| dd := dd st; inq := fun x => if fwd c s0 x then inq st x ++ [op0] else inq st x;
                   evq := upd (evq st) s0 r; mdd := b;
                   log := if fresh then log st ++ [ECons s0 op0] else log st |}) in *.
    assert (Hk0 : known st s0 op0) by (apply C1; rewrite Ee; left; reflexivity).
    assert (Hinq : forall s op, In op (inq st s) -> In op (inq st' s)).
    { intros s op H. unfold st'. cbn [inq]. destruct (fwd c s0 s); [apply in_or_app; left; exact H | exact H]. }
    assert (Hfw : forall s', fwd c s0 s' = true -> In op0 (inq st' s')).
    { intros s' H. unfold st'. cbn [inq]. rewrite H. apply in_or_app. right. left. reflexivity. }
    assert (Hcov : forall s' op, covered st s' op -> covered st' s' op).
    { intros s' op [H|[H|(s2 & H & Hf)]]; [left; exact H | right; left; auto|].
      destruct (N.eq_dec s2 s0) as [->|Hne].
      - rewrite Ee in H. destruct H as [<-|H]; [right; left; auto|].
        right. right. exists s0. split; [unfold st'; cbn [evq]; rewrite upd_same; exact H | exact Hf].
      - right. right. exists s2. split; [unfold st'; cbn [evq]; rewrite upd_other by exact Hne; exact H | exact Hf]. }
    constructor.
    + intros s op H. unfold st' in H. cbn [evq] in H. revert H. upd_cases s s0; intro H.
      * apply (C1 s0 op). rewrite Ee. right. exact H.
      * apply (C1 s op). exact H.
    + intros s op s' Ht Hs.
      assert (Hold : touched st s op \/ (fwd c s0 s = true /\ op = op0)).
      { destruct Ht as [H|H]; [left; left; exact H|].
        unfold st' in H. cbn [inq] in H. destruct (fwd c s0 s) eqn:Ef; [|left; right; exact H].
        apply in_app_or in H. destruct H as [H|[<-|[]]]; [left; right; exact H | right; auto]. }
      destruct Hold as [Hold|(Hf & ->)]; [apply Hcov; eapply C2; eassumption|].
      assert (Hs0 : same_topic c s0 s' = true) by (eapply same_topic_trans; [apply fwd_same_topic; exact Hf | exact Hs]).
      destruct (N.eq_dec s' s0) as [->|Hne]; [left; exact Hk0|].
      right. left. apply Hfw. apply fwd_intro; assumption.
  - (* Pump *)
    destruct (inq st s0) as [|op0 r] eqn:Ee; [constructor; assumption|].
    assert (HopU : In op0 U) by (apply (A7 s0 op0); left; rewrite Ee; left; reflexivity).
    destruct (insert (dd st s0) op0) as [b fresh] eqn:Ei.
    destruct (insert_facts _ _ _ _ Ei (A1 s0) (A2 s0) HopU ltac:(rewrite A3; exact HcapS)) as (F1 & F2 & _).
    set (st' := {| dd := upd (dd st) s0 b; inq := upd (inq st) s0 r; evq := evq st; mdd := mdd st;
                   log := if fresh then log st ++ [ESent s0 op0] else log st |}) in *.
    assert (Hk' : forall s op, known st s op -> known st' s op).
    { intros s op H. unfold known, st'. cbn [dd]. upd_cases s s0; [apply F2; left; exact H | exact H]. }
    assert (Hk0 : known st' s0 op0).
    { unfold known, st'. cbn [dd]. rewrite upd_same. apply F2. right. reflexivity. }
    assert (Hcov : forall s' op, covered st s' op -> covered st' s' op).
    { intros s' op [H|[H|(s2 & H & Hf)]]; [left; auto | | right; right; exists s2; auto].
      destruct (N.eq_dec s' s0) as [->|Hne].
      - rewrite Ee in H. destruct H as [<-|H]; [left; exact Hk0|].
        right. left. unfold st'. cbn [inq]. rewrite upd_same. exact H.
      - right. left. unfold st'. cbn [inq]. rewrite upd_other by exact Hne. exact H. }
    constructor.
    + intros s op H. apply Hk'. apply C1. exact H.
    + intros s op s' Ht Hs. apply Hcov. eapply C2; [|exact Hs].
      destruct Ht as [H|H].
      * unfold known, st' in H. cbn [dd] in H. revert H. upd_cases s s0; intro H; [|left; exact H].
        apply F2 in H. destruct H as [H| ->]; [left; exact H | right; rewrite Ee; left; reflexivity].
      * unfold st' in H. cbn [inq] in H. revert H. upd_cases s s0; intro H; [|right; exact H].
        right. rewrite Ee. right. exact H.
  - (* Publish *)
    set (st' := {| dd := dd st; inq := fun x => if in_topic c x t then inq st x ++ [op0] else inq st x;
                   evq := evq st; mdd := mdd st; log := log st |}) in *.
    assert (Hinq : forall s op, In op (inq st s) -> In op (inq st' s)).
    { intros s op H. unfold st'. cbn [inq]. destruct (in_topic c s t); [apply in_or_app; left; exact H | exact H]. }
    assert (Hcov : forall s' op, covered st s' op -> covered st' s' op).
    { intros s' op [H|[H|(s2 & H & Hf)]]; [left; exact H | right; left; auto | right; right; exists s2; auto]. }
    constructor.
    + exact C1.
    + intros s op s' Ht Hs.
      assert (Hold : touched st s op \/ (in_topic c s t = true /\ op = op0)).
      { destruct Ht as [H|H]; [left; left; exact H|].
        unfold st' in H. cbn [inq] in H. destruct (in_topic c s t) eqn:Ef; [|left; right; exact H].
        apply in_app_or in H. destruct H as [H|[<-|[]]]; [left; right; exact H | right; auto]. }
      destruct Hold as [Hold|(Hf & ->)]; [apply Hcov; eapply C2; eassumption|].
      right. left. unfold st'. cbn [inq]. rewrite (in_topic_same c s s' t Hf Hs). apply in_or_app. right. left. reflexivity.
Qed.

(** ** All reachable states *)
Definition Inv (st : state) : Prop := InvA st /\ InvB st /\ InvC st.

Lemma inv_run : forall tr st, Inv st -> Forall label_ok tr -> Inv (run c st tr).
Proof.
  induction tr as [|l tr IH]; intros st (HA & HB & HC) Hok; cbn [run fold_left]; [split; [|split]; assumption|].
  inversion Hok; subst. apply IH; [|assumption].
  split; [|split]; [apply invA_step | apply invB_step | apply invC_step]; assumption.
Qed.

Lemma inv_init : Inv (init seed capS capM).
Proof. split; [|split]; [apply invA_init | apply invB_init | apply invC_init]. Qed.

Definition reach (tr : list label) : state := run c (init seed capS capM) tr.

(** ** The theorems *)

(** A manager step hands the operation to every other session of the topic and to nobody else;
    in particular not back to the session it came from. *)
Theorem forward_step : forall st s op r, evq st s = op :: r ->
  forall x, inq (step c st (Mgr s)) x = if fwd c s x then inq st x ++ [op] else inq st x.
Proof. intros st s op r E x. cbn [step]. rewrite E. destruct (insert (mdd st) op). reflexivity. Qed.

Theorem forward_not_to_origin : forall s, fwd c s s = false.
Proof. intro s. unfold fwd. rewrite N.eqb_refl. apply andb_false_r. Qed.

(** Once nothing is in flight, an operation that arrived on one session is known to every
    session of its topic: it was sent to that session's remote, or came from it, or was part of
    what the sync phase already sent it. *)
Theorem forwarded_to_all_others : forall tr s op s',
  Forall label_ok tr -> quiescent c (reach tr) = true ->
  In (EArr s op) (log (reach tr)) -> same_topic c s s' = true ->
  In (ESent s' op) (log (reach tr)) \/ In (EArr s' op) (log (reach tr)) \/ In op (seed s').
Proof.
  intros tr s op s' Hok Hq Harr Hs.
  destruct (inv_run tr _ inv_init Hok) as (HA & HB & HC). fold (reach tr) in *.
  assert (Hk : known (reach tr) s op) by (apply (b_dd_log _ HB); right; left; exact Harr).
  pose proof (c_cover _ HC s op s' (or_introl Hk) Hs) as Hc.
  assert (Hs'in : In s' (map sid c)).
  { apply same_topic_spec in Hs. destruct Hs as (t & _ & H). eapply topic_of_in; exact H. }
  destruct (quiescent_spec c _ s' Hq Hs'in) as [Hi He].
  destruct Hc as [H|[H|(s2 & H & Hf)]].
  - apply (b_dd_log _ HB) in H. destruct H as [H|[H|H]]; auto.
  - rewrite Hi in H. destruct H.
  - assert (In s2 (map sid c)) as Hs2.
    { apply fwd_same_topic in Hf. apply same_topic_spec in Hf. destruct Hf as (t & Hf & _). eapply topic_of_in; exact Hf. }
    destruct (quiescent_spec c _ s2 Hq Hs2) as [_ He2]. rewrite He2 in H. destruct H.
Qed.

(** A session sends a given operation at most once (and never one the sync phase already sent). *)
Theorem at_most_once_per_session : forall tr s op l1 l2,
  Forall label_ok tr -> log (reach tr) = l1 ++ ESent s op :: l2 ->
  ~ In (ESent s op) l1 /\ ~ In (ESent s op) l2 /\ ~ In op (seed s).
Proof.
  intros tr s op l1 l2 Hok E. destruct (inv_run tr _ inv_init Hok) as (_ & HB & _). fold (reach tr) in *.
  pose proof (b_good _ HB) as Hg. pose proof (Hg l1 (ESent s op) l2 E) as (G1 & _ & G3). cbn in G1, G3.
  repeat split; auto. intro H. apply in_split in H. destruct H as (m1 & m2 & ->).
  specialize (Hg (l1 ++ ESent s op :: m1) (ESent s op) m2). rewrite <- app_assoc in Hg. cbn in Hg.
  destruct (Hg E) as (G & _). apply G. apply in_or_app. right. left. reflexivity.
Qed.

(** After an operation arrived on a session, that session never sends it. *)
Theorem never_back_to_origin : forall tr s op l1 l2,
  Forall label_ok tr -> log (reach tr) = l1 ++ EArr s op :: l2 -> ~ In (ESent s op) l2.
Proof.
  intros tr s op l1 l2 Hok E H. destruct (inv_run tr _ inv_init Hok) as (_ & HB & _). fold (reach tr) in *.
  pose proof (b_good _ HB) as Hg. apply in_split in H. destruct H as (m1 & m2 & ->).
  specialize (Hg (l1 ++ EArr s op :: m1) (ESent s op) m2). rewrite <- app_assoc in Hg. cbn in Hg.
  destruct (Hg E) as (_ & G & _). apply G. apply in_or_app. right. left. reflexivity.
Qed.

(** Per peer: with pairwise different remote peers on a topic, an operation that came from a peer
    is never afterwards sent to that peer on any session of the topic. *)
Theorem never_back_to_origin_peer : forall tr s op l1 l2 s',
  distinct_peers c -> Forall label_ok tr -> log (reach tr) = l1 ++ EArr s op :: l2 ->
  same_topic c s s' = true -> peer_of c s = peer_of c s' -> ~ In (ESent s' op) l2.
Proof.
  intros tr s op l1 l2 s' Hd Hok E Hs Hp. rewrite <- (Hd s s' Hs Hp). eapply never_back_to_origin; eassumption.
Qed.

(** The consumer of the manager's event stream sees an operation at most once. *)
Theorem consumer_at_most_once : forall tr s op l1 l2,
  Forall label_ok tr -> log (reach tr) = l1 ++ ECons s op :: l2 ->
  forall s', ~ In (ECons s' op) l1 /\ ~ In (ECons s' op) l2.
Proof.
  intros tr s op l1 l2 Hok E s'. destruct (inv_run tr _ inv_init Hok) as (_ & HB & _). fold (reach tr) in *.
  pose proof (b_good _ HB) as Hg. split.
  - apply (Hg l1 (ECons s op) l2 E).
  - intro H. apply in_split in H. destruct H as (m1 & m2 & ->).
    specialize (Hg (l1 ++ ECons s op :: m1) (ECons s' op) m2). rewrite <- app_assoc in Hg. cbn in Hg.
    apply (Hg E s). apply in_or_app. right. left. reflexivity.
Qed.

End LiveProofs.

(** ** The same-peer configuration: the per-peer statement fails *)
Definition cfg_same_peer : config :=
  [ {| sid := 1; stopic := 0; speer := 7 |}; {| sid := 2; stopic := 0; speer := 7 |} ]%N.

Definition tr_same_peer : list label := [Arrive 1 5; Mgr 1; Pump 2]%N.

Theorem same_peer_refuted :
  exists c tr s op l1 l2 s',
    log (run c (init (fun _ => []) 1024 1024) tr) = l1 ++ EArr s op :: l2 /\
    same_topic c s s' = true /\ peer_of c s = peer_of c s' /\ In (ESent s' op) l2.
Proof.
  exists cfg_same_peer, tr_same_peer, 1%N, 5%N, [], [ECons 1 5; ESent 2 5]%N, 2%N.
  split; [reflexivity|]. split; [reflexivity|]. split; [reflexivity|]. right. left. reflexivity.
Qed.

(** ** Non-vacuity: a three-session flow with duplicates satisfies all hypotheses *)
Definition cfg3 : config :=
  [ {| sid := 1; stopic := 0; speer := 11 |}; {| sid := 2; stopic := 0; speer := 12 |};
    {| sid := 3; stopic := 0; speer := 13 |}; {| sid := 4; stopic := 9; speer := 11 |} ]%N.

Example ex_flow :
  let tr := [Arrive 1 5; Arrive 2 5; Mgr 1; Mgr 2; Pump 3; Pump 2; Pump 1; Pump 3; Publish 0 6; Pump 1; Pump 2; Pump 3]%N in
  let st := run cfg3 (init (fun _ => [0%N]) 8 8) tr in
  quiescent cfg3 st = true /\
  log st = [EArr 1 5; EArr 2 5; ECons 1 5; ESent 3 5; ESent 1 6; ESent 2 6; ESent 3 6]%N /\
  distinct_peers cfg3.
Proof.
  repeat split.
  intros a b Hs Hp. apply same_topic_spec in Hs. destruct Hs as (t & Ha & Hb).
  pose proof (topic_of_in _ _ _ Ha) as Ia. pose proof (topic_of_in _ _ _ Hb) as Ib. cbn in Ia, Ib.
  destruct Ia as [<-|[<-|[<-|[<-|[]]]]]; destruct Ib as [<-|[<-|[<-|[<-|[]]]]]; cbn in *; congruence.
Qed.
