(** C19, part 1 -- what one side sends is a function of its own replica and the peer's Have only
    ([script]), whatever the interleaving of ticks and received messages; and which operations
    that is ([sent_ops_exact]). *)
From Coq Require Import List Arith NArith Bool Lia.
From PV Require Import Model.Dedup Model.LogSync Proofs.LogSyncC20.
Import ListNotations.

(** ** Small arithmetic / list helpers *)
Definition addp (x y : N * N) : N * N := (fst x + fst y, snd x + snd y)%N.

Lemma addp_0_r x : addp x (0, 0)%N = x.
Proof. destruct x as [a b]. unfold addp. cbn [fst snd]. rewrite !N.add_0_r. reflexivity. Qed.

Lemma addp_0_l x : addp (0, 0)%N x = x.
Proof. destruct x as [a b]. reflexivity. Qed.

Lemma addp_assoc x y z : addp (addp x y) z = addp x (addp y z).
Proof. unfold addp. cbn [fst snd]. rewrite !N.add_assoc. reflexivity. Qed.

Definition size_of (r : replica) (alr : N * N * range) : N * N :=
  log_size r (fst (fst alr)) (snd (fst alr)) (snd alr).

Definition tsf (r : replica) (ob : N * N) (alr : N * N * range) : N * N :=
  let x := log_size r (fst (fst alr)) (snd (fst alr)) (snd alr) in (fst ob + fst x, snd ob + snd x)%N.

Lemma total_size_acc2 r todo : forall a1 a2,
  fold_left (tsf r) todo (addp a1 a2) = addp a1 (fold_left (tsf r) todo a2).
Proof.
  induction todo as [|alr todo IH]; intros a1 a2; [reflexivity|].
  cbn [fold_left]. rewrite <- IH. f_equal.
  unfold tsf, addp. cbn [fst snd]. rewrite !N.add_assoc. reflexivity.
Qed.

Lemma total_size_acc r todo acc :
  fold_left (tsf r) todo acc = addp acc (total_size r todo).
Proof.
  unfold total_size. change (fun ob alr => _) with (tsf r).
  rewrite <- total_size_acc2, addp_0_r. reflexivity.
Qed.

Lemma total_size_cons r alr todo :
  total_size r (alr :: todo) = addp (size_of r alr) (total_size r todo).
Proof.
  unfold total_size at 1. change (fun ob alr => _) with (tsf r). cbn [fold_left].
  rewrite total_size_acc. unfold tsf, size_of. cbn [fst snd].
  rewrite !N.add_0_l. destruct (log_size r _ _ _); reflexivity.
Qed.

(** ** What is still to be sent from a state, the store holding [r] *)
Definition tail_msgs (r : replica) (todo : list (N * N * range)) : list msg :=
  flat_map (range_ops r) todo ++ [Done].

Definition arm_todo (a : N) (lrs : list (N * range)) : list (N * N * range) :=
  map (fun lr => (a, fst lr, snd lr)) lrs.

Definition remaining (r : replica) (s : st) : list msg :=
  match ph s with
  | PSendPreSync needs todo ops bytes =>
      let ob := addp (ops, bytes) (total_size r todo) in
      if N.ltb 0 (snd ob) then PreSync (fst ob) (snd ob) :: tail_msgs r (flat_needs needs) else [Done]
  | PReceivePreSyncOrDone needs _ _ => if done_sent s then [] else tail_msgs r (flat_needs needs)
  | PSync rest None => if done_sent s then [] else tail_msgs r (flat_needs rest)
  | PSync rest (Some alr) => flat_map (range_ops r) (arm_todo (fst alr) (snd alr)) ++ tail_msgs r (flat_needs rest)
  | _ => []
  end.

(** [done_sent] is still false wherever the code has not yet decided about its Done. *)
Definition wfst (s : st) : Prop :=
  match ph s with
  | PStart _ | PSendHave _ _ | PReceiveHave _ | PSendPreSync _ _ _ _ => done_sent s = false
  | PSync _ (Some _) => done_sent s = false
  | _ => True
  end.

Lemma flat_needs_cons alr rest :
  flat_needs (alr :: rest) = arm_todo (fst alr) (snd alr) ++ flat_needs rest.
Proof. reflexivity. Qed.

Lemma tick_wfst r s : wfst s -> wfst (fst (tick true r s)).
Proof.
  unfold wfst, tick. destruct s as [p dr ds d]. cbn [ph done_sent done_recv dd].
  destruct p as [logs|todo acc|local|needs todo ops bytes|needs ops bytes|rest cur| |]; intros H;
    try (cbn; exact H).
  - destruct todo; cbn; exact H.
  - destruct todo; [destruct (N.ltb 0 bytes)|]; cbn; auto.
  - destruct cur as [[a lrs]|].
    + destruct lrs; [destruct rest|]; cbn; auto.
    + unfold arm_on. cbn [done_sent done_recv]. destruct rest as [|alr rest'].
      * cbn. destruct (dr && ds); cbn; auto.
      * destruct ds; cbn; [destruct dr; cbn; auto|reflexivity].
Qed.

Lemma recv_wfst s m : wfst s -> wfst (fst (recv s m)).
Proof.
  unfold wfst, recv. destruct s as [p dr ds d]. cbn [ph done_sent done_recv dd].
  destruct p as [logs|todo acc|local|needs todo ops bytes|needs ops bytes|rest cur| |]; intros H;
    try (cbn; exact H).
  - destruct m; cbn; auto.
  - destruct m; cbn; auto.
  - destruct cur as [[a lrs]|]; [cbn; exact H|].
    destruct dr; [cbn; exact I|]. destruct m; cbn; auto.
Qed.

Lemma closed_wfst s : wfst s -> wfst (fst (closed s)).
Proof.
  unfold wfst, closed. destruct s as [p dr ds d]. cbn [ph done_sent done_recv dd].
  destruct p; intros H; cbn; auto.
Qed.

(** One tick: what it sends plus what remains afterwards is what remained before. *)
Lemma tick_remaining r s :
  wfst s ->
  match ph s with PStart _ | PSendHave _ _ | PReceiveHave _ => False | _ => True end ->
  sent (snd (tick true r s)) ++ remaining r (fst (tick true r s)) = remaining r s.
Proof.
  unfold wfst, tick, remaining. destruct s as [p dr ds d]. cbn [ph done_sent done_recv dd].
  destruct p as [logs|todo acc|local|needs todo ops bytes|needs ops bytes|rest cur| |]; intros W P;
    try contradiction; try reflexivity.
  - (* PSendPreSync *) subst ds. destruct todo as [|alr todo].
    + change (total_size r []) with (0, 0)%N. rewrite addp_0_r. cbn [fst snd].
      destruct (N.ltb 0 bytes); reflexivity.
    + cbn [fst snd set_ph ph done_sent sent app]. rewrite total_size_cons.
      unfold size_of. rewrite <- addp_assoc. reflexivity.
  - (* PSync *) destruct cur as [[a lrs]|].
    + subst ds. destruct lrs as [|lr more].
      * destruct rest as [|alr rest']; reflexivity.
      * cbn [fst snd ph done_sent]. rewrite sent_op_msgs. cbn [arm_todo map flat_map].
        rewrite <- app_assoc. reflexivity.
    + unfold arm_on. cbn [done_sent done_recv]. destruct rest as [|alr rest'].
      * destruct dr, ds; reflexivity.
      * destruct ds.
        -- cbn. destruct dr; reflexivity.
        -- cbn [negb andb fst snd set_ph ph done_sent sent app].
           unfold tail_msgs. rewrite flat_needs_cons, flat_map_app, <- app_assoc. reflexivity.
Qed.

Lemma recv_remaining r s m :
  match ph s with PStart _ | PSendHave _ _ | PReceiveHave _ => False | _ => True end ->
  ph (fst (recv s m)) <> PFailed ->
  sent (snd (recv s m)) = [] /\ remaining r (fst (recv s m)) = remaining r s.
Proof.
  unfold recv, remaining. destruct s as [p dr ds d]. cbn [ph done_sent done_recv dd].
  destruct p as [logs|todo acc|local|needs todo ops bytes|needs ops bytes|rest cur| |]; intros P NF;
    try contradiction; try (split; reflexivity).
  - destruct m; cbn in *; try congruence; split; reflexivity.
  - destruct cur as [[a lrs]|]; [split; reflexivity|].
    destruct dr; [split; reflexivity|]. destruct m; cbn in *; try congruence.
    + destruct (snd (insert d (r_id w))); split; reflexivity.
    + split; reflexivity.
Qed.

(** ** The invariant of a run against a store that does not change *)
Definition static (r : replica) (ins : list input) : Prop :=
  Forall (fun i => match i with Tick r' => r' = r | _ => True end) ins.

(** [hv]: the Have accepted from the peer so far. *)
Definition accepted (s : st) (i : input) : option heights :=
  match ph s, i with
  | PReceiveHave _, Recv (Have h) => Some h
  | _, _ => None
  end.

Fixpoint have_of_run (s : st) (ins : list input) : option heights :=
  match ins with
  | [] => None
  | i :: t => match accepted s i with
              | Some h => Some h
              | None => have_of_run (fst (step true s i)) t
              end
  end.

Definition post (p : phase) : bool :=
  match p with
  | PSendPreSync _ _ _ _ | PReceivePreSyncOrDone _ _ _ | PSync _ _ | PEnd => true
  | _ => false
  end.

Definition post_inv (r : replica) (logs : list (N * list N)) (s : st) (ms : list msg) (hv : option heights) : Prop :=
  exists h, hv = Some h /\ ms ++ remaining r s = script r logs h.

Definition sinv (r : replica) (logs : list (N * list N)) (s : st) (ms : list msg) (hv : option heights) : Prop :=
  wfst s /\
  match ph s with
  | PStart l => l = logs /\ ms = [] /\ hv = None
  | PSendHave todo acc => acc ++ local_heights r todo = local_heights r logs /\ ms = [] /\ hv = None
  | PReceiveHave local => local = local_heights r logs /\ ms = [Have local] /\ hv = None
  | PFailed => True
  | _ => post_inv r logs s ms hv
  end.

Lemma sinv_post r logs s ms hv :
  post (ph s) = true -> (sinv r logs s ms hv <-> wfst s /\ post_inv r logs s ms hv).
Proof. unfold sinv. destruct (ph s); cbn; intros E; try discriminate; tauto. Qed.

Lemma sinv_failed r logs s ms hv : ph s = PFailed -> sinv r logs s ms hv.
Proof. intros E. unfold sinv, wfst. rewrite E. auto. Qed.

Lemma post_not_pre p : post p = true ->
  match p with PStart _ | PSendHave _ _ | PReceiveHave _ => False | _ => True end.
Proof. destruct p; cbn; intros E; try discriminate; exact I. Qed.

Lemma tick_post r s : post (ph s) = true -> post (ph (fst (tick true r s))) = true.
Proof.
  unfold tick. destruct s as [p dr ds d]. cbn [ph done_sent done_recv dd].
  destruct p as [logs|todo acc|local|needs todo ops bytes|needs ops bytes|rest cur| |]; cbn [post];
    intros E; try discriminate; try reflexivity.
  - destruct todo; [destruct (N.ltb 0 bytes)|]; reflexivity.
  - destruct cur as [[a lrs]|].
    + destruct lrs; [destruct rest|]; reflexivity.
    + destruct (arm_on true _ rest); [destruct rest; reflexivity|].
      destruct (dr && ds); reflexivity.
Qed.

Lemma recv_post s m :
  post (ph s) = true -> post (ph (fst (recv s m))) = true \/ ph (fst (recv s m)) = PFailed.
Proof.
  unfold recv. destruct s as [p dr ds d]. cbn [ph done_sent done_recv dd].
  destruct p as [logs|todo acc|local|needs todo ops bytes|needs ops bytes|rest cur| |]; cbn [post];
    intros E; try discriminate; try (left; reflexivity).
  - destruct m; cbn; auto.
  - destruct cur as [[a lrs]|]; [left; reflexivity|].
    destruct dr; [left; reflexivity|]. destruct m; cbn; auto.
Qed.

Lemma closed_post s :
  post (ph s) = true ->
  (fst (closed s) = s /\ snd (closed s) = []) \/ ph (fst (closed s)) = PFailed.
Proof.
  unfold closed. destruct (ph s) eqn:P; cbn [post]; intros E; try discriminate; auto.
Qed.

Lemma accepted_post s i : post (ph s) = true -> accepted s i = None.
Proof. unfold accepted. destruct (ph s); cbn; intros E; try discriminate; reflexivity. Qed.

Lemma local_heights_cons r al todo :
  local_heights r (al :: todo) =
  (match log_heights r (fst al) (snd al) with None => [] | Some h => [(fst al, h)] end) ++ local_heights r todo.
Proof. reflexivity. Qed.

Lemma step_sinv_post r logs s i ms hv :
  (match i with Tick r' => r' = r | _ => True end) ->
  post (ph s) = true ->
  sinv r logs s ms hv ->
  sinv r logs (fst (step true s i)) (ms ++ sent (snd (step true s i)))
       (match hv with Some h => Some h | None => accepted s i end).
Proof.
  intros Hi Po I. apply (sinv_post r logs s ms hv Po) in I. destruct I as [W [h [-> E]]].
  destruct i as [r'|m|]; cbn [step].
  - subst r'. apply sinv_post; [apply tick_post; exact Po|]. split; [apply tick_wfst; exact W|].
    exists h. split; [reflexivity|]. rewrite <- app_assoc.
    rewrite (tick_remaining r s W (post_not_pre _ Po)). exact E.
  - destruct (recv_post s m Po) as [Po'|F]; [|apply sinv_failed; exact F].
    apply sinv_post; [exact Po'|]. split; [apply recv_wfst; exact W|].
    exists h. split; [reflexivity|].
    destruct (recv_remaining r s m (post_not_pre _ Po)) as [S R].
    { intros F. rewrite F in Po'. discriminate. }
    rewrite S, app_nil_r, R. exact E.
  - destruct (closed_post s Po) as [[Es Eo]|F]; [|apply sinv_failed; exact F].
    rewrite Es, Eo, app_nil_r. apply sinv_post; [exact Po|]. split; [exact W|].
    exists h. split; [reflexivity|exact E].
Qed.

Lemma step_sinv_pre r logs s i ms hv :
  (match i with Tick r' => r' = r | _ => True end) ->
  post (ph s) = false ->
  sinv r logs s ms hv ->
  sinv r logs (fst (step true s i)) (ms ++ sent (snd (step true s i)))
       (match hv with Some h => Some h | None => accepted s i end).
Proof.
  intros Hi Po [W I]. destruct s as [p dr ds d]. unfold wfst in W. cbn [ph done_sent] in *.
  destruct p as [l|todo acc|local|needs todo ops bytes|needs ops bytes|rest cur| |]; cbn [post] in Po;
    try discriminate.
  - (* PStart *) destruct I as [-> [-> ->]]. subst ds.
    destruct i as [r'|m|]; cbn; repeat split; reflexivity.
  - (* PSendHave *) destruct I as [E [-> ->]]. subst ds.
    destruct i as [r'|m|]; [subst r'| |]; try (cbn; repeat split; auto; fail).
    destruct todo as [|al todo].
    + cbn. cbn in E. rewrite app_nil_r in E. repeat split; auto.
    + cbn [step tick ph fst snd set_ph sent app accepted]. split; [reflexivity|].
      cbn [ph]. repeat split; auto.
      rewrite <- E, local_heights_cons.
      destruct (log_heights r (fst al) (snd al)); [rewrite <- app_assoc|]; reflexivity.
  - (* PReceiveHave *) destruct I as [-> [-> ->]]. subst ds.
    destruct i as [r'|m|]; try (cbn; repeat split; auto; fail).
    destruct m; try (cbn; repeat split; auto; fail).
    cbn [step recv ph fst snd set_ph sent app accepted]. split; [reflexivity|].
    cbn [ph]. exists h. split; [reflexivity|].
    unfold remaining, script. cbn [ph set_ph]. rewrite addp_0_l. reflexivity.
  - (* PFailed *) destruct i as [r'|m|]; cbn; split; auto.
Qed.

Lemma step_sinv r logs s i ms hv :
  (match i with Tick r' => r' = r | _ => True end) ->
  sinv r logs s ms hv ->
  sinv r logs (fst (step true s i)) (ms ++ sent (snd (step true s i)))
       (match hv with Some h => Some h | None => accepted s i end).
Proof.
  intros Hi I. destruct (post (ph s)) eqn:Po;
    [apply step_sinv_post|apply step_sinv_pre]; assumption.
Qed.

Lemma run_sinv r logs ins : forall s ms hv,
  static r ins -> sinv r logs s ms hv ->
  sinv r logs (fst (run true s ins)) (ms ++ sent (snd (run true s ins)))
       (match hv with Some h => Some h | None => have_of_run s ins end).
Proof.
  induction ins as [|i ins IH]; intros s ms hv St I.
  - cbn. rewrite app_nil_r. destruct hv; exact I.
  - inversion St as [|? ? Hi St']; subst. cbn [run fst snd have_of_run].
    rewrite sent_app, app_assoc.
    specialize (IH (fst (step true s i)) (ms ++ sent (snd (step true s i)))
                   (match hv with Some h => Some h | None => accepted s i end) St'
                   (step_sinv r logs s i ms hv Hi I)).
    destruct hv as [h|]; [exact IH|]. destruct (accepted s i); exact IH.
Qed.

(** ** Main theorem: the script *)
Theorem script_thm (r : replica) (logs : list (N * list N)) (cap : nat) (ins : list input) :
  static r ins ->
  ph (fst (run true (init logs cap) ins)) = PEnd ->
  exists h, have_of_run (init logs cap) ins = Some h /\
            sent (snd (run true (init logs cap) ins)) = script r logs h.
Proof.
  intros St E.
  assert (I0 : sinv r logs (init logs cap) [] None) by (split; cbn; auto).
  pose proof (run_sinv r logs ins _ _ _ St I0) as [_ I]. rewrite E in I.
  destruct I as [h [Hh Eq]]. exists h. split; [exact Hh|].
  unfold remaining in Eq. rewrite E in Eq. rewrite app_nil_r in Eq. exact Eq.
Qed.

(** Before the end: a prefix of the script (or of [Have local] while no Have was accepted). *)
Theorem script_prefix (r : replica) (logs : list (N * list N)) (cap : nat) (ins : list input) :
  static r ins ->
  ph (fst (run true (init logs cap) ins)) <> PFailed ->
  exists suffix,
    sent (snd (run true (init logs cap) ins)) ++ suffix =
    match have_of_run (init logs cap) ins with
    | Some h => script r logs h
    | None => [Have (local_heights r logs)]
    end.
Proof.
  intros St NF.
  assert (I0 : sinv r logs (init logs cap) [] None) by (split; cbn; auto).
  pose proof (run_sinv r logs ins _ _ _ St I0) as [_ I]. cbn [app] in I.
  destruct (ph (fst (run true (init logs cap) ins))) eqn:P; try congruence.
  - destruct I as [_ [-> ->]]. eexists. reflexivity.
  - destruct I as [_ [-> ->]]. eexists. reflexivity.
  - destruct I as [-> [-> ->]]. exists []. reflexivity.
  - destruct I as [h [-> Eq]]. eexists. exact Eq.
  - destruct I as [h [-> Eq]]. eexists. exact Eq.
  - destruct I as [h [-> Eq]]. eexists. exact Eq.
  - destruct I as [h [-> Eq]]. eexists. exact Eq.
Qed.

(** Independence of the interleaving: two runs against the same store that accepted the same
    Have and both reached the end sent the same messages. *)
Corollary script_interleaving_independent r logs cap ins1 ins2 :
  static r ins1 -> static r ins2 ->
  ph (fst (run true (init logs cap) ins1)) = PEnd ->
  ph (fst (run true (init logs cap) ins2)) = PEnd ->
  have_of_run (init logs cap) ins1 = have_of_run (init logs cap) ins2 ->
  sent (snd (run true (init logs cap) ins1)) = sent (snd (run true (init logs cap) ins2)).
Proof.
  intros S1 S2 E1 E2 H.
  destruct (script_thm r logs cap ins1 S1 E1) as [h1 [H1 ->]].
  destruct (script_thm r logs cap ins2 S2 E2) as [h2 [H2 ->]].
  congruence.
Qed.

Example script_example :
  let ins := ex_ins_static in
  static ex_r ins /\ ph (fst (run true (init ex_logs 8) ins)) = PEnd /\
  sent (snd (run true (init ex_logs 8) ins)) = script ex_r ex_logs [] /\
  length (script ex_r ex_logs []) = 5.
Proof.
  cbn zeta. split; [repeat constructor|]. vm_compute. repeat split.
Qed.
