(** Proofs about the model of the topic sync metrics aggregator (Model/SyncMetrics.v).

    Method: a *potential* argument.  For a quantity [Q] of the aggregator (total sent bytes,
    total received bytes, running sessions) and a function [F] of a session's life-cycle phase,
    every event changes [Q] by exactly the change of [F] on the phase of the session the event
    belongs to.  Hence for any interleaving of well-formed per-session sequences
    [Q = sum over sessions of F (phase of the session)], by induction over the interleaved
    history with the per-session phases generalised ([potential_run]). *)
From Coq Require Import List NArith Bool Lia.
From PV Require Import Model.SyncMetrics.
Import ListNotations.
Local Open Scope N_scope.

(** * Small facts *)

Lemma addc_some : forall a b c, addc a b = Some c -> c = a + b /\ a + b < u32_max_plus_1.
Proof.
  intros a b c H. unfold addc in H. destruct (a + b <? u32_max_plus_1) eqn:E; [|discriminate].
  apply N.ltb_lt in E. inversion H. auto.
Qed.

Lemma addc_lt : forall a b, a + b < u32_max_plus_1 -> addc a b = Some (a + b).
Proof. intros a b H. unfold addc. apply N.ltb_lt in H. rewrite H. reflexivity. Qed.

Lemma sumN_cons : forall x l, sumN (x :: l) = x + sumN l.
Proof. reflexivity. Qed.
Lemma sumN_nil : sumN [] = 0.
Proof. reflexivity. Qed.

Lemma sumN_zero : forall (f : N -> N) l, (forall s, f s = 0) -> sumN (map f l) = 0.
Proof. intros f l H. induction l as [|x l IH]; cbn [map]; rewrite ?sumN_cons, ?sumN_nil; [reflexivity|]. rewrite H, IH. reflexivity. Qed.

Lemma sumN_in_le : forall (f : N -> N) ss s, In s ss -> f s <= sumN (map f ss).
Proof.
  intros f ss s. induction ss as [|x ss IH]; intros Hin; [destruct Hin|].
  cbn [map]; rewrite ?sumN_cons, ?sumN_nil. destruct Hin as [->|Hin]; [lia|]. specialize (IH Hin).  lia.
Qed.

Lemma sumN_ext_in : forall (f g : N -> N) ss, (forall s, In s ss -> f s = g s) -> sumN (map f ss) = sumN (map g ss).
Proof. intros f g ss H. f_equal. apply map_ext_in. exact H. Qed.

(** Changing the summand of one element of a duplicate-free list. *)
Lemma sumN_update : forall (f g : N -> N) ss s0,
  NoDup ss -> In s0 ss -> (forall s, s <> s0 -> g s = f s) ->
  sumN (map g ss) + f s0 = sumN (map f ss) + g s0.
Proof.
  intros f g ss s0 Hnd. induction Hnd as [|x ss Hx Hnd IH]; intros Hin Hg; [destruct Hin|].
  cbn [map]; rewrite ?sumN_cons, ?sumN_nil. destruct Hin as [->|Hin].
  - assert (E : map g ss = map f ss).
    { apply map_ext_in. intros s Hs. apply Hg. intros ->. contradiction. }
    rewrite E. lia.
  - assert (x <> s0) by (intros ->; contradiction).
    rewrite (Hg x) by assumption. specialize (IH Hin Hg).  lia.
Qed.

Lemma proj_cons_eq : forall s e r, proj s ((s, e) :: r) = e :: proj s r.
Proof. intros. unfold proj. cbn [filter fst]. rewrite N.eqb_refl. reflexivity. Qed.

Lemma proj_cons_neq : forall s s0 e r, s <> s0 -> proj s ((s0, e) :: r) = proj s r.
Proof.
  intros s s0 e r H. unfold proj. cbn [filter fst].
  destruct (N.eqb s s0) eqn:E; [apply N.eqb_eq in E; contradiction|reflexivity].
Qed.

(** * The potential argument, generic in the state machine and the quantity *)

Section Potential.
  Variable St : Type.
  Variable stp : St -> N -> ev -> option St.
  Variable Q : St -> N.
  Variable ns : bool.
  Variable F : phase -> N.
  Hypothesis step_ok : forall a sid e a1 p p',
    stp a sid e = Some a1 -> phase_step ns p e = Some p' -> F p <= Q a -> Q a1 + F p = Q a + F p'.

  Fixpoint runS (a : St) (evs : list (N * ev)) : option St :=
    match evs with
    | [] => Some a
    | (sid, e) :: r => match stp a sid e with Some a1 => runS a1 r | None => None end
    end.

  Variable ss : list N.
  Hypothesis ss_nodup : NoDup ss.

  Definition endph (ph : N -> phase) (evs : list (N * ev)) (s : N) : phase :=
    match phase_run ns (ph s) (proj s evs) with Some p => p | None => ph s end.
  Definition sumF (ph : N -> phase) : N := sumN (map (fun s => F (ph s)) ss).

  Theorem potential_run : forall evs ph a a',
    (forall s e, In (s, e) evs -> In s ss) ->
    (forall s, In s ss -> phase_run ns (ph s) (proj s evs) <> None) ->
    runS a evs = Some a' -> Q a = sumF ph -> Q a' = sumF (fun s => endph ph evs s).
  Proof.
    induction evs as [|[s0 e] r IH]; intros ph a a' Hcov Hwf Hrun HQ.
    - cbn [runS] in Hrun. inversion Hrun; subst a'. rewrite HQ. unfold sumF. apply sumN_ext_in.
      intros s _. unfold endph, proj. cbn [filter map phase_run]. reflexivity.
    - cbn [runS] in Hrun. destruct (stp a s0 e) as [a1|] eqn:Es; [|discriminate].
      assert (Hs0 : In s0 ss) by (apply (Hcov s0 e); left; reflexivity).
      pose proof (Hwf s0 Hs0) as Hw0. rewrite proj_cons_eq in Hw0. cbn [phase_run] in Hw0.
      destruct (phase_step ns (ph s0) e) as [p'|] eqn:Ep; [|congruence].
      set (ph1 := fun s => if N.eqb s s0 then p' else ph s).
      assert (Hle : F (ph s0) <= Q a).
      { rewrite HQ. unfold sumF. apply (sumN_in_le (fun s => F (ph s)) ss s0 Hs0). }
      pose proof (step_ok a s0 e a1 (ph s0) p' Es Ep Hle) as Hstep.
      assert (Hupd : sumF ph1 + F (ph s0) = sumF ph + F (ph1 s0)).
      { unfold sumF. apply (sumN_update (fun s => F (ph s)) (fun s => F (ph1 s)) ss s0 ss_nodup Hs0).
        intros s Hne. unfold ph1. destruct (N.eqb s s0) eqn:E; [apply N.eqb_eq in E; contradiction|reflexivity]. }
      assert (Hp1 : ph1 s0 = p') by (unfold ph1; rewrite N.eqb_refl; reflexivity).
      rewrite Hp1 in Hupd.
      assert (HQ1 : Q a1 = sumF ph1) by lia.
      assert (Hwf1 : forall s, In s ss -> phase_run ns (ph1 s) (proj s r) <> None).
      { intros s Hs. unfold ph1. destruct (N.eqb s s0) eqn:E.
        - apply N.eqb_eq in E. subst s. exact Hw0.
        - apply N.eqb_neq in E. specialize (Hwf s Hs). rewrite proj_cons_neq in Hwf by assumption. exact Hwf. }
      assert (Hcov1 : forall s e0, In (s, e0) r -> In s ss) by (intros s e0 Hi; apply (Hcov s e0); right; exact Hi).
      rewrite (IH ph1 a1 a' Hcov1 Hwf1 Hrun HQ1). unfold sumF. apply sumN_ext_in.
      intros s Hs. unfold endph, ph1. destruct (N.eqb s s0) eqn:E.
      + apply N.eqb_eq in E. subst s. rewrite proj_cons_eq. cbn [phase_run]. rewrite Ep.
        destruct (phase_run ns p' (proj s0 r)); [reflexivity|congruence].
      + apply N.eqb_neq in E. rewrite proj_cons_neq by assumption. reflexivity.
  Qed.
End Potential.

(** * Instances *)

Definition proc_state (fixed : bool) (a : agg) (sid : N) (e : ev) : option agg :=
  match process fixed a sid e with Some (a1, _) => Some a1 | None => None end.

Lemma run_state_runS : forall fixed evs a, run_state fixed a evs = runS agg (proc_state fixed) a evs.
Proof.
  induction evs as [|[s e] r IH]; intros a; cbn [run_state runS]; [reflexivity|].
  unfold proc_state at 1. destruct (process fixed a s e) as [[a1 o]|]; [apply IH|reflexivity].
Qed.

Ltac inv_addc :=
  repeat match goal with
  | H : bind ?x _ = Some _ |- _ => let E := fresh "E" in destruct x eqn:E; cbn [bind] in H; [|discriminate H]
  | H : (let '(_, _) := ?x in _) = Some _ |- _ => destruct x eqn:?
  | H : Some _ = Some _ |- _ => inversion H; clear H; subst
  | H : addc _ _ = Some _ |- _ => apply addc_some in H; destruct H
  end.

(** What one call does to the three counters (repaired code). *)
Lemma process_totals_fixed : forall a sid e a1 o,
  process true a sid e = Some (a1, o) ->
  total_sent a1 = total_sent a + match e with
                                 | SyncFinished m => sent_sync_bytes m + sent_live_bytes m
                                 | SessionFinished m => sent_live_bytes m
                                 | _ => 0 end /\
  total_recv a1 = total_recv a + match e with
                                 | SyncFinished m => received_sync_bytes m + received_live_bytes m
                                 | SessionFinished m => received_live_bytes m
                                 | _ => 0 end.
Proof.
  intros a sid e a1 o H. destruct e; unfold process in H;
    unfold sent_bytes, received_bytes, sent_operations, received_operations in H;
    cbn [session_end fst snd with_metrics with_totals total_sent total_recv running] in H;
    inv_addc; cbn [total_sent total_recv with_totals with_metrics]; subst; split; lia.
Qed.

Lemma process_running : forall fixed a sid e a1 o,
  process fixed a sid e = Some (a1, o) ->
  running a1 = if is_start e then running a + 1 else if is_end e then N.pred (running a) else running a.
Proof.
  intros fixed a sid e a1 o H. destruct e; unfold process in H;
    unfold sent_bytes, received_bytes, sent_operations, received_operations in H;
    cbn [session_end fst snd with_metrics with_totals total_sent total_recv running] in H;
    try (destruct fixed);
    inv_addc; cbn [running with_totals with_metrics is_start is_end]; subst; reflexivity.
Qed.

Lemma same_sync_eq : forall m0 m, same_sync m0 m = true ->
  sent_sync_bytes m0 = sent_sync_bytes m /\ received_sync_bytes m0 = received_sync_bytes m.
Proof.
  intros m0 m H. unfold same_sync in H. apply andb_true_iff in H. destruct H as [A B].
  apply N.eqb_eq in A. apply N.eqb_eq in B. auto.
Qed.

Lemma no_live_eq : forall m, no_live m = true -> sent_live_bytes m = 0 /\ received_live_bytes m = 0.
Proof.
  intros m H. unfold no_live in H. repeat (apply andb_true_iff in H; destruct H as [H ?]).
  apply N.eqb_eq in H. match goal with X : N.eqb (received_live_bytes m) 0 = true |- _ => apply N.eqb_eq in X end. auto.
Qed.

Ltac phase_cases Hp :=
  match type of Hp with phase_step ?ns ?p ?e = Some ?p' =>
    destruct p as [| | |m0|m0|m0|o0]; destruct e as [|m|m|m|m| |]; cbn [phase_step] in Hp;
    try discriminate Hp;
    repeat match type of Hp with
    | (if ?c then _ else _) = Some _ => let E := fresh "C" in destruct c eqn:E; try discriminate Hp
    end;
    inversion Hp; clear Hp; subst
  end.

Lemma step_ok_sent : forall ns a sid e a1 p p',
  proc_state true a sid e = Some a1 -> phase_step ns p e = Some p' ->
  contrib_phase sent_sync_bytes sent_live_bytes p <= total_sent a ->
  total_sent a1 + contrib_phase sent_sync_bytes sent_live_bytes p
  = total_sent a + contrib_phase sent_sync_bytes sent_live_bytes p'.
Proof.
  intros ns a sid e a1 p p' Hs Hp _. unfold proc_state in Hs.
  destruct (process true a sid e) as [[a2 o]|] eqn:E; [|discriminate]. inversion Hs; subst a2.
  apply process_totals_fixed in E. destruct E as [E _]. rewrite E.
  phase_cases Hp; cbn [contrib_phase];
    repeat match goal with
    | H : _ && _ = true |- _ => apply andb_true_iff in H; destruct H
    | H : same_sync _ _ = true |- _ => apply same_sync_eq in H; destruct H
    | H : no_live _ = true |- _ => apply no_live_eq in H; destruct H
    end; lia.
Qed.

Lemma step_ok_recv : forall ns a sid e a1 p p',
  proc_state true a sid e = Some a1 -> phase_step ns p e = Some p' ->
  contrib_phase received_sync_bytes received_live_bytes p <= total_recv a ->
  total_recv a1 + contrib_phase received_sync_bytes received_live_bytes p
  = total_recv a + contrib_phase received_sync_bytes received_live_bytes p'.
Proof.
  intros ns a sid e a1 p p' Hs Hp _. unfold proc_state in Hs.
  destruct (process true a sid e) as [[a2 o]|] eqn:E; [|discriminate]. inversion Hs; subst a2.
  apply process_totals_fixed in E. destruct E as [_ E]. rewrite E.
  phase_cases Hp; cbn [contrib_phase];
    repeat match goal with
    | H : _ && _ = true |- _ => apply andb_true_iff in H; destruct H
    | H : same_sync _ _ = true |- _ => apply same_sync_eq in H; destruct H
    | H : no_live _ = true |- _ => apply no_live_eq in H; destruct H
    end; lia.
Qed.

(** A session is *open* between its SessionStarted and its terminal event. *)
Definition open (p : phase) : N :=
  match p with PStarted | PSyncing | PSynced _ | PLive _ => 1 | _ => 0 end.
Definition has_started (p : phase) : N := match p with PInit => 0 | _ => 1 end.
Definition has_ended (p : phase) : N := match p with PFinished _ | PFailed _ => 1 | _ => 0 end.

Lemma step_ok_running : forall fixed a sid e a1 p p',
  proc_state fixed a sid e = Some a1 -> phase_step true p e = Some p' ->
  open p <= running a -> running a1 + open p = running a + open p'.
Proof.
  intros fixed a sid e a1 p p' Hs Hp Hle. unfold proc_state in Hs.
  destruct (process fixed a sid e) as [[a2 o]|] eqn:E; [|discriminate]. inversion Hs; subst a2.
  apply process_running in E. rewrite E.
  phase_cases Hp; cbn [open is_start is_end] in *; lia.
Qed.

(** * Session ids *)

Lemma in_filter_neq : forall (s x : N) l, In x (filter (fun y => negb (N.eqb s y)) l) <-> In x l /\ x <> s.
Proof.
  intros s x l. rewrite filter_In. split; intros [A B]; split; auto.
  - intros ->. rewrite N.eqb_refl in B. discriminate.
  - destruct (N.eqb s x) eqn:E; [apply N.eqb_eq in E; congruence|reflexivity].
Qed.

Lemma sids_nodup : forall evs, NoDup (sids evs).
Proof.
  induction evs as [|[s e] r IH]; cbn [sids]; constructor.
  - rewrite in_filter_neq. intros [_ H]. congruence.
  - apply NoDup_filter. exact IH.
Qed.

Lemma sids_cover : forall evs s e, In (s, e) evs -> In s (sids evs).
Proof.
  induction evs as [|[s0 e0] r IH]; intros s e H; [destruct H|].
  cbn [sids]. destruct H as [H|H].
  - inversion H. left. reflexivity.
  - destruct (N.eq_dec s s0) as [->|Hne]; [left; reflexivity|right].
    rewrite in_filter_neq. split; [eapply IH; eassumption|assumption].
Qed.

Lemma wf_history_in : forall ns evs s, wf_history ns evs = true -> In s (sids evs) ->
  phase_run ns PInit (proj s evs) <> None.
Proof.
  intros ns evs s H Hin. unfold wf_history in H. rewrite forallb_forall in H. specialize (H s Hin).
  unfold wf_session in H. destruct (phase_run ns PInit (proj s evs)); [discriminate|discriminate H].
Qed.

(** * Main theorems *)

(** Totals are exact: for ANY interleaving [evs] of well-formed per-session event sequences the
    topic totals equal the sum over the sessions of what each session contributed (its final
    sync + live figure once it finished, its sync figure once its sync phase finished), each
    byte once — provided the run did not hit a u32 overflow (see [no_panic_within_u32]). *)
Theorem totals_exact : forall ns evs a,
  wf_history ns evs = true -> run_state true agg_new evs = Some a ->
  total_sent a = spec_sent ns evs /\ total_recv a = spec_recv ns evs.
Proof.
  intros ns evs a Hwf Hrun. rewrite run_state_runS in Hrun. split.
  - pose proof (potential_run agg (proc_state true) total_sent ns
                  (contrib_phase sent_sync_bytes sent_live_bytes) (step_ok_sent ns)
                  (sids evs) (sids_nodup evs) evs (fun _ => PInit) agg_new a
                  (sids_cover evs) (fun s Hs => wf_history_in ns evs s Hwf Hs) Hrun) as P.
    rewrite P.
    + unfold sumF, spec_sent, contrib_sent, contrib, endph. apply sumN_ext_in. intros s _.
      destruct (phase_run ns PInit (proj s evs)); reflexivity.
    + unfold sumF. rewrite sumN_zero by reflexivity. reflexivity.
  - pose proof (potential_run agg (proc_state true) total_recv ns
                  (contrib_phase received_sync_bytes received_live_bytes) (step_ok_recv ns)
                  (sids evs) (sids_nodup evs) evs (fun _ => PInit) agg_new a
                  (sids_cover evs) (fun s Hs => wf_history_in ns evs s Hwf Hs) Hrun) as P.
    rewrite P.
    + unfold sumF, spec_recv, contrib_recv, contrib, endph. apply sumN_ext_in. intros s _.
      destruct (phase_run ns PInit (proj s evs)); reflexivity.
    + unfold sumF. rewrite sumN_zero by reflexivity. reflexivity.
Qed.

(** Number of sessions between SessionStarted and their terminal event. *)
Definition open_sessions (evs : list (N * ev)) : N :=
  sumN (map (fun s => match phase_run true PInit (proj s evs) with Some p => open p | None => 0 end) (sids evs)).

Theorem running_is_open_sessions : forall fixed evs a,
  wf_history true evs = true -> run_state fixed agg_new evs = Some a ->
  running a = open_sessions evs.
Proof.
  intros fixed evs a Hwf Hrun. rewrite run_state_runS in Hrun.
  pose proof (potential_run agg (proc_state fixed) running true open (step_ok_running fixed)
                (sids evs) (sids_nodup evs) evs (fun _ => PInit) agg_new a
                (sids_cover evs) (fun s Hs => wf_history_in true evs s Hwf Hs) Hrun) as P.
  rewrite P.
  - unfold sumF, open_sessions, endph. apply sumN_ext_in. intros s Hs.
    pose proof (wf_history_in true evs s Hwf Hs) as W.
    destruct (phase_run true PInit (proj s evs)); [reflexivity|congruence].
  - unfold sumF. rewrite sumN_zero by reflexivity. reflexivity.
Qed.

(** Counting events: started / ended sessions of a history.  The pure counter machine. *)
Definition cnt_step (f : ev -> bool) (c : N) (_ : N) (e : ev) : option N := Some (if f e then c + 1 else c).

Lemma runS_cnt : forall f evs c, runS N (cnt_step f) c evs = Some (c + count f evs).
Proof.
  intros f. induction evs as [|[s e] r IH]; intros c; cbn [runS].
  - unfold count. cbn. f_equal. lia.
  - unfold cnt_step at 1. rewrite IH. f_equal. unfold count. cbn [filter snd].
    destruct (f e); cbn [List.length]; lia.
Qed.

Lemma step_ok_started : forall a sid e a1 p p',
  cnt_step is_start a sid e = Some a1 -> phase_step true p e = Some p' -> has_started p <= a ->
  a1 + has_started p = a + has_started p'.
Proof.
  intros a sid e a1 p p' Hs Hp _. unfold cnt_step in Hs. inversion Hs; subst a1.
  phase_cases Hp; cbn [has_started is_start]; lia.
Qed.

Lemma step_ok_ended : forall a sid e a1 p p',
  cnt_step is_end a sid e = Some a1 -> phase_step true p e = Some p' -> has_ended p <= a ->
  a1 + has_ended p = a + has_ended p'.
Proof.
  intros a sid e a1 p p' Hs Hp _. unfold cnt_step in Hs. inversion Hs; subst a1.
  phase_cases Hp; cbn [has_ended is_end]; lia.
Qed.

Lemma sum_open_split : forall (ph : N -> phase) ss,
  sumN (map (fun s => open (ph s)) ss) + sumN (map (fun s => has_ended (ph s)) ss)
  = sumN (map (fun s => has_started (ph s)) ss).
Proof.
  intros ph ss. induction ss as [|x ss IH]; cbn [map]; rewrite ?sumN_cons, ?sumN_nil; [reflexivity|].
   destruct (ph x); cbn [open has_ended has_started]; lia.
Qed.

(** running = started - ended, and no session ends that was not started, for any interleaving
    of sessions that each begin with SessionStarted and end at most once. *)
Theorem running_is_started_minus_ended : forall fixed evs a,
  wf_history true evs = true -> run_state fixed agg_new evs = Some a ->
  count is_end evs <= count is_start evs /\
  running a = count is_start evs - count is_end evs.
Proof.
  intros fixed evs a Hwf Hrun.
  pose proof (running_is_open_sessions fixed evs a Hwf Hrun) as Ho.
  pose proof (potential_run N (cnt_step is_start) (fun c => c) true has_started step_ok_started
                (sids evs) (sids_nodup evs) evs (fun _ => PInit) 0 (0 + count is_start evs)
                (sids_cover evs) (fun s Hs => wf_history_in true evs s Hwf Hs) (runS_cnt is_start evs 0)) as Ps.
  pose proof (potential_run N (cnt_step is_end) (fun c => c) true has_ended step_ok_ended
                (sids evs) (sids_nodup evs) evs (fun _ => PInit) 0 (0 + count is_end evs)
                (sids_cover evs) (fun s Hs => wf_history_in true evs s Hwf Hs) (runS_cnt is_end evs 0)) as Pe.
  assert (Z0 : forall F, F PInit = 0 -> 0 = sumF F (sids evs) (fun _ => PInit)).
  { intros F HF. unfold sumF. rewrite sumN_zero by (intros; exact HF). reflexivity. }
  specialize (Ps (Z0 has_started eq_refl)). specialize (Pe (Z0 has_ended eq_refl)).
  pose proof (sum_open_split (fun s => endph true (fun _ => PInit) evs s) (sids evs)) as Sp.
  unfold sumF in Ps, Pe. cbv beta in Ps, Pe, Sp.
  assert (Ho' : open_sessions evs = sumN (map (fun s => open (endph true (fun _ => PInit) evs s)) (sids evs))).
  { unfold open_sessions, endph. apply sumN_ext_in. intros s Hs.
    pose proof (wf_history_in true evs s Hwf Hs) as W.
    destruct (phase_run true PInit (proj s evs)); [reflexivity|congruence]. }
  rewrite Ho, Ho'. lia.
Qed.

(** Without any SessionStarted in the input (what the sync layer emits today, C22) the counter
    stays at 0 whatever else happens. *)
Theorem running_zero_without_session_started : forall fixed evs a a',
  count is_start evs = 0 -> running a = 0 -> run_state fixed a evs = Some a' -> running a' = 0.
Proof.
  intros fixed. induction evs as [|[s e] r IH]; intros a a' Hc Hr Hrun; cbn [run_state] in Hrun.
  - inversion Hrun; subst; assumption.
  - destruct (process fixed a s e) as [[a1 o]|] eqn:E; [|discriminate].
    apply process_running in E.
    unfold count in Hc. cbn [filter snd] in Hc.
    destruct (is_start e) eqn:Es; [cbn [List.length] in Hc; lia|].
    apply (IH a1 a'); [exact Hc| |exact Hrun].
    rewrite E. destruct (is_end e); lia.
Qed.

(** * Failed sessions (partial): the aggregator is never told the final figure of a failed
    session, so such a session is counted with its sync figure if SyncFinished was seen and not
    at all otherwise — never more than the last figure the session reported (no byte twice),
    but possibly less than what was transferred. *)
Fixpoint last_reported (f g : metrics -> N) (acc : N) (l : list ev) : N :=
  match l with
  | [] => acc
  | OperationReceived m :: r | SyncFinished m :: r | SessionFinished m :: r => last_reported f g (f m + g m) r
  | _ :: r => last_reported f g acc r
  end.

Lemma failed_le_gen : forall f g,
  (forall m0 m, same_sync m0 m = true -> f m0 = f m) ->
  forall ns l p acc p', phase_run ns p l = Some p' ->
    contrib_phase f g p <= acc ->
    match p' with PFailed _ => contrib_phase f g p' <= last_reported f g acc l | _ => True end.
Proof.
  intros f g Hsame ns. induction l as [|e r IH]; intros p acc p' Hr Hle; cbn [phase_run] in Hr.
  - inversion Hr; subst p'. cbn [last_reported]. destruct p; auto.
  - destruct (phase_step ns p e) as [p1|] eqn:Ep; [|discriminate].
    assert (K : contrib_phase f g p1 <=
                match e with OperationReceived m | SyncFinished m | SessionFinished m => f m + g m | _ => acc end).
    { phase_cases Ep; cbn [contrib_phase] in *;
        repeat match goal with
        | H : _ && _ = true |- _ => apply andb_true_iff in H; destruct H
        | H : same_sync _ _ = true |- _ => apply Hsame in H
        end; try lia. }
    specialize (IH p1 _ p' Hr K). destruct e; cbn [last_reported]; exact IH.
Qed.

Theorem failed_session_not_overcounted_partial : forall ns l o,
  phase_run ns PInit l = Some (PFailed o) ->
  contrib_sent ns l <= last_reported sent_sync_bytes sent_live_bytes 0 l /\
  contrib_recv ns l <= last_reported received_sync_bytes received_live_bytes 0 l.
Proof.
  intros ns l o H. unfold contrib_sent, contrib_recv, contrib. rewrite H. split.
  - apply (failed_le_gen sent_sync_bytes sent_live_bytes (fun m0 m E => proj1 (same_sync_eq m0 m E)) ns l PInit 0 (PFailed o) H).
    cbn [contrib_phase]. lia.
  - apply (failed_le_gen received_sync_bytes received_live_bytes (fun m0 m E => proj2 (same_sync_eq m0 m E)) ns l PInit 0 (PFailed o) H).
    cbn [contrib_phase]. lia.
Qed.

(** * No panic within the u32 range *)

Definition delta_sent (e : ev) : N :=
  match e with SyncFinished m => sent_sync_bytes m + sent_live_bytes m | SessionFinished m => sent_live_bytes m | _ => 0 end.
Definition delta_recv (e : ev) : N :=
  match e with SyncFinished m => received_sync_bytes m + received_live_bytes m | SessionFinished m => received_live_bytes m | _ => 0 end.
Definition sum_delta (d : ev -> N) (evs : list (N * ev)) : N := sumN (map (fun p => d (snd p)) evs).

Lemma contrib_step_sent : forall ns p e p', phase_step ns p e = Some p' ->
  contrib_phase sent_sync_bytes sent_live_bytes p' = contrib_phase sent_sync_bytes sent_live_bytes p + delta_sent e.
Proof.
  intros ns p e p' Hp.
  phase_cases Hp; cbn [contrib_phase delta_sent];
    repeat match goal with
    | H : _ && _ = true |- _ => apply andb_true_iff in H; destruct H
    | H : same_sync _ _ = true |- _ => apply same_sync_eq in H; destruct H
    | H : no_live _ = true |- _ => apply no_live_eq in H; destruct H
    end; lia.
Qed.

Lemma contrib_step_recv : forall ns p e p', phase_step ns p e = Some p' ->
  contrib_phase received_sync_bytes received_live_bytes p' = contrib_phase received_sync_bytes received_live_bytes p + delta_recv e.
Proof.
  intros ns p e p' Hp.
  phase_cases Hp; cbn [contrib_phase delta_recv];
    repeat match goal with
    | H : _ && _ = true |- _ => apply andb_true_iff in H; destruct H
    | H : same_sync _ _ = true |- _ => apply same_sync_eq in H; destruct H
    | H : no_live _ = true |- _ => apply no_live_eq in H; destruct H
    end; lia.
Qed.

(** The pure adding machine: [c + d e] per event. *)
Definition add_step (d : ev -> N) (c : N) (_ : N) (e : ev) : option N := Some (c + d e).

Lemma runS_add : forall d evs c, runS N (add_step d) c evs = Some (c + sum_delta d evs).
Proof.
  intros d. induction evs as [|[s e] r IH]; intros c; cbn [runS].
  - unfold sum_delta. cbn [map]. rewrite sumN_nil. f_equal. lia.
  - unfold add_step at 1. rewrite IH. f_equal. unfold sum_delta. cbn [map snd]. rewrite sumN_cons. lia.
Qed.

(** For a well-formed history the per-event increments add up to the per-session contributions. *)
Lemma sum_delta_is_spec : forall ns evs, wf_history ns evs = true ->
  sum_delta delta_sent evs = spec_sent ns evs /\ sum_delta delta_recv evs = spec_recv ns evs.
Proof.
  intros ns evs Hwf. split.
  - assert (St : forall (a : N) sid e a1 p p', add_step delta_sent a sid e = Some a1 -> phase_step ns p e = Some p' ->
               contrib_phase sent_sync_bytes sent_live_bytes p <= a ->
               a1 + contrib_phase sent_sync_bytes sent_live_bytes p = a + contrib_phase sent_sync_bytes sent_live_bytes p').
    { intros a sid e a1 p p' Hs Hp _. unfold add_step in Hs. inversion Hs; subst a1.
      rewrite (contrib_step_sent ns p e p' Hp). lia. }
    pose proof (potential_run N (add_step delta_sent) (fun c => c) ns _ St
                  (sids evs) (sids_nodup evs) evs (fun _ => PInit) 0 _
                  (sids_cover evs) (fun s Hs => wf_history_in ns evs s Hwf Hs) (runS_add delta_sent evs 0)) as P.
    cbv beta in P. rewrite N.add_0_l in P. rewrite P.
    + unfold sumF, spec_sent, contrib_sent, contrib, endph. apply sumN_ext_in. intros s _.
      destruct (phase_run ns PInit (proj s evs)); reflexivity.
    + unfold sumF. rewrite sumN_zero by reflexivity. reflexivity.
  - assert (St : forall (a : N) sid e a1 p p', add_step delta_recv a sid e = Some a1 -> phase_step ns p e = Some p' ->
               contrib_phase received_sync_bytes received_live_bytes p <= a ->
               a1 + contrib_phase received_sync_bytes received_live_bytes p = a + contrib_phase received_sync_bytes received_live_bytes p').
    { intros a sid e a1 p p' Hs Hp _. unfold add_step in Hs. inversion Hs; subst a1.
      rewrite (contrib_step_recv ns p e p' Hp). lia. }
    pose proof (potential_run N (add_step delta_recv) (fun c => c) ns _ St
                  (sids evs) (sids_nodup evs) evs (fun _ => PInit) 0 _
                  (sids_cover evs) (fun s Hs => wf_history_in ns evs s Hwf Hs) (runS_add delta_recv evs 0)) as P.
    cbv beta in P. rewrite N.add_0_l in P. rewrite P.
    + unfold sumF, spec_recv, contrib_recv, contrib, endph. apply sumN_ext_in. intros s _.
      destruct (phase_run ns PInit (proj s evs)); reflexivity.
    + unfold sumF. rewrite sumN_zero by reflexivity. reflexivity.
Qed.

Definition stored_fit (a : agg) : Prop := forall k m, lookup k (session_metrics a) = Some m -> fits m = true.

Lemma lookup_remove_same : forall k l, lookup k (remove k l) = None.
Proof.
  intros k. induction l as [|[k0 v] l IH]; [reflexivity|].
  unfold remove in *. cbn [filter fst]. destruct (N.eqb k k0) eqn:E; cbn [negb]; [exact IH|].
  cbn [lookup]. rewrite E. exact IH.
Qed.

Lemma lookup_remove : forall k k' l m, lookup k (remove k' l) = Some m -> lookup k l = Some m.
Proof.
  intros k k' l m. induction l as [|[k0 v] l IH]; [auto|].
  unfold remove in *. cbn [filter fst]. destruct (N.eqb k' k0) eqn:E; cbn [negb lookup].
  - intros H. destruct (N.eqb k k0) eqn:E2; [|auto].
    apply N.eqb_eq in E. apply N.eqb_eq in E2. subst k0 k'.
    pose proof (lookup_remove_same k l) as C. unfold remove in C. congruence.
  - destruct (N.eqb k k0); auto.
Qed.

Lemma stored_fit_insert : forall a sid m, stored_fit a -> fits m = true -> stored_fit (with_metrics a sid m).
Proof.
  intros a sid m Hs Hm k m' H. cbn [with_metrics session_metrics insert lookup] in H.
  destruct (N.eqb k sid); [inversion H; subst; assumption|]. apply lookup_remove in H. eapply Hs; eassumption.
Qed.

Lemma fits_default : fits metrics_default = true.
Proof. reflexivity. Qed.

Lemma fits_sums : forall m, fits m = true ->
  exists sb rb so ro, sent_bytes m = Some sb /\ received_bytes m = Some rb /\
                      sent_operations m = Some so /\ received_operations m = Some ro /\
                      sb = sent_sync_bytes m + sent_live_bytes m /\ rb = received_sync_bytes m + received_live_bytes m.
Proof.
  intros m H. unfold fits in H. repeat (apply andb_true_iff in H; destruct H as [H ?]).
  repeat match goal with X : (_ <? _) = true |- _ => apply N.ltb_lt in X end.
  unfold sent_bytes, received_bytes, sent_operations, received_operations.
  rewrite !addc_lt by assumption. do 4 eexists. repeat split; reflexivity.
Qed.

(** One call does not panic while the sums stay within u32. *)
Lemma process_no_panic : forall a sid e,
  stored_fit a -> ev_fits e = true ->
  running a + (if is_start e then 1 else 0) < u32_max_plus_1 ->
  total_sent a + delta_sent e < u32_max_plus_1 -> total_recv a + delta_recv e < u32_max_plus_1 ->
  exists a1 o, process true a sid e = Some (a1, o) /\ stored_fit a1.
Proof.
  intros a sid e Hst Hf Hr Hs Hv. destruct e as [|m|m|m|m| |]; cbn [ev_fits is_start delta_sent delta_recv] in *.
  - unfold process. rewrite addc_lt by assumption. cbn [bind]. do 2 eexists. split; [reflexivity|].
    intros k m' H. cbn [session_metrics insert lookup] in H.
    destruct (N.eqb k sid); [inversion H; subst; apply fits_default|]. apply lookup_remove in H. eapply Hst; eassumption.
  - unfold process. do 2 eexists. split; [reflexivity|]. apply stored_fit_insert; assumption.
  - destruct (fits_sums m Hf) as (sb & rb & so & ro & E1 & E2 & E3 & E4 & _).
    unfold process. rewrite E1, E2, E3, E4. cbn [bind]. do 2 eexists. split; [reflexivity|]. apply stored_fit_insert; assumption.
  - destruct (fits_sums m Hf) as (sb & rb & so & ro & E1 & E2 & E3 & E4 & Esb & Erb).
    unfold process. rewrite E1, E2, E3, E4. cbn [bind with_metrics total_sent total_recv].
    rewrite !addc_lt by (subst; assumption). cbn [bind]. do 2 eexists. split; [reflexivity|].
    intros k m' H. cbn [with_totals session_metrics] in H.
    exact (stored_fit_insert a sid m Hst Hf k m' H).
  - unfold process. cbn [session_end fst total_sent total_recv].
    rewrite !addc_lt by assumption. cbn [bind]. do 2 eexists. split; [reflexivity|].
    intros k m' H. cbn [with_totals session_metrics] in H. apply lookup_remove in H. eapply Hst; eassumption.
  - unfold process. cbn [session_end].
    assert (Hm : fits (match lookup sid (session_metrics a) with Some m => m | None => metrics_default end) = true).
    { destruct (lookup sid (session_metrics a)) eqn:L; [eapply Hst; eassumption|apply fits_default]. }
    destruct (fits_sums _ Hm) as (sb & rb & so & ro & E1 & E2 & E3 & E4 & _).
    rewrite E1, E2, E3, E4. cbn [bind]. do 2 eexists. split; [reflexivity|].
    intros k m' H. cbn [session_metrics] in H. apply lookup_remove in H. eapply Hst; eassumption.
  - unfold process. do 2 eexists. split; [reflexivity|]. intros k m' H. cbn [session_metrics] in H. eapply Hst; eassumption.
Qed.

Lemma run_no_panic : forall evs a,
  stored_fit a -> all_fit evs = true ->
  running a + count is_start evs < u32_max_plus_1 ->
  total_sent a + sum_delta delta_sent evs < u32_max_plus_1 ->
  total_recv a + sum_delta delta_recv evs < u32_max_plus_1 ->
  exists a', run_state true a evs = Some a'.
Proof.
  induction evs as [|[s e] r IH]; intros a Hst Hf Hr Hs Hv; cbn [run_state]; [eexists; reflexivity|].
  cbn [all_fit forallb snd] in Hf. apply andb_true_iff in Hf. destruct Hf as [Hfe Hfr].
  unfold sum_delta in Hs, Hv. cbn [map snd] in Hs, Hv. rewrite sumN_cons in Hs, Hv.
  fold (sum_delta delta_sent r) in Hs. fold (sum_delta delta_recv r) in Hv.
  assert (Hc : count is_start ((s, e) :: r) = (if is_start e then 1 else 0) + count is_start r).
  { unfold count. cbn [filter snd]. destruct (is_start e); cbn [List.length]; lia. }
  rewrite Hc in Hr.
  destruct (process_no_panic a s e Hst Hfe) as (a1 & o & E & Hst1); try lia.
  rewrite E. pose proof (process_totals_fixed a s e a1 o E) as [T1 T2].
  pose proof (process_running true a s e a1 o E) as R.
  apply IH; try assumption.
  - rewrite R. destruct (is_start e); [lia|]. destruct (is_end e); lia.
  - rewrite T1. fold (delta_sent e). lia.
  - rewrite T2. fold (delta_recv e). lia.
Qed.

(** Within the u32 range nothing panics: if every metrics record fits, fewer than 2^32 sessions
    were started and the exact totals fit, the whole history is processed. *)
Theorem no_panic_within_u32 : forall ns evs,
  wf_history ns evs = true -> all_fit evs = true ->
  count is_start evs < u32_max_plus_1 ->
  spec_sent ns evs < u32_max_plus_1 -> spec_recv ns evs < u32_max_plus_1 ->
  exists a, run_state true agg_new evs = Some a.
Proof.
  intros ns evs Hwf Hf Hc Hs Hr. destruct (sum_delta_is_spec ns evs Hwf) as [E1 E2].
  apply run_no_panic; cbn [agg_new running total_sent total_recv]; try assumption; try lia.
  intros k m H. cbn [agg_new session_metrics lookup] in H. discriminate.
Qed.

(** * The order before the repair (regression witness): one session, 10 sync bytes sent, no live
    traffic; SyncFinished and SessionFinished both add the 10 bytes. *)
Definition m_sent (sync live : N) : metrics := Build_metrics 0 0 0 0 sync 1 0 0 live 0 0 0.
Definition double_count_witness : list (N * ev) :=
  [(1, SessionStarted); (1, SyncStarted metrics_default); (1, SyncFinished (m_sent 10 0)); (1, SessionFinished (m_sent 10 0))].

Lemma asis_double_counts :
  wf_history true double_count_witness = true /\
  exists a, run_state false agg_new double_count_witness = Some a /\
            total_sent a = 20 /\ spec_sent true double_count_witness = 10.
Proof. split; [reflexivity|]. eexists. split; [reflexivity|]. split; reflexivity. Qed.

(** Non-vacuity: the hypotheses of the main theorems hold for a two-session interleaving with
    live traffic and a failure. *)
Definition example_history : list (N * ev) :=
  [(1, SessionStarted); (2, SessionStarted); (1, SyncStarted metrics_default); (2, SyncStarted metrics_default);
   (1, SyncFinished (m_sent 10 0)); (2, OperationReceived metrics_default); (1, LiveModeStarted);
   (2, Failed); (1, OperationReceived (m_sent 10 7)); (1, SessionFinished (m_sent 10 9))].

Example example_history_ok :
  wf_history true example_history = true /\ all_fit example_history = true /\
  (exists a, run_state true agg_new example_history = Some a /\ total_sent a = 19 /\ running a = 0) /\
  spec_sent true example_history = 19 /\ count is_start example_history = 2 /\ count is_end example_history = 2.
Proof. repeat split; try reflexivity. eexists. repeat split; reflexivity. Qed.
