(** Soundness of the boolean oracles of C14 and C40: [check ... = true] implies the property
    they stand for, on the observation they were given. *)
From Coq Require Import List Arith NArith Bool Lia.
From PV Require Import Model.Tasks Model.SyncMetrics Oracle.C14 Oracle.C40.
Import ListNotations.

Lemma forallb_combine_seq : forall A (f : nat * A -> bool) (l : list A) k,
  forallb f (combine (seq k (List.length l)) l) = true ->
  forall i x, nth_error l i = Some x -> f (k + i, x) = true.
Proof.
  intros A f. induction l as [|y l IH]; intros k H i x Hn; [destruct i; discriminate|].
  cbn [List.length seq combine forallb] in H. apply andb_true_iff in H. destruct H as [H0 H1].
  destruct i as [|i]; cbn [nth_error] in Hn.
  - inversion Hn; subst. rewrite Nat.add_0_r. exact H0.
  - replace (k + S i) with (S k + i) by lia. apply IH; assumption.
Qed.

(** C14: every submitter returned, and returned a result of its own id. *)
Theorem c14_check_sound : forall ids results,
  Oracle.C14.check ids results = true ->
  List.length results = List.length ids /\
  forall i o, nth_error results i = Some o ->
    exists r, o = Some r /\ r < List.length ids /\ idof ids r = idof ids i.
Proof.
  intros ids results H. unfold Oracle.C14.check in H. apply andb_true_iff in H. destruct H as [L F].
  apply Nat.eqb_eq in L. split; [exact L|]. intros i o Hn.
  pose proof (forallb_combine_seq _ _ results 0 F i o Hn) as P. cbn [fst snd plus] in P.
  unfold own in P. destruct o as [r|]; [|discriminate]. apply andb_true_iff in P. destruct P as [A B].
  apply Nat.ltb_lt in A. apply Nat.eqb_eq in B. exists r. auto.
Qed.

(** C40: for a well-formed history processed without panic, after every prefix the observed
    totals are the per-session sums and the observed running count is started - ended (0 when
    sessions do not announce themselves). *)
Theorem c40_check_sound : forall ns evs observed,
  Oracle.C40.check ns evs observed false = true -> wf_history ns evs = true ->
  List.length observed = List.length evs /\
  forall k r s v, nth_error observed k = Some (r, s, v) ->
    let pre := firstn (S k) evs in
    s = spec_sent ns pre /\ v = spec_recv ns pre /\
    r = (if ns then count is_start pre - count is_end pre else 0)%N.
Proof.
  intros ns evs observed H Hwf. unfold Oracle.C40.check in H. rewrite Hwf in H.
  apply andb_true_iff in H. destruct H as [F L]. apply Nat.eqb_eq in L. split; [exact L|].
  intros k r s v Hn.
  pose proof (forallb_combine_seq _ _ observed 1 F k (r, s, v) Hn) as P. cbn [fst snd plus] in P.
  unfold check_prefix in P. repeat (apply andb_true_iff in P; destruct P as [P ?]).
  apply N.eqb_eq in P. repeat match goal with X : N.eqb _ _ = true |- _ => apply N.eqb_eq in X end.
  cbv zeta. auto.
Qed.
