(** Main theorems about the causal orderer model (C11). *)
From Coq Require Import List Arith NArith Bool Lia Permutation.
From PV Require Import Model.Orderer Proofs.OrdererBase Proofs.OrdererSafety Proofs.OrdererLive.
Import ListNotations.

Definition good_perm (perm : perm_t) : Prop := forall n l, Permutation (perm n l) l.

Lemma good_perm_id : good_perm id_perm.
Proof. intros n l. apply Permutation_refl. Qed.

(** * grounded *)
Lemma grounded_le del del' x : deliveries_le del del' -> grounded del x -> grounded del' x.
Proof.
  intros Hle H. induction H as [x ds Hin _ IH].
  destruct (Hle x ds Hin) as [ds' [Hin' Heq]]. apply (G_intro del' x ds' Hin').
  intros d Hd. apply IH. apply Heq. exact Hd.
Qed.

Lemma deliveries_le_incl del del' : (forall e, In e del -> In e del') -> deliveries_le del del'.
Proof. intros H x ds Hin. exists ds. split; [apply H; exact Hin | reflexivity]. Qed.

Lemma Q1_grounded del s x : Q1 del s -> grounded del x -> is_ready s x = true.
Proof. intros HQ H. induction H as [x ds Hin _ IH]. exact (HQ x ds Hin IH). Qed.

Lemma released_grounded_aux tr : safe_trace tr ->
  forall pre post, tr = pre ++ post -> forall x, In (ERel x) pre -> grounded (dels tr) x.
Proof.
  intros Hs pre. induction pre as [|e pre IH] using rev_ind; intros post E x Hx; [destruct Hx|].
  apply in_app_iff in Hx. destruct Hx as [Hx|[Hx|[]]].
  - apply (IH (e :: post)); [rewrite E, <- app_assoc; reflexivity | exact Hx].
  - subst e. rewrite <- app_assoc in E. cbn [app] in E.
    destruct (Hs pre x post E) as [ds [Hds Hall]].
    apply (G_intro _ x ds).
    + apply dels_In. rewrite E. apply in_app_iff. left. exact Hds.
    + intros d Hd. apply (IH (ERel x :: post) E). exact (Hall d Hd).
Qed.

Lemma released_grounded tr x : safe_trace tr -> In (ERel x) tr -> grounded (dels tr) x.
Proof. intros Hs Hx. apply (released_grounded_aux tr Hs tr []); [rewrite app_nil_r; reflexivity | exact Hx]. Qed.

(** * shape of runs *)
Lemma run_app perm fuel : forall a b s,
  run perm fuel s (a ++ b) =
  (fst (run perm fuel (fst (run perm fuel s a)) b),
   snd (run perm fuel s a) ++ snd (run perm fuel (fst (run perm fuel s a)) b)).
Proof.
  induction a as [|o a IH]; intros b s.
  - cbn [app run fst snd]. destruct (run perm fuel s b); reflexivity.
  - cbn [app run]. destruct (step perm fuel s o) as [s1 o1]. rewrite IH.
    destruct (run perm fuel s1 a) as [s2 o2]. cbn [fst snd].
    destruct (run perm fuel s2 b) as [s3 o3]. cbn [fst snd]. rewrite app_assoc. reflexivity.
Qed.

Lemma dels_events_run perm fuel : forall ops s,
  dels (events_of ops (snd (run perm fuel s ops))) = delivered_of ops.
Proof.
  induction ops as [|o ops IH]; intros s; [reflexivity|].
  cbn [run]. destruct o as [x ds| |]; cbn [step].
  - specialize (IH (process perm fuel s x ds)).
    destruct (run perm fuel (process perm fuel s x ds) ops) as [s2 o2]. cbn [fst snd app events_of] in *.
    cbn [dels flat_map delivered_of]. unfold dels, delivered_of in IH. rewrite IH. reflexivity.
  - destruct (take_next_ready s) as [s' r]. specialize (IH s').
    destruct (run perm fuel s' ops) as [s2 o2]. cbn [fst snd app events_of] in *.
    rewrite dels_app, IH. destruct r as [y|]; reflexivity.
  - destruct (drain (S (length (ready_tbl s))) s) as [s' l]. specialize (IH s').
    destruct (run perm fuel s' ops) as [s2 o2]. cbn [fst snd app events_of out_events] in *.
    rewrite dels_app, IH, dels_map_rel. reflexivity.
Qed.

Lemma delivered_of_snoc_drain ops : delivered_of (ops ++ [Drain]) = delivered_of ops.
Proof. unfold delivered_of. rewrite flat_map_app. cbn [flat_map]. rewrite app_nil_r. reflexivity. Qed.

(** * [Drain] empties the queue *)
Definition inq_count (s : store) : nat := length (filter r_inq (ready_tbl s)).

Lemma clear_count (m : rrow) (t : list rrow) :
  let g := fun r : rrow => if N.eqb (r_id r) (r_id m) then mkR (r_id r) (r_idx r) false else r in
  length (filter r_inq (map g t)) <= length (filter r_inq t) /\
  (In m t -> r_inq m = true -> length (filter r_inq (map g t)) < length (filter r_inq t)).
Proof.
  intros g. induction t as [|a t [IH1 IH2]]; [split; [constructor | intros []]|].
  cbn [map filter].
  assert (Hga : r_inq (g a) = true -> r_inq a = true).
  { unfold g. destruct (N.eqb (r_id a) (r_id m)); [discriminate | auto]. }
  split.
  - destruct (r_inq (g a)) eqn:E1; [rewrite (Hga eq_refl); cbn [length]; lia|].
    destruct (r_inq a); cbn [length]; lia.
  - intros [Hm|Hm] Hq.
    + subst a. assert (E : r_inq (g m) = false) by (unfold g; rewrite N.eqb_refl; reflexivity).
      rewrite E, Hq. cbn [length]. lia.
    + specialize (IH2 Hm Hq). destruct (r_inq (g a)) eqn:E1; [rewrite (Hga eq_refl); cbn [length]; lia|].
      destruct (r_inq a); cbn [length]; lia.
Qed.

Lemma take_count s :
  match snd (take_next_ready s) with
  | Some _ => inq_count (fst (take_next_ready s)) < inq_count s
  | None => forall r, In r (ready_tbl s) -> r_inq r = false
  end.
Proof.
  unfold take_next_ready. destruct (min_row (ready_tbl s)) as [m|] eqn:Em; cbn [fst snd].
  - apply min_row_spec in Em. destruct Em as [Hm [Hq _]].
    unfold inq_count. cbn [ready_tbl set_ready]. exact (proj2 (clear_count m (ready_tbl s)) Hm Hq).
  - apply min_row_None. exact Em.
Qed.

Lemma drain_empties : forall n s, inq_count s < n ->
  forall r, In r (ready_tbl (fst (drain n s))) -> r_inq r = false.
Proof.
  induction n as [|n IH]; intros s Hn; [lia|]. cbn [drain].
  pose proof (take_count s) as Ht.
  destruct (take_next_ready s) as [s' [x|]] eqn:Et; cbn [fst snd] in Ht.
  - specialize (IH s'). destruct (drain n s') as [s'' l]. cbn [fst] in *. apply IH. lia.
  - cbn [fst]. unfold take_next_ready in Et. destruct (min_row (ready_tbl s)); [discriminate|].
    inversion Et; subst. exact Ht.
Qed.

Lemma inq_count_le s : inq_count s <= length (ready_tbl s).
Proof. unfold inq_count. apply filter_length_le'. Qed.

(** * the main theorems *)
Section Main.
Variable perm : perm_t.
Hypothesis Hperm : good_perm perm.
Variable fuel : nat.

Let pincl : forall n l e, In e (perm n l) -> In e l := perm_incl perm Hperm.

Theorem release_after_deps' : forall ops, safe_trace (trace_of perm fuel ops).
Proof. intros ops. exact (release_after_deps perm pincl fuel ops). Qed.

Theorem blocked_stay_blocked : forall ops x,
  ~ grounded (delivered_of ops) x -> ~ In (ERel x) (trace_of perm fuel ops).
Proof.
  intros ops x Hn Hx. apply Hn.
  pose proof (released_grounded _ x (release_after_deps' ops) Hx) as Hg.
  unfold trace_of in Hg. rewrite dels_events_run in Hg. exact Hg.
Qed.

Theorem eventual_release : forall ops x,
  no_oof perm fuel (ops ++ [Drain]) ->
  grounded (delivered_of ops) x -> In (ERel x) (trace_of perm fuel (ops ++ [Drain])).
Proof.
  intros ops x Hoof Hg. unfold no_oof, trace_of in *.
  destruct (run_QI perm Hperm fuel (ops ++ [Drain]) [] empty (QI_empty) safe_nil Hoof) as [HQ _].
  cbn [app] in HQ. destruct HQ as [[HR _] [H1 _]].
  rewrite dels_events_run, delivered_of_snoc_drain in H1.
  pose proof (Q1_grounded _ _ x H1 Hg) as Hr. apply is_ready_row in Hr. destruct Hr as [r [Hr Ex]].
  apply rels_In. subst x. destruct HR as [_ [_ H3]]. apply (H3 r Hr).
  (* the last operation is a drain *)
  clear H3 H1 Hoof Hg. rewrite run_app in Hr. cbn [fst] in Hr. cbn [run step] in Hr.
  set (s1 := fst (run perm fuel empty ops)) in *.
  pose proof (drain_empties (S (length (ready_tbl s1))) s1) as Hd.
  destruct (drain (S (length (ready_tbl s1))) s1) as [s2 l]. cbn [fst] in *.
  apply Hd; [pose proof (inq_count_le s1); lia | exact Hr].
Qed.

End Main.

(** fuel: any rank function on the delivered graph bounds the recursion depth *)
Section FuelRun.
Variable perm : perm_t.
Hypothesis Hperm : good_perm perm.
Variable fuel : nat.
Variable rk : id -> nat.
Variable DEL : list entry.
Hypothesis Hrk : forall x ds, In (x, ds) DEL -> rk x < fuel /\ forall d, In d ds -> rk d < rk x.

Let pincl : forall n l e, In e (perm n l) -> In e l := perm_incl perm Hperm.

Lemma run_no_oof : forall ops tr s,
  InvT tr s -> safe_trace tr -> oof s = false ->
  (forall e, In e (dels tr ++ delivered_of ops) -> In e DEL) ->
  oof (fst (run perm fuel s ops)) = false.
Proof.
  induction ops as [|o ops IH]; intros tr s HT Hs Ho Hin; [exact Ho|].
  cbn [run]. destruct o as [x ds| |]; cbn [step].
  - assert (HT' := process_InvT perm pincl fuel tr s x ds HT).
    assert (Ho' : oof (process perm fuel s x ds) = false).
    { unfold process. destruct (ready s ds) eqn:Er; [|exact Ho].
      assert (Hx : In (x, ds) DEL).
      { apply Hin. apply in_app_iff. right. left. reflexivity. }
      destruct (Hrk x ds Hx) as [Hb _].
      apply (pp_no_oof perm pincl DEL (rels tr) rk fuel Hrk); [|rewrite mark_ready_oof; exact Ho | exact Hb | lia].
      destruct HT as [HR HP].
      assert (Hincl : incl (dels tr) DEL) by (intros e He; apply Hin; apply in_app_iff; left; exact He).
      apply I_mark_ready.
      - split; [apply (InvR_mono (dels tr) (rels tr)); [exact Hincl | apply incl_refl | exact HR]
               | apply (InvP_mono (dels tr)); [exact Hincl | exact HP]].
      - exists ds. split; [exact Hx|]. exact (proj1 (ready_spec s ds (proj1 HR)) Er). }
    specialize (IH (tr ++ [EDel x ds]) (process perm fuel s x ds) HT' (safe_snoc_del tr x ds Hs) Ho').
    destruct (run perm fuel (process perm fuel s x ds) ops) as [s2 o2]. cbn [fst]. apply IH.
    intros e He. apply Hin. rewrite dels_app in He. cbn [delivered_of flat_map app].
    apply in_app_iff in He. destruct He as [He|He].
    + apply in_app_iff in He. destruct He as [He|[He|[]]].
      * apply in_app_iff. left. exact He.
      * apply in_app_iff. right. left. exact He.
    + apply in_app_iff. right. right. exact He.
  - pose proof (take_InvT tr s HT Hs) as Ht. pose proof (take_oof s) as Hto.
    destruct (take_next_ready s) as [s' r]. cbn [fst snd] in *. destruct Ht as [HT' Hs'].
    specialize (IH _ s' HT' Hs'). destruct (run perm fuel s' ops) as [s2 o2]. cbn [fst]. apply IH; [congruence|].
    intros e He. apply Hin. cbn [delivered_of flat_map app].
    rewrite dels_app in He. assert (D : dels (out_events (ONext r)) = []) by (destruct r; reflexivity).
    rewrite D, app_nil_r in He. exact He.
  - pose proof (drain_InvT (S (length (ready_tbl s))) tr s HT Hs) as Ht.
    pose proof (drain_oof (S (length (ready_tbl s))) s) as Hto.
    destruct (drain (S (length (ready_tbl s))) s) as [s' l]. cbn [fst snd] in *. destruct Ht as [HT' Hs'].
    specialize (IH _ s' HT' Hs'). destruct (run perm fuel s' ops) as [s2 o2]. cbn [fst]. apply IH; [congruence|].
    intros e He. apply Hin. cbn [delivered_of flat_map app].
    rewrite dels_app, dels_map_rel, app_nil_r in He. exact He.
Qed.

End FuelRun.

Theorem fuel_sufficient : forall perm fuel ops (rk : id -> nat),
  good_perm perm ->
  (forall x ds, In (x, ds) (delivered_of ops) -> rk x < fuel /\ forall d, In d ds -> rk d < rk x) ->
  no_oof perm fuel ops.
Proof.
  intros perm fuel ops rk Hperm Hrk. unfold no_oof.
  apply (run_no_oof perm Hperm fuel rk (delivered_of ops) Hrk ops [] empty InvT_empty safe_nil eq_refl).
  intros e He. exact He.
Qed.

(** the released set is a function of the delivered *set* (dependency lists read as sets):
    delivery order, repeated deliveries, repeated dependency entries, interleaving of [next]
    calls and HashSet iteration order do not matter *)
Theorem released_set_independent : forall perm1 perm2 fuel1 fuel2 ops1 ops2 x,
  good_perm perm1 -> good_perm perm2 ->
  no_oof perm1 fuel1 (ops1 ++ [Drain]) -> no_oof perm2 fuel2 (ops2 ++ [Drain]) ->
  same_deliveries (delivered_of ops1) (delivered_of ops2) ->
  (In (ERel x) (trace_of perm1 fuel1 (ops1 ++ [Drain])) <->
   In (ERel x) (trace_of perm2 fuel2 (ops2 ++ [Drain]))).
Proof.
  intros perm1 perm2 fuel1 fuel2 ops1 ops2 x H1 H2 Ho1 Ho2 [Hle Hge].
  assert (G1 : forall perm fuel ops, good_perm perm ->
               In (ERel x) (trace_of perm fuel (ops ++ [Drain])) -> grounded (delivered_of ops) x).
  { intros perm fuel ops Hp Hx.
    pose proof (released_grounded _ x (release_after_deps' perm Hp fuel (ops ++ [Drain])) Hx) as Hg.
    unfold trace_of in Hg. rewrite dels_events_run, delivered_of_snoc_drain in Hg. exact Hg. }
  split; intros Hx.
  - apply (eventual_release perm2 H2 fuel2 ops2 x Ho2). apply (grounded_le _ _ x Hle). exact (G1 _ _ _ H1 Hx).
  - apply (eventual_release perm1 H1 fuel1 ops1 x Ho1). apply (grounded_le _ _ x Hge). exact (G1 _ _ _ H2 Hx).
Qed.

Lemma dedup_same_deliveries ops : same_deliveries (delivered_of ops) (delivered_of (map dedup_op ops)).
Proof.
  unfold delivered_of. split; intros x ds Hin.
  - apply in_flat_map in Hin. destruct Hin as [o [Ho Hin]]. destruct o as [y dy| |]; [|destruct Hin|destruct Hin].
    destruct Hin as [E|[]]. inversion E; subst. exists (nodupN ds). split.
    + apply in_flat_map. exists (Deliver x (nodupN ds)). split; [|left; reflexivity].
      apply in_map_iff. exists (Deliver x ds). auto.
    + intros d. symmetry. apply nodupN_In.
  - apply in_flat_map in Hin. destruct Hin as [o [Ho Hin]]. apply in_map_iff in Ho.
    destruct Ho as [o' [Eo Ho']]. subst o. destruct o' as [y dy| |]; [|destruct Hin|destruct Hin].
    cbn [dedup_op] in Hin. destruct Hin as [E|[]]. inversion E; subst. exists dy. split.
    + apply in_flat_map. exists (Deliver x dy). split; [exact Ho' | left; reflexivity].
    + intros d. apply nodupN_In.
Qed.

Lemma map_dedup_snoc ops : map dedup_op (ops ++ [Drain]) = map dedup_op ops ++ [Drain].
Proof. rewrite map_app. reflexivity. Qed.

(** a dependency list is a set: repeating entries changes nothing *)
Theorem deps_as_set : forall perm1 perm2 fuel1 fuel2 ops x,
  good_perm perm1 -> good_perm perm2 ->
  no_oof perm1 fuel1 (ops ++ [Drain]) -> no_oof perm2 fuel2 (map dedup_op ops ++ [Drain]) ->
  (In (ERel x) (trace_of perm1 fuel1 (ops ++ [Drain])) <->
   In (ERel x) (trace_of perm2 fuel2 (map dedup_op ops ++ [Drain]))).
Proof.
  intros perm1 perm2 fuel1 fuel2 ops x H1 H2 Ho1 Ho2.
  apply released_set_independent; try assumption. apply dedup_same_deliveries.
Qed.

(** * non-vacuity: a diamond with a repeated and a missing dependency, delivered out of order *)
Definition ex_ops : list op :=
  [Deliver 3 [1; 2; 1]; Deliver 5 [4]; Deliver 2 [0]; Next; Deliver 1 [0; 0]; Deliver 0 []; Next; Deliver 0 []]%N.

Example ex_no_oof : no_oof id_perm 5 (ex_ops ++ [Drain]).
Proof. reflexivity. Qed.

Example ex_rank :
  forall x ds, In (x, ds) (delivered_of ex_ops) ->
    N.to_nat x < 6 /\ forall d, In d ds -> N.to_nat d < N.to_nat x.
Proof.
  intros x ds H. cbn in H.
  repeat (destruct H as [H|H]; [inversion H; subst; split; [cbn; lia|];
                                intros d Hd; cbn in Hd; repeat (destruct Hd as [Hd|Hd]; [subst; cbn; lia|]); destruct Hd|]).
  destruct H.
Qed.

Example ex_grounded : grounded (delivered_of ex_ops) 3%N.
Proof.
  assert (G0 : grounded (delivered_of ex_ops) 0%N).
  { apply (G_intro _ 0%N []); [cbn; auto 10|]. intros d []. }
  assert (G1 : grounded (delivered_of ex_ops) 1%N).
  { apply (G_intro _ 1%N [0%N; 0%N]); [cbn; auto 10|]. intros d [H|[H|[]]]; subst; exact G0. }
  assert (G2 : grounded (delivered_of ex_ops) 2%N).
  { apply (G_intro _ 2%N [0%N]); [cbn; auto 10|]. intros d [H|[]]; subst; exact G0. }
  apply (G_intro _ 3%N [1%N; 2%N; 1%N]); [cbn; auto 10|].
  intros d [H|[H|[H|[]]]]; subst; assumption.
Qed.

Example ex_trace :
  trace_of id_perm 5 (ex_ops ++ [Drain]) =
  [EDel 3 [1; 2; 1]; EDel 5 [4]; EDel 2 [0]; EDel 1 [0; 0]; EDel 0 []; ERel 0; EDel 0 [];
   ERel 2; ERel 1; ERel 3; ERel 0]%N.
Proof. reflexivity. Qed.
