(** Two honest sides joined by two FIFO queues (unbounded, or [futures::mpsc::channel(c)]):
    the invariant of every reachable state of the joint system, for every schedule. *)
From Coq Require Import List Arith NArith Bool Lia.
From PV Require Import Model.Dedup Model.LogSync Proofs.LogSyncC20 Proofs.LogSyncScript Proofs.LogSyncNode.
Import ListNotations.

Section Joint.
  Variables rA rB : replica.
  Variables logsA logsB : list (N * list N).
  Variable cbuf : option nat.

  Definition hA : heights := local_heights rA logsA.
  Definition hB : heights := local_heights rB logsB.
  (** What each side sends in a session with the other. *)
  Definition scA : list msg := script rA logsA hB.
  Definition scB : list msg := script rB logsB hA.

  Definition ninvA : node -> Prop := ninv rA logsA hB scB.
  Definition ninvB : node -> Prop := ninv rB logsB hA scA.

  Lemma scA_word : complete_word scA. Proof. apply script_complete. Qed.
  Lemma scB_word : complete_word scB. Proof. apply script_complete. Qed.
  Lemma scA_head : exists rest, scA = Have hA :: rest. Proof. apply script_head. Qed.
  Lemma scB_head : exists rest, scB = Have hB :: rest. Proof. apply script_head. Qed.

  Definition parked_ok (n : node) (q : list msg) : Prop :=
    n_parked n = true -> match cbuf with Some c => c < length q | None => False end.

  (** [x] sends to [y] through [q]: everything [x] emitted is consumed by [y], queued, or pending. *)
  Definition link (x y : node) (q : list msg) : Prop :=
    sent (n_hist x) = n_cons y ++ q ++ n_pend x /\ parked_ok x q.

  Definition J (y : sys) : Prop :=
    ninvA (sa y) /\ ninvB (sb y) /\ link (sa y) (sb y) (qab y) /\ link (sb y) (sa y) (qba y).

  Lemma J_init cap : J (sys0 logsA logsB cap).
  Proof.
    unfold J, sys0. cbn [sa sb qab qba].
    split; [apply ninv_init|]. split; [apply ninv_init|].
    split; (split; [reflexivity|discriminate]).
  Qed.

  (** *** Generic link lemmas *)
  Lemma link_tick_self x x' y q :
    n_cons x' = n_cons x -> n_pend x = [] -> n_parked x' = false ->
    sent (n_hist x') = sent (n_hist x) ++ n_pend x' ->
    link x y q -> link x' y q.
  Proof.
    intros _ Pe Pa S [L _]. split; [|intros P; rewrite Pa in P; discriminate].
    rewrite S, L, Pe, app_nil_r, app_assoc. reflexivity.
  Qed.

  Lemma link_other_same x y y' q :
    n_cons y' = n_cons y -> link x y q -> link x y' q.
  Proof. intros C [L P]. split; [rewrite C; exact L|exact P]. Qed.

  Lemma link_push_self x y q m p :
    n_pend x = m :: p ->
    link x y q ->
    link (mknode (n_st x) p (parks cbuf (q ++ [m])) (n_hist x) (n_cons x)) y (q ++ [m]).
  Proof.
    intros Pe [L _]. split; cbn [n_hist n_pend n_parked].
    - rewrite L, Pe, <- !app_assoc. reflexivity.
    - unfold parked_ok, parks. cbn [n_parked]. destruct cbuf as [c|]; [|discriminate].
      intros H. apply Nat.ltb_lt in H. exact H.
  Qed.

  Lemma link_recv_sender x y y' m q :
    n_cons y' = n_cons y ++ [m] ->
    link x y (m :: q) -> link (unpark x) y' q.
  Proof.
    intros C [L _]. split; [|discriminate].
    unfold unpark. cbn [n_hist n_pend]. rewrite L, C, <- app_assoc. reflexivity.
  Qed.

  Lemma link_recv_receiver y y' x q :
    sent (n_hist y') = sent (n_hist y) -> n_pend y = [] -> n_pend y' = [] -> n_parked y' = false ->
    link y x q -> link y' (unpark x) q.
  Proof.
    intros S P P' Pa [L _]. split; [|intros H; rewrite Pa in H; discriminate].
    unfold unpark. cbn [n_cons]. rewrite S, L, P, P'. reflexivity.
  Qed.

  (** *** One step of the joint system preserves [J] *)
  Lemma J_step y l y' : J y -> sys_step true cbuf rA rB y l = Some y' -> J y'.
  Proof.
    intros [NA [NB [LAB LBA]]] St. destruct l; cbn [sys_step] in St.
    - (* TickA *)
      destruct (node_tick true rA (sa y)) as [n'|] eqn:T; [|discriminate]. injection St as <-.
      destruct (node_tick_ninv rA logsA hB scB (sa y) n' NA T) as [NA' [C [Pe [_ [Pa [S _]]]]]].
      unfold J. cbn [sa sb qab qba]. split; [exact NA'|]. split; [exact NB|]. split.
      + exact (link_tick_self _ _ _ _ C Pe Pa S LAB).
      + exact (link_other_same _ _ _ _ C LBA).
    - (* TickB *)
      destruct (node_tick true rB (sb y)) as [n'|] eqn:T; [|discriminate]. injection St as <-.
      destruct (node_tick_ninv rB logsB hA scA (sb y) n' NB T) as [NB' [C [Pe [_ [Pa [S _]]]]]].
      unfold J. cbn [sa sb qab qba]. split; [exact NA|]. split; [exact NB'|]. split.
      + exact (link_other_same _ _ _ _ C LAB).
      + exact (link_tick_self _ _ _ _ C Pe Pa S LBA).
    - (* PushA *)
      unfold node_push in St. destruct (n_pend (sa y)) as [|m p] eqn:Pe; [discriminate|].
      destruct (n_parked (sa y)); [discriminate|]. cbn [option_map fst snd] in St. injection St as <-.
      unfold J. cbn [sa sb qab qba]. split; [exact NA|]. split; [exact NB|]. split.
      + apply link_push_self; assumption.
      + apply (link_other_same (sb y) (sa y) _ (qba y)); [reflexivity|exact LBA].
    - (* PushB *)
      unfold node_push in St. destruct (n_pend (sb y)) as [|m p] eqn:Pe; [discriminate|].
      destruct (n_parked (sb y)); [discriminate|]. cbn [option_map fst snd] in St. injection St as <-.
      unfold J. cbn [sa sb qab qba]. split; [exact NA|]. split; [exact NB|]. split.
      + apply (link_other_same (sa y) (sb y) _ (qab y)); [reflexivity|exact LAB].
      + apply link_push_self; assumption.
    - (* DelivA: A consumes the head of qba *)
      destruct (node_recv (sa y) (qba y)) as [[n' q']|] eqn:T; [|discriminate].
      cbn [option_map fst snd] in St. injection St as <-.
      destruct (qba y) as [|m q] eqn:Q.
      { unfold node_recv in T. destruct (n_pend (sa y)), (n_parked (sa y)); discriminate. }
      destruct (ninv_sent_prefix rB logsB hA scA scA_word (sb y) NB) as [suf0 Pf].
      destruct LBA as [LBA PBA]. assert (E : n_cons (sa y) ++ m :: (q ++ n_pend (sb y) ++ suf0) = scB).
      { change scB with (sc_own rB logsB hA). rewrite <- Pf, LBA, <- !app_assoc. reflexivity. }
      destruct (node_recv_ninv rA logsA hB scB scB_word scB_head (sa y) m q n' q' _ NA T E)
        as [NA' [-> [C [Pe [Pe' [_ [Pa' [S _]]]]]]]].
      unfold J. cbn [sa sb qab qba]. split; [exact NA'|]. split.
      { unfold ninvB, ninv, unpark. cbn [n_st n_hist n_cons]. exact NB. }
      split.
      + apply (link_recv_receiver (sa y) n' (sb y) (qab y) S Pe Pe' Pa' LAB).
      + apply (link_recv_sender (sb y) (sa y) n' m q C). split; assumption.
    - (* DelivB *)
      destruct (node_recv (sb y) (qab y)) as [[n' q']|] eqn:T; [|discriminate].
      cbn [option_map fst snd] in St. injection St as <-.
      destruct (qab y) as [|m q] eqn:Q.
      { unfold node_recv in T. destruct (n_pend (sb y)), (n_parked (sb y)); discriminate. }
      destruct (ninv_sent_prefix rA logsA hB scB scB_word (sa y) NA) as [suf0 Pf].
      destruct LAB as [LAB PAB]. assert (E : n_cons (sb y) ++ m :: (q ++ n_pend (sa y) ++ suf0) = scA).
      { change scA with (sc_own rA logsA hB). rewrite <- Pf, LAB, <- !app_assoc. reflexivity. }
      destruct (node_recv_ninv rB logsB hA scA scA_word scA_head (sb y) m q n' q' _ NB T E)
        as [NB' [-> [C [Pe [Pe' [_ [Pa' [S _]]]]]]]].
      unfold J. cbn [sa sb qab qba]. split.
      { unfold ninvA, ninv, unpark. cbn [n_st n_hist n_cons]. exact NA. }
      split; [exact NB'|]. split.
      + apply (link_recv_sender (sa y) (sb y) n' m q C). split; assumption.
      + apply (link_recv_receiver (sb y) n' (sa y) (qba y) S Pe Pe' Pa' LBA).
  Qed.

  Lemma J_exec ls : forall y y', J y -> exec true cbuf rA rB y ls = Some y' -> J y'.
  Proof.
    induction ls as [|l ls IH]; intros y y' Jy E; cbn [exec] in E.
    - injection E as <-. exact Jy.
    - destruct (sys_step true cbuf rA rB y l) as [y1|] eqn:S; [|discriminate].
      apply (IH y1 y' (J_step y l y1 Jy S) E).
  Qed.

  Theorem J_reachable cap ls y :
    exec true cbuf rA rB (sys0 logsA logsB cap) ls = Some y -> J y.
  Proof. apply J_exec. apply J_init. Qed.

  (** *** At the end each side has sent its script and consumed the peer's *)
  Lemma end_facts r logs h_peer sc_peer (W : complete_word sc_peer) n :
    ninv r logs h_peer sc_peer n -> ph (n_st n) = PEnd ->
    sent (n_hist n) = script r logs h_peer /\ n_cons n = sc_peer.
  Proof.
    intros NI E. split.
    - pose proof (ninv_post_script r logs h_peer sc_peer n NI) as P. rewrite E in P.
      specialize (P eq_refl). unfold remaining in P. rewrite E, app_nil_r in P. exact P.
    - destruct NI as [_ [_ [_ C]]]. rewrite E in C. exact C.
  Qed.

  Theorem joint_final y :
    J y -> finished y = true ->
    sent (n_hist (sa y)) = scA /\ n_cons (sa y) = scB /\
    sent (n_hist (sb y)) = scB /\ n_cons (sb y) = scA.
  Proof.
    intros [NA [NB _]] F. unfold finished, is_end in F. apply andb_true_iff in F. destruct F as [FA FB].
    destruct (ph (n_st (sa y))) eqn:PA; try discriminate.
    destruct (ph (n_st (sb y))) eqn:PB; try discriminate.
    destruct (end_facts rA logsA hB scB scB_word (sa y) NA PA) as [SA CA].
    destruct (end_facts rB logsB hA scA scA_word (sb y) NB PB) as [SB CB].
    auto.
  Qed.
End Joint.
