(** The hypothesis of [received_exact] -- operation ids pairwise distinct over everything the two
    sides send each other -- follows from natural well-formedness of the two replicas: ids are an
    injective function of (author, log, seq) shared by both replicas (same operation, same hash;
    no forks), sequence numbers are unique within a log, configurations name every author and
    every log once. *)
From Coq Require Import List Arith NArith Bool Lia.
From PV Require Import Model.Dedup Model.LogSync Proofs.LogSyncC20 Proofs.LogSyncScript Proofs.LogSyncOps
  Proofs.LogSyncNode Proofs.LogSyncJoint Proofs.LogSyncLive Proofs.LogSyncRecv.
Import ListNotations.

Definition wf_ids (idf : N * N * N -> N) (r : replica) : Prop :=
  forall a l w, In w (rows_of r (a, l)) -> r_id w = idf (a, l, r_seq w).
(** [k = (author, log, seq)] names a row of the replica. *)
Definition in_rep (r : replica) (k : N * N * N) : Prop :=
  exists w, In w (rows_of r (fst (fst k), snd (fst k))) /\ r_seq w = snd k.
(** [idf] is injective on the rows the two replicas hold. *)
Definition inj_on_reps (idf : N * N * N -> N) (rA rB : replica) : Prop :=
  forall k1 k2, in_rep rA k1 \/ in_rep rB k1 -> in_rep rA k2 \/ in_rep rB k2 -> idf k1 = idf k2 -> k1 = k2.
Definition nodup_seqs (r : replica) : Prop := forall k, NoDup (map r_seq (rows_of r k)).
Definition nodup_cfg (logs : list (N * list N)) : Prop :=
  NoDup (map fst logs) /\ forall a ls, In (a, ls) logs -> NoDup ls.

Definition key3 (x : N * N * row) : N * N * N := (fst (fst x), snd (fst x), r_seq (snd x)).

(** ** List helpers *)
Lemma nodup_app_intro {A} (l1 l2 : list A) :
  NoDup l1 -> NoDup l2 -> (forall x, In x l1 -> In x l2 -> False) -> NoDup (l1 ++ l2).
Proof.
  induction l1 as [|x l1 IH]; intros N1 N2 D; [exact N2|].
  inversion N1; subst. cbn. constructor.
  - intros H. apply in_app_iff in H. destruct H as [H|H]; [contradiction|]. apply (D x); [left; reflexivity|exact H].
  - apply IH; [assumption|assumption|]. intros y Hy1 Hy2. apply (D y); [right; exact Hy1|exact Hy2].
Qed.

Lemma nodup_flat_map {A B} (f : A -> list B) (l : list A) :
  NoDup l -> (forall x, In x l -> NoDup (f x)) ->
  (forall x y b, In x l -> In y l -> In b (f x) -> In b (f y) -> x = y) ->
  NoDup (flat_map f l).
Proof.
  induction l as [|x l IH]; intros N E D; [constructor|].
  inversion N; subst. cbn [flat_map]. apply nodup_app_intro.
  - apply E. left. reflexivity.
  - apply IH; [assumption| |].
    + intros y Hy. apply E. right. exact Hy.
    + intros y z b Hy Hz. apply D; right; assumption.
  - intros b Hb1 Hb2. apply in_flat_map in Hb2. destruct Hb2 as [y [Hy Hb2]].
    assert (x = y) by (apply (D x y b); [left; reflexivity|right; exact Hy|exact Hb1|exact Hb2]).
    subst y. contradiction.
Qed.

Lemma nodup_map_inj {A B} (f : A -> B) (l : list A) :
  (forall x y, In x l -> In y l -> f x = f y -> x = y) -> NoDup l -> NoDup (map f l).
Proof.
  induction l as [|x l IH]; intros I N; [constructor|]. inversion N; subst. cbn. constructor.
  - intros H. apply in_map_iff in H. destruct H as [y [E Hy]].
    assert (y = x) by (apply I; [right; exact Hy|left; reflexivity|exact E]). subst y. contradiction.
  - apply IH; [|assumption]. intros y z Hy Hz. apply I; right; assumption.
Qed.

Lemma nodup_map_filter {A B} (f : A -> B) (p : A -> bool) (l : list A) :
  NoDup (map f l) -> NoDup (map f (filter p l)).
Proof.
  induction l as [|x l IH]; intros N; [constructor|]. cbn in N. inversion N; subst.
  cbn. destruct (p x); [|apply IH; assumption]. cbn. constructor; [|apply IH; assumption].
  intros H. apply H1. apply in_map_iff in H. destruct H as [y [E Hy]]. apply filter_In in Hy.
  apply in_map_iff. exists y. tauto.
Qed.

Lemma nodup_of_map {A B} (f : A -> B) (l : list A) : NoDup (map f l) -> NoDup l.
Proof.
  induction l as [|x l IH]; intros N; [constructor|]. cbn in N. inversion N; subst. constructor.
  - intros H. apply H1. apply in_map. exact H.
  - apply IH. assumption.
Qed.

(** ** The keys of [expected_ops] are pairwise distinct *)
Lemma expected_ops_keys_nodup r logs h :
  nodup_cfg logs -> nodup_seqs r -> NoDup (map key3 (expected_ops r logs h)).
Proof.
  intros [NA NL] NS. unfold expected_ops. rewrite flat_map_concat_map, concat_map, map_map, <- flat_map_concat_map.
  apply nodup_flat_map.
  - apply (nodup_of_map fst). exact NA.
  - intros [a ls] Hal. cbn [fst snd]. rewrite flat_map_concat_map, concat_map, map_map, <- flat_map_concat_map.
    apply nodup_flat_map.
    + apply (NL a ls Hal).
    + intros l Hl. rewrite map_map. unfold key3. cbn [fst snd].
      unfold missing_rows.
      assert (N1 : NoDup (map r_seq (filter (fun w => above (lookup2 h a l) (r_seq w)) (rows_of r (a, l)))))
        by (apply nodup_map_filter; apply NS).
      change (fun x : row => (a, l, r_seq x)) with (fun x : row => (fun s => (a, l, s)) (r_seq x)).
      rewrite <- (map_map r_seq (fun s => (a, l, s))).
      apply nodup_map_inj; [|exact N1]. intros s1 s2 _ _ E. inversion E. reflexivity.
    + intros l1 l2 b _ _ H1 H2. rewrite map_map in H1, H2. apply in_map_iff in H1. apply in_map_iff in H2.
      destruct H1 as [w1 [E1 _]], H2 as [w2 [E2 _]]. unfold key3 in *. cbn [fst snd] in *. congruence.
  - intros [a1 ls1] [a2 ls2] b H1 H2 Hb1 Hb2. cbn [fst snd] in *.
    rewrite flat_map_concat_map, concat_map, map_map, <- flat_map_concat_map in Hb1, Hb2.
    apply in_flat_map in Hb1. apply in_flat_map in Hb2.
    destruct Hb1 as [l1 [_ Hb1]], Hb2 as [l2 [_ Hb2]]. rewrite map_map in Hb1, Hb2.
    apply in_map_iff in Hb1. apply in_map_iff in Hb2.
    destruct Hb1 as [w1 [E1 _]], Hb2 as [w2 [E2 _]]. unfold key3 in *. cbn [fst snd] in *.
    assert (a1 = a2) by congruence. subst a2.
    f_equal. clear -NA H1 H2. induction logs as [|[a0 ls0] logs IH]; [destruct H1|].
    cbn [map fst] in NA. inversion NA; subst.
    destruct H1 as [E1|H1], H2 as [E2|H2].
    + congruence.
    + inversion E1; subst. exfalso. apply H3. apply in_map_iff. exists (a1, ls2). auto.
    + inversion E2; subst. exfalso. apply H3. apply in_map_iff. exists (a1, ls1). auto.
    + apply IH; assumption.
Qed.

(** ** What the two sides send is disjoint *)
Lemma in_missing_rows r h a l w :
  In w (missing_rows r h a l) <-> In w (rows_of r (a, l)) /\ above (lookup2 h a l) (r_seq w) = true.
Proof. unfold missing_rows. apply filter_In. Qed.

Lemma sends_disjoint rA rB logsA logsB k :
  NoDup (map fst logsA) -> NoDup (map fst logsB) ->
  In k (map key3 (expected_ops rA logsA (local_heights rB logsB))) ->
  In k (map key3 (expected_ops rB logsB (local_heights rA logsA))) -> False.
Proof.
  intros NA NB H1 H2. apply in_map_iff in H1. apply in_map_iff in H2.
  destruct H1 as [[[a1 l1] w1] [E1 H1]], H2 as [[[a2 l2] w2] [E2 H2]].
  apply in_expected_ops in H1. apply in_expected_ops in H2.
  destruct H1 as [a [lsA [l [HalA [HlA [Ek1 Hw1]]]]]]. destruct H2 as [a' [lsB [l' [HalB [HlB [Ek2 Hw2]]]]]].
  inversion Ek1; subst a1 l1. inversion Ek2; subst a2 l2. unfold key3 in *. cbn [fst snd] in *.
  assert (a' = a /\ l' = l /\ r_seq w2 = r_seq w1) by (split; [|split]; congruence).
  destruct H as [-> [-> Es]].
  apply in_missing_rows in Hw1. apply in_missing_rows in Hw2. destruct Hw1 as [R1 A1], Hw2 as [R2 A2].
  rewrite (lookup2_local_heights rB logsB a lsB l NB HalB HlB) in A1.
  rewrite (lookup2_local_heights rA logsA a lsA l NA HalA HlA) in A2.
  unfold height in A1, A2.
  destruct (maxseq (rows_of rB (a, l))) as [mB|] eqn:MB; [|apply maxseq_none in MB; rewrite MB in R2; destruct R2].
  destruct (maxseq (rows_of rA (a, l))) as [mA|] eqn:MA; [|apply maxseq_none in MA; rewrite MA in R1; destruct R1].
  pose proof (maxseq_bound _ _ MB w2 R2). pose proof (maxseq_bound _ _ MA w1 R1).
  cbn in A1, A2. apply N.ltb_lt in A1. apply N.ltb_lt in A2. lia.
Qed.

(** ** Main lemma *)
Theorem ids_distinct_from_wf (idf : N * N * N -> N) rA rB logsA logsB :
  inj_on_reps idf rA rB -> wf_ids idf rA -> wf_ids idf rB -> nodup_seqs rA -> nodup_seqs rB ->
  nodup_cfg logsA -> nodup_cfg logsB -> pos_sizes rA -> pos_sizes rB ->
  NoDup (ids (scA rA rB logsA logsB) ++ ids (scB rA rB logsA logsB)).
Proof.
  intros Inj WA WB SA SB CA CB PA PB. unfold ids, scA, scB, hA, hB.
  rewrite (sent_ops_exact rA logsA _ PA), (sent_ops_exact rB logsB _ PB).
  set (oa := expected_ops rA logsA (local_heights rB logsB)).
  set (ob := expected_ops rB logsB (local_heights rA logsA)).
  assert (IA : map id3 oa = map idf (map key3 oa)).
  { rewrite map_map. apply map_ext_in. intros [[a l] w] H. unfold id3, key3. cbn [fst snd].
    apply in_expected_ops in H. destruct H as [a' [ls [l' [_ [_ [E Hw]]]]]]. inversion E; subst.
    apply in_missing_rows in Hw. apply WA. tauto. }
  assert (IB : map id3 ob = map idf (map key3 ob)).
  { rewrite map_map. apply map_ext_in. intros [[a l] w] H. unfold id3, key3. cbn [fst snd].
    apply in_expected_ops in H. destruct H as [a' [ls [l' [_ [_ [E Hw]]]]]]. inversion E; subst.
    apply in_missing_rows in Hw. apply WB. tauto. }
  assert (KA : forall k, In k (map key3 oa) -> in_rep rA k).
  { intros k H. apply in_map_iff in H. destruct H as [[[a l] w] [<- H]].
    apply in_expected_ops in H. destruct H as [a' [ls [l' [_ [_ [E Hw]]]]]]. inversion E; subst.
    apply in_missing_rows in Hw. exists w. unfold key3. cbn [fst snd]. tauto. }
  assert (KB : forall k, In k (map key3 ob) -> in_rep rB k).
  { intros k H. apply in_map_iff in H. destruct H as [[[a l] w] [<- H]].
    apply in_expected_ops in H. destruct H as [a' [ls [l' [_ [_ [E Hw]]]]]]. inversion E; subst.
    apply in_missing_rows in Hw. exists w. unfold key3. cbn [fst snd]. tauto. }
  rewrite IA, IB, <- map_app. apply nodup_map_inj.
  { intros x y Hx Hy. apply Inj.
    - apply in_app_iff in Hx. destruct Hx; [left; apply KA|right; apply KB]; assumption.
    - apply in_app_iff in Hy. destruct Hy; [left; apply KA|right; apply KB]; assumption. }
  apply nodup_app_intro.
  - apply expected_ops_keys_nodup; assumption.
  - apply expected_ops_keys_nodup; assumption.
  - intros k. apply sends_disjoint; [exact (proj1 CA)|exact (proj1 CB)].
Qed.

(** [received_exact] under the well-formedness hypotheses. *)
Theorem received_exact_wf (idf : N * N * N -> N) rA rB logsA logsB cbuf cap ls y :
  inj_on_reps idf rA rB -> wf_ids idf rA -> wf_ids idf rB -> nodup_seqs rA -> nodup_seqs rB ->
  nodup_cfg logsA -> nodup_cfg logsB -> pos_sizes rA -> pos_sizes rB ->
  exec true cbuf rA rB (sys0 logsA logsB cap) ls = Some y -> finished y = true ->
  sent (n_hist (sa y)) = scA rA rB logsA logsB /\ sent (n_hist (sb y)) = scB rA rB logsA logsB /\
  ev_ops (n_hist (sa y)) = expected_ops rB logsB (local_heights rA logsA) /\
  ev_ops (n_hist (sb y)) = expected_ops rA logsA (local_heights rB logsB).
Proof.
  intros Inj WA WB SA SB CA CB PA PB E F.
  pose proof (ids_distinct_from_wf idf rA rB logsA logsB Inj WA WB SA SB CA CB PA PB) as ND.
  destruct (received_exact rA rB logsA logsB cbuf ND cap ls y E F) as [S1 [S2 [E1 E2]]].
  repeat split; try assumption.
  - rewrite E1. apply (sent_ops_exact rB logsB _ PB).
  - rewrite E2. apply (sent_ops_exact rA logsA _ PA).
Qed.

(** Non-vacuity: the example replicas satisfy the well-formedness hypotheses. *)
Definition ex_idf (k : N * N * N) : N := ((fst (fst k) + 1) * 100 + snd k)%N.
Definition ex_rB' : replica := [((0, 0), [mkrow 0 100 500]); ((1, 0), [mkrow 0 200 300; mkrow 1 201 300])]%N.
Definition ex_logs2' : list (N * list N) := [(0, [0]); (1, [0])]%N.

Lemma ex_rows_A k w : In w (rows_of ex_r k) -> k = (0, 0)%N /\ (w = mkrow 0 100 500 \/ w = mkrow 1 101 500).
Proof.
  unfold ex_r. cbn [rows_of]. destruct (keyb k (0, 0)%N) eqn:K; [|intros []].
  apply keyb_eq in K. intros [<-|[<-|[]]]; auto.
Qed.

Lemma ex_rows_B k w : In w (rows_of ex_rB' k) ->
  (k = (0, 0)%N /\ w = mkrow 0 100 500) \/ (k = (1, 0)%N /\ (w = mkrow 0 200 300 \/ w = mkrow 1 201 300)).
Proof.
  unfold ex_rB'. cbn [rows_of]. destruct (keyb k (0, 0)%N) eqn:K.
  - apply keyb_eq in K. intros [<-|[]]. auto.
  - destruct (keyb k (1, 0)%N) eqn:K1; [|intros []]. apply keyb_eq in K1. intros [<-|[<-|[]]]; auto.
Qed.

Example wf_example :
  inj_on_reps ex_idf ex_r ex_rB' /\ wf_ids ex_idf ex_r /\ wf_ids ex_idf ex_rB' /\
  nodup_seqs ex_r /\ nodup_seqs ex_rB' /\ nodup_cfg ex_logs2' /\ pos_sizes ex_r /\ pos_sizes ex_rB'.
Proof.
  assert (KA : forall k, in_rep ex_r k -> k = (0, 0, 0)%N \/ k = (0, 0, 1)%N).
  { intros [[a l] s] [w [H E]]. cbn [fst snd] in *. apply ex_rows_A in H. destruct H as [K [-> | ->]];
      inversion K; subst; cbn; auto. }
  assert (KB : forall k, in_rep ex_rB' k -> k = (0, 0, 0)%N \/ k = (1, 0, 0)%N \/ k = (1, 0, 1)%N).
  { intros [[a l] s] [w [H E]]. cbn [fst snd] in *. apply ex_rows_B in H.
    destruct H as [[K ->]|[K [-> | ->]]]; inversion K; subst; cbn; auto. }
  repeat split.
  - intros k1 k2 H1 H2 E.
    assert (C1 : k1 = (0, 0, 0)%N \/ k1 = (0, 0, 1)%N \/ k1 = (1, 0, 0)%N \/ k1 = (1, 0, 1)%N)
      by (destruct H1 as [H|H]; [apply KA in H|apply KB in H]; tauto).
    assert (C2 : k2 = (0, 0, 0)%N \/ k2 = (0, 0, 1)%N \/ k2 = (1, 0, 0)%N \/ k2 = (1, 0, 1)%N)
      by (destruct H2 as [H|H]; [apply KA in H|apply KB in H]; tauto).
    destruct C1 as [->|[->|[-> | ->]]], C2 as [->|[->|[-> | ->]]]; try reflexivity; vm_compute in E; discriminate.
  - intros a l w H. apply ex_rows_A in H. destruct H as [K [-> | ->]]; inversion K; reflexivity.
  - intros a l w H. apply ex_rows_B in H. destruct H as [[K ->]|[K [-> | ->]]]; inversion K; reflexivity.
  - intros k. unfold ex_r. cbn [rows_of]. destruct (keyb k (0, 0)%N); cbn; repeat constructor; cbn; intuition discriminate.
  - intros k. unfold ex_rB'. cbn [rows_of]. destruct (keyb k (0, 0)%N); [cbn; repeat constructor; cbn; intuition discriminate|].
    destruct (keyb k (1, 0)%N); cbn; repeat constructor; cbn; intuition discriminate.
  - cbn. repeat constructor; cbn; intuition discriminate.
  - intros a ls [E|[E|[]]]; inversion E; subst; repeat constructor; cbn; intuition.
  - intros k w H. apply ex_rows_A in H. destruct H as [_ [-> | ->]]; reflexivity.
  - intros k w H. apply ex_rows_B in H. destruct H as [[_ ->]|[_ [-> | ->]]]; reflexivity.
Qed.
