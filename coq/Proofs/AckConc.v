(** Proofs about concurrent [Acked::ack] calls on one instance (Model/AckConc.v).

    Generic part (any store): an invariant of the machine (mutual exclusion through the permit,
    freshness of the local copy, the store is the serial composition of the committed writes),
    hence for EVERY schedule: the store only ever changes by one complete serial call, and when
    all calls have returned the committed writes are a permutation of the accepted calls.
    Instances: C07 (cursor store) and C15 (durable tables, restart of Model/Replay.v). *)
From Coq Require Import List Arith NArith Bool Lia Permutation.
From PV Require Import Model.Heights Model.Cursor Model.AckConc Proofs.Heights Oracle.C06 Oracle.C07 Proofs.Cursor.
From PV Require Model.Replay Proofs.Replay.
Import ListNotations.

Lemma NoDup_snoc {A : Type} (l : list A) (x : A) : NoDup l -> ~ In x l -> NoDup (l ++ [x]).
Proof.
  intros Hn Hx. apply (Permutation_NoDup (Permutation_cons_append l x)). constructor; assumption.
Qed.

Lemma upd_same {A : Type} (f : nat -> A) i v : upd f i v i = v.
Proof. unfold upd. rewrite Nat.eqb_refl. reflexivity. Qed.

Lemma upd_other {A : Type} (f : nat -> A) i j v : j <> i -> upd f i v j = f j.
Proof. intros H. unfold upd. destruct (Nat.eqb_spec j i); [contradiction|reflexivity]. Qed.

Ltac upd_case j i :=
  let e := fresh "e" in
  let ne := fresh "Hne" in
  destruct (Nat.eq_dec j i) as [e|ne];
  [ subst j; rewrite ?upd_same in * | rewrite ?(upd_other _ i j) in * by exact ne ].

Section MachineProofs.
  Variables St Loc Hd : Type.
  Variable okb : Hd -> bool.
  Variable rd : St -> Loc.
  Variable adv : Hd -> Loc -> Loc.
  Variable wr : St -> Loc -> St.
  Variable hs : list Hd.
  Variable s0 : St.

  Notation M := (mstate St Loc).
  Notation stp := (step St Loc Hd okb rd adv wr hs).
  Notation sstep := (seqstep St Loc Hd rd adv wr).
  Notation hdrs := (hdrs_of Hd hs).

  Definition active (p : pc Loc) : Prop :=
    match p with PHeld | PRead _ | PBegun _ | PWritten => True | _ => False end.

  Record Inv (s : M) : Prop := {
    inv_holder : forall j, active (m_pc s j) <-> m_holder s = Some j;
    inv_free : m_holder s = None -> m_queue s = [];
    inv_queue_nodup : NoDup (m_queue s);
    inv_queue : forall j, In j (m_queue s) -> m_pc s j = PWait;
    inv_local : forall j c h, m_pc s j = PRead c \/ m_pc s j = PBegun c ->
                              nth_error hs j = Some h -> c = adv h (rd (m_store s));
    inv_store : m_store s = fold_left sstep (hdrs (m_wlog s)) s0;
    inv_wlog_nodup : NoDup (m_wlog s);
    inv_wlog : forall j, In j (m_wlog s) <-> (m_pc s j = PWritten \/ m_pc s j = PDone true);
    inv_ok : forall j h, nth_error hs j = Some h ->
                         active (m_pc s j) \/ m_pc s j = PDone true -> okb h = true;
    inv_rej : forall j h, nth_error hs j = Some h -> m_pc s j = PDone false -> okb h = false;
    inv_range : forall j, nth_error hs j = None -> m_pc s j = PIdle
  }.

  Lemma inv_init : Inv (m_init s0).
  Proof.
    constructor; cbn [m_init m_pc m_holder m_queue m_store m_wlog].
    - intros j. split; [intros []|discriminate].
    - reflexivity.
    - constructor.
    - intros j [].
    - intros j c h [H|H]; discriminate.
    - reflexivity.
    - constructor.
    - intros j. split; [intros []|intros [H|H]; discriminate].
    - intros j h _ [[]|H]; discriminate.
    - intros j h _ H; discriminate.
    - reflexivity.
  Qed.

  (** What handing over the permit may do to a call's program counter. *)
  Definition moved (pcs pcs' : nat -> pc Loc) (j : nat) : Prop :=
    pcs' j = pcs j \/
    (pcs j = PWait /\ exists h, nth_error hs j = Some h /\
       ((pcs' j = PHeld /\ okb h = true) \/ (pcs' j = PDone false /\ okb h = false))).

  Lemma grant_spec :
    forall q pcs ho q' pcs',
      (forall j, ~ active (pcs j)) -> NoDup q -> (forall j, In j q -> pcs j = PWait) ->
      grant Loc Hd okb hs q pcs = (ho, q', pcs') ->
      (forall j, active (pcs' j) <-> ho = Some j) /\
      (ho = None -> q' = []) /\
      NoDup q' /\ (forall j, In j q' -> pcs' j = PWait) /\
      (forall j, moved pcs pcs' j).
  Proof.
    induction q as [|x q IH]; intros pcs ho q' pcs' Hna Hnd Hq Hg; cbn [grant] in Hg.
    - inversion Hg; subst. split; [|split; [|split; [|split]]].
      + intros j. split; [intros H; exfalso; exact (Hna j H)|discriminate].
      + reflexivity.
      + constructor.
      + intros j [].
      + intros j. left. reflexivity.
    - inversion Hnd as [|x' q0 Hx Hnd']; subst.
      assert (Hxw : pcs x = PWait) by (apply Hq; left; reflexivity).
      destruct (nth_error hs x) as [h|] eqn:Eh.
      + destruct (okb h) eqn:Eok.
        * inversion Hg; subst. split; [|split; [|split; [|split]]].
          -- intros j. split.
             ++ intros H. upd_case j x; [reflexivity|].
                exfalso. exact (Hna j H).
             ++ intros H. inversion H; subst. rewrite upd_same. exact I.
          -- discriminate.
          -- exact Hnd'.
          -- intros j Hj. rewrite upd_other; [apply Hq; right; exact Hj|].
             intros ->. exact (Hx Hj).
          -- intros j. unfold moved, upd. destruct (Nat.eqb_spec j x) as [->|Hne]; [|left; reflexivity].
             right. split; [exact Hxw|]. exists h. split; [exact Eh|]. left. split; [reflexivity|exact Eok].
        * assert (Hna1 : forall j, ~ active (upd pcs x (PDone false) j)).
          { intros j. unfold upd. destruct (Nat.eqb_spec j x); [intros []|apply Hna]. }
          assert (Hq1 : forall j, In j q -> upd pcs x (PDone false) j = PWait).
          { intros j Hj. rewrite upd_other; [apply Hq; right; exact Hj|]. intros ->. exact (Hx Hj). }
          destruct (IH _ _ _ _ Hna1 Hnd' Hq1 Hg) as (A & B & C & D & E).
          split; [exact A|]. split; [exact B|]. split; [exact C|]. split; [exact D|].
          intros j. specialize (E j). unfold moved in *.
          upd_case j x; [|exact E].
          right. split; [exact Hxw|]. exists h. split; [exact Eh|]. right.
          destruct E as [E|[E _]]; [split; [exact E|exact Eok]|discriminate].
      + assert (Hq1 : forall j, In j q -> pcs j = PWait) by (intros j Hj; apply Hq; right; exact Hj).
        exact (IH _ _ _ _ Hna Hnd' Hq1 Hg).
  Qed.

  Lemma active_not_idle (p : pc Loc) : active p -> p <> PIdle /\ p <> PWait /\ forall b, p <> PDone b.
  Proof. destruct p; cbn; intros H; try contradiction; repeat split; try discriminate; intros; discriminate. Qed.

  (** The invariant is preserved by every label. *)
  Lemma inv_step (s : M) (i : nat) : Inv s -> Inv (stp s i).
  Proof.
    intros I. unfold step.
    destruct (nth_error hs i) as [h|] eqn:Eh; [|exact I].
    destruct (m_pc s i) as [| | |c|c| |b] eqn:Epc; try exact I.
    - (* PIdle *)
      destruct (m_holder s) as [x|] eqn:Eho.
      + (* queued *)
        assert (Hxi : x <> i).
        { intros ->. apply (inv_holder s I) in Eho. rewrite Epc in Eho. exact Eho. }
        assert (Hni : ~ In i (m_queue s)).
        { intros Hin. apply (inv_queue s I) in Hin. congruence. }
        constructor; cbn [m_pc m_holder m_queue m_store m_wlog].
        * intros j. unfold upd. destruct (Nat.eqb_spec j i) as [->|Hne].
          -- split; [intros []|intros H; inversion H; contradiction].
          -- rewrite <- Eho. apply (inv_holder s I).
        * discriminate.
        * apply NoDup_snoc; [apply (inv_queue_nodup s I)|exact Hni].
        * intros j Hj. apply in_app_or in Hj. destruct Hj as [Hj|[<-|[]]].
          -- rewrite upd_other; [apply (inv_queue s I); exact Hj|]. intros ->. exact (Hni Hj).
          -- apply upd_same.
        * intros j c h' Hj. upd_case j i.
          -- destruct Hj; discriminate.
          -- apply (inv_local s I); exact Hj.
        * apply (inv_store s I).
        * apply (inv_wlog_nodup s I).
        * intros j. rewrite (inv_wlog s I). unfold upd. destruct (Nat.eqb_spec j i) as [->|Hne]; [|tauto].
          rewrite Epc. split; intros [H|H]; discriminate.
        * intros j h' Hj. unfold upd. destruct (Nat.eqb_spec j i) as [->|Hne].
          -- intros [[]|H]; discriminate.
          -- apply (inv_ok s I); exact Hj.
        * intros j h' Hj. unfold upd. destruct (Nat.eqb_spec j i) as [->|Hne]; [discriminate|].
          apply (inv_rej s I); exact Hj.
        * intros j Hj. rewrite upd_other; [apply (inv_range s I); exact Hj|]. intros ->. congruence.
      + (* permit free *)
        assert (Hna : forall j, ~ active (m_pc s j)).
        { intros j Hj. apply (inv_holder s I) in Hj. congruence. }
        pose proof (inv_free s I Eho) as Hq0.
        destruct (okb h) eqn:Eok; constructor; cbn [m_pc m_holder m_queue m_store m_wlog].
        * intros j. unfold upd. destruct (Nat.eqb_spec j i) as [->|Hne].
          -- split; intros _; [reflexivity|exact Logic.I].
          -- split; [intros H; exfalso; exact (Hna j H)|intros H; inversion H; congruence].
        * discriminate.
        * apply (inv_queue_nodup s I).
        * rewrite Hq0. intros j [].
        * intros j c h' Hj. upd_case j i.
          -- destruct Hj; discriminate.
          -- apply (inv_local s I); exact Hj.
        * apply (inv_store s I).
        * apply (inv_wlog_nodup s I).
        * intros j. rewrite (inv_wlog s I). unfold upd. destruct (Nat.eqb_spec j i) as [->|Hne]; [|tauto].
          rewrite Epc. split; intros [H|H]; discriminate.
        * intros j h' Hj. unfold upd. destruct (Nat.eqb_spec j i) as [->|Hne].
          -- intros _. congruence.
          -- apply (inv_ok s I); exact Hj.
        * intros j h' Hj. unfold upd. destruct (Nat.eqb_spec j i) as [->|Hne]; [discriminate|].
          apply (inv_rej s I); exact Hj.
        * intros j Hj. rewrite upd_other; [apply (inv_range s I); exact Hj|]. intros ->. congruence.
        * intros j. unfold upd. destruct (Nat.eqb_spec j i) as [->|Hne].
          -- split; [intros []|discriminate].
          -- split; [intros H; exfalso; exact (Hna j H)|discriminate].
        * intros _. exact Hq0.
        * apply (inv_queue_nodup s I).
        * rewrite Hq0. intros j [].
        * intros j c h' Hj. upd_case j i.
          -- destruct Hj; discriminate.
          -- apply (inv_local s I); exact Hj.
        * apply (inv_store s I).
        * apply (inv_wlog_nodup s I).
        * intros j. rewrite (inv_wlog s I). unfold upd. destruct (Nat.eqb_spec j i) as [->|Hne]; [|tauto].
          rewrite Epc. split; intros [H|H]; discriminate.
        * intros j h' Hj. unfold upd. destruct (Nat.eqb_spec j i) as [->|Hne].
          -- intros [[]|H]; discriminate.
          -- apply (inv_ok s I); exact Hj.
        * intros j h' Hj. unfold upd. destruct (Nat.eqb_spec j i) as [->|Hne].
          -- intros _. congruence.
          -- apply (inv_rej s I); exact Hj.
        * intros j Hj. rewrite upd_other; [apply (inv_range s I); exact Hj|]. intros ->. congruence.
    - (* PHeld -> PRead *)
      assert (Hho : m_holder s = Some i) by (apply (inv_holder s I); rewrite Epc; exact Logic.I).
      constructor; cbn [m_pc m_holder m_queue m_store m_wlog].
      * intros j. unfold upd. destruct (Nat.eqb_spec j i) as [->|Hne].
        -- split; [intros _; exact Hho|intros _; exact Logic.I].
        -- apply (inv_holder s I).
      * apply (inv_free s I).
      * apply (inv_queue_nodup s I).
      * intros j Hj. pose proof (inv_queue s I j Hj) as Hw. rewrite upd_other; [exact Hw|]. intros ->. congruence.
      * intros j c h' Hj Hh. upd_case j i.
        -- assert (h' = h) by congruence. subst h'. destruct Hj as [Hj|Hj]; inversion Hj. reflexivity.
        -- apply (inv_local s I j c h' Hj Hh).
      * apply (inv_store s I).
      * apply (inv_wlog_nodup s I).
      * intros j. rewrite (inv_wlog s I). unfold upd. destruct (Nat.eqb_spec j i) as [->|Hne]; [|tauto].
        rewrite Epc. split; intros [H|H]; discriminate.
      * intros j h' Hj. unfold upd. destruct (Nat.eqb_spec j i) as [->|Hne].
        -- intros _. apply (inv_ok s I i h' Hj). left. rewrite Epc. exact Logic.I.
        -- apply (inv_ok s I); exact Hj.
      * intros j h' Hj. unfold upd. destruct (Nat.eqb_spec j i) as [->|Hne]; [discriminate|].
        apply (inv_rej s I); exact Hj.
      * intros j Hj. rewrite upd_other; [apply (inv_range s I); exact Hj|]. intros ->. congruence.
    - (* PRead -> PBegun *)
      assert (Hho : m_holder s = Some i) by (apply (inv_holder s I); rewrite Epc; exact Logic.I).
      constructor; cbn [m_pc m_holder m_queue m_store m_wlog].
      * intros j. unfold upd. destruct (Nat.eqb_spec j i) as [->|Hne].
        -- split; [intros _; exact Hho|intros _; exact Logic.I].
        -- apply (inv_holder s I).
      * apply (inv_free s I).
      * apply (inv_queue_nodup s I).
      * intros j Hj. pose proof (inv_queue s I j Hj) as Hw. rewrite upd_other; [exact Hw|]. intros ->. congruence.
      * intros j c' h' Hj Hh. upd_case j i.
        -- destruct Hj as [Hj|Hj]; inversion Hj; subst c'.
           apply (inv_local s I i c h'); [left; exact Epc|exact Hh].
        -- apply (inv_local s I j c' h' Hj Hh).
      * apply (inv_store s I).
      * apply (inv_wlog_nodup s I).
      * intros j. rewrite (inv_wlog s I). unfold upd. destruct (Nat.eqb_spec j i) as [->|Hne]; [|tauto].
        rewrite Epc. split; intros [H|H]; discriminate.
      * intros j h' Hj. unfold upd. destruct (Nat.eqb_spec j i) as [->|Hne].
        -- intros _. apply (inv_ok s I i h' Hj). left. rewrite Epc. exact Logic.I.
        -- apply (inv_ok s I); exact Hj.
      * intros j h' Hj. unfold upd. destruct (Nat.eqb_spec j i) as [->|Hne]; [discriminate|].
        apply (inv_rej s I); exact Hj.
      * intros j Hj. rewrite upd_other; [apply (inv_range s I); exact Hj|]. intros ->. congruence.
    - (* PBegun -> PWritten: the write *)
      assert (Hho : m_holder s = Some i) by (apply (inv_holder s I); rewrite Epc; exact Logic.I).
      assert (Hc : c = adv h (rd (m_store s))) by (apply (inv_local s I i c h); [right; exact Epc|exact Eh]).
      assert (Hni : ~ In i (m_wlog s)).
      { intros Hin. apply (inv_wlog s I) in Hin. rewrite Epc in Hin. destruct Hin; discriminate. }
      assert (Hothers : forall j, j <> i -> ~ active (m_pc s j)).
      { intros j Hne Hj. apply (inv_holder s I) in Hj. congruence. }
      constructor; cbn [m_pc m_holder m_queue m_store m_wlog].
      * intros j. unfold upd. destruct (Nat.eqb_spec j i) as [->|Hne].
        -- split; [intros _; exact Hho|intros _; exact Logic.I].
        -- apply (inv_holder s I).
      * apply (inv_free s I).
      * apply (inv_queue_nodup s I).
      * intros j Hj. pose proof (inv_queue s I j Hj) as Hw. rewrite upd_other; [exact Hw|]. intros ->. congruence.
      * intros j c' h' Hj Hh. upd_case j i.
        -- destruct Hj; discriminate.
        -- exfalso. apply (Hothers j Hne). destruct Hj as [Hj|Hj]; rewrite Hj; exact Logic.I.
      * unfold hdrs_of. rewrite flat_map_app, fold_left_app. fold (hdrs (m_wlog s)).
        rewrite <- (inv_store s I). cbn [flat_map]. rewrite Eh. cbn [app fold_left].
        unfold seqstep. rewrite Hc. reflexivity.
      * apply NoDup_snoc; [apply (inv_wlog_nodup s I)|exact Hni].
      * intros j. rewrite in_app_iff, (inv_wlog s I). cbn [In]. unfold upd.
        destruct (Nat.eqb_spec j i) as [->|Hne].
        -- split; [intros _; left; reflexivity|intros _; right; left; reflexivity].
        -- split; [intros [H|[H|[]]]; [exact H|congruence]|intros H; left; exact H].
      * intros j h' Hj. unfold upd. destruct (Nat.eqb_spec j i) as [->|Hne].
        -- intros _. apply (inv_ok s I i h' Hj). left. rewrite Epc. exact Logic.I.
        -- apply (inv_ok s I); exact Hj.
      * intros j h' Hj. unfold upd. destruct (Nat.eqb_spec j i) as [->|Hne]; [discriminate|].
        apply (inv_rej s I); exact Hj.
      * intros j Hj. rewrite upd_other; [apply (inv_range s I); exact Hj|]. intros ->. congruence.
    - (* PWritten -> PDone true, permit handed over *)
      assert (Hho : m_holder s = Some i) by (apply (inv_holder s I); rewrite Epc; exact Logic.I).
      assert (Hokh : okb h = true) by (apply (inv_ok s I i h Eh); left; rewrite Epc; exact Logic.I).
      set (pcs1 := upd (m_pc s) i (PDone true)).
      assert (Hna : forall j, ~ active (pcs1 j)).
      { intros j. unfold pcs1, upd. destruct (Nat.eqb_spec j i) as [->|Hne]; [intros []|].
        intros Hj. apply (inv_holder s I) in Hj. congruence. }
      assert (Hq1 : forall j, In j (m_queue s) -> pcs1 j = PWait).
      { intros j Hj. pose proof (inv_queue s I j Hj) as Hw. unfold pcs1. rewrite upd_other; [exact Hw|].
        intros ->. congruence. }
      destruct (grant Loc Hd okb hs (m_queue s) pcs1) as [[ho q'] pcs'] eqn:Eg.
      destruct (grant_spec _ _ _ _ _ Hna (inv_queue_nodup s I) Hq1 Eg) as (A & B & C & D & E).
      (* how pcs' relates to the old program counters *)
      assert (Hrel : forall j, j <> i -> pcs' j = m_pc s j \/
                (m_pc s j = PWait /\ exists h', nth_error hs j = Some h' /\
                   ((pcs' j = PHeld /\ okb h' = true) \/ (pcs' j = PDone false /\ okb h' = false)))).
      { intros j Hne. specialize (E j). unfold moved, pcs1 in E. rewrite upd_other in E by exact Hne. exact E. }
      assert (Hi : pcs' i = PDone true).
      { specialize (E i). unfold moved, pcs1 in E. rewrite upd_same in E. destruct E as [E|[E _]]; [exact E|discriminate]. }
      constructor; cbn [m_pc m_holder m_queue m_store m_wlog].
      * exact A.
      * exact B.
      * exact C.
      * exact D.
      * intros j c' h' Hj Hh. destruct (Nat.eq_dec j i) as [->|Hne].
        -- rewrite Hi in Hj. destruct Hj; discriminate.
        -- destruct (Hrel j Hne) as [R|(_ & h2 & _ & [[R _]|[R _]])].
           ++ rewrite R in Hj. apply (inv_local s I j c' h' Hj Hh).
           ++ rewrite R in Hj. destruct Hj; discriminate.
           ++ rewrite R in Hj. destruct Hj; discriminate.
      * apply (inv_store s I).
      * apply (inv_wlog_nodup s I).
      * intros j. rewrite (inv_wlog s I). destruct (Nat.eq_dec j i) as [->|Hne].
        -- rewrite Hi, Epc. split; intros _; [right|left]; reflexivity.
        -- destruct (Hrel j Hne) as [R|(W & h2 & _ & [[R _]|[R _]])].
           ++ rewrite R. tauto.
           ++ rewrite R, W. split; intros [H|H]; discriminate.
           ++ rewrite R, W. split; intros [H|H]; discriminate.
      * intros j h' Hj Hact. destruct (Nat.eq_dec j i) as [->|Hne].
        -- congruence.
        -- destruct (Hrel j Hne) as [R|(W & h2 & Hh2 & [[R Ok]|[R Ok]])].
           ++ rewrite R in Hact. apply (inv_ok s I j h' Hj Hact).
           ++ congruence.
           ++ rewrite R in Hact. destruct Hact as [[]|H]; discriminate.
      * intros j h' Hj Hdn. destruct (Nat.eq_dec j i) as [->|Hne].
        -- rewrite Hi in Hdn. discriminate.
        -- destruct (Hrel j Hne) as [R|(W & h2 & Hh2 & [[R Ok]|[R Ok]])].
           ++ rewrite R in Hdn. apply (inv_rej s I j h' Hj Hdn).
           ++ rewrite R in Hdn. discriminate.
           ++ congruence.
      * intros j Hj. destruct (Nat.eq_dec j i) as [->|Hne]; [congruence|].
        destruct (Hrel j Hne) as [R|(W & h2 & Hh2 & _)]; [|congruence].
        rewrite R. apply (inv_range s I j Hj).
  Qed.

  Notation runm := (run St Loc Hd okb rd adv wr hs).

  Lemma inv_run_from (sched : list nat) : forall s, Inv s -> Inv (runm s sched).
  Proof.
    unfold run. induction sched as [|i r IH]; intros s I; cbn [fold_left]; [exact I|].
    apply IH, inv_step, I.
  Qed.

  Lemma inv_run (sched : list nat) : Inv (runm (m_init s0) sched).
  Proof. apply inv_run_from, inv_init. Qed.

  (** Every label leaves the store alone or applies exactly one complete serial call of an
      accepted header to it. *)
  Lemma step_store (s : M) (i : nat) :
    Inv s ->
    m_store (stp s i) = m_store s \/
    exists h, nth_error hs i = Some h /\ okb h = true /\ m_store (stp s i) = sstep (m_store s) h.
  Proof.
    intros I. unfold step.
    destruct (nth_error hs i) as [h|] eqn:Eh; [|left; reflexivity].
    destruct (m_pc s i) as [| | |c|c| |b] eqn:Epc; try (left; reflexivity).
    - destruct (m_holder s); [left; reflexivity|]. destruct (okb h); left; reflexivity.
    - right. exists h. split; [reflexivity|]. split.
      + apply (inv_ok s I i h Eh). left. rewrite Epc. exact Logic.I.
      + cbn [m_store]. unfold seqstep.
        rewrite (inv_local s I i c h (or_intror Epc) Eh). reflexivity.
    - destruct (grant Loc Hd okb hs (m_queue s) (upd (m_pc s) i (PDone true))) as [[ho q'] pcs'].
      left. reflexivity.
  Qed.

  (** The store is the serial composition of the committed writes, in commit order. *)
  Theorem run_store_serial (sched : list nat) :
    m_store (runm (m_init s0) sched) = fold_left sstep (hdrs (m_wlog (runm (m_init s0) sched))) s0.
  Proof. apply (inv_store _ (inv_run sched)). Qed.

  (** When every call has returned, the committed writes are exactly the accepted calls. *)
  Theorem run_wlog_perm (sched : list nat) :
    all_done St Loc Hd hs (runm (m_init s0) sched) ->
    Permutation (m_wlog (runm (m_init s0) sched)) (accepted Hd okb hs).
  Proof.
    intros Hdone. pose proof (inv_run sched) as I. set (s := runm (m_init s0) sched) in *.
    apply NoDup_Permutation.
    - apply (inv_wlog_nodup s I).
    - unfold accepted. apply NoDup_filter, seq_NoDup.
    - intros j. unfold accepted. rewrite filter_In, in_seq, (inv_wlog s I). split.
      + intros Hj.
        assert (Hlt : j < List.length hs).
        { apply nth_error_Some. intros Hn. apply (inv_range s I) in Hn. destruct Hj; congruence. }
        split; [lia|].
        destruct (nth_error hs j) as [h|] eqn:Eh; [|apply nth_error_None in Eh; lia].
        apply (inv_ok s I j h Eh). destruct Hj as [Hj|Hj]; [left; rewrite Hj; exact Logic.I|right; exact Hj].
      + intros [[_ Hlt] Hok]. cbn in Hlt.
        destruct (nth_error hs j) as [h|] eqn:Eh; [|discriminate].
        specialize (Hdone j Hlt). destruct (m_pc s j) as [| | | | | |b] eqn:Epc; try discriminate.
        destruct b; [right; reflexivity|].
        pose proof (inv_rej s I j h Eh Epc). congruence.
  Qed.

  Lemma hdrs_all : hdrs (seq 0 (List.length hs)) = hs.
  Proof.
    unfold hdrs_of. clear s0. induction hs as [|x l IH] using rev_ind; [reflexivity|].
    rewrite app_length. cbn [List.length]. rewrite Nat.add_1_r, seq_S, flat_map_app. cbn [plus flat_map].
    rewrite nth_error_app2 by lia. rewrite Nat.sub_diag. cbn [nth_error]. rewrite app_nil_r. f_equal.
    rewrite <- IH at 2.
    assert (Hext : forall n, (forall j, In j n -> j < List.length l) ->
              flat_map (fun j => match nth_error (l ++ [x]) j with Some h => [h] | None => [] end) n =
              flat_map (fun j => match nth_error l j with Some h => [h] | None => [] end) n).
    { induction n as [|j n IHn]; intros Hlt; [reflexivity|]. cbn [flat_map].
      rewrite nth_error_app1 by (apply Hlt; left; reflexivity).
      rewrite IHn; [reflexivity|]. intros j' Hj'. apply Hlt. right. exact Hj'. }
    apply Hext. intros j Hj. apply in_seq in Hj. lia.
  Qed.
  Lemma hdrs_In (l : list nat) (h : Hd) : In h (hdrs l) <-> exists j, In j l /\ nth_error hs j = Some h.
  Proof.
    unfold hdrs_of. rewrite in_flat_map. split; intros [j [Hj Hh]]; exists j; (split; [exact Hj|]).
    - destruct (nth_error hs j) as [h'|]; [destruct Hh as [->|[]]; reflexivity|destruct Hh].
    - rewrite Hh. left. reflexivity.
  Qed.

  (** Only accepted headers are ever written. *)
  Lemma wlog_hdrs_ok (s : M) : Inv s -> forall h, In h (hdrs (m_wlog s)) -> okb h = true.
  Proof.
    intros I h Hh. apply hdrs_In in Hh. destruct Hh as [j [Hj Hh]].
    apply (inv_wlog s I) in Hj. apply (inv_ok s I j h Hh).
    destruct Hj as [Hj|Hj]; [left; rewrite Hj; exact Logic.I|right; exact Hj].
  Qed.

  Lemma hdrs_filter (l : list nat) :
    hdrs (filter (fun j => match nth_error hs j with Some h => okb h | None => false end) l) = filter okb (hdrs l).
  Proof.
    unfold hdrs_of. induction l as [|j l IH]; [reflexivity|]. cbn [filter flat_map].
    destruct (nth_error hs j) as [h|] eqn:Eh.
    - cbn [app filter]. destruct (okb h) eqn:Eok.
      + cbn [flat_map]. rewrite Eh. cbn [app]. f_equal. exact IH.
      + exact IH.
    - cbn [app]. exact IH.
  Qed.

  Lemma hdrs_accepted : hdrs (accepted Hd okb hs) = filter okb hs.
  Proof. unfold accepted. rewrite hdrs_filter, hdrs_all. reflexivity. Qed.

  (** When every call has returned: the written headers are a permutation of the accepted ones. *)
  Theorem run_written_perm (sched : list nat) :
    all_done St Loc Hd hs (runm (m_init s0) sched) ->
    Permutation (hdrs (m_wlog (runm (m_init s0) sched))) (filter okb hs).
  Proof.
    intros Hdone. rewrite <- hdrs_accepted. unfold hdrs_of.
    apply Permutation_flat_map, run_wlog_perm, Hdone.
  Qed.

  (** Any reflexive-transitive relation that every serial call of an accepted header respects is
      respected by every schedule, from every reachable state on. *)
  Lemma run_store_rel (R : St -> St -> Prop) :
    (forall x, R x x) -> (forall x y z, R x y -> R y z -> R x z) ->
    (forall x h, okb h = true -> R x (sstep x h)) ->
    forall sched s, Inv s -> R (m_store s) (m_store (runm s sched)).
  Proof.
    intros Hrefl Htrans Hstep. unfold run.
    induction sched as [|i r IH]; intros s I; cbn [fold_left]; [apply Hrefl|].
    apply Htrans with (y := m_store (stp s i)); [|apply IH, inv_step, I].
    destruct (step_store s i I) as [E|[h [_ [Hok E]]]]; rewrite E; [apply Hrefl|apply Hstep, Hok].
  Qed.
End MachineProofs.

(** * C07: one [Acked] over the cursor store *)

Notation crd k := (fun s : cstore => acked_cursor s k).
Notation cseq k := (seqstep cstore cursor header (crd k) cadv set_cursor).

Lemma cseq_is_ack (k : acked) (s : cstore) (h : header) :
  topic_ok k h = true -> cseq k s h = fst (ack s k h).
Proof. intros Hok. unfold seqstep, ack, cadv. rewrite Hok. reflexivity. Qed.

Lemma cseq_fold_ack_all (k : acked) :
  forall (hl : list header) (s : cstore),
    (forall h, In h hl -> topic_ok k h = true) ->
    fold_left (cseq k) hl s = ack_all s (map (pair k) hl).
Proof.
  unfold ack_all. induction hl as [|h r IH]; intros s Hall; [reflexivity|].
  cbn [fold_left map fst snd]. rewrite cseq_is_ack by (apply Hall; left; reflexivity).
  apply IH. intros h' Hin. apply Hall. right. exact Hin.
Qed.

Lemma ack_step_spec_comm n a l acc x y :
  ack_step_spec n a l (ack_step_spec n a l acc x) y = ack_step_spec n a l (ack_step_spec n a l acc y) x.
Proof.
  unfold ack_step_spec.
  destruct (topic_ok (fst x) (snd x) && N.eqb n (aname (fst x)) && N.eqb a (hauthor (snd x)) && N.eqb l (hlog (snd x)));
    destruct (topic_ok (fst y) (snd y) && N.eqb n (aname (fst y)) && N.eqb a (hauthor (snd y)) && N.eqb l (hlog (snd y)));
    try reflexivity.
  destruct acc; cbn [omax]; f_equal; lia.
Qed.

Lemma ack_spec_fold_perm n a l xs ys :
  Permutation xs ys ->
  forall acc, fold_left (ack_step_spec n a l) xs acc = fold_left (ack_step_spec n a l) ys acc.
Proof.
  induction 1 as [|x xs ys Hp IH|x y xs|xs ys zs H1 IH1 H2 IH2]; intros acc.
  - reflexivity.
  - cbn [fold_left]. apply IH.
  - cbn [fold_left]. rewrite ack_step_spec_comm. reflexivity.
  - rewrite IH1. apply IH2.
Qed.

(** Rejected headers contribute nothing to the specification fold. *)
Lemma ack_spec_fold_filter (k : acked) n a l :
  forall (hl : list header) acc,
    fold_left (ack_step_spec n a l) (map (pair k) (filter (topic_ok k) hl)) acc =
    fold_left (ack_step_spec n a l) (map (pair k) hl) acc.
Proof.
  induction hl as [|h r IH]; intros acc; [reflexivity|]. cbn [filter].
  destruct (topic_ok k h) eqn:Eok.
  - cbn [map fold_left]. apply IH.
  - cbn [map fold_left]. rewrite IH. f_equal.
    unfold ack_step_spec. cbn [fst snd]. rewrite Eok. reflexivity.
Qed.

Lemma conc_run_is_run k hs s0 sched :
  conc_run k hs s0 sched =
  run cstore cursor header (topic_ok k) (fun s => acked_cursor s k) cadv set_cursor hs (m_init s0) sched.
Proof. reflexivity. Qed.

(** concurrent_acks_max: for EVERY schedule of k concurrent acks through one [Acked], once all
    of them have returned every stored entry is the maximum of its initial value and the
    accepted acks of that log — the same value as running the calls one after the other. *)
Theorem concurrent_acks_max :
  forall (k : acked) (hs : list header) (s0 : cstore) (sched : list nat) (n a l : N),
    conc_all_done hs (conc_run k hs s0 sched) ->
    stored (m_store (conc_run k hs s0 sched)) n a l =
    fold_left (ack_step_spec n a l) (map (pair k) hs) (stored s0 n a l).
Proof.
  intros k hs s0 sched n a l Hdone. rewrite conc_run_is_run in *.
  rewrite (run_store_serial cstore cursor header (topic_ok k) (crd k) cadv set_cursor hs s0 sched).
  rewrite cseq_fold_ack_all.
  - rewrite ack_all_is_max.
    rewrite (ack_spec_fold_perm n a l _ (map (pair k) (filter (topic_ok k) hs))).
    + apply ack_spec_fold_filter.
    + apply Permutation_map.
      apply (run_written_perm cstore cursor header (topic_ok k) (crd k) cadv set_cursor hs s0 sched). exact Hdone.
  - apply (wlog_hdrs_ok cstore cursor header (topic_ok k) (crd k) cadv set_cursor hs s0).
    apply inv_run.
Qed.

Corollary concurrent_acks_as_sequential :
  forall (k : acked) (hs : list header) (s0 : cstore) (sched : list nat) (n a l : N),
    conc_all_done hs (conc_run k hs s0 sched) ->
    stored (m_store (conc_run k hs s0 sched)) n a l = stored (ack_all s0 (map (pair k) hs)) n a l.
Proof. intros. rewrite ack_all_is_max. apply concurrent_acks_max. assumption. Qed.

(** concurrent_acks_monotone: at no point of any schedule does any stored entry of any cursor
    decrease or vanish. *)
Theorem concurrent_acks_monotone :
  forall (k : acked) (hs : list header) (s0 : cstore) (sched1 sched2 : list nat) (n a l : N),
    ole_p (stored (m_store (conc_run k hs s0 sched1)) n a l)
          (stored (m_store (conc_run k hs s0 (sched1 ++ sched2))) n a l).
Proof.
  intros k hs s0 sched1 sched2 n a l.
  assert (E : conc_run k hs s0 (sched1 ++ sched2) =
              run cstore cursor header (topic_ok k) (fun s => acked_cursor s k) cadv set_cursor hs
                  (conc_run k hs s0 sched1) sched2).
  { unfold conc_run, run, conc_step. apply fold_left_app. }
  rewrite E.
  apply (run_store_rel cstore cursor header (topic_ok k) (fun s => acked_cursor s k) cadv set_cursor hs s0
           (fun x y => ole_p (stored x n a l) (stored y n a l))).
  - intros x. apply ole_p_refl.
  - intros x y z. apply ole_p_trans.
  - intros x h Hok. rewrite cseq_is_ack by exact Hok. apply ack_monotone.
  - rewrite conc_run_is_run. apply inv_run.
Qed.

(** Every schedule that gives each call five labels lets all calls return: the hypothesis of
    [concurrent_acks_max] is satisfiable by long, truly interleaved schedules. *)
Definition ex_k : acked := {| aname := 7; atopic := 1 |}%N.
Definition ex_hs : list header :=
  [ {| hauthor := 0; hlog := 1; hseq := 5 |}; {| hauthor := 0; hlog := 1; hseq := 3 |};
    {| hauthor := 1; hlog := 1; hseq := 2 |}; {| hauthor := 0; hlog := 2; hseq := 9 |} ]%N.
Definition ex_sched : list nat := [0; 1; 2; 3; 1; 0; 2; 0; 0; 1; 0; 1; 2; 1; 1; 1; 2; 2; 2; 2].

Example ex_conc :
  conc_all_done ex_hs (conc_run ex_k ex_hs [] ex_sched) /\
  m_wlog (conc_run ex_k ex_hs [] ex_sched) = [0; 1; 2] /\
  stored (m_store (conc_run ex_k ex_hs [] ex_sched)) 7%N 0%N 1%N = Some 5%N /\
  stored (m_store (conc_run ex_k ex_hs [] ex_sched)) 7%N 1%N 1%N = Some 2%N /\
  stored (m_store (conc_run ex_k ex_hs [] ex_sched)) 7%N 0%N 2%N = None.
Proof.
  split; [|vm_compute; repeat split].
  intros i Hi. do 4 (destruct i as [|i]; [vm_compute; reflexivity|]). cbn in Hi. lia.
Qed.

(** ** Regression variants: the two seeded orders lose acknowledgements in the model *)

(** Read before acquire: both calls read the empty cursor, the second write drops author 0. *)
Lemma concurrent_acks_unserialised_read_refuted :
  exists (k : acked) (hs : list header) (s0 : cstore) (sched : list nat) (n a l : N),
    conc_all_done hs (conc_run_unserialised_read k hs s0 sched) /\
    stored (m_store (conc_run_unserialised_read k hs s0 sched)) n a l <>
    fold_left (ack_step_spec n a l) (map (pair k) hs) (stored s0 n a l).
Proof.
  exists ex_k, [ {| hauthor := 0; hlog := 1; hseq := 5 |}; {| hauthor := 1; hlog := 1; hseq := 3 |} ]%N,
         [], [0; 1; 0; 1; 0; 0; 0; 1; 1; 1], 7%N, 0%N, 1%N.
  split.
  - intros i Hi. do 2 (destruct i as [|i]; [vm_compute; reflexivity|]). cbn in Hi. lia.
  - vm_compute. discriminate.
Qed.

(** Release before the write: call 1 reads while call 0 has not written yet; its later write
    moves the stored height from 5 back to 3. *)
Lemma concurrent_acks_early_release_refuted :
  exists (k : acked) (hs : list header) (s0 : cstore) (sched1 sched2 : list nat) (n a l : N),
    conc_all_done hs (conc_run_early_release k hs s0 (sched1 ++ sched2)) /\
    ~ ole_p (stored (m_store (conc_run_early_release k hs s0 sched1)) n a l)
            (stored (m_store (conc_run_early_release k hs s0 (sched1 ++ sched2))) n a l) /\
    stored (m_store (conc_run_early_release k hs s0 (sched1 ++ sched2))) n a l <>
    fold_left (ack_step_spec n a l) (map (pair k) hs) (stored s0 n a l).
Proof.
  exists ex_k, [ {| hauthor := 0; hlog := 1; hseq := 5 |}; {| hauthor := 0; hlog := 1; hseq := 3 |} ]%N,
         [], [0; 0; 0; 1; 1; 0; 0], [1; 1; 1], 7%N, 0%N, 1%N.
  split; [|split].
  - intros i Hi. do 2 (destruct i as [|i]; [vm_compute; reflexivity|]). cbn in Hi. lia.
  - vm_compute. intros H. apply H. reflexivity.
  - vm_compute. discriminate.
Qed.

(** The same two schedules on the real order of steps give the maximum. *)
Example variants_schedules_on_code :
  let hs1 := [ {| hauthor := 0; hlog := 1; hseq := 5 |}; {| hauthor := 1; hlog := 1; hseq := 3 |} ]%N in
  let hs2 := [ {| hauthor := 0; hlog := 1; hseq := 5 |}; {| hauthor := 0; hlog := 1; hseq := 3 |} ]%N in
  let r1 := conc_run ex_k hs1 [] ([0; 1; 0; 1; 0; 0; 0; 1; 1; 1] ++ [1; 1]) in
  let r2 := conc_run ex_k hs2 [] ([0; 0; 0; 1; 1; 0; 0] ++ [1; 1; 1] ++ [1; 1]) in
  stored (m_store r1) 7%N 0%N 1%N = Some 5%N /\ stored (m_store r1) 7%N 1%N 1%N = Some 3%N /\
  stored (m_store r2) 7%N 0%N 1%N = Some 5%N.
Proof. vm_compute. repeat split. Qed.

(** * C15: the stream's [Acked] over the durable tables; restart of Model/Replay.v *)

Section C15.
  Import PV.Model.Replay.
  Variable tlog : logid.

  Notation dokb := (fun r : row => N.eqb (r_log r) tlog).
  Notation dseq := (seqstep durable (list (key * N)) row cursor dadv dwr).

  Lemma dseq_is_ack (d : durable) (r : row) : dokb r = true -> dseq d r = dstep tlog d (LAck r).
  Proof. intros Hok. cbn [dstep]. cbv beta in Hok. rewrite Hok. reflexivity. Qed.

  Lemma dseq_fold_dexec :
    forall (rl : list row) (d : durable),
      (forall r, In r rl -> dokb r = true) ->
      fold_left dseq rl d = dexec tlog d (map LAck rl).
  Proof.
    unfold dexec. induction rl as [|r rest IH]; intros d Hall; [reflexivity|].
    cbn [fold_left map]. rewrite dseq_is_ack by (apply Hall; left; reflexivity).
    apply IH. intros r' Hin. apply Hall. right. exact Hin.
  Qed.

  (** concurrent_acks_serialisable: whatever the schedule, once all calls have returned the
      tables are those after acknowledging the accepted operations one after the other in SOME
      order — so every theorem about traces of atomic [LAck] transitions applies. *)
  Theorem dconc_serialisable :
    forall (rs : list row) (d : durable) (sched : list nat),
      dconc_all_done rs (dconc_run tlog rs d sched) ->
      exists order : list row,
        Permutation order (filter (fun r => N.eqb (r_log r) tlog) rs) /\
        m_store (dconc_run tlog rs d sched) = dexec tlog d (map LAck order).
  Proof.
    intros rs d sched Hdone.
    exists (hdrs_of row rs (m_wlog (dconc_run tlog rs d sched))). split.
    - apply (run_written_perm durable (list (key * N)) row dokb cursor dadv dwr rs d sched). exact Hdone.
    - change (dconc_run tlog rs d sched)
        with (run durable (list (key * N)) row dokb cursor dadv dwr rs (m_init d) sched).
      rewrite (run_store_serial durable (list (key * N)) row dokb cursor dadv dwr rs d sched) at 1.
      apply dseq_fold_dexec.
      apply (wlog_hdrs_ok durable (list (key * N)) row dokb cursor dadv dwr rs d). apply inv_run.
  Qed.

  (** concurrent_acks_not_redelivered: after any history, k concurrent acks in any interleaving,
      and anything that happens afterwards (crashes included), a restart from the frontier does
      not replay an operation that one of the k calls acknowledged, nor an earlier one of its log. *)
  Theorem concurrent_acks_not_redelivered :
    forall (tr0 : list label) (rs : list row) (sched : list nat) (tr2 : list label) (a r : row),
      dconc_all_done rs (dconc_run tlog rs (Proofs.Replay.after tlog tr0) sched) ->
      In a rs -> r_log a = tlog -> rkey r = rkey a -> (r_seq r <= r_seq a)%N ->
      ~ In r (replay_entries (dexec tlog (m_store (dconc_run tlog rs (Proofs.Replay.after tlog tr0) sched)) tr2)).
  Proof.
    intros tr0 rs sched tr2 a r Hdone Ha Hlog Hkey Hle.
    destruct (dconc_serialisable rs _ sched Hdone) as [order [Hperm Hst]].
    rewrite Hst, Proofs.Replay.after_dexec.
    rewrite <- (Proofs.Replay.dexec_app tlog empty tr0 (map LAck order)).
    rewrite <- (Proofs.Replay.dexec_app tlog empty (tr0 ++ map LAck order) tr2).
    rewrite <- Proofs.Replay.after_dexec.
    apply (Proofs.Replay.acked_not_redelivered tlog (tr0 ++ map LAck order) tr2 a r); try assumption.
    apply in_or_app. right. apply in_map.
    apply (Permutation_in a (Permutation_sym Hperm)).
    apply filter_In. split; [exact Ha|]. apply N.eqb_eq. exact Hlog.
  Qed.
End C15.

Example ex_dconc :
  let r1 := Model.Replay.Build_row 1%N 5%N 7%N 0%N Model.Replay.Body false in
  let r2 := Model.Replay.Build_row 2%N 5%N 7%N 1%N Model.Replay.Body false in
  let r3 := Model.Replay.Build_row 3%N 6%N 7%N 0%N Model.Replay.Body false in
  let tr0 := [Model.Replay.LStore r1; Model.Replay.LStore r2; Model.Replay.LStore r3] in
  let s := dconc_run 7%N [r2; r3] (Proofs.Replay.after 7%N tr0) [0; 1; 0; 1; 0; 0; 0; 1; 1; 1; 1] in
  dconc_all_done [r2; r3] s /\ Model.Replay.replay_entries (m_store s) = [] /\
  Model.Replay.replay_entries (Proofs.Replay.after 7%N tr0) = [r1; r2; r3].
Proof.
  cbv zeta. split; [|vm_compute; split; reflexivity].
  intros i Hi. do 2 (destruct i as [|i]; [vm_compute; reflexivity|]). cbn in Hi. lia.
Qed.
