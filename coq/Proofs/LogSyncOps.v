(** C19, part 2 -- which operations the script contains: for every configured log exactly the
    stored rows with a sequence number above the peer's announced height (all rows if the peer
    did not announce the log), in log order, each once; and what ingesting them does to the
    heights ([converge]). *)
From Coq Require Import List Arith NArith Bool Lia.
From PV Require Import Model.Dedup Model.LogSync Proofs.LogSyncC20 Proofs.LogSyncScript.
Import ListNotations.

Definition pos_sizes (r : replica) : Prop :=
  forall k w, In w (rows_of r k) -> (0 < r_size w)%N.

(** ** Entries of a list of ranges *)
Definition entries_of (r : replica) (todo : list (N * N * range)) : list (N * N * row) :=
  flat_map (fun alr => map (fun w => (fst (fst alr), snd (fst alr), w))
                           (log_entries r (fst (fst alr)) (snd (fst alr)) (snd alr))) todo.

Lemma ops_of_app m1 m2 : ops_of (m1 ++ m2) = ops_of m1 ++ ops_of m2.
Proof. induction m1 as [|m m1 IH]; [reflexivity|]. destruct m; cbn; rewrite IH; reflexivity. Qed.

Lemma ops_of_range_ops r alr :
  ops_of (range_ops r alr) =
  map (fun w => (fst (fst alr), snd (fst alr), w)) (log_entries r (fst (fst alr)) (snd (fst alr)) (snd alr)).
Proof.
  unfold range_ops. induction (log_entries r _ _ _) as [|w ws IH]; [reflexivity|].
  cbn. rewrite IH. reflexivity.
Qed.

Lemma ops_of_flat_range_ops r todo : ops_of (flat_map (range_ops r) todo) = entries_of r todo.
Proof.
  induction todo as [|alr todo IH]; [reflexivity|].
  cbn [flat_map]. rewrite ops_of_app, ops_of_range_ops, IH. reflexivity.
Qed.

Lemma entries_of_app r t1 t2 : entries_of r (t1 ++ t2) = entries_of r t1 ++ entries_of r t2.
Proof. unfold entries_of. apply flat_map_app. Qed.

Lemma flat_needs_app n1 n2 : flat_needs (n1 ++ n2) = flat_needs n1 ++ flat_needs n2.
Proof. unfold flat_needs. apply flat_map_app. Qed.

(** ** No bytes means no entries (sizes are positive) *)
Lemma sum_sizes_zero ws :
  (forall w, In w ws -> (0 < r_size w)%N) -> sum_sizes ws = 0%N -> ws = [].
Proof.
  destruct ws as [|w ws]; [reflexivity|]. intros P E. exfalso.
  unfold sum_sizes in E. cbn [map fold_right] in E.
  specialize (P w (or_introl eq_refl)). lia.
Qed.

Lemma log_entries_in r a l rg w : In w (log_entries r a l rg) -> In w (rows_of r (a, l)).
Proof. unfold log_entries. intros H. apply filter_In in H. tauto. Qed.

Lemma total_size_zero r todo :
  pos_sizes r -> snd (total_size r todo) = 0%N -> entries_of r todo = [].
Proof.
  intros P. induction todo as [|alr todo IH]; [reflexivity|].
  rewrite total_size_cons. unfold addp, size_of, log_size. cbn [fst snd]. intros E.
  apply N.eq_add_0 in E. destruct E as [E1 E2].
  cbn [entries_of flat_map]. fold (entries_of r todo). rewrite (IH E2), app_nil_r.
  rewrite (sum_sizes_zero _ (fun w H => P _ w (log_entries_in _ _ _ _ _ H)) E1). reflexivity.
Qed.

Lemma ops_of_script r logs h :
  pos_sizes r ->
  ops_of (script r logs h) = entries_of r (flat_needs (compare (local_heights r logs) h)).
Proof.
  intros P. unfold script. cbn [ops_of].
  destruct (N.ltb 0 (snd (total_size r _))) eqn:B.
  - cbn [ops_of]. rewrite ops_of_app, ops_of_flat_range_ops. cbn. rewrite app_nil_r. reflexivity.
  - cbn. symmetry. apply total_size_zero; [exact P|]. apply N.ltb_ge in B. lia.
Qed.

(** ** Heights are maxima *)
Lemma maxseq_none ws : maxseq ws = None -> ws = [].
Proof. destruct ws as [|w ws]; [reflexivity|]. cbn. destruct (maxseq ws); discriminate. Qed.

Lemma maxseq_bound ws h : maxseq ws = Some h -> forall w, In w ws -> (r_seq w <= h)%N.
Proof.
  revert h. induction ws as [|w0 ws IH]; intros h E w Hin; [destruct Hin|].
  cbn in E. destruct (maxseq ws) as [m|] eqn:M.
  - injection E as <-. destruct Hin as [->|Hin]; [lia|]. specialize (IH m eq_refl w Hin). lia.
  - injection E as <-. apply maxseq_none in M. subst ws. destruct Hin as [->|[]]. lia.
Qed.

Lemma maxseq_in ws h : maxseq ws = Some h -> exists w, In w ws /\ r_seq w = h.
Proof.
  revert h. induction ws as [|w0 ws IH]; intros h E; [discriminate|].
  cbn in E. destruct (maxseq ws) as [m|] eqn:M.
  - injection E as <-. destruct (N.max_spec (r_seq w0) m) as [[_ ->]|[_ ->]].
    + destruct (IH m eq_refl) as [w [Hin Hw]]. exists w. split; [right; exact Hin|exact Hw].
    + exists w0. split; [left; reflexivity|reflexivity].
  - injection E as <-. exists w0. split; [left; reflexivity|reflexivity].
Qed.

(** ** One log *)
Definition log_need (rh : option N) (lh : N * N) : list (N * range) :=
  match rh with
  | None => [(fst lh, (None, Some (snd lh)))]
  | Some x => if N.ltb x (snd lh) then [(fst lh, (Some x, Some (snd lh)))] else []
  end.

Lemma filter_ext_in' {A} (f g : A -> bool) l : (forall x, In x l -> f x = g x) -> filter f l = filter g l.
Proof.
  induction l as [|x l IH]; intros H; [reflexivity|]. cbn.
  rewrite (H x (or_introl eq_refl)), IH; [reflexivity|]. intros y Hy. apply H. right. exact Hy.
Qed.

Lemma filter_none {A} (f : A -> bool) l : (forall x, In x l -> f x = false) -> filter f l = [].
Proof.
  induction l as [|x l IH]; intros H; [reflexivity|]. cbn.
  rewrite (H x (or_introl eq_refl)). apply IH. intros y Hy. apply H. right. exact Hy.
Qed.

Lemma log_need_entries r a rh l hl :
  maxseq (rows_of r (a, l)) = Some hl ->
  entries_of r (arm_todo a (log_need rh (l, hl))) =
  map (fun w => (a, l, w)) (filter (fun w => above rh (r_seq w)) (rows_of r (a, l))).
Proof.
  intros M. pose proof (maxseq_bound _ _ M) as B. unfold log_need. cbn [fst snd].
  destruct rh as [x|].
  - destruct (N.ltb x hl) eqn:L.
    + cbn. rewrite app_nil_r. f_equal. unfold log_entries. apply filter_ext_in'.
      intros w Hw. unfold in_range, above. cbn [fst snd]. specialize (B w Hw).
      destruct (N.ltb x (r_seq w)); [|reflexivity]. cbn. apply N.leb_le. exact B.
    + cbn. rewrite filter_none; [reflexivity|]. intros w Hw. specialize (B w Hw).
      unfold above. apply N.ltb_ge in L. apply N.ltb_ge. lia.
  - cbn. rewrite app_nil_r. f_equal. unfold log_entries. apply filter_ext_in'.
    intros w Hw. unfold in_range, above. cbn [fst snd]. apply N.leb_le. exact (B w Hw).
Qed.

(** ** One author *)
Lemma arm_todo_app a l1 l2 : arm_todo a (l1 ++ l2) = arm_todo a l1 ++ arm_todo a l2.
Proof. unfold arm_todo. apply map_app. Qed.

Lemma author_logs_entries r a (f : N -> option N) ls :
  entries_of r (arm_todo a (flat_map (fun lh => log_need (f (fst lh)) lh) (heights_of_logs r a ls))) =
  flat_map (fun l => map (fun w => (a, l, w)) (filter (fun w => above (f l) (r_seq w)) (rows_of r (a, l)))) ls.
Proof.
  induction ls as [|l ls IH]; [reflexivity|].
  unfold heights_of_logs. cbn [flat_map]. fold (heights_of_logs r a ls).
  destruct (maxseq (rows_of r (a, l))) as [hl|] eqn:M.
  - cbn [app flat_map fst]. rewrite arm_todo_app, entries_of_app, IH. f_equal.
    apply (log_need_entries r a (f l) l hl M).
  - cbn [app]. rewrite IH. apply maxseq_none in M. rewrite M. reflexivity.
Qed.

Lemma needs_of_log_is_need rlogs lh : needs_of_log rlogs lh = log_need (lookupN (fst lh) rlogs) lh.
Proof. reflexivity. Qed.

Lemma flat_needs_single a ns : flat_needs [(a, ns)] = arm_todo a ns.
Proof. unfold flat_needs. cbn. rewrite app_nil_r. reflexivity. Qed.

Lemma author_entries r h a ls :
  entries_of r (flat_needs (flat_map (needs_of_author h)
      (match log_heights r a ls with None => [] | Some hs => [(a, hs)] end))) =
  flat_map (fun l => map (fun w => (a, l, w)) (missing_rows r h a l)) ls.
Proof.
  unfold missing_rows, lookup2, log_heights.
  destruct (lookupN a h) as [rlogs|] eqn:LA.
  - rewrite <- (author_logs_entries r a (fun l => lookupN l rlogs) ls).
    destruct (heights_of_logs r a ls) as [|lh hs] eqn:H; [reflexivity|]. rewrite <- H.
    cbn [flat_map]. rewrite app_nil_r. unfold needs_of_author. cbn [fst snd]. rewrite LA.
    assert (E : flat_map (needs_of_log rlogs) (heights_of_logs r a ls) =
                flat_map (fun lh => log_need (lookupN (fst lh) rlogs) lh) (heights_of_logs r a ls)) by reflexivity.
    rewrite E. destruct (flat_map _ (heights_of_logs r a ls)) as [|n ns]; [reflexivity|].
    apply f_equal. apply flat_needs_single.
  - rewrite <- (author_logs_entries r a (fun _ => None) ls).
    destruct (heights_of_logs r a ls) as [|lh hs] eqn:H; [reflexivity|]. rewrite <- H.
    cbn [flat_map]. rewrite app_nil_r. unfold needs_of_author. cbn [fst snd]. rewrite LA.
    rewrite flat_needs_single. f_equal.
Qed.

(** ** Main theorem *)
Theorem sent_ops_exact (r : replica) (logs : list (N * list N)) (h : heights) :
  pos_sizes r -> ops_of (script r logs h) = expected_ops r logs h.
Proof.
  intros P. rewrite (ops_of_script r logs h P). unfold expected_ops, compare, local_heights.
  induction logs as [|al logs IH]; [reflexivity|].
  cbn [flat_map]. rewrite flat_map_app, flat_needs_app, entries_of_app, IH. f_equal.
  destruct al as [a ls]. cbn [fst snd]. apply author_entries.
Qed.

(** In log order: the rows of one log are sent in the order the store returns them. *)
Lemma missing_rows_sublist r h a l :
  missing_rows r h a l = filter (fun w => above (lookup2 h a l) (r_seq w)) (rows_of r (a, l)).
Proof. reflexivity. Qed.

Example sent_ops_example :
  pos_sizes ex_r /\
  expected_ops ex_r ex_logs [(0, [(0, 0)])]%N = [(0, 0, mkrow 1 101 500)]%N /\
  ops_of (script ex_r ex_logs [(0, [(0, 0)])]%N) = [(0, 0, mkrow 1 101 500)]%N.
Proof.
  split; [|vm_compute; split; reflexivity].
  intros k w H. unfold ex_r in H. cbn in H.
  destruct (keyb k (0, 0)%N); cbn in H; [|destruct H].
  destruct H as [<-|[<-|[]]]; reflexivity.
Qed.

(** * Convergence of the heights after ingesting what was received *)
Lemma keyb_eq k1 k2 : keyb k1 k2 = true <-> k1 = k2.
Proof.
  destruct k1 as [a1 l1], k2 as [a2 l2]. unfold keyb. cbn [fst snd].
  rewrite andb_true_iff, !N.eqb_eq. split; [intros [-> ->]; reflexivity|intros E; inversion E; auto].
Qed.

Lemma keyb_refl k : keyb k k = true.
Proof. apply keyb_eq. reflexivity. Qed.

Lemma rows_of_add_row r k w k' :
  rows_of (add_row r k w) k' = if keyb k' k then rows_of r k' ++ [w] else rows_of r k'.
Proof.
  induction r as [|[k0 rs] t IH].
  - cbn. destruct (keyb k' k); reflexivity.
  - cbn [add_row]. destruct (keyb k k0) eqn:E0.
    + apply keyb_eq in E0. subst k0. cbn [rows_of]. destruct (keyb k' k); reflexivity.
    + cbn [rows_of]. rewrite IH. destruct (keyb k' k) eqn:E1; [|reflexivity].
      apply keyb_eq in E1. subst k'. rewrite E0. reflexivity.
Qed.

Definition sel (k : N * N) (ops : list (N * N * row)) : list row :=
  map snd (filter (fun x => keyb k (fst x)) ops).

Lemma rows_of_ingest ops : forall r k, rows_of (ingest r ops) k = rows_of r k ++ sel k ops.
Proof.
  unfold ingest, sel. induction ops as [|x ops IH]; intros r k.
  - cbn. rewrite app_nil_r. reflexivity.
  - cbn [fold_left filter]. rewrite IH, rows_of_add_row.
    destruct (keyb k (fst x)); cbn [map]; [rewrite <- app_assoc|]; reflexivity.
Qed.

(** [maxseq] only depends on which rows are present. *)
Lemma maxseq_spec ws :
  match maxseq ws with
  | None => ws = []
  | Some m => (exists w, In w ws /\ r_seq w = m) /\ (forall w, In w ws -> (r_seq w <= m)%N)
  end.
Proof.
  destruct (maxseq ws) as [m|] eqn:M.
  - split; [apply maxseq_in; exact M|apply maxseq_bound; exact M].
  - apply maxseq_none. exact M.
Qed.

Lemma maxseq_same_members l1 l2 : (forall w, In w l1 <-> In w l2) -> maxseq l1 = maxseq l2.
Proof.
  intros H. pose proof (maxseq_spec l1) as S1. pose proof (maxseq_spec l2) as S2.
  destruct (maxseq l1) as [m1|], (maxseq l2) as [m2|].
  - destruct S1 as [[w1 [I1 E1]] B1], S2 as [[w2 [I2 E2]] B2].
    pose proof (B2 w1 (proj1 (H w1) I1)). pose proof (B1 w2 (proj2 (H w2) I2)). f_equal. lia.
  - subst l2. destruct S1 as [[w1 [I1 _]] _]. destruct (proj1 (H w1) I1).
  - subst l1. destruct S2 as [[w2 [I2 _]] _]. destruct (proj2 (H w2) I2).
  - reflexivity.
Qed.

Lemma maxseq_app l1 l2 : maxseq (l1 ++ l2) = omax (maxseq l1) (maxseq l2).
Proof.
  induction l1 as [|w l1 IH]; [reflexivity|].
  cbn [app maxseq]. rewrite IH. destruct (maxseq l1) as [m1|], (maxseq l2) as [m2|]; cbn;
    try reflexivity. rewrite N.max_assoc. reflexivity.
Qed.

(** What the peer announced for a configured log is that log's height. *)
Lemma lookup_heights_of_logs r a l ls :
  lookupN l (heights_of_logs r a ls) = if existsb (N.eqb l) ls then height r a l else None.
Proof.
  unfold height. induction ls as [|l0 ls IH]; [reflexivity|].
  unfold heights_of_logs. cbn [flat_map existsb]. fold (heights_of_logs r a ls).
  destruct (N.eqb l l0) eqn:E.
  - apply N.eqb_eq in E. subst l0. cbn [orb].
    destruct (maxseq (rows_of r (a, l))) as [h|] eqn:M.
    + cbn [app lookupN]. rewrite N.eqb_refl. reflexivity.
    + cbn [app]. rewrite IH. destruct (existsb (N.eqb l) ls); reflexivity.
  - cbn [orb]. destruct (maxseq (rows_of r (a, l0))) as [h|].
    + cbn [app lookupN]. rewrite E. exact IH.
    + exact IH.
Qed.

Lemma existsb_eqb_in l ls : In l ls -> existsb (N.eqb l) ls = true.
Proof. intros H. apply existsb_exists. exists l. split; [exact H|apply N.eqb_refl]. Qed.

Lemma lookup_local_heights_absent r a logs :
  ~ In a (map fst logs) -> lookupN a (local_heights r logs) = None.
Proof.
  induction logs as [|[a0 ls0] logs IH]; intros H; [reflexivity|].
  rewrite local_heights_cons. cbn [fst snd]. cbn [map fst In] in H.
  destruct (log_heights r a0 ls0); cbn [app lookupN].
  - destruct (N.eqb a a0) eqn:E; [apply N.eqb_eq in E; subst; tauto|]. apply IH. tauto.
  - apply IH. tauto.
Qed.

Lemma heights_of_logs_nil r a ls l :
  heights_of_logs r a ls = [] -> In l ls -> height r a l = None.
Proof.
  intros E Hin. pose proof (lookup_heights_of_logs r a l ls) as L.
  rewrite E, (existsb_eqb_in l ls Hin) in L. cbn in L. symmetry. exact L.
Qed.

Lemma lookup2_local_heights r logs a ls l :
  NoDup (map fst logs) -> In (a, ls) logs -> In l ls ->
  lookup2 (local_heights r logs) a l = height r a l.
Proof.
  unfold lookup2. induction logs as [|[a0 ls0] logs IH]; intros ND Hin Hl; [destruct Hin|].
  cbn [map fst] in ND. inversion ND as [|? ? Hn ND']; subst.
  rewrite local_heights_cons. cbn [fst snd]. destruct Hin as [E|Hin].
  - inversion E; subst a0 ls0. unfold log_heights.
    destruct (heights_of_logs r a ls) as [|lh hs] eqn:H.
    + cbn [app]. rewrite (lookup_local_heights_absent r a logs Hn).
      symmetry. apply (heights_of_logs_nil r a ls l H Hl).
    + cbn [app lookupN]. rewrite N.eqb_refl, <- H, lookup_heights_of_logs, (existsb_eqb_in l ls Hl).
      reflexivity.
  - assert (Ne : N.eqb a a0 = false).
    { apply N.eqb_neq. intros ->. apply Hn. apply in_map_iff. exists (a0, ls). split; [reflexivity|exact Hin]. }
    destruct (log_heights r a0 ls0); cbn [app lookupN]; [rewrite Ne|]; apply IH; assumption.
Qed.

(** Membership in [expected_ops]. *)
Lemma in_expected_ops r logs h k w :
  In (k, w) (expected_ops r logs h) <->
  exists a ls l, In (a, ls) logs /\ In l ls /\ k = (a, l) /\ In w (missing_rows r h a l).
Proof.
  unfold expected_ops. rewrite in_flat_map. split.
  - intros [[a ls] [Hal H]]. cbn [fst snd] in H. apply in_flat_map in H. destruct H as [l [Hl H]].
    apply in_map_iff in H. destruct H as [w' [E Hw]]. inversion E; subst.
    exists a, ls, l. auto.
  - intros [a [ls [l [Hal [Hl [-> Hw]]]]]]. exists (a, ls). split; [exact Hal|].
    cbn [fst snd]. apply in_flat_map. exists l. split; [exact Hl|].
    apply in_map_iff. exists w. auto.
Qed.

Lemma in_sel k ops w : In w (sel k ops) <-> In (k, w) ops.
Proof.
  unfold sel. rewrite in_map_iff. split.
  - intros [[k' w'] [E H]]. cbn in E. subst w'. apply filter_In in H. destruct H as [H K].
    cbn [fst] in K. apply keyb_eq in K. subst k'. exact H.
  - intros H. exists (k, w). split; [reflexivity|]. apply filter_In. split; [exact H|apply keyb_refl].
Qed.

Lemma filter_true {A} (l : list A) : filter (fun _ => true) l = l.
Proof. induction l as [|x l IH]; [reflexivity|]. cbn. rewrite IH. reflexivity. Qed.

Lemma missing_rows_maxseq r h a l :
  omax (lookup2 h a l) (maxseq (missing_rows r h a l)) = omax (lookup2 h a l) (height r a l).
Proof.
  unfold missing_rows, height. set (rh := lookup2 h a l). set (ws := rows_of r (a, l)).
  pose proof (maxseq_spec ws) as S. pose proof (maxseq_spec (filter (fun w => above rh (r_seq w)) ws)) as SF.
  destruct rh as [x|].
  - destruct (maxseq ws) as [m|].
    + destruct S as [[wm [Im Em]] B].
      destruct (maxseq (filter _ ws)) as [mf|].
      * destruct SF as [[wf [If Ef]] BF]. apply filter_In in If. destruct If as [If Af].
        cbn in Af. apply N.ltb_lt in Af. cbn. f_equal.
        pose proof (B wf If). destruct (N.ltb x m) eqn:L.
        -- apply N.ltb_lt in L.
           assert (In wm (filter (fun w => above (Some x) (r_seq w)) ws)).
           { apply filter_In. split; [exact Im|]. cbn. apply N.ltb_lt. lia. }
           pose proof (BF wm H0). lia.
        -- apply N.ltb_ge in L. lia.
      * cbn. f_equal. destruct (N.ltb x m) eqn:L.
        -- apply N.ltb_lt in L.
           assert (In wm (filter (fun w => above (Some x) (r_seq w)) ws)).
           { apply filter_In. split; [exact Im|]. cbn. apply N.ltb_lt. lia. }
           rewrite SF in H. destruct H.
        -- apply N.ltb_ge in L. lia.
    + subst ws. rewrite S. reflexivity.
  - cbn. f_equal. apply filter_true.
Qed.

Theorem converge_one (rA rB : replica) (logs : list (N * list N)) (a : N) (ls : list N) (l : N) :
  NoDup (map fst logs) -> In (a, ls) logs -> In l ls ->
  height (ingest rA (expected_ops rB logs (local_heights rA logs))) a l = omax (height rA a l) (height rB a l).
Proof.
  intros ND Hal Hl. unfold height at 1. rewrite rows_of_ingest, maxseq_app.
  fold (height rA a l).
  rewrite (maxseq_same_members (sel (a, l) (expected_ops rB logs (local_heights rA logs)))
                               (missing_rows rB (local_heights rA logs) a l)).
  - rewrite <- (lookup2_local_heights rA logs a ls l ND Hal Hl). apply missing_rows_maxseq.
  - intros w. rewrite in_sel, in_expected_ops. split.
    + intros [a' [ls' [l' [_ [_ [E Hw]]]]]]. inversion E; subst. exact Hw.
    + intros Hw. exists a, ls, l. auto.
Qed.

Lemma omax_comm x y : omax x y = omax y x.
Proof. destruct x, y; cbn; try reflexivity. rewrite N.max_comm. reflexivity. Qed.

(** Both replicas end with the pointwise maximum of the two heights on every configured log. *)
Theorem converge (rA rB : replica) (logs : list (N * list N)) (a : N) (ls : list N) (l : N) :
  NoDup (map fst logs) -> In (a, ls) logs -> In l ls ->
  height (ingest rA (expected_ops rB logs (local_heights rA logs))) a l = omax (height rA a l) (height rB a l) /\
  height (ingest rB (expected_ops rA logs (local_heights rB logs))) a l = omax (height rA a l) (height rB a l).
Proof.
  intros ND Hal Hl. split; [apply (converge_one rA rB logs a ls l ND Hal Hl)|].
  rewrite omax_comm. apply (converge_one rB rA logs a ls l ND Hal Hl).
Qed.

Example converge_example :
  let rA := ex_r in
  let rB : replica := [((0, 0), [mkrow 0 100 500]); ((1, 0), [mkrow 0 200 300; mkrow 1 201 300])]%N in
  let logs := [(0, [0]); (1, [0])]%N in
  NoDup (map fst logs) /\
  height (ingest rA (ops_of (script rB logs (local_heights rA logs)))) 1 0 = Some 1%N /\
  height (ingest rB (ops_of (script rA logs (local_heights rB logs)))) 0 0 = Some 1%N.
Proof.
  cbn zeta. split; [repeat constructor; cbn; intuition discriminate|]. vm_compute. split; reflexivity.
Qed.
