(** Proofs about the wire-framing model (Model/Codec.v).

    Trusted assumptions (Section variables/hypotheses, become premises of the closed theorems):
    [M], [ser], [de] with [de_ser : forall m, de (ser m) = Some m] (postcard round trip on the
    exact payload slice). *)
From Coq Require Import List Arith NArith Bool Lia.
From PV Require Import Model.Codec.
Import ListNotations.
Local Open Scope N_scope.

(** * Big-endian u32 arithmetic *)

Lemma of_be32_be32 (n : N) :
  n <= u32_max ->
  of_be32 ((n / 256 / 256 / 256) mod 256) ((n / 256 / 256) mod 256) ((n / 256) mod 256) (n mod 256) = n.
Proof.
  unfold u32_max, of_be32. intros H.
  pose proof (N.div_mod' n 256) as H0. pose proof (N.mod_lt n 256 ltac:(discriminate)) as L0.
  set (d1 := n / 256) in *. set (r0 := n mod 256) in *.
  pose proof (N.div_mod' d1 256) as H1. pose proof (N.mod_lt d1 256 ltac:(discriminate)) as L1.
  set (d2 := d1 / 256) in *. set (r1 := d1 mod 256) in *.
  pose proof (N.div_mod' d2 256) as H2. pose proof (N.mod_lt d2 256 ltac:(discriminate)) as L2.
  set (d3 := d2 / 256) in *. set (r2 := d2 mod 256) in *.
  pose proof (N.div_mod' d3 256) as H3. pose proof (N.mod_lt d3 256 ltac:(discriminate)) as L3.
  set (d4 := d3 / 256) in *. set (r3 := d3 mod 256) in *.
  clearbody d1 d2 d3 d4 r0 r1 r2 r3. lia.
Qed.

Lemma be32_bytes (n : N) : Forall (fun b => b < 256) (be32 n).
Proof. unfold be32. repeat constructor; apply N.mod_lt; discriminate. Qed.

Lemma be32_length (n : N) : length (be32 n) = 4%nat.
Proof. reflexivity. Qed.

(** Every 4-byte prefix is the encoding of its value (so "prefix value" and "frame length" are
    the same thing on the wire). *)
Lemma be32_of_be32 (b0 b1 b2 b3 : N) :
  b0 < 256 -> b1 < 256 -> b2 < 256 -> b3 < 256 ->
  of_be32 b0 b1 b2 b3 <= u32_max /\ be32 (of_be32 b0 b1 b2 b3) = [b0; b1; b2; b3].
Proof.
  intros L0 L1 L2 L3. unfold of_be32, u32_max. split; [lia|].
  unfold be32.
  set (n := ((b0 * 256 + b1) * 256 + b2) * 256 + b3).
  assert (E0 : n mod 256 = b3 /\ n / 256 = (b0 * 256 + b1) * 256 + b2).
  { unfold n. rewrite N.add_comm, N.mod_add, N.div_add by discriminate.
    rewrite N.mod_small, N.div_small by exact L3. split; [reflexivity|lia]. }
  destruct E0 as [E0 D0]. rewrite E0, D0.
  assert (E1 : ((b0 * 256 + b1) * 256 + b2) mod 256 = b2 /\ ((b0 * 256 + b1) * 256 + b2) / 256 = b0 * 256 + b1).
  { rewrite N.add_comm, N.mod_add, N.div_add by discriminate.
    rewrite N.mod_small, N.div_small by exact L2. split; [reflexivity|lia]. }
  destruct E1 as [E1 D1]. rewrite E1, D1.
  assert (E2 : (b0 * 256 + b1) mod 256 = b1 /\ (b0 * 256 + b1) / 256 = b0).
  { rewrite N.add_comm, N.mod_add, N.div_add by discriminate.
    rewrite N.mod_small, N.div_small by exact L1. split; [reflexivity|lia]. }
  destruct E2 as [E2 D2]. rewrite E2, D2.
  rewrite N.mod_small by exact L0. reflexivity.
Qed.

Lemma blen_app (a b : bytes) : blen (a ++ b) = blen a + blen b.
Proof. unfold blen. rewrite app_length. lia. Qed.

Lemma to_nat_blen (b : bytes) : N.to_nat (blen b) = length b.
Proof. unfold blen. apply Nat2N.id. Qed.

Section CodecProofs.
  Variable M : Type.
  Variable ser : M -> bytes.
  Variable de : bytes -> option M.
  Variable max : N.

  Notation decode := (decode M de max).
  Notation encode := (encode M ser max).
  Notation drain := (drain M de max).
  Notation drain_all := (drain_all M de max).
  Notation feed1 := (feed1 M de max).
  Notation feed_chunks := (feed_chunks M de max).
  Notation stream_out := (stream_out M de max).
  Notation encode_all := (encode_all M ser max).
  Notation frame := (frame M ser).
  Notation enc_check := (enc_check max).

  (** A message fits: its frame length is within the configured maximum and within what the
      4-byte prefix can carry. *)
  Definition fits (m : M) : Prop := blen (ser m) <= max /\ blen (ser m) <= u32_max.

  (** ** One [decode] call *)

  Lemma decode_unfold (b0 b1 b2 b3 : N) (body : bytes) :
    decode (b0 :: b1 :: b2 :: b3 :: body) =
    let fl := of_be32 b0 b1 b2 b3 in
    if max <? fl then DecErr (TooLargeMessage fl max)
    else if blen body <? fl then DecNone
    else match de (firstn (N.to_nat fl) body) with
         | None => DecErr Postcard
         | Some m => DecSome m (skipn (N.to_nat fl) body)
         end.
  Proof. reflexivity. Qed.

  Lemma decode_short (src : bytes) : (length src < 4)%nat -> decode src = DecNone.
  Proof.
    destruct src as [|b0 [|b1 [|b2 [|b3 body]]]]; try reflexivity.
    cbn [length]. lia.
  Qed.

  (** A frame written by [encode], followed by anything, is decoded as its message and exactly
      the frame is consumed. *)
  Lemma decode_frame (m : M) (rest : bytes) :
    de (ser m) = Some m -> fits m -> decode (frame m ++ rest) = DecSome m rest.
  Proof.
    intros Hde [Hmax Hu32]. unfold Codec.frame, be32.
    cbn [app]. rewrite decode_unfold. cbv zeta.
    rewrite (of_be32_be32 _ Hu32).
    destruct (N.ltb_spec max (blen (ser m))) as [C|_]; [lia|].
    rewrite blen_app.
    destruct (N.ltb_spec (blen (ser m) + blen rest) (blen (ser m))) as [C|_]; [lia|].
    rewrite to_nat_blen.
    rewrite firstn_app, Nat.sub_diag, firstn_all, firstn_O, app_nil_r, Hde.
    rewrite skipn_app, Nat.sub_diag, skipn_all. reflexivity.
  Qed.

  (** A prefix value above the maximum is an error whatever follows, and however little. *)
  Lemma decode_too_large (b0 b1 b2 b3 : N) (body : bytes) :
    max < of_be32 b0 b1 b2 b3 ->
    decode (b0 :: b1 :: b2 :: b3 :: body) = DecErr (TooLargeMessage (of_be32 b0 b1 b2 b3) max).
  Proof.
    intros H. rewrite decode_unfold. cbv zeta.
    destruct (N.ltb_spec max (of_be32 b0 b1 b2 b3)); [reflexivity|lia].
  Qed.

  Lemma decode_too_large_be32 (n : N) (body : bytes) :
    n <= u32_max -> max < n -> decode (be32 n ++ body) = DecErr (TooLargeMessage n max).
  Proof.
    intros Hu Hm. unfold be32. cbn [app]. rewrite decode_too_large; rewrite (of_be32_be32 _ Hu); auto.
  Qed.

  (** The size error is produced only for a prefix value that really exceeds the maximum. *)
  Lemma decode_size_error_only_if_larger (src : bytes) (l mx : N) :
    decode src = DecErr (TooLargeMessage l mx) ->
    mx = max /\ max < l /\
    exists b0 b1 b2 b3 body, src = b0 :: b1 :: b2 :: b3 :: body /\ l = of_be32 b0 b1 b2 b3.
  Proof.
    destruct src as [|b0 [|b1 [|b2 [|b3 body]]]]; try discriminate.
    rewrite decode_unfold. cbv zeta.
    destruct (N.ltb_spec max (of_be32 b0 b1 b2 b3)) as [Hlt|Hle].
    - intros E. injection E as <- <-. repeat split; auto.
      exists b0, b1, b2, b3, body. auto.
    - destruct (blen body <? of_be32 b0 b1 b2 b3); [discriminate|].
      destruct (de _); discriminate.
  Qed.

  (** ** [decode] looks only at the frame in front: more bytes behind change nothing *)

  Lemma decode_some_app (buf : bytes) (m : M) (rest c : bytes) :
    decode buf = DecSome m rest -> decode (buf ++ c) = DecSome m (rest ++ c).
  Proof.
    destruct buf as [|b0 [|b1 [|b2 [|b3 body]]]]; try discriminate.
    cbn [app]. rewrite !decode_unfold. cbv zeta.
    destruct (max <? of_be32 b0 b1 b2 b3); [discriminate|].
    rewrite blen_app.
    destruct (N.ltb_spec (blen body) (of_be32 b0 b1 b2 b3)) as [|Hge]; [discriminate|].
    destruct (N.ltb_spec (blen body + blen c) (of_be32 b0 b1 b2 b3)) as [C|_]; [lia|].
    assert (Hn : (N.to_nat (of_be32 b0 b1 b2 b3) <= length body)%nat).
    { unfold blen in Hge. lia. }
    rewrite firstn_app. replace (N.to_nat (of_be32 b0 b1 b2 b3) - length body)%nat with 0%nat by lia.
    rewrite firstn_O, app_nil_r.
    destruct (de _); [|discriminate].
    intros E. injection E as <- <-.
    rewrite skipn_app. replace (N.to_nat (of_be32 b0 b1 b2 b3) - length body)%nat with 0%nat by lia.
    reflexivity.
  Qed.

  Lemma decode_err_app (buf : bytes) (e : error) (c : bytes) :
    decode buf = DecErr e -> decode (buf ++ c) = DecErr e.
  Proof.
    destruct buf as [|b0 [|b1 [|b2 [|b3 body]]]]; try discriminate.
    cbn [app]. rewrite !decode_unfold. cbv zeta.
    destruct (max <? of_be32 b0 b1 b2 b3); [auto|].
    rewrite blen_app.
    destruct (N.ltb_spec (blen body) (of_be32 b0 b1 b2 b3)) as [|Hge]; [discriminate|].
    destruct (N.ltb_spec (blen body + blen c) (of_be32 b0 b1 b2 b3)) as [C|_]; [lia|].
    assert (Hn : (N.to_nat (of_be32 b0 b1 b2 b3) <= length body)%nat).
    { unfold blen in Hge. lia. }
    rewrite firstn_app. replace (N.to_nat (of_be32 b0 b1 b2 b3) - length body)%nat with 0%nat by lia.
    rewrite firstn_O, app_nil_r.
    destruct (de _); [discriminate|auto].
  Qed.

  (** A decoded frame consumes at least its 4-byte prefix. *)
  Lemma decode_some_shorter (buf : bytes) (m : M) (rest : bytes) :
    decode buf = DecSome m rest -> (length rest + 4 <= length buf)%nat.
  Proof.
    destruct buf as [|b0 [|b1 [|b2 [|b3 body]]]]; try discriminate.
    rewrite decode_unfold. cbv zeta.
    destruct (max <? of_be32 b0 b1 b2 b3); [discriminate|].
    destruct (blen body <? of_be32 b0 b1 b2 b3); [discriminate|].
    destruct (de _); [|discriminate].
    intros E. injection E as _ <-. cbn [length]. rewrite skipn_length. lia.
  Qed.

  (** ** The decode loop *)

  Lemma drain_fuel (f1 : nat) : forall (f2 : nat) (buf : bytes),
    (length buf < f1)%nat -> (length buf < f2)%nat -> drain f1 buf = drain f2 buf.
  Proof.
    induction f1 as [|f1 IH]; intros f2 buf H1 H2; [lia|].
    destruct f2 as [|f2]; [lia|].
    cbn [Codec.drain].
    destruct (decode buf) as [| m rest | e] eqn:D; try reflexivity.
    apply decode_some_shorter in D.
    rewrite (IH f2 rest) by lia. reflexivity.
  Qed.

  Lemma drain_all_fuel (f : nat) (buf : bytes) : (length buf < f)%nat -> drain f buf = drain_all buf.
  Proof. intros H. apply drain_fuel; [exact H|lia]. Qed.

  (** Continuing after more bytes arrived is the same as decoding everything at once. *)
  Lemma drain_app (f : nat) : forall (buf c : bytes),
    (length buf < f)%nat ->
    drain_all (buf ++ c) =
    match drain f buf with
    | (o, None) => (o, None)
    | (o, Some b) => let '(o2, st2) := drain_all (b ++ c) in (o ++ o2, st2)
    end.
  Proof.
    induction f as [|f IH]; intros buf c Hf; [lia|].
    cbn [Codec.drain].
    destruct (decode buf) as [| m rest | e] eqn:D.
    - destruct (drain_all (buf ++ c)); reflexivity.
    - pose proof (decode_some_shorter _ _ _ D) as Hs.
      unfold Codec.drain_all at 1. cbn [Codec.drain].
      rewrite (decode_some_app _ _ _ c D).
      rewrite drain_all_fuel by (rewrite !app_length; lia).
      rewrite (IH rest c) by lia.
      destruct (drain f rest) as [o [b|]].
      + destruct (drain_all (b ++ c)). reflexivity.
      + reflexivity.
    - unfold Codec.drain_all. cbn [Codec.drain].
      rewrite (decode_err_app _ _ c D). reflexivity.
  Qed.

  Lemma feed1_drain_all (s c : bytes) : feed1 (drain_all s) c = drain_all (s ++ c).
  Proof.
    rewrite (drain_app (S (length s)) s c) by lia.
    unfold Codec.feed1. fold (drain_all s).
    destruct (drain_all s) as [o [b|]]; cbn [fst snd]; reflexivity.
  Qed.

  Lemma fold_feed1 (chunks : list bytes) : forall s : bytes,
    fold_left feed1 chunks (drain_all s) = drain_all (s ++ concat chunks).
  Proof.
    induction chunks as [|c r IH]; intros s; cbn [fold_left concat].
    - rewrite app_nil_r. reflexivity.
    - rewrite feed1_drain_all, IH, app_assoc. reflexivity.
  Qed.

  (** Feeding a byte stream chunk by chunk produces what decoding the whole stream produces:
      same items, same left-over buffer, whatever the bytes are. *)
  Theorem feed_chunks_concat (chunks : list bytes) :
    feed_chunks chunks = drain_all (concat chunks).
  Proof.
    unfold Codec.feed_chunks.
    change (([] : list (item M)), Some ([] : bytes)) with (drain_all []).
    apply fold_feed1.
  Qed.

  Theorem chunking_irrelevant_any_stream (chunks1 chunks2 : list bytes) :
    concat chunks1 = concat chunks2 ->
    feed_chunks chunks1 = feed_chunks chunks2 /\ stream_out chunks1 = stream_out chunks2.
  Proof.
    intros E. unfold Codec.stream_out. rewrite !feed_chunks_concat, E. split; reflexivity.
  Qed.

  (** ** Well-formed streams *)

  Hypothesis de_ser : forall m, de (ser m) = Some m.

  (** Frames of fitting messages, followed by any tail: the messages come out in order, then
      whatever the tail gives. *)
  Lemma drain_frames (ms : list M) : forall tail : bytes,
    Forall fits ms ->
    drain_all (concat (map frame ms) ++ tail) =
    let '(o, st) := drain_all tail in (map IOk ms ++ o, st).
  Proof.
    induction ms as [|m r IH]; intros tail HF.
    - cbn [map concat app]. destruct (drain_all tail). reflexivity.
    - inversion HF as [|? ? Hm Hr]; subst.
      cbn [map concat]. rewrite <- !app_assoc.
      unfold Codec.drain_all at 1. cbn [Codec.drain].
      rewrite (decode_frame m _ (de_ser m) Hm).
      rewrite drain_all_fuel by (rewrite !app_length; unfold Codec.frame; rewrite app_length, be32_length; lia).
      rewrite (IH tail Hr).
      destruct (drain_all tail). reflexivity.
  Qed.

  Lemma encode_fits (m : M) (dst : bytes) : fits m -> encode m dst = EncOk (dst ++ frame m).
  Proof.
    intros [Hm Hu]. unfold Codec.encode, Codec.enc_check, Codec.frame.
    destruct (N.ltb_spec max (blen (ser m))); [lia|].
    destruct (N.ltb_spec u32_max (blen (ser m))); [lia|]. reflexivity.
  Qed.

  Lemma encode_all_fits (ms : list M) : forall dst : bytes,
    Forall fits ms ->
    encode_all ms dst = (map (fun _ => None) ms, dst ++ concat (map frame ms)).
  Proof.
    induction ms as [|m r IH]; intros dst HF.
    - cbn [Codec.encode_all map concat]. rewrite app_nil_r. reflexivity.
    - inversion HF as [|? ? Hm Hr]; subst.
      cbn [Codec.encode_all]. rewrite (encode_fits m dst Hm), (IH _ Hr).
      cbn [map concat]. rewrite <- app_assoc. reflexivity.
  Qed.

  (** C26, first sentence.  Encode any sequence of fitting messages into one buffer, cut the
      bytes into chunks in any way (empty chunks allowed): the decoder yields exactly the
      messages, in order, nothing else, no error, and its buffer ends empty. *)
  Theorem chunking_irrelevant (ms : list M) (chunks : list bytes) :
    Forall fits ms ->
    concat chunks = snd (encode_all ms []) ->
    fst (encode_all ms []) = map (fun _ => None) ms /\
    feed_chunks chunks = (map IOk ms, Some []) /\
    stream_out chunks = map IOk ms.
  Proof.
    intros HF E. rewrite (encode_all_fits ms [] HF) in *. cbn [fst snd app] in *.
    split; [reflexivity|].
    assert (F : feed_chunks chunks = (map IOk ms, Some [])).
    { rewrite feed_chunks_concat, E.
      rewrite <- (app_nil_r (concat (map frame ms))).
      rewrite (drain_frames ms [] HF).
      change (drain_all []) with (([] : list (item M)), Some ([] : bytes)).
      cbv beta iota. rewrite app_nil_r. reflexivity. }
    split; [exact F|].
    unfold Codec.stream_out. rewrite F. cbn [Codec.eof_items]. apply app_nil_r.
  Qed.

  (** A stream cut short inside a frame: the complete frames are delivered, the decoder waits
      (no error before end of input), and end of input reports the left-over bytes. *)
  Theorem truncated_stream (ms : list M) (m : M) (k : nat) (chunks : list bytes) :
    Forall fits ms -> fits m -> (0 < k < length (frame m))%nat ->
    concat chunks = concat (map frame ms) ++ firstn k (frame m) ->
    feed_chunks chunks = (map IOk ms, Some (firstn k (frame m))) /\
    stream_out chunks = map IOk ms ++ [IErr Io].
  Proof.
    intros HF Hm Hk E.
    assert (D : drain_all (firstn k (frame m)) = ([], Some (firstn k (frame m)))).
    { unfold Codec.drain_all. cbn [Codec.drain].
      set (p := firstn k (frame m)).
      assert (Hp : decode p = DecNone).
      { destruct (Nat.lt_ge_cases k 4) as [Hk4|Hk4].
        - apply decode_short. unfold p. rewrite firstn_length. lia.
        - unfold p, Codec.frame, be32.
          destruct k as [|[|[|[|k']]]]; try lia.
          cbn [app firstn]. rewrite decode_unfold. cbv zeta.
          destruct Hm as [Hmax Hu].
          rewrite (of_be32_be32 _ Hu).
          destruct (N.ltb_spec max (blen (ser m))); [lia|].
          assert (Hl : (k' < length (ser m))%nat).
          { unfold Codec.frame in Hk. rewrite app_length, be32_length in Hk. lia. }
          destruct (N.ltb_spec (blen (firstn k' (ser m))) (blen (ser m))) as [|C]; [reflexivity|].
          unfold blen in C. rewrite firstn_length in C. lia. }
      rewrite Hp. reflexivity. }
    assert (F : feed_chunks chunks = (map IOk ms, Some (firstn k (frame m)))).
    { rewrite feed_chunks_concat, E, (drain_frames ms _ HF), D. cbv beta iota. rewrite app_nil_r. reflexivity. }
    split; [exact F|].
    unfold Codec.stream_out. rewrite F.
    destruct (firstn k (frame m)) as [|x l] eqn:Ef; [|reflexivity].
    apply (f_equal (@length N)) in Ef. rewrite firstn_length in Ef. cbn [length] in Ef. lia.
  Qed.

  (** C26, second sentence. *)
  Theorem too_large_rejected_both_ways (m : M) (dst : bytes) (n : N) (body : bytes) :
    (max < blen (ser m) -> encode m dst = EncErr (TooLargeMessage (blen (ser m)) max)) /\
    (n <= u32_max -> max < n -> decode (be32 n ++ body) = DecErr (TooLargeMessage n max)).
  Proof.
    split.
    - intros H. unfold Codec.encode, Codec.enc_check.
      destruct (N.ltb_spec max (blen (ser m))); [reflexivity|lia].
    - apply decode_too_large_be32.
  Qed.

  Theorem no_smaller_frame_rejected (m : M) (dst rest : bytes) :
    fits m ->
    encode m dst = EncOk (dst ++ frame m) /\ decode (frame m ++ rest) = DecSome m rest.
  Proof. intros H. split; [apply encode_fits; exact H|apply decode_frame; auto]. Qed.

  (** Refusals for size happen only for sizes above the effective maximum (the configured one,
      capped by what a 4-byte prefix can express). *)
  Theorem size_refusal_only_if_larger (m : M) (dst src : bytes) (l mx : N) :
    (encode m dst = EncErr (TooLargeMessage l mx) -> l = blen (ser m) /\ N.min max u32_max < l) /\
    (decode src = DecErr (TooLargeMessage l mx) -> mx = max /\ max < l).
  Proof.
    split.
    - unfold Codec.encode, Codec.enc_check.
      destruct (N.ltb_spec max (blen (ser m))).
      + intros E. injection E as <- <-. split; [reflexivity|lia].
      + destruct (N.ltb_spec u32_max (blen (ser m))).
        * intros E. injection E as <- <-. split; [reflexivity|lia].
        * discriminate.
    - intros D. apply decode_size_error_only_if_larger in D. tauto.
  Qed.

  (** The boundary: a frame of exactly [max] bytes passes both ways, [max + 1] is refused both
      ways. *)
  Theorem boundary (m m' : M) (dst rest body : bytes) :
    max <= u32_max ->
    (blen (ser m) = max ->
       encode m dst = EncOk (dst ++ frame m) /\ decode (frame m ++ rest) = DecSome m rest) /\
    (blen (ser m') = max + 1 ->
       encode m' dst = EncErr (TooLargeMessage (max + 1) max)) /\
    (max + 1 <= u32_max ->
       decode (be32 (max + 1) ++ body) = DecErr (TooLargeMessage (max + 1) max)).
  Proof.
    intros Hu. split; [|split].
    - intros E. apply no_smaller_frame_rejected. unfold fits. lia.
    - intros E. pose proof (proj1 (too_large_rejected_both_ways m' dst 0 [])) as H.
      rewrite E in H. apply H. lia.
    - intros H. apply decode_too_large_be32; lia.
  Qed.

  (** An encode failure or success never disturbs what is already in the buffer. *)
  Lemma encode_keeps_prefix (m : M) (dst dst' : bytes) :
    encode m dst = EncOk dst' -> exists f, dst' = dst ++ f.
  Proof.
    unfold Codec.encode. destruct (enc_check _); [discriminate|].
    intros E. injection E as <-. eauto.
  Qed.
End CodecProofs.

(** * The transparent message types of the harness satisfy the round-trip hypothesis. *)
Lemma de_ser_raw (m : bytes) : de_raw false (ser_raw m) = Some m.
Proof. unfold de_raw, ser_raw. destruct m as [|x l]; [reflexivity|]. destruct x as [|p]; [reflexivity|].
  repeat (destruct p as [p|p|]; try reflexivity). Qed.

(** * Non-vacuity: the hypotheses of the theorems are satisfiable by non-trivial values. *)
Definition ex_ms : list bytes := [[1; 2; 3]; []; [255; 0]; [7]].
Definition ex_stream : bytes := snd (encode_all bytes ser_raw 3 ex_ms []).

Example ex_fits : Forall (fits bytes ser_raw 3) ex_ms.
Proof. unfold ex_ms, fits, ser_raw, blen, u32_max. repeat constructor; cbn; lia. Qed.

Example ex_chunking :
  let chunks := split_at [1; 0; 3; 5; 1; 1; 2]%nat ex_stream in
  concat chunks = ex_stream /\ length chunks = 8%nat /\
  stream_out bytes (de_raw false) 3 chunks = map IOk ex_ms.
Proof. vm_compute. repeat split; reflexivity. Qed.

Example ex_chunking_thm :
  stream_out bytes (de_raw false) 3 (split_at [1; 0; 3; 5; 1; 1; 2]%nat ex_stream) = map IOk ex_ms.
Proof.
  refine (proj2 (proj2 (chunking_irrelevant bytes ser_raw (de_raw false) 3 de_ser_raw ex_ms _ ex_fits _))).
  vm_compute. reflexivity.
Qed.

Example ex_boundary :
  encode bytes ser_raw 3 [1; 2; 3] [] = EncOk [0; 0; 0; 3; 1; 2; 3] /\
  encode bytes ser_raw 3 [1; 2; 3; 4] [] = EncErr (TooLargeMessage 4 3) /\
  decode bytes (de_raw false) 3 [0; 0; 0; 3; 1; 2; 3; 9] = DecSome [1; 2; 3] [9] /\
  decode bytes (de_raw false) 3 [0; 0; 0; 4] = DecErr (TooLargeMessage 4 3) /\
  decode bytes (de_raw false) 3 [0; 0; 0; 3; 1; 2] = DecNone.
Proof. vm_compute. repeat split; reflexivity. Qed.

(** The repaired second check, for the record: before the repair a frame of 4 GiB or more
    within a larger [max_frame_len] made [encode] panic ([enc_check_asis]). *)
Example ex_u32_cap :
  enc_check 18446744073709551615 4294967296 = Some (TooLargeMessage 4294967296 u32_max) /\
  enc_check_asis 18446744073709551615 4294967296 = EncPanic /\
  enc_check 18446744073709551615 4294967295 = None.
Proof. vm_compute. repeat split; reflexivity. Qed.
