(** Proofs about the secret-bundle model (C36). *)
From Coq Require Import List NArith Bool Lia Permutation.
From PV Require Import Model.SecretBundle.
Import ListNotations.
Local Open Scope N_scope.

(** * [find_latest] computes the lexicographic maximum *)

Definition zero_secret (s : secret) : Prop := sid s = 0 /\ sts s = 0.

(** Loop invariant of [find_latest] over the elements seen so far. *)
Definition FInv (seen : list secret) (acc : N * option N) : Prop :=
  match snd acc with
  | None => fst acc = 0 /\ forall e, In e seen -> zero_secret e
  | Some i => In (i, fst acc) seen /\ forall e, In e seen -> lex_le e (i, fst acc)
  end.

Lemma fl_step_inv seen acc s : FInv seen acc -> FInv (seen ++ [s]) (fl_step acc s).
Proof.
  destruct acc as [lt lid]. destruct s as [i t]. unfold FInv, fl_step, lex_le, zero_secret, sid, sts.
  cbn [fst snd]. intros H.
  destruct lid as [c|]; cbn [fst snd] in *.
  - destruct H as [HI HM].
    destruct (N.ltb_spec lt t) as [L1|L1]; cbn [orb].
    + cbn [fst snd]. split; [apply in_or_app; right; left; reflexivity|].
      intros e He. apply in_app_or in He. destruct He as [He|[<-|[]]].
      * specialize (HM e He). cbn [fst snd] in *. lia.
      * cbn [fst snd]. lia.
    + destruct (N.eqb_spec lt t) as [E|E]; cbn [andb].
      * destruct (N.ltb_spec c i) as [L2|L2]; cbn [fst snd].
        -- split; [apply in_or_app; right; left; reflexivity|].
           intros e He. apply in_app_or in He. destruct He as [He|[<-|[]]].
           ++ specialize (HM e He). cbn [fst snd] in *. lia.
           ++ cbn [fst snd]. lia.
        -- split; [apply in_or_app; left; exact HI|].
           intros e He. apply in_app_or in He. destruct He as [He|[<-|[]]].
           ++ exact (HM e He).
           ++ cbn [fst snd]. lia.
      * cbn [fst snd]. split; [apply in_or_app; left; exact HI|].
        intros e He. apply in_app_or in He. destruct He as [He|[<-|[]]].
        -- exact (HM e He).
        -- cbn [fst snd]. lia.
  - destruct H as [-> HZ].
    destruct (N.ltb_spec 0 t) as [L1|L1]; cbn [orb].
    + cbn [fst snd]. split; [apply in_or_app; right; left; reflexivity|].
      intros e He. apply in_app_or in He. destruct He as [He|[<-|[]]].
      * destruct (HZ e He) as [? ?]. cbn [fst snd]. lia.
      * cbn [fst snd]. lia.
    + destruct (N.eqb_spec 0 t) as [E|E]; cbn [andb].
      * destruct (N.ltb_spec 0 i) as [L2|L2]; cbn [fst snd].
        -- split; [apply in_or_app; right; left; reflexivity|].
           intros e He. apply in_app_or in He. destruct He as [He|[<-|[]]].
           ++ destruct (HZ e He) as [? ?]. cbn [fst snd]. lia.
           ++ cbn [fst snd]. lia.
        -- split; [reflexivity|].
           intros e He. apply in_app_or in He. destruct He as [He|[<-|[]]].
           ++ exact (HZ e He).
           ++ cbn [fst snd]. lia.
      * lia.
Qed.

Lemma fold_fl_inv : forall l seen acc,
  FInv seen acc -> FInv (seen ++ l) (fold_left fl_step l acc).
Proof.
  induction l as [|s l IH]; intros seen acc H.
  - now rewrite app_nil_r.
  - cbn [fold_left]. replace (seen ++ s :: l) with ((seen ++ [s]) ++ l) by now rewrite <- app_assoc.
    apply IH. now apply fl_step_inv.
Qed.

Lemma find_latest_inv l : FInv l (fold_left fl_step l (0, None)).
Proof.
  apply (fold_fl_inv l [] (0, None)). unfold FInv. cbn [fst snd]. split; [reflexivity|intros ? []].
Qed.

(** The latest secret is an element of the list and is the maximum by (timestamp, id). *)
Theorem latest_is_lex_max l i :
  find_latest l = Some i ->
  exists t, In (i, t) l /\ forall e, In e l -> lex_le e (i, t).
Proof.
  unfold find_latest. intros H. pose proof (find_latest_inv l) as HI. unfold FInv in HI.
  rewrite H in HI. eauto.
Qed.

(** [None] only for a bundle whose every entry is the all-zero id with timestamp 0 (a SHA-256
    preimage of 0^32); in particular for the empty bundle. *)
Theorem latest_none l : find_latest l = None -> forall e, In e l -> zero_secret e.
Proof.
  unfold find_latest. intros H. pose proof (find_latest_inv l) as HI. unfold FInv in HI.
  rewrite H in HI. tauto.
Qed.

Lemma lex_le_antisym a b : lex_le a b -> lex_le b a -> a = b.
Proof.
  destruct a as [i t], b as [j u]. unfold lex_le, sid, sts. cbn [fst snd]. intros H1 H2.
  f_equal; lia.
Qed.

Lemma all_zero_none l : (forall e, In e l -> zero_secret e) -> find_latest l = None.
Proof.
  unfold find_latest. intros HZ.
  assert (G : forall l acc, (forall e, In e l -> zero_secret e) -> acc = (0, None) ->
              fold_left fl_step l acc = (0, None)).
  { clear. induction l as [|s l IH]; intros acc HZ ->; [reflexivity|].
    cbn [fold_left]. apply IH; [intros e He; apply HZ; now right|].
    destruct (HZ s (or_introl eq_refl)) as [Hi Ht]. unfold fl_step. rewrite Hi, Ht. reflexivity. }
  now rewrite (G l (0, None) HZ eq_refl).
Qed.

(** [find_latest] depends only on the *set* of entries, hence on no iteration order. *)
Theorem find_latest_set_ext l l' :
  (forall e, In e l <-> In e l') -> find_latest l = find_latest l'.
Proof.
  intros HS.
  destruct (find_latest l) as [i|] eqn:E1; destruct (find_latest l') as [j|] eqn:E2.
  - apply latest_is_lex_max in E1. apply latest_is_lex_max in E2.
    destruct E1 as (t & I1 & M1). destruct E2 as (u & I2 & M2).
    assert (H : (i, t) = (j, u)).
    { apply lex_le_antisym; [apply M2, HS, I1|apply M1, HS, I2]. }
    now injection H as -> _.
  - pose proof (latest_none _ E2) as Z.
    rewrite all_zero_none in E1; [discriminate|]. intros e He. apply Z, HS, He.
  - pose proof (latest_none _ E1) as Z.
    rewrite all_zero_none in E2; [discriminate|]. intros e He. apply Z, HS, He.
  - reflexivity.
Qed.

Theorem find_latest_perm l l' : Permutation l l' -> find_latest l = find_latest l'.
Proof.
  intros HP. apply find_latest_set_ext. intros e. split; intros H.
  - eapply Permutation_in; eauto.
  - eapply Permutation_in; [apply Permutation_sym|]; eauto.
Qed.

(** * Map operations *)

Lemma In_remove_id m i e : In e (remove_id m i) <-> In e m /\ sid e <> i.
Proof.
  unfold remove_id. rewrite filter_In. split; intros [H1 H2]; split; auto.
  - intros E. rewrite E, N.eqb_refl in H2. discriminate.
  - apply negb_true_iff. now apply N.eqb_neq.
Qed.

Lemma In_map_insert m s e : In e (map_insert m s) <-> e = s \/ (In e m /\ sid e <> sid s).
Proof.
  unfold map_insert. cbn [In]. rewrite In_remove_id. split; intros [H|H]; auto.
Qed.

Lemma NoDup_remove_id m i : NoDup (map sid m) -> NoDup (map sid (remove_id m i)).
Proof.
  induction m as [|e m IH]; intros H; [constructor|].
  cbn [map] in H. inversion H as [|? ? Hn Hd]; subst.
  unfold remove_id. cbn [filter]. fold (remove_id m i).
  destruct (negb (sid e =? i)); [|auto].
  cbn [map]. constructor; [|auto].
  intros HI. apply Hn. apply in_map_iff in HI. destruct HI as (x & Ex & Hx).
  apply In_remove_id in Hx. apply in_map_iff. exists x. tauto.
Qed.

Lemma NoDup_map_insert m s : NoDup (map sid m) -> NoDup (map sid (map_insert m s)).
Proof.
  intros H. unfold map_insert. cbn [map]. constructor; [|now apply NoDup_remove_id].
  intros HI. apply in_map_iff in HI. destruct HI as (x & Ex & Hx).
  apply In_remove_id in Hx. tauto.
Qed.

Lemma NoDup_fold_insert : forall l m, NoDup (map sid m) -> NoDup (map sid (fold_left map_insert l m)).
Proof.
  induction l as [|s l IH]; intros m H; [exact H|]. cbn [fold_left]. apply IH. now apply NoDup_map_insert.
Qed.

Lemma lookup_In m : NoDup (map sid m) -> forall e, In e m -> lookup m (sid e) = Some e.
Proof.
  induction m as [|x m IH]; intros H e He; [destruct He|].
  cbn [map] in H. inversion H as [|? ? Hn Hd]; subst. cbn [lookup].
  destruct He as [->|He]; [now rewrite N.eqb_refl|].
  destruct (N.eqb_spec (sid x) (sid e)) as [E|E].
  - exfalso. apply Hn. rewrite E. now apply in_map.
  - now apply IH.
Qed.

(** Under consistency (one timestamp per id) insertion is set union. *)
Lemma content_insert L m s :
  consistent L -> (forall e, In e m -> In e L) -> In s L ->
  forall e, In e (map_insert m s) <-> e = s \/ In e m.
Proof.
  intros HC Hm Hs e. rewrite In_map_insert. split.
  - intros [H|[H _]]; auto.
  - intros [H|H]; [auto|].
    destruct (N.eq_dec (sid e) (sid s)) as [E|E]; [left; apply HC; auto|right; auto].
Qed.

Lemma content_fold_insert L : consistent L -> forall l m,
  (forall e, In e l -> In e L) -> (forall e, In e m -> In e L) ->
  forall e, In e (fold_left map_insert l m) <-> In e l \/ In e m.
Proof.
  intros HC. induction l as [|s l IH]; intros m Hl Hm e.
  - cbn [fold_left In]. tauto.
  - cbn [fold_left]. rewrite IH.
    + rewrite (content_insert L m s HC Hm (Hl s (or_introl eq_refl))). cbn [In]. split.
      * intros [H|[H|H]]; auto.
      * intros [[H|H]|H]; auto.
    + intros x Hx. apply Hl. now right.
    + intros x Hx. apply (content_insert L m s HC Hm (Hl s (or_introl eq_refl))) in Hx.
      destruct Hx as [->|Hx]; [apply Hl; now left|now apply Hm].
Qed.

Section StateProofs.
  Variable order : list secret -> list secret.
  (** The only thing assumed about the hash map's iteration: it visits exactly the entries. *)
  Hypothesis order_set : forall l e, In e (order l) <-> In e l.

  Definition wf (y : state) : Prop :=
    latest y = find_latest (order (secrets y)) /\ NoDup (map sid (secrets y)).

  Lemma wf_mk m : NoDup (map sid m) -> wf (mk order m).
  Proof. intros H. split; [reflexivity|exact H]. Qed.

  Lemma order_nil : order [] = [].
  Proof.
    destruct (order []) as [|e l] eqn:E; [reflexivity|].
    exfalso. apply (order_set [] e). rewrite E. now left.
  Qed.

  Lemma wf_init : wf init.
  Proof. split; [cbn [init latest secrets]; now rewrite order_nil|constructor]. Qed.

  Lemma wf_insert y s : wf y -> wf (insert order y s).
  Proof. intros [_ H]. apply wf_mk. now apply NoDup_map_insert. Qed.

  Lemma wf_remove y i : wf y -> wf (fst (remove order y i)).
  Proof. intros [_ H]. apply wf_mk. now apply NoDup_remove_id. Qed.

  Lemma wf_extend y o : wf y -> wf (extend order y o).
  Proof. intros [_ H]. apply wf_mk. now apply NoDup_fold_insert. Qed.

  Lemma wf_from l : wf (from_secrets order l).
  Proof. apply wf_mk. apply NoDup_fold_insert. constructor. Qed.

  Lemma wf_eval e : wf (eval order e).
  Proof.
    induction e as [|l|b IH s|a IHa b IHb]; cbn [eval].
    - apply wf_init. - apply wf_from. - now apply wf_insert. - now apply wf_extend.
  Qed.

  (** In every well-formed state (every state the operations produce) the recorded latest id
      is the maximum by (timestamp, id) over the bundle's content. *)
  Theorem state_latest_is_lex_max y i :
    wf y -> latest y = Some i ->
    exists t, In (i, t) (secrets y) /\ forall e, In e (secrets y) -> lex_le e (i, t).
  Proof.
    intros [HL _] H. rewrite HL in H. apply latest_is_lex_max in H. destruct H as (t & HI & HM).
    exists t. split; [now apply order_set|]. intros e He. apply HM. now apply order_set.
  Qed.

  Theorem state_latest_none y :
    wf y -> latest y = None -> forall e, In e (secrets y) -> zero_secret e.
  Proof.
    intros [HL _] H e He. rewrite HL in H. eapply latest_none; eauto. now apply order_set.
  Qed.

  Lemma ts_le_latest y e : wf y -> In e (secrets y) -> sts e <= latest_ts y.
  Proof.
    intros Hw He. unfold latest_ts. destruct (latest y) as [i|] eqn:E.
    - destruct (state_latest_is_lex_max y i Hw E) as (t & HI & HM).
      destruct Hw as [_ Hn]. rewrite (lookup_In _ Hn (i, t) HI : lookup (secrets y) i = Some (i, t)).
      specialize (HM e He). unfold lex_le, sts, sid in *. cbn [fst snd] in *. lia.
    - destruct (state_latest_none y Hw E e He) as [_ ->]. lia.
  Qed.

  (** ** Freshly generated secrets *)

  Theorem generated_strictly_later y now :
    latest_ts y < U64MAX ->
    exists t, generate_ts y now = Some t /\ latest_ts y < t /\ now <= t.
  Proof.
    intros H. unfold generate_ts.
    destruct (N.leb_spec now (latest_ts y)) as [L|L].
    - destruct (N.eqb_spec (latest_ts y) U64MAX) as [E|E]; [lia|].
      eexists. split; [reflexivity|lia].
    - eexists. split; [reflexivity|lia].
  Qed.

  Theorem generate_overflow y now :
    latest_ts y = U64MAX -> now <= U64MAX -> generate_ts y now = None.
  Proof.
    intros H Hn. unfold generate_ts. rewrite H.
    destruct (N.leb_spec now U64MAX) as [L|L]; [|lia]. now rewrite N.eqb_refl.
  Qed.

  (** Whatever [generate] returns is later than everything in the bundle, and once inserted it
      *is* the latest, for every id the random bytes may hash to that is not already there. *)
  Theorem generated_becomes_latest y now t i :
    wf y -> generate_ts y now = Some t -> ~ In i (map sid (secrets y)) ->
    (forall e, In e (secrets y) -> lex_lt e (i, t)) /\
    latest (insert order y (i, t)) = Some i.
  Proof.
    intros Hw Hg Hi.
    assert (Ht : latest_ts y < t).
    { unfold generate_ts in Hg. destruct (N.leb_spec now (latest_ts y)) as [L|L].
      - destruct (latest_ts y =? U64MAX); [discriminate|]. injection Hg as <-. lia.
      - injection Hg as <-. exact L. }
    assert (Hlt : forall e, In e (secrets y) -> lex_lt e (i, t)).
    { intros e He. pose proof (ts_le_latest y e Hw He). left. unfold sts in *. cbn [snd]. lia. }
    split; [exact Hlt|].
    cbn [insert mk latest].
    destruct (find_latest (order (map_insert (secrets y) (i, t)))) as [j|] eqn:E.
    - apply latest_is_lex_max in E. destruct E as (u & HI & HM).
      apply (proj1 (order_set _ _)) in HI. apply In_map_insert in HI.
      destruct HI as [HI|[HI _]]; [now injection HI as ->|].
      exfalso. specialize (Hlt _ HI).
      assert (HI' : In (i, t) (order (map_insert (secrets y) (i, t)))).
      { apply order_set. apply In_map_insert. now left. }
      specialize (HM _ HI'). unfold lex_le, lex_lt, sid, sts in *. cbn [fst snd] in *. lia.
    - exfalso. assert (HI' : In (i, t) (order (map_insert (secrets y) (i, t)))).
      { apply order_set. apply In_map_insert. now left. }
      destruct (latest_none _ E _ HI') as [_ Hz]. unfold sts in Hz. cbn [snd] in Hz. lia.
  Qed.

  (** ** Content of a bundle built by insertions and merges *)

  Lemma content_eval L : consistent L -> forall e,
    (forall x, In x (leaves e) -> In x L) ->
    forall x, In x (secrets (eval order e)) <-> In x (leaves e).
  Proof.
    intros HC. induction e as [|l|b IH s|a IHa b IHb]; intros HL x; cbn [eval leaves] in *.
    - cbn [init secrets]. tauto.
    - cbn [from_secrets mk secrets]. rewrite (content_fold_insert L HC l []); auto.
      + cbn [In]. tauto.
      + intros ? [].
    - cbn [insert mk secrets].
      assert (Hb : forall x, In x (leaves b) -> In x L) by (intros; apply HL, in_or_app; auto).
      assert (Hs : In s L) by (apply HL, in_or_app; right; now left).
      rewrite (content_insert L _ s HC); auto.
      + rewrite IH by exact Hb. rewrite in_app_iff. cbn [In]. split; [intros [->|H]|intros [H|[->|[]]]]; auto.
      + intros e He. apply Hb. now apply IH.
    - cbn [extend mk secrets].
      assert (Ha : forall x, In x (leaves a) -> In x L) by (intros; apply HL, in_or_app; auto).
      assert (Hb : forall x, In x (leaves b) -> In x L) by (intros; apply HL, in_or_app; auto).
      rewrite (content_fold_insert L HC).
      + rewrite order_set, IHa, IHb by assumption. rewrite in_app_iff. tauto.
      + intros e He. apply (proj1 (order_set _ _)) in He. apply Hb. now apply IHb.
      + intros e He. apply Ha. now apply IHa.
  Qed.

  Lemma latest_eval e : latest (eval order e) = find_latest (order (secrets (eval order e))).
  Proof. exact (proj1 (wf_eval e)). Qed.
End StateProofs.

Theorem operations_keep_wf :
  forall order, (forall l e, In e (order l) <-> In e l) ->
    wf order init /\
    (forall l, wf order (from_secrets order l)) /\
    (forall y s, wf order y -> wf order (insert order y s)) /\
    (forall y o, wf order y -> wf order (extend order y o)) /\
    (forall y i, wf order y -> wf order (fst (remove order y i))).
Proof.
  intros order H. split; [exact (wf_init order H)|]. split; [exact (wf_from order)|].
  split; [exact (wf_insert order)|]. split; [exact (wf_extend order)|exact (wf_remove order)].
Qed.

(** The latest secret does not depend on the order of insertions, on how bundles were merged,
    nor on the hash maps' iteration orders — for a *set* of secrets (one timestamp per id). *)
Theorem order_independent (order1 order2 : list secret -> list secret) :
  (forall l e, In e (order1 l) <-> In e l) -> (forall l e, In e (order2 l) <-> In e l) ->
  forall e1 e2,
    consistent (leaves e1 ++ leaves e2) ->
    (forall x, In x (leaves e1) <-> In x (leaves e2)) ->
    latest (eval order1 e1) = latest (eval order2 e2).
Proof.
  intros H1 H2 e1 e2 HC HS.
  rewrite (latest_eval order1 H1), (latest_eval order2 H2).
  apply find_latest_set_ext. intros x.
  rewrite H1, H2.
  rewrite (content_eval order1 H1 _ HC e1) by (intros; apply in_or_app; auto).
  rewrite (content_eval order2 H2 _ HC e2) by (intros; apply in_or_app; auto).
  apply HS.
Qed.

(** Without that proviso the claim fails: [HashMap::insert] replaces, so when the same key bytes
    arrive with two different timestamps the *last* one inserted survives. *)
Theorem order_dependent_on_conflicting_duplicates :
  exists e1 e2,
    (forall x, In x (leaves e1) <-> In x (leaves e2)) /\
    latest (eval (fun l => l) e1) <> latest (eval (fun l => l) e2).
Proof.
  exists (BIns (BIns (BIns BInit (1, 5)) (2, 3)) (1, 1)),
         (BIns (BIns (BIns BInit (1, 1)) (2, 3)) (1, 5)).
  split.
  - intros x. cbn [leaves app In]. tauto.
  - vm_compute. discriminate.
Qed.

(** Non-vacuity examples. *)
Example order_independent_example :
  let e1 := BExt (BIns (BIns BInit (7, 234)) (9, 234)) (BFrom [(3, 345); (4, 123)]) in
  let e2 := BIns (BExt (BFrom [(4, 123); (9, 234)]) (BIns BInit (3, 345))) (7, 234) in
  consistent (leaves e1 ++ leaves e2) /\ (forall x, In x (leaves e1) <-> In x (leaves e2)) /\
  latest (eval (fun l => l) e1) = Some 3 /\ latest (eval (@rev secret) e2) = Some 3.
Proof.
  cbv zeta. split; [|split; [|split; vm_compute; reflexivity]].
  - intros a b Ha Hb. cbn [leaves app In] in Ha, Hb.
    repeat (destruct Ha as [<-|Ha]; [repeat (destruct Hb as [<-|Hb]; [cbn; intros; (reflexivity || discriminate)|]); destruct Hb|]).
    destruct Ha.
  - intros x. cbn [leaves app In]. tauto.
Qed.

Example generated_example :
  let y := from_secrets (fun l => l) [(7, 234); (9, 5000)] in
  latest_ts y = 5000 /\ generate_ts y 1000 = Some 5001 /\
  generate_ts y 6000 = Some 6000.
Proof. vm_compute. auto. Qed.

Example generate_overflow_example :
  let y := from_secrets (fun l => l) [(7, U64MAX)] in
  latest_ts y = U64MAX /\ generate_ts y 1700000000 = None.
Proof. vm_compute. auto. Qed.
