(** Characterisation of the log store reference model (C08).  Definitions: Model/LogStore.v. *)
From Coq Require Import List NArith Bool Lia Permutation Sorted.
From PV Require Import Model.LogStore.
Import ListNotations.
Local Open Scope N_scope.

(** * Small facts *)

Lemma in_log_spec a l r : in_log a l r = true <-> r_author r = a /\ r_log r = l.
Proof. unfold in_log. rewrite andb_true_iff, !N.eqb_eq. tauto. Qed.

Lemma log_rows_spec s a l r : In r (log_rows s a l) <-> In r s /\ r_author r = a /\ r_log r = l.
Proof. unfold log_rows. rewrite filter_In, in_log_spec. tauto. Qed.

Lemma has_id_spec s id : has_id s id = true <-> exists r, In r s /\ r_id r = id.
Proof.
  unfold has_id. rewrite existsb_exists. split; intros [r [H1 H2]]; exists r; split; auto.
  - now apply N.eqb_eq. - now apply N.eqb_eq.
Qed.

Lemma has_id_false s id : has_id s id = false <-> forall r, In r s -> r_id r <> id.
Proof.
  split.
  - intros H r Hr E. assert (has_id s id = true) by (apply has_id_spec; eauto). congruence.
  - intros H. destruct (has_id s id) eqn:E; auto. apply has_id_spec in E. destruct E as [r [H1 H2]].
    exfalso. eapply H; eauto.
Qed.

Lemma filter_length_split {A} (f : A -> bool) (l : list A) :
  (length (filter f l) + length (filter (fun x => negb (f x)) l) = length l)%nat.
Proof. induction l as [|x l IH]; cbn [filter length]; auto. destruct (f x); cbn [negb length]; lia. Qed.

(** * max_seq / latest *)

Lemma max_seq_none rs : max_seq rs = None <-> rs = [].
Proof.
  destruct rs as [|r t]; cbn [max_seq]; split; intros H; auto; try discriminate.
  destruct (max_seq t); discriminate.
Qed.

Lemma max_seq_ge rs m : max_seq rs = Some m -> forall r, In r rs -> r_seq r <= m.
Proof.
  revert m. induction rs as [|x t IH]; intros m Hm r Hr; [inversion Hr|].
  cbn [max_seq] in Hm. destruct (max_seq t) as [m'|] eqn:E.
  - inversion Hm; subst. destruct Hr as [->|Hr]; [lia|]. specialize (IH m' eq_refl r Hr). lia.
  - inversion Hm; subst. apply max_seq_none in E. subst. destruct Hr as [->|[]]. lia.
Qed.

Lemma max_seq_attained rs m : max_seq rs = Some m -> exists r, In r rs /\ r_seq r = m.
Proof.
  revert m. induction rs as [|x t IH]; intros m Hm; [discriminate|].
  cbn [max_seq] in Hm. destruct (max_seq t) as [m'|] eqn:E.
  - inversion Hm; subst. destruct (N.max_spec (r_seq x) m') as [[_ ->]|[_ ->]].
    + destruct (IH m' eq_refl) as [r [H1 H2]]. exists r. split; [now right|auto].
    + exists x. split; [now left|auto].
  - inversion Hm; subst. exists x. split; [now left|auto].
Qed.

(** [r] is a row of log [(a,l)] with the largest seq_num of that log. *)
Definition is_latest (s : store) (a l : N) (r : row) : Prop :=
  In r s /\ r_author r = a /\ r_log r = l /\
  forall r', In r' s -> r_author r' = a -> r_log r' = l -> r_seq r' <= r_seq r.

Lemma latest_candidates_spec s a l r : In r (latest_candidates s a l) <-> is_latest s a l r.
Proof.
  unfold latest_candidates, is_latest. destruct (max_seq (log_rows s a l)) as [m|] eqn:E.
  - rewrite filter_In, log_rows_spec, N.eqb_eq. split.
    + intros [[H1 [H2 H3]] H4]. repeat split; auto. intros r' I1 I2 I3. rewrite H4.
      eapply max_seq_ge; eauto. apply log_rows_spec; auto.
    + intros [H1 [H2 [H3 H4]]]. repeat split; auto.
      destruct (max_seq_attained _ _ E) as [x [X1 X2]]. apply log_rows_spec in X1.
      destruct X1 as [X1 [X3 X4]]. specialize (H4 x X1 X3 X4).
      assert (r_seq r <= m) by (eapply max_seq_ge; eauto; apply log_rows_spec; auto). lia.
  - apply max_seq_none in E. split; [intros []|]. intros [H1 [H2 [H3 _]]].
    assert (In r (log_rows s a l)) by (apply log_rows_spec; auto). rewrite E in H. inversion H.
Qed.

Theorem latest_is_max : forall (s : store) (a l : N),
  (latest s a l = None <-> log_rows s a l = []) /\
  (forall r, latest s a l = Some r -> is_latest s a l r) /\
  (forall r, In r (latest_candidates s a l) <-> is_latest s a l r).
Proof.
  intros s a l. split; [|split].
  - unfold latest, latest_candidates. destruct (max_seq (log_rows s a l)) as [m|] eqn:E.
    + split; intros H.
      * exfalso. destruct (max_seq_attained _ _ E) as [x [X1 X2]].
        assert (In x (filter (fun r => r_seq r =? m) (log_rows s a l))).
        { apply filter_In. split; auto. now apply N.eqb_eq. }
        destruct (filter (fun r => r_seq r =? m) (log_rows s a l)); [inversion H0|discriminate].
      * rewrite H in E. discriminate.
    + apply max_seq_none in E. tauto.
  - intros r H. apply latest_candidates_spec. unfold latest in H.
    destruct (latest_candidates s a l); [discriminate|]. inversion H; subst. now left.
  - intros r. apply latest_candidates_spec.
Qed.

Example latest_is_max_ex :
  let s := [mkrow 0 1 2 0 104 0 false; mkrow 1 1 2 3 138 0 false; mkrow 2 1 2 3 172 5 true; mkrow 3 1 0 9 138 0 false] in
  latest s 1 2 = Some (mkrow 1 1 2 3 138 0 false) /\ length (latest_candidates s 1 2) = 2%nat /\ latest s 2 2 = None.
Proof. vm_compute. auto. Qed.

(** * heights *)

Lemma in_ins_key x l z : In z (ins_key x l) <-> z = x \/ In z l.
Proof.
  induction l as [|y t IH]; cbn [ins_key In]; [intuition|].
  destruct (x <? y); [cbn [In]; intuition|].
  destruct (x =? y) eqn:E.
  - apply N.eqb_eq in E. subst. cbn [In]. intuition.
  - cbn [In]. rewrite IH. intuition.
Qed.

Lemma in_sort_keys l z : In z (sort_keys l) <-> In z l.
Proof.
  induction l as [|x t IH]; cbn [sort_keys fold_right In]; [tauto|].
  fold (sort_keys t). rewrite in_ins_key, IH. intuition.
Qed.

Lemma ins_key_sorted x l : StronglySorted N.lt l -> StronglySorted N.lt (ins_key x l).
Proof.
  induction l as [|y t IH]; intros H; cbn [ins_key].
  - repeat constructor.
  - inversion H as [|? ? Ht Hy]; subst. destruct (x <? y) eqn:E1.
    + apply N.ltb_lt in E1. constructor; auto. constructor; auto.
      eapply Forall_impl; [|exact Hy]. cbn. intros. lia.
    + destruct (x =? y) eqn:E2; auto. apply N.ltb_ge in E1. apply N.eqb_neq in E2.
      constructor; auto. apply Forall_forall. intros z Hz. apply in_ins_key in Hz.
      destruct Hz as [->|Hz]; [lia|]. rewrite Forall_forall in Hy. auto.
Qed.

Lemma sort_keys_sorted l : StronglySorted N.lt (sort_keys l).
Proof.
  induction l as [|x t IH]; cbn [sort_keys fold_right]; [constructor|]. now apply ins_key_sorted.
Qed.

Lemma in_height_of s a l p : In p (height_of s a l) <-> fst p = l /\ max_seq (log_rows s a l) = Some (snd p).
Proof.
  unfold height_of. destruct p as [l' h]. cbn [fst snd]. destruct (max_seq (log_rows s a l)) as [m|].
  - cbn [In]. split; [intros [H|[]]; inversion H; auto|]. intros [-> H]. inversion H. auto.
  - cbn [In]. split; [tauto|]. intros [_ H]. discriminate.
Qed.

Definition heights_list (s : store) (a : N) (logs : list N) : list (N * N) :=
  flat_map (height_of s a) (sort_keys logs).

Lemma heights_unfold s a logs :
  heights s a logs = match heights_list s a logs with [] => None | hs => Some hs end.
Proof. reflexivity. Qed.

Lemma in_heights_list s a logs l h :
  In (l, h) (heights_list s a logs) <-> In l logs /\ max_seq (log_rows s a l) = Some h.
Proof.
  unfold heights_list. rewrite in_flat_map. split.
  - intros [x [H1 H2]]. apply in_height_of in H2. cbn [fst snd] in H2. destruct H2 as [-> H2].
    apply -> in_sort_keys in H1. auto.
  - intros [H1 H2]. exists l. split; [now apply in_sort_keys|]. apply in_height_of. auto.
Qed.

Lemma flat_map_keys_sorted s a ks :
  StronglySorted N.lt ks -> StronglySorted N.lt (map fst (flat_map (height_of s a) ks)).
Proof.
  induction ks as [|k t IH]; intros H; cbn [flat_map map]; [constructor|].
  inversion H as [|? ? Ht Hk]; subst. unfold height_of at 1.
  destruct (max_seq (log_rows s a k)) as [m|]; cbn [app map fst]; auto.
  constructor; auto. apply Forall_forall. intros z Hz. apply in_map_iff in Hz.
  destruct Hz as [[l h] [<- Hz]]. cbn [fst]. apply in_flat_map in Hz. destruct Hz as [x [X1 X2]].
  apply in_height_of in X2. cbn [fst] in X2. destruct X2 as [-> _]. rewrite Forall_forall in Hk. auto.
Qed.

(** The answer of [get_log_heights]: [None] exactly when none of the requested logs has a row
    (in particular for the empty list); otherwise the map log -> largest seq_num over exactly the
    requested logs that have rows, keys strictly ascending (a [BTreeMap]). *)
Theorem heights_spec : forall (s : store) (a : N) (logs : list N),
  heights s a [] = None /\
  (heights s a logs = None <-> forall l, In l logs -> log_rows s a l = []) /\
  (forall hs, heights s a logs = Some hs ->
     (forall l h, In (l, h) hs <-> In l logs /\ max_seq (log_rows s a l) = Some h) /\
     StronglySorted N.lt (map fst hs)).
Proof.
  intros s a logs. split; [reflexivity|]. split.
  - rewrite heights_unfold. split.
    + intros H l Hl. destruct (max_seq (log_rows s a l)) as [m|] eqn:E; [|now apply max_seq_none].
      assert (In (l, m) (heights_list s a logs)) by (apply in_heights_list; auto).
      destruct (heights_list s a logs); [inversion H0|discriminate].
    + intros H. destruct (heights_list s a logs) as [|[l h] t] eqn:E; auto. exfalso.
      assert (In (l, h) (heights_list s a logs)) by (rewrite E; now left).
      apply in_heights_list in H0. destruct H0 as [H1 H2]. rewrite (H l H1) in H2. discriminate.
  - intros hs H. rewrite heights_unfold in H.
    assert (hs = heights_list s a logs) by (destruct (heights_list s a logs); [discriminate|now inversion H]).
    subst. split; [intros; apply in_heights_list|]. apply flat_map_keys_sorted, sort_keys_sorted.
Qed.

Example heights_spec_ex :
  let s := [mkrow 0 1 2 0 104 0 false; mkrow 1 1 2 3 138 0 false; mkrow 2 1 0 7 172 5 true; mkrow 3 2 0 9 138 0 false] in
  heights s 1 [2; 0; 2; 5] = Some [(0, 7); (2, 3)] /\ heights s 1 [5] = None /\ heights s 1 [] = None.
Proof. vm_compute. auto. Qed.

(** * entries *)

Lemma in_range_spec af un q :
  in_range af un q = true <->
  (match af with None => True | Some x => x < q end) /\ q <= (match un with None => u32_max | Some u => u end).
Proof.
  unfold in_range. rewrite andb_true_iff, N.leb_le. destruct af as [x|].
  - rewrite N.ltb_lt. tauto.
  - rewrite N.leb_le. split; [tauto|]. intros [_ H]. split; [lia|auto].
Qed.

Lemma range_rows_spec s a l af un r :
  In r (range_rows s a l af un) <->
  In r s /\ r_author r = a /\ r_log r = l /\
  (match af with None => True | Some x => x < r_seq r end) /\
  r_seq r <= (match un with None => u32_max | Some u => u end).
Proof. unfold range_rows. rewrite filter_In, log_rows_spec, in_range_spec. tauto. Qed.

Lemma ins_row_perm x l : Permutation (ins_row x l) (x :: l).
Proof.
  induction l as [|y t IH]; cbn [ins_row]; auto. destruct (row_le x y); auto.
  eapply perm_trans; [apply perm_skip, IH|apply perm_swap].
Qed.

Lemma sort_rows_perm l : Permutation (sort_rows l) l.
Proof.
  induction l as [|x t IH]; cbn [sort_rows fold_right]; auto. fold (sort_rows t).
  eapply perm_trans; [apply ins_row_perm|]. now apply perm_skip.
Qed.

Definition seq_le (x y : row) : Prop := r_seq x <= r_seq y.

Lemma row_le_true x y : row_le x y = true -> seq_le x y.
Proof.
  unfold row_le, seq_le. rewrite orb_true_iff, andb_true_iff, N.ltb_lt, N.eqb_eq. intros [H|[H _]]; lia.
Qed.

Lemma row_le_false x y : row_le x y = false -> seq_le y x.
Proof.
  unfold row_le, seq_le. rewrite orb_false_iff, N.ltb_ge. intros [H _]. lia.
Qed.

Lemma ins_row_sorted x l : StronglySorted seq_le l -> StronglySorted seq_le (ins_row x l).
Proof.
  induction l as [|y t IH]; intros H; cbn [ins_row].
  - repeat constructor.
  - inversion H as [|? ? Ht Hy]; subst. destruct (row_le x y) eqn:E.
    + apply row_le_true in E. constructor; auto. constructor; auto.
      eapply Forall_impl; [|exact Hy]. unfold seq_le in *. intros. lia.
    + apply row_le_false in E. constructor; auto. apply Forall_forall. intros z Hz.
      apply (Permutation_in _ (ins_row_perm x t)) in Hz. destruct Hz as [<-|Hz]; auto.
      rewrite Forall_forall in Hy. auto.
Qed.

Lemma sort_rows_sorted l : StronglySorted seq_le (sort_rows l).
Proof.
  induction l as [|x t IH]; cbn [sort_rows fold_right]; [constructor|]. now apply ins_row_sorted.
Qed.

Definition entries_list (s : store) (a l : N) (af un : option N) : list row :=
  match entries s a l af un with None => [] | Some es => es end.

Lemma entries_list_eq s a l af un : entries_list s a l af un = sort_rows (range_rows s a l af un).
Proof. unfold entries_list, entries. destruct (sort_rows (range_rows s a l af un)); reflexivity. Qed.

(** [get_log_entries] returns exactly the rows of the log with [after < seq_num <= until]
    ([None] = no bound below / [u32::MAX] above), each once, in ascending seq_num order; the answer
    is [None] exactly when there is no such row. *)
Theorem entries_sorted_in_range : forall (s : store) (a l : N) (af un : option N),
  Permutation (entries_list s a l af un) (range_rows s a l af un) /\
  StronglySorted seq_le (entries_list s a l af un) /\
  (forall r, In r (entries_list s a l af un) <->
     In r s /\ r_author r = a /\ r_log r = l /\
     (match af with None => True | Some x => x < r_seq r end) /\
     r_seq r <= (match un with None => u32_max | Some u => u end)) /\
  (entries s a l af un = None <-> range_rows s a l af un = []) /\
  entries s a l af un <> Some [].
Proof.
  intros s a l af un. rewrite entries_list_eq.
  assert (P := sort_rows_perm (range_rows s a l af un)).
  split; [exact P|]. split; [apply sort_rows_sorted|]. split; [|split].
  - intros r. rewrite <- range_rows_spec. split; apply Permutation_in; auto. now apply Permutation_sym.
  - unfold entries. destruct (sort_rows (range_rows s a l af un)) eqn:E.
    + split; auto. intros _. apply Permutation_nil in P. auto.
    + split; [discriminate|]. intros H. rewrite H in P. apply Permutation_sym, Permutation_nil in P. discriminate.
  - unfold entries. destruct (sort_rows (range_rows s a l af un)); discriminate.
Qed.

Example entries_ex :
  let s := [mkrow 0 1 2 4 104 0 false; mkrow 1 1 2 3 138 0 true; mkrow 2 1 2 3 172 5 true; mkrow 3 1 2 0 138 0 false; mkrow 4 2 2 1 1 1 true] in
  option_map (map r_id) (entries s 1 2 (Some 0) (Some 3)) = Some [1; 2] /\
  option_map (map r_id) (entries s 1 2 None None) = Some [3; 1; 2; 0] /\
  entries s 1 2 (Some 3) (Some 3) = None.
Proof. vm_compute. auto. Qed.

(** * size *)

Lemma sumN_perm f l1 l2 : Permutation l1 l2 -> sumN f l1 = sumN f l2.
Proof. unfold sumN. induction 1; cbn [fold_right]; lia. Qed.

Lemma sumN_add f g l : sumN (fun r => f r + g r) l = sumN f l + sumN g l.
Proof. unfold sumN. induction l as [|x t IH]; cbn [fold_right]; lia. Qed.

(** [get_log_size] counts and sums exactly the rows [get_log_entries] returns for the same range
    (header bytes + claimed payload bytes, saturating at [u32::MAX]); it is never [None]; sums
    that do not fit [u32] are an error. *)
Theorem size_is_sum_of_entries : forall (s : store) (a l : N) (af un : option N),
  let es := entries_list s a l af un in
  let fits := (sumN r_hsize es <? two32) && (sumN r_psize es <? two32) && (N.of_nat (length es) <? two32) in
  size s a l af un =
    if fits then Val (Some (N.of_nat (length es), N.min (sumN (fun r => r_hsize r + r_psize r) es) u32_max))
    else Err.
Proof.
  intros s a l af un es fits. subst es fits.
  destruct (entries_sorted_in_range s a l af un) as [P _].
  rewrite (sumN_perm r_hsize _ _ P), (sumN_perm r_psize _ _ P), (sumN_perm _ _ _ P), (Permutation_length P).
  rewrite sumN_add. unfold size.
  set (h := sumN r_hsize _). set (p := sumN r_psize _). set (c := N.of_nat _).
  rewrite !N.ltb_antisym. destruct (two32 <=? h), (two32 <=? p), (two32 <=? c); reflexivity.
Qed.

Example size_ex :
  let s := [mkrow 0 1 2 0 104 0 false; mkrow 1 1 2 1 138 7 true; mkrow 2 1 2 2 142 4294967000 false] in
  size s 1 2 None (Some 1) = Val (Some (2, 249)) /\ size s 1 2 (Some 5) None = Val (Some (0, 0)) /\
  size s 1 2 None None = Val (Some (3, 4294967295)) /\
  size (mkrow 3 1 2 3 142 4294967295 false :: s) 1 2 None None = Err.
Proof. vm_compute. auto. Qed.

(** * prune and the other writes *)

Lemma prune_hit_spec a l u r : prune_hit a l u r = true <-> r_author r = a /\ r_log r = l /\ r_seq r < u.
Proof. unfold prune_hit. rewrite andb_true_iff, in_log_spec, N.ltb_lt. tauto. Qed.

(** [prune_entries] removes exactly the rows of that author's log with [seq_num < until], keeps
    the order of the others, and reports how many it removed. *)
Theorem prune_deletes_exactly_below : forall (s : store) (a l u : N),
  (forall r, In r (fst (prune s a l u)) <-> In r s /\ ~ (r_author r = a /\ r_log r = l /\ r_seq r < u)) /\
  (N.to_nat (snd (prune s a l u)) + length (fst (prune s a l u)) = length s)%nat /\
  (forall a' l', (a', l') <> (a, l) -> log_rows (fst (prune s a l u)) a' l' = log_rows s a' l') /\
  (forall af un, range_rows (fst (prune s a l u)) a l af un =
                 filter (fun r => negb (r_seq r <? u)) (range_rows s a l af un)).
Proof.
  intros s a l u. cbn [prune fst snd]. split; [|split; [|split]].
  - intros r. rewrite filter_In, negb_true_iff, <- not_true_iff_false, prune_hit_spec. tauto.
  - rewrite Nnat.Nat2N.id. apply filter_length_split.
  - intros a' l' Hne. unfold log_rows. induction s as [|x t IH]; cbn [filter]; auto.
    destruct (prune_hit a l u x) eqn:E; cbn [negb filter].
    + apply prune_hit_spec in E. destruct E as [E1 [E2 _]].
      destruct (in_log a' l' x) eqn:F; auto. apply in_log_spec in F. destruct F. exfalso. apply Hne. congruence.
    + destruct (in_log a' l' x); [f_equal|]; auto.
  - intros af un. unfold range_rows, log_rows. induction s as [|x t IH]; cbn [filter]; auto.
    unfold prune_hit at 1. destruct (in_log a l x) eqn:F; cbn [andb].
    + destruct (r_seq x <? u) eqn:G; cbn [negb filter]; rewrite ?F.
      * destruct (in_range af un (r_seq x)); cbn [filter]; rewrite ?G; cbn [negb]; auto.
      * cbn [filter]. destruct (in_range af un (r_seq x)); cbn [filter]; rewrite ?G; cbn [negb]; [f_equal|]; auto.
    + cbn [negb filter]. rewrite F. auto.
Qed.

Example prune_ex :
  let s := [mkrow 0 1 2 0 104 0 false; mkrow 1 1 2 1 138 7 true; mkrow 2 1 2 2 142 9 false; mkrow 3 1 0 0 104 0 false] in
  map r_id (fst (prune s 1 2 2)) = [2; 3] /\ snd (prune s 1 2 2) = 2 /\ snd (prune s 1 2 0) = 0.
Proof. vm_compute. auto. Qed.

(** INSERT OR IGNORE on the primary key, DELETE by key, UPDATE body = NULL by key. *)
Theorem writes_spec : forall (s : store) (r : row) (id : N),
  (snd (insert_or_ignore s r) = negb (has_id s (r_id r))) /\
  (forall x, In x (fst (insert_or_ignore s r)) <-> In x s \/ (has_id s (r_id r) = false /\ x = r)) /\
  (snd (delete s id) = has_id s id /\ forall x, In x (fst (delete s id)) <-> In x s /\ r_id x <> id) /\
  (snd (delete_payload s id) = has_id s id /\
   fst (delete_payload s id) = map (fun x => if r_id x =? id then drop_body x else x) s).
Proof.
  intros s r id. split; [|split; [|split]].
  - unfold insert_or_ignore. destruct (has_id s (r_id r)); reflexivity.
  - intros x. unfold insert_or_ignore. destruct (has_id s (r_id r)); cbn [fst].
    + split; [auto|]. intros [H|[H _]]; [auto|discriminate].
    + rewrite in_app_iff. cbn [In]. intuition.
  - cbn [delete fst snd]. split; auto. intros x. rewrite filter_In, negb_true_iff, N.eqb_neq. tauto.
  - cbn [delete_payload fst snd]. auto.
Qed.

Example writes_ex :
  let s := [mkrow 0 1 2 0 104 0 false; mkrow 1 1 2 1 138 7 true] in
  snd (insert_or_ignore s (mkrow 1 9 9 9 1 1 false)) = false /\ fst (insert_or_ignore s (mkrow 1 9 9 9 1 1 false)) = s /\
  snd (insert_or_ignore s (mkrow 2 1 0 0 104 0 false)) = true /\
  map r_id (fst (delete s 0)) = [1] /\ snd (delete s 5) = false /\
  map r_body (fst (delete_payload s 1)) = [false; false] /\ snd (delete_payload s 1) = true.
Proof. vm_compute. repeat split. Qed.

(** Keys stay unique under every command. *)
Definition ids_unique (s : store) : Prop := NoDup (map r_id s).

Lemma nodup_map_filter {A B} (f : A -> B) (p : A -> bool) l : NoDup (map f l) -> NoDup (map f (filter p l)).
Proof.
  induction l as [|x t IH]; cbn [map filter]; auto. intros H. inversion H as [|? ? Hn Ht]; subst.
  destruct (p x); cbn [map]; auto. constructor; auto. intros Hin. apply Hn.
  apply in_map_iff in Hin. destruct Hin as [y [<- Hy]]. apply filter_In in Hy. apply in_map. tauto.
Qed.

Lemma nodup_snoc {A} (l : list A) x : NoDup l -> ~ In x l -> NoDup (l ++ [x]).
Proof.
  induction l as [|y t IH]; cbn [app]; intros H Hn.
  - constructor; auto.
  - inversion H as [|? ? Hy Ht]; subst. constructor.
    + rewrite in_app_iff. cbn [In]. intros [I|[I|[]]]; [auto|]. subst. apply Hn. now left.
    + apply IH; auto. intros I. apply Hn. now right.
Qed.

Lemma step_ids_unique tab s it : ids_unique s -> ids_unique (fst (step tab s it)).
Proof.
  unfold ids_unique. intros H. destruct it; cbn [step]; auto.
  - destruct (nth_error tab (N.to_nat k)) as [o|]; auto. unfold insert_or_ignore.
    destruct (has_id s (r_id (row_of k o l))) eqn:E; cbn [fst]; auto.
    rewrite map_app. cbn [map]. apply nodup_snoc; auto. intros Hin.
    apply in_map_iff in Hin. destruct Hin as [y [Y1 Y2]]. rewrite has_id_false in E. eapply E; eauto.
  - cbn [delete fst]. now apply nodup_map_filter.
  - cbn [delete_payload fst]. rewrite map_map.
    erewrite map_ext; [exact H|]. intros x. destruct (r_id x =? k); reflexivity.
  - cbn [prune fst]. now apply nodup_map_filter.
Qed.

(** * Totality: no store call of the model panics *)

Theorem queries_total : forall (tab : list opdef) (s : store) (it : item), snd (step tab s it) <> OPanic.
Proof.
  intros tab s it. destruct it; cbn [step]; try discriminate.
  - destruct (nth_error tab (N.to_nat k)); [|discriminate].
    destruct (insert_or_ignore s (row_of k o l)); discriminate.
  - unfold size. destruct ((two32 <=? _) || _ || _); discriminate.
Qed.

Lemma run_never_panics tab its : forall s, ~ In OPanic (snd (run tab s its)).
Proof.
  induction its as [|it r IH]; intros s; cbn [run]; [intros []|].
  destruct (step tab s it) as [s1 o] eqn:E. specialize (IH s1).
  destruct (run tab s1 r) as [s2 os]. cbn [snd] in *. intros [H|H]; auto.
  pose proof (queries_total tab s it) as Q. rewrite E in Q. auto.
Qed.

Lemma run_ids_unique tab its : forall s, ids_unique s -> ids_unique (fst (run tab s its)).
Proof.
  induction its as [|it r IH]; intros s H; cbn [run]; auto.
  pose proof (step_ids_unique tab s it H) as H1. destruct (step tab s it) as [s1 o]. cbn [fst] in H1.
  specialize (IH s1 H1). destruct (run tab s1 r) as [s2 os]. auto.
Qed.

(** * History: the code before the two repairs panicked (regression witnesses, replayed on the
    implementation on every run: findings/C08-*.json) *)

Lemma heights_legacy_panics s a : heights_legacy s a [] = Panic.
Proof. reflexivity. Qed.

Lemma heights_legacy_agrees s a logs : logs <> [] -> heights_legacy s a logs = Val (heights s a logs).
Proof. destruct logs; [congruence|reflexivity]. Qed.

Lemma size_legacy_panics :
  size_legacy [mkrow 0 0 0 0 142 4294967295 false] 0 0 None None = Panic.
Proof. vm_compute. reflexivity. Qed.

Lemma size_legacy_agrees s a l af un :
  sumN r_hsize (range_rows s a l af un) + sumN r_psize (range_rows s a l af un) < two32 ->
  size_legacy s a l af un = size s a l af un.
Proof.
  intros H. unfold size_legacy, size.
  set (h := sumN r_hsize _) in *. set (p := sumN r_psize _) in *.
  destruct ((two32 <=? h) || (two32 <=? p) || _); auto.
  destruct (two32 <=? h + p) eqn:E; [apply N.leb_le in E; lia|].
  rewrite N.min_l; auto. unfold two32, u32_max in *. lia.
Qed.
