(** Proofs about the cursor / Acked model (Model/Cursor.v). *)
From Coq Require Import List Arith NArith Bool Lia Permutation.
From PV Require Import Model.Heights Model.Cursor Proofs.Heights Oracle.C06 Oracle.C07.
Import ListNotations.

(** Order on optional heights (Prop version of [Oracle.C07.ole]). *)
Definition ole_p (x y : option N) : Prop :=
  match x, y with
  | None, _ => True
  | Some a, Some b => (a <= b)%N
  | Some _, None => False
  end.

Lemma ole_p_refl x : ole_p x x.
Proof. destruct x; cbn [ole_p]; [lia|exact I]. Qed.

Lemma ole_p_trans x y z : ole_p x y -> ole_p y z -> ole_p x z.
Proof. destruct x, y, z; cbn [ole_p]; try tauto; lia. Qed.

Lemma ole_p_omax x h : ole_p x (omax x (Some h)).
Proof. destruct x; cbn [ole_p omax]; [lia|exact I]. Qed.

Lemma ole_spec x y : ole x y = true <-> ole_p x y.
Proof.
  destruct x, y; cbn [ole ole_p]; try tauto.
  - apply N.leb_le.
  - split; [discriminate|tauto].
Qed.

(** * [Cursor::advance] *)

Lemma advance_name c a l h : cname (advance c a l h) = cname c.
Proof.
  unfold advance. destruct (log_height c a l) as [cur|]; [|reflexivity].
  destruct (N.leb h cur); reflexivity.
Qed.

(** One call: the advanced log goes to the maximum, every other log is untouched. *)
Lemma advance_lookup c a l h a' l' :
  lookup2 (cstate (advance c a l h)) a' l' =
  if N.eqb a' a && N.eqb l' l then omax (lookup2 (cstate c) a l) (Some h)
  else lookup2 (cstate c) a' l'.
Proof.
  unfold advance, log_height.
  destruct (lookup2 (cstate c) a l) as [cur|] eqn:E.
  - destruct (N.leb_spec h cur) as [Hle|Hgt].
    + destruct (N.eqb a' a && N.eqb l' l) eqn:Ek; [|reflexivity].
      apply andb_true_iff in Ek. destruct Ek as [Ea El].
      apply N.eqb_eq in Ea, El. subst. rewrite E. cbn [omax]. f_equal. lia.
    + cbn [cstate]. rewrite lookup2_set2.
      destruct (N.eqb a' a && N.eqb l' l); [|reflexivity].
      cbn [omax]. f_equal. lia.
  - cbn [cstate]. rewrite lookup2_set2.
    destruct (N.eqb a' a && N.eqb l' l); reflexivity.
Qed.

Definition pmax_step (a l : N) (acc : option N) (x : adv) : option N :=
  if N.eqb (fst (fst x)) a && N.eqb (snd (fst x)) l then omax acc (Some (snd x)) else acc.

Lemma pointwise_max_fold st xs a l :
  pointwise_max st xs a l = fold_left (pmax_step a l) xs (lookup2 st a l).
Proof. reflexivity. Qed.

Lemma advance_all_fold :
  forall xs c a l,
    lookup2 (cstate (advance_all c xs)) a l = fold_left (pmax_step a l) xs (lookup2 (cstate c) a l).
Proof.
  unfold advance_all.
  induction xs as [|[[a0 l0] h0] r IH]; intros c a l; [reflexivity|].
  cbn [fold_left fst snd]. rewrite IH. f_equal.
  rewrite advance_lookup. unfold pmax_step. cbn [fst snd].
  rewrite (N.eqb_sym a0 a), (N.eqb_sym l0 l).
  destruct (N.eqb a a0 && N.eqb l l0) eqn:Ek; [|reflexivity].
  apply andb_true_iff in Ek. destruct Ek as [Ea El]. apply N.eqb_eq in Ea, El. subst. reflexivity.
Qed.

(** The cursor's state is the pointwise maximum of everything it was advanced to. *)
Theorem advance_is_max :
  forall (c : cursor) (xs : list adv) (a l : N),
    lookup2 (cstate (advance_all c xs)) a l = pointwise_max (cstate c) xs a l.
Proof. intros c xs a l. rewrite advance_all_fold. reflexivity. Qed.

Lemma pmax_step_comm a l acc x y :
  pmax_step a l (pmax_step a l acc x) y = pmax_step a l (pmax_step a l acc y) x.
Proof.
  unfold pmax_step.
  destruct (N.eqb (fst (fst x)) a && N.eqb (snd (fst x)) l);
    destruct (N.eqb (fst (fst y)) a && N.eqb (snd (fst y)) l); try reflexivity.
  destruct acc; cbn [omax]; f_equal; lia.
Qed.

Lemma pmax_fold_perm a l xs ys :
  Permutation xs ys -> forall acc, fold_left (pmax_step a l) xs acc = fold_left (pmax_step a l) ys acc.
Proof.
  induction 1 as [|x xs ys Hp IH|x y xs|xs ys zs H1 IH1 H2 IH2]; intros acc.
  - reflexivity.
  - cbn [fold_left]. apply IH.
  - cbn [fold_left]. rewrite pmax_step_comm. reflexivity.
  - rewrite IH1. apply IH2.
Qed.

(** ... independent of the order of the advances. *)
Theorem advance_perm :
  forall (c : cursor) (xs ys : list adv) (a l : N),
    Permutation xs ys ->
    lookup2 (cstate (advance_all c xs)) a l = lookup2 (cstate (advance_all c ys)) a l.
Proof. intros c xs ys a l Hp. rewrite !advance_all_fold. apply pmax_fold_perm, Hp. Qed.

Lemma pmax_step_mono a l acc x : ole_p acc (pmax_step a l acc x).
Proof.
  unfold pmax_step. destruct (N.eqb (fst (fst x)) a && N.eqb (snd (fst x)) l).
  - apply ole_p_omax.
  - apply ole_p_refl.
Qed.

Lemma pmax_fold_mono a l xs : forall acc, ole_p acc (fold_left (pmax_step a l) xs acc).
Proof.
  induction xs as [|x r IH]; intros acc; cbn [fold_left]; [apply ole_p_refl|].
  eapply ole_p_trans; [apply pmax_step_mono|apply IH].
Qed.

(** No sequence of advances lowers or removes any height. *)
Theorem advance_monotone :
  forall (c : cursor) (xs : list adv) (a l : N),
    ole_p (lookup2 (cstate c) a l) (lookup2 (cstate (advance_all c xs)) a l).
Proof. intros c xs a l. rewrite advance_all_fold. apply pmax_fold_mono. Qed.

(** The height an advance asked for is reached (or exceeded). *)
Theorem advance_reaches :
  forall (c : cursor) (a l h : N), ole_p (Some h) (lookup2 (cstate (advance c a l h)) a l).
Proof.
  intros c a l h. rewrite advance_lookup, !N.eqb_refl. cbn [andb].
  destruct (lookup2 (cstate c) a l); cbn [omax ole_p]; lia.
Qed.

(** * Cursor store and [Acked::ack] *)

(** What the store holds for cursor [name] at log [(a, l)]. *)
Definition stored (s : cstore) (name a l : N) : option N :=
  match alookup name s with
  | Some st => lookup2 st a l
  | None => None
  end.

Lemma acked_cursor_lookup s k a l : lookup2 (cstate (acked_cursor s k)) a l = stored s (aname k) a l.
Proof.
  unfold acked_cursor, get_cursor, stored. destruct (alookup (aname k) s); reflexivity.
Qed.

Lemma acked_cursor_name s k : cname (acked_cursor s k) = aname k.
Proof. unfold acked_cursor, get_cursor. destruct (alookup (aname k) s); reflexivity. Qed.

Lemma stored_set_cursor s c n a l :
  stored (set_cursor s c) n a l = if N.eqb n (cname c) then lookup2 (cstate c) a l else stored s n a l.
Proof.
  unfold stored, set_cursor. rewrite alookup_ainsert. destruct (N.eqb n (cname c)); reflexivity.
Qed.

(** An operation of a different topic is rejected and nothing is written. *)
Theorem ack_foreign_rejected :
  forall (s : cstore) (k : acked) (h : header),
    hlog h <> log_id_of_topic (atopic k) -> ack s k h = (s, AckInvalidTopic).
Proof.
  intros s k h Hne. unfold ack, topic_ok.
  destruct (N.eqb (log_id_of_topic (atopic k)) (hlog h)) eqn:E; [|reflexivity].
  apply N.eqb_eq in E. congruence.
Qed.

Theorem ack_own_accepted :
  forall (s : cstore) (k : acked) (h : header),
    hlog h = log_id_of_topic (atopic k) -> snd (ack s k h) = AckOk.
Proof.
  intros s k h He. unfold ack, topic_ok. rewrite He, N.eqb_refl. reflexivity.
Qed.

(** Effect of one [ack] on every stored cursor entry. *)
Lemma ack_stored s k h n a l :
  stored (fst (ack s k h)) n a l =
  if topic_ok k h && N.eqb n (aname k) && N.eqb a (hauthor h) && N.eqb l (hlog h)
  then omax (stored s n a l) (Some (hseq h))
  else stored s n a l.
Proof.
  unfold ack. destruct (topic_ok k h) eqn:Et; cbn [negb andb fst]; [|reflexivity].
  rewrite stored_set_cursor, advance_name, acked_cursor_name.
  destruct (N.eqb n (aname k)) eqn:En; cbn [andb]; [|reflexivity].
  apply N.eqb_eq in En. subst n.
  rewrite advance_lookup, !acked_cursor_lookup.
  destruct (N.eqb a (hauthor h) && N.eqb l (hlog h)) eqn:Ek; [|reflexivity].
  apply andb_true_iff in Ek. destruct Ek as [Ea El]. apply N.eqb_eq in Ea, El. subst. reflexivity.
Qed.

(** Acknowledging never moves any persisted cursor backwards — whichever instance acks,
    whatever it acks. *)
Theorem ack_monotone :
  forall (s : cstore) (k : acked) (h : header) (n a l : N),
    ole_p (stored s n a l) (stored (fst (ack s k h)) n a l).
Proof.
  intros s k h n a l. rewrite ack_stored.
  destruct (topic_ok k h && N.eqb n (aname k) && N.eqb a (hauthor h) && N.eqb l (hlog h)).
  - apply ole_p_omax.
  - apply ole_p_refl.
Qed.

Theorem ack_all_monotone :
  forall (ops : list (acked * header)) (s : cstore) (n a l : N),
    ole_p (stored s n a l) (stored (ack_all s ops) n a l).
Proof.
  unfold ack_all. induction ops as [|[k h] r IH]; intros s n a l; cbn [fold_left fst snd].
  - apply ole_p_refl.
  - eapply ole_p_trans; [apply ack_monotone|apply IH].
Qed.

(** What an accepted ack does: the acked operation's log reaches at least its seq_num. *)
Theorem ack_reaches :
  forall (s : cstore) (k : acked) (h : header),
    hlog h = log_id_of_topic (atopic k) ->
    ole_p (Some (hseq h)) (stored (fst (ack s k h)) (aname k) (hauthor h) (hlog h)).
Proof.
  intros s k h He. rewrite ack_stored. unfold topic_ok. rewrite He, !N.eqb_refl. cbn [andb].
  destruct (stored s (aname k) (hauthor h) (log_id_of_topic (atopic k))); cbn [omax ole_p]; lia.
Qed.

Theorem ack_accepts_and_reaches :
  forall (s : cstore) (k : acked) (h : header),
    hlog h = log_id_of_topic (atopic k) ->
    snd (ack s k h) = AckOk /\
    ole_p (Some (hseq h)) (stored (fst (ack s k h)) (aname k) (hauthor h) (hlog h)).
Proof. intros s k h He. split; [exact (ack_own_accepted s k h He)|exact (ack_reaches s k h He)]. Qed.

(** Specification of a whole history: maximum over the accepted acks made under that name. *)
Definition ack_step_spec (n a l : N) (acc : option N) (op : acked * header) : option N :=
  if topic_ok (fst op) (snd op) && N.eqb n (aname (fst op)) && N.eqb a (hauthor (snd op)) && N.eqb l (hlog (snd op))
  then omax acc (Some (hseq (snd op)))
  else acc.

Theorem ack_all_is_max :
  forall (ops : list (acked * header)) (s : cstore) (n a l : N),
    stored (ack_all s ops) n a l = fold_left (ack_step_spec n a l) ops (stored s n a l).
Proof.
  unfold ack_all. induction ops as [|[k h] r IH]; intros s n a l; cbn [fold_left fst snd]; [reflexivity|].
  rewrite IH. f_equal. rewrite ack_stored. reflexivity.
Qed.

(** Topic scoping: if every instance using cursor name [n] tracks topic [t], then entries of
    that cursor for logs of other topics never change. *)
Theorem ack_only_own_topic :
  forall (ops : list (acked * header)) (s : cstore) (n t a l : N),
    (forall op, In op ops -> aname (fst op) = n -> atopic (fst op) = t) ->
    l <> log_id_of_topic t ->
    stored (ack_all s ops) n a l = stored s n a l.
Proof.
  intros ops s n t a l Hall Hl. rewrite ack_all_is_max.
  assert (Hstep : forall acc op, In op ops -> ack_step_spec n a l acc op = acc).
  { intros acc op Hin. unfold ack_step_spec, topic_ok.
    destruct (N.eqb (log_id_of_topic (atopic (fst op))) (hlog (snd op))) eqn:Et; cbn [andb]; [|reflexivity].
    destruct (N.eqb n (aname (fst op))) eqn:En; cbn [andb]; [|reflexivity].
    destruct (N.eqb l (hlog (snd op))) eqn:El; [|rewrite andb_false_r; reflexivity].
    apply N.eqb_eq in Et, En, El. exfalso. apply Hl.
    rewrite El, <- Et. f_equal. apply (Hall op Hin). symmetry. exact En. }
  revert Hstep. generalize (stored s n a l) as acc. clear Hall.
  induction ops as [|op r IH]; intros acc Hstep; cbn [fold_left]; [reflexivity|].
  rewrite (Hstep acc op (or_introl eq_refl)). apply IH.
  intros acc' op' Hin. apply Hstep. right. exact Hin.
Qed.

(** Outside the property's quantifier, recorded: two separately constructed [Acked] values for
    the same cursor name do not share a semaphore, so their read-advance-write sequences can
    interleave and the later write can carry the smaller height (lost update). *)
Example two_instances_can_regress :
  let k1 := {| aname := 7; atopic := 1 |}%N in
  let k2 := {| aname := 7; atopic := 1 |}%N in
  let h3 := {| hauthor := 0; hlog := 1; hseq := 3 |}%N in
  let h5 := {| hauthor := 0; hlog := 1; hseq := 5 |}%N in
  exists c1 c2,
    ack_read [] k1 h3 = Some c1 /\ ack_read [] k2 h5 = Some c2 /\
    stored (ack_write [] c2) 7%N 0%N 1%N = Some 5%N /\
    stored (ack_write (ack_write [] c2) c1) 7%N 0%N 1%N = Some 3%N.
Proof. cbv zeta. eexists. eexists. repeat split. Qed.

(** Sequentially composed (what one instance's semaphore enforces) the same two acks give 5. *)
Example same_acks_sequentially :
  let k := {| aname := 7; atopic := 1 |}%N in
  let h3 := {| hauthor := 0; hlog := 1; hseq := 3 |}%N in
  let h5 := {| hauthor := 0; hlog := 1; hseq := 5 |}%N in
  stored (ack_all [] [(k, h5); (k, h3)]) 7%N 0%N 1%N = Some 5%N /\
  ack_all [] [(k, h5); (k, h3)] = ack_write (fst (ack [] k h5)) (advance (acked_cursor (fst (ack [] k h5)) k) 0 1 3)%N.
Proof. vm_compute. split; reflexivity. Qed.

(** * Soundness of the [adv] oracle: a passing final state is the pointwise maximum everywhere. *)

Lemma pmax_fold_nokey a l xs :
  ~ In (a, l) (map adv_key xs) -> forall acc, fold_left (pmax_step a l) xs acc = acc.
Proof.
  induction xs as [|x r IH]; intros Hn acc; cbn [fold_left]; [reflexivity|].
  cbn [map] in Hn. rewrite IH; [|intros Hin; apply Hn; right; exact Hin].
  unfold pmax_step.
  destruct (N.eqb (fst (fst x)) a && N.eqb (snd (fst x)) l) eqn:Ek; [|reflexivity].
  apply andb_true_iff in Ek. destruct Ek as [Ea El]. apply N.eqb_eq in Ea, El.
  exfalso. apply Hn. left. unfold adv_key. rewrite Ea, El. reflexivity.
Qed.

Lemma in_pairs_dec (ks : list (N * N)) (k : N * N) : In k ks \/ ~ In k ks.
Proof.
  destruct (in_dec (fun x y : N * N =>
    match N.eq_dec (fst x) (fst y), N.eq_dec (snd x) (snd y) with
    | left e1, left e2 => left (match x, y return fst x = fst y -> snd x = snd y -> x = y with
                               | (x1, x2), (y1, y2) => fun p q => f_equal2 pair p q end e1 e2)
    | right n, _ => right (fun e => n (f_equal fst e))
    | _, right n => right (fun e => n (f_equal snd e))
    end) k ks); [left|right]; assumption.
Qed.

Theorem check_adv_sound :
  forall (init : heights) (xs : list adv) (seen : list (option N)) (final : heights),
    check_adv init xs seen final = true ->
    forall a l, lookup2 final a l = pointwise_max init xs a l.
Proof.
  intros init xs seen final. unfold check_adv. rewrite !andb_true_iff, forallb_forall.
  intros [[_ _] Hall] a l.
  destruct (in_pairs_dec (pairs init ++ map adv_key xs ++ pairs final) (a, l)) as [Hin|Hn].
  - apply oN_eqb_eq. exact (Hall (a, l) Hin).
  - assert (H1 : ~ In (a, l) (pairs init)) by (intros H; apply Hn, in_or_app; left; exact H).
    assert (H2 : ~ In (a, l) (map adv_key xs))
      by (intros H; apply Hn, in_or_app; right; apply in_or_app; left; exact H).
    assert (H3 : ~ In (a, l) (pairs final))
      by (intros H; apply Hn, in_or_app; right; apply in_or_app; right; exact H).
    rewrite pointwise_max_fold, (pmax_fold_nokey a l xs H2).
    destruct (lookup2 final a l) as [v|] eqn:Ef; [exfalso; apply H3, (lookup2_in_pairs _ _ _ _ Ef)|].
    destruct (lookup2 init a l) as [v|] eqn:Ei; [exfalso; apply H1, (lookup2_in_pairs _ _ _ _ Ei)|].
    reflexivity.
Qed.

(** * Non-vacuity *)

Definition ex_c : cursor := cursor_new 0 [(0, [(0, 4)]); (2, [(1, 1)])]%N.
Definition ex_xs : list adv := [(0, 0, 2); (1, 3, 7); (0, 0, 9); (1, 3, 5); (2, 1, 1)]%N.

Example ex_advance :
  cstate (advance_all ex_c ex_xs) = [(0, [(0, 9)]); (1, [(3, 7)]); (2, [(1, 1)])]%N /\
  Permutation ex_xs (rev ex_xs) /\
  cstate (advance_all ex_c (rev ex_xs)) = cstate (advance_all ex_c ex_xs).
Proof. split; [vm_compute; reflexivity|]. split; [apply Permutation_rev|vm_compute; reflexivity]. Qed.

Definition ex_insts : list acked := [{| aname := 10; atopic := 0 |}; {| aname := 11; atopic := 1 |}]%N.
Definition ex_ops : list (nat * header) :=
  [(0%nat, {| hauthor := 0; hlog := 0; hseq := 4 |});
   (0%nat, {| hauthor := 0; hlog := 1; hseq := 9 |});
   (1%nat, {| hauthor := 0; hlog := 1; hseq := 2 |});
   (0%nat, {| hauthor := 0; hlog := 0; hseq := 1 |})]%N.

Example ex_ack :
  map fst (run_acks ex_insts [] ex_ops) = [AckOk; AckInvalidTopic; AckOk; AckOk] /\
  check_ack ex_insts ex_ops (run_acks ex_insts [] ex_ops) = true /\
  check_adv (cstate ex_c) ex_xs (seen_of ex_c ex_xs) (cstate (advance_all ex_c ex_xs)) = true.
Proof. vm_compute. repeat split. Qed.

Example ex_foreign :
  let k := {| aname := 10; atopic := 0 |}%N in
  let h := {| hauthor := 0; hlog := 1; hseq := 9 |}%N in
  hlog h <> log_id_of_topic (atopic k).
Proof. cbv. discriminate. Qed.
