(** Proofs about the task tracker transition system (Model/Tasks.v).

    - [measure_decreases], [traces_bounded]: every step strictly decreases [measure], so every
      trace from the initial state has at most [10 * n] steps (no infinite trace, both orders).
    - [Inv]: the invariant (safety part for both orders, the wake-up clause [i_I2] for the
      repaired order only); [inv_init], [inv_step], [inv_exec].
    - [result_is_own]: safety, both orders.
    - [deadlock_free]: repaired order, some step is enabled while a submitter has not returned.
    - [every_maximal_trace_returns], [can_always_complete]: repaired order.
    - [asis_order_deadlocks]: the order before the repair reaches a state where the submitter
      waits forever (the schedule the harness replays). *)
From Coq Require Import List Arith Bool Lia.
From PV Require Import Model.Tasks.
Import ListNotations.

(** * Basics *)

Lemma upd_eq : forall A (f : nat -> A) k v, upd f k v k = v.
Proof. intros. unfold upd. rewrite Nat.eqb_refl. reflexivity. Qed.

Lemma upd_neq : forall A (f : nat -> A) k v x, x <> k -> upd f k v x = f x.
Proof. intros A f k v x H. unfold upd. destruct (Nat.eqb x k) eqn:E; [apply Nat.eqb_eq in E; contradiction|reflexivity]. Qed.

Lemma tlookup_remove_same : forall id l, tlookup id (tremove id l) = None.
Proof.
  intros id. induction l as [|[k t] l IH]; [reflexivity|].
  unfold tremove in *. cbn [filter fst]. destruct (Nat.eqb id k) eqn:E; cbn [negb]; [exact IH|].
  cbn [tlookup]. rewrite E. exact IH.
Qed.

Lemma tlookup_remove_neq : forall id id' l, id' <> id -> tlookup id' (tremove id l) = tlookup id' l.
Proof.
  intros id id' l H. induction l as [|[k t] l IH]; [reflexivity|].
  unfold tremove in *. cbn [filter fst]. destruct (Nat.eqb id k) eqn:E; cbn [negb tlookup].
  - apply Nat.eqb_eq in E. subst k. destruct (Nat.eqb id' id) eqn:E2; [apply Nat.eqb_eq in E2; contradiction|exact IH].
  - destruct (Nat.eqb id' k); [reflexivity|exact IH].
Qed.

(** * Termination measure *)

Lemma sumf_ext : forall n f g, (forall i, i < n -> f i = g i) -> sumf n f = sumf n g.
Proof. induction n as [|n IH]; intros f g H; cbn [sumf]; [reflexivity|]. rewrite (IH f g), H by auto. reflexivity. Qed.

Lemma sumf_upd : forall n (f : nat -> spc) i v, i < n ->
  sumf n (fun k => wsub (upd f i v k)) + wsub (f i) = sumf n (fun k => wsub (f k)) + wsub v.
Proof.
  induction n as [|n IH]; intros f i v H; [lia|]. cbn [sumf].
  destruct (Nat.eq_dec i n) as [->|Hne].
  - rewrite upd_eq. rewrite (sumf_ext n (fun k => wsub (upd f n v k)) (fun k => wsub (f k))).
    + lia.
    + intros k Hk. rewrite upd_neq by lia. reflexivity.
  - rewrite (upd_neq _ f i v n) by lia. specialize (IH f i v ltac:(lia)). lia.
Qed.

Lemma measure_set_sub : forall ids s i p, i < List.length ids ->
  measure ids (set_sub s i p) + wsub (subs s i) = measure ids s + wsub p.
Proof.
  intros ids s i p H. unfold measure. cbn [set_sub subs queue pipe].
  pose proof (sumf_upd (List.length ids) (subs s) i p H). lia.
Qed.

Lemma measure_decreases : forall rep ids s l s1, stepb rep ids s l = Some s1 -> measure ids s1 < measure ids s.
Proof.
  intros rep ids s l s1 H. destruct l as [i|]; cbn [stepb] in H.
  - destruct (Nat.ltb i (List.length ids)) eqn:Hi; [|discriminate]. apply Nat.ltb_lt in Hi.
    unfold step_sub in H. destruct (subs s i) eqn:Es.
    + destruct (locked s); [discriminate|]. destruct (tlookup (idof ids i) (tracker s)).
      * inversion H; subst. pose proof (measure_set_sub ids s i (S1 n) Hi). rewrite Es in *. cbn [wsub] in *. lia.
      * inversion H; subst. unfold measure. cbn [subs queue pipe].
        pose proof (sumf_upd (List.length ids) (subs s) i (S1 (ntasks s)) Hi). rewrite Es in *. cbn [wsub] in *. lia.
    + inversion H; subst. unfold measure. cbn [subs queue pipe]. rewrite app_length. cbn [List.length].
      pose proof (sumf_upd (List.length ids) (subs s) i (S2 t) Hi). rewrite Es in *. cbn [wsub] in *. lia.
    + destruct rep; [|destruct (res_of s t)]; inversion H; subst;
        match goal with |- measure _ (set_sub _ _ ?p) < _ => pose proof (measure_set_sub ids s i p Hi) end;
        rewrite Es in *; cbn [wsub] in *; lia.
    + destruct rep; [discriminate|]. inversion H; subst.
      match goal with |- measure _ (set_sub _ _ ?p) < _ => pose proof (measure_set_sub ids s i p Hi) end;
        rewrite Es in *; cbn [wsub] in *; lia.
    + destruct rep; [|discriminate]. destruct (res_of s t); inversion H; subst;
        match goal with |- measure _ (set_sub _ _ ?p) < _ => pose proof (measure_set_sub ids s i p Hi) end;
        rewrite Es in *; cbn [wsub] in *; lia.
    + destruct (Nat.ltb e (epoch_of s t)); [|discriminate]. inversion H; subst.
      match goal with |- measure _ (set_sub _ _ ?p) < _ => pose proof (measure_set_sub ids s i p Hi) end;
        rewrite Es in *; cbn [wsub] in *; lia.
    + destruct (res_of s t); [|discriminate]. inversion H; subst.
      match goal with |- measure _ (set_sub _ _ ?p) < _ => pose proof (measure_set_sub ids s i p Hi) end;
        rewrite Es in *; cbn [wsub] in *; lia.
    + discriminate.
  - unfold step_pipe in H. destruct (pipe s) eqn:Ep.
    + destruct (queue s) as [|[id r] q] eqn:Eq; [discriminate|]. inversion H; subst.
      unfold measure. cbn [subs queue pipe wpipe]. rewrite Ep, Eq. cbn [List.length wpipe]. lia.
    + destruct (locked s); [discriminate|]. destruct (tlookup id (tracker s)); inversion H; subst;
        unfold measure; cbn [subs queue pipe wpipe]; rewrite Ep; cbn [wpipe]; lia.
    + inversion H; subst. unfold measure; cbn [subs queue pipe wpipe]; rewrite Ep; cbn [wpipe]; lia.
    + inversion H; subst. unfold measure; cbn [subs queue pipe wpipe]; rewrite Ep; cbn [wpipe]; lia.
Qed.

Lemma exec_measure : forall rep ids s tr s', exec rep ids s tr s' -> List.length tr + measure ids s' <= measure ids s.
Proof.
  intros rep ids s tr s' H. induction H as [s|s l s1 tr s2 Hs _ IH]; cbn [List.length]; [lia|].
  apply measure_decreases in Hs. lia.
Qed.

Lemma sumf_const : forall n c, sumf n (fun _ => c) = n * c.
Proof. induction n as [|n IH]; intros c; cbn [sumf]; [reflexivity|]. rewrite IH. lia. Qed.

Lemma measure_init : forall ids, measure ids init = 10 * List.length ids.
Proof. intros ids. unfold measure, init. cbn [subs queue pipe wsub wpipe List.length]. rewrite sumf_const. lia. Qed.

(** No trace from the initial state is longer than [10 * n]: there is no infinite trace, under
    any scheduler, fair or not. *)
Theorem traces_bounded : forall rep ids tr s, exec rep ids init tr s -> List.length tr <= 10 * List.length ids.
Proof. intros rep ids tr s H. apply exec_measure in H. rewrite measure_init in H. lia. Qed.

(** * The invariant *)

Definition sub_task (p : spc) : option nat :=
  match p with S1 t | S2 t | S3 t | S3r t _ | S4 t _ | S5 t => Some t | _ => None end.
Definition pipe_locks (p : ppc) : bool := match p with P2 _ _ | P3 _ => true | _ => false end.

(** A task instance is *owned* while it can still be completed: it is the tracker's entry for
    its id, or the pipeline has taken it and is about to set its result. *)
Definition owned (s : state) (t : nat) : Prop :=
  tlookup (t_id (tasks s t)) (tracker s) = Some t \/ exists r, pipe s = P2 t r.

(** An event for [id] is still on its way to [mark_as_done] (I1 of DESIGN Appendix B). *)
Definition pending (ids : list nat) (s : state) (id : nat) : Prop :=
  (exists r, In (id, r) (queue s)) \/ (exists r, pipe s = P1 id r) \/
  (exists j t, j < List.length ids /\ subs s j = S1 t /\ idof ids j = id).

Record Inv (rep : bool) (ids : list nat) (s : state) : Prop := {
  i_lock : locked s = pipe_locks (pipe s);
  i_sub_valid : forall i t, i < List.length ids -> sub_task (subs s i) = Some t ->
                  t < ntasks s /\ t_id (tasks s t) = idof ids i;
  i_trk_valid : forall id t, tlookup id (tracker s) = Some t -> t < ntasks s /\ t_id (tasks s t) = id;
  i_pipe_valid : match pipe s with
                 | P0 => True
                 | P1 id r => r < List.length ids /\ idof ids r = id
                 | P2 t r => t < ntasks s /\ r < List.length ids /\ idof ids r = t_id (tasks s t)
                 | P3 t => t < ntasks s /\ t_res (tasks s t) <> None
                 end;
  i_queue_valid : forall id r, In (id, r) (queue s) -> r < List.length ids /\ idof ids r = id;
  i_res_own : forall t r, t < ntasks s -> t_res (tasks s t) = Some r ->
                r < List.length ids /\ idof ids r = t_id (tasks s t);
  i_done_own : forall i r, i < List.length ids -> subs s i = SDone r ->
                 r < List.length ids /\ idof ids r = idof ids i;
  i_epoch_res : forall t, t < ntasks s -> 0 < t_epoch (tasks s t) -> t_res (tasks s t) <> None;
  i_s5 : forall i t, i < List.length ids -> subs s i = S5 t -> 0 < t_epoch (tasks s t);
  i_snap : forall i t e, i < List.length ids -> (subs s i = S3r t e \/ subs s i = S4 t e) ->
             e <= t_epoch (tasks s t);
  i_J : forall t, t < ntasks s -> t_res (tasks s t) <> None \/ owned s t;
  i_I2 : rep = true -> forall i t e, i < List.length ids -> subs s i = S4 t e ->
           e < t_epoch (tasks s t) \/ (t_res (tasks s t) = None /\ owned s t) \/ pipe s = P3 t;
  i_I1 : forall id t, tlookup id (tracker s) = Some t -> pending ids s id;
  i_order : forall i t, i < List.length ids -> subs s i = S3 t -> rep = false }.

Lemma inv_init : forall rep ids, Inv rep ids init.
Proof.
  intros rep ids. constructor; cbn [init locked pipe pipe_locks subs sub_task tracker tlookup queue ntasks tasks t_res t_epoch In];
    intros; try discriminate; try contradiction; try lia; auto.
  destruct H0; discriminate.
Qed.

(** Submitter steps that only move the submitter's own program counter. *)
Lemma inv_set_sub : forall rep ids s i p,
  Inv rep ids s -> i < List.length ids ->
  (forall t, p = S3 t -> rep = false) ->
  (forall t, subs s i <> S1 t) ->
  (forall t, sub_task p = Some t -> t < ntasks s /\ t_id (tasks s t) = idof ids i) ->
  (forall r, p = SDone r -> r < List.length ids /\ idof ids r = idof ids i) ->
  (forall t, p = S5 t -> 0 < t_epoch (tasks s t)) ->
  (forall t e, p = S3r t e \/ p = S4 t e -> e <= t_epoch (tasks s t)) ->
  (rep = true -> forall t e, p = S4 t e ->
     e < t_epoch (tasks s t) \/ (t_res (tasks s t) = None /\ owned s t) \/ pipe s = P3 t) ->
  Inv rep ids (set_sub s i p).
Proof.
  intros rep ids s i p I Hi H3 Hn1 Hv Hd H5 Hsn H2. pose proof (i_order _ _ _ I) as Hord. destruct I.
  constructor; cbn [set_sub locked pipe tasks ntasks tracker queue subs]; auto.
  - intros j t Hj. unfold upd. destruct (Nat.eqb j i) eqn:E; [apply Nat.eqb_eq in E; subst j; apply Hv|apply i_sub_valid0; assumption].
  - intros j r Hj. unfold upd. destruct (Nat.eqb j i) eqn:E; [apply Nat.eqb_eq in E; subst j; apply Hd|apply i_done_own0; assumption].
  - intros j t Hj. unfold upd. destruct (Nat.eqb j i) eqn:E; [apply Nat.eqb_eq in E; subst j; apply H5|apply i_s6; assumption].
  - intros j t e Hj. unfold upd. destruct (Nat.eqb j i) eqn:E; [apply Nat.eqb_eq in E; subst j; apply Hsn|apply i_snap0; assumption].
  - intros Hr j t e Hj. unfold upd. destruct (Nat.eqb j i) eqn:E; [apply Nat.eqb_eq in E; subst j; apply H2; assumption|apply i_I3; assumption].
  - intros id t Ht. destruct (i_I4 id t Ht) as [Q|[Q|(j & t' & Hj & Hs & Hid)]]; [left; exact Q|right; left; exact Q|].
    right; right. exists j, t'. repeat split; try assumption. unfold pending. cbn [subs set_sub].
    rewrite upd_neq; [assumption|]. intros ->. exact (Hn1 t' Hs).
  - intros j t Hj. unfold upd. destruct (Nat.eqb j i) eqn:E; [apply H3|apply Hord; assumption].
Qed.

Ltac inv_fields I :=
  pose proof (i_lock _ _ _ I) as Hlock; pose proof (i_sub_valid _ _ _ I) as Hsv;
  pose proof (i_trk_valid _ _ _ I) as Htv; pose proof (i_pipe_valid _ _ _ I) as Hpv;
  pose proof (i_queue_valid _ _ _ I) as Hqv; pose proof (i_res_own _ _ _ I) as Hro;
  pose proof (i_done_own _ _ _ I) as Hdo; pose proof (i_epoch_res _ _ _ I) as Her;
  pose proof (i_s5 _ _ _ I) as H5; pose proof (i_snap _ _ _ I) as Hsn;
  pose proof (i_J _ _ _ I) as HJ; pose proof (i_I2 _ _ _ I) as HI2; pose proof (i_I1 _ _ _ I) as HI1;
  pose proof (i_order _ _ _ I) as Hord.

(** S0, no entry for the id: a fresh task instance is created and tracked. *)
Lemma inv_track_new : forall rep ids s i,
  Inv rep ids s -> i < List.length ids -> subs s i = S0 -> tlookup (idof ids i) (tracker s) = None ->
  Inv rep ids {| tasks := upd (tasks s) (ntasks s) {| t_id := idof ids i; t_res := None; t_epoch := 0 |};
                 ntasks := S (ntasks s); tracker := (idof ids i, ntasks s) :: tracker s; locked := locked s;
                 queue := queue s; pipe := pipe s; subs := upd (subs s) i (S1 (ntasks s)) |}.
Proof.
  intros rep ids s i I Hi Hs0 Hnone. inv_fields I.
  assert (Fr : forall t, t < ntasks s -> upd (tasks s) (ntasks s) {| t_id := idof ids i; t_res := None; t_epoch := 0 |} t = tasks s t)
    by (intros t Ht; apply upd_neq; lia).
  assert (Own : forall t, t < ntasks s -> owned s t ->
            owned {| tasks := upd (tasks s) (ntasks s) {| t_id := idof ids i; t_res := None; t_epoch := 0 |};
                     ntasks := S (ntasks s); tracker := (idof ids i, ntasks s) :: tracker s; locked := locked s;
                     queue := queue s; pipe := pipe s; subs := upd (subs s) i (S1 (ntasks s)) |} t).
  { intros t Ht [O|O]; [left|right; exact O]. cbn [tasks tracker]. rewrite Fr by assumption. cbn [tlookup].
    destruct (Nat.eqb (t_id (tasks s t)) (idof ids i)) eqn:E; [|exact O].
    apply Nat.eqb_eq in E. rewrite E in O. congruence. }
  constructor; cbn [locked pipe tasks ntasks tracker queue subs].
  - exact Hlock.
  - intros j t Hj. unfold upd at 1. destruct (Nat.eqb j i) eqn:E.
    + apply Nat.eqb_eq in E. subst j. cbn [sub_task]. intros H; inversion H; subst t. rewrite upd_eq. cbn [t_id]. split; [lia|reflexivity].
    + intros H. destruct (Hsv j t Hj H) as [A B]. rewrite Fr by assumption. split; [lia|exact B].
  - intros id t. cbn [tlookup]. destruct (Nat.eqb id (idof ids i)) eqn:E.
    + apply Nat.eqb_eq in E. intros H; inversion H; subst. rewrite upd_eq. cbn [t_id]. split; [lia|reflexivity].
    + intros H. destruct (Htv id t H) as [A B]. rewrite Fr by assumption. split; [lia|exact B].
  - destruct (pipe s) as [|id r|t r|t]; [exact Logic.I|exact Hpv| |].
    + destruct Hpv as (A & B & C). rewrite Fr by assumption. repeat split; try assumption; lia.
    + destruct Hpv as (A & B). rewrite Fr by assumption. split; [lia|exact B].
  - exact Hqv.
  - intros t r Ht. destruct (Nat.eq_dec t (ntasks s)) as [->|Hne].
    + rewrite upd_eq. cbn [t_res]. discriminate.
    + rewrite Fr by lia. apply Hro. lia.
  - intros j r Hj. unfold upd. destruct (Nat.eqb j i) eqn:E; [discriminate|]. apply Hdo. exact Hj.
  - intros t Ht. destruct (Nat.eq_dec t (ntasks s)) as [->|Hne].
    + rewrite upd_eq. cbn [t_epoch]. lia.
    + rewrite Fr by lia. apply Her. lia.
  - intros j t Hj. unfold upd at 1. destruct (Nat.eqb j i) eqn:E; [discriminate|]. intros H.
    destruct (Hsv j t Hj) as [A _]; [rewrite H; reflexivity|]. rewrite Fr by assumption. apply (H5 j t Hj H).
  - intros j t e Hj. unfold upd at 1 2. destruct (Nat.eqb j i) eqn:E; [intros [H|H]; discriminate|]. intros H.
    destruct (Hsv j t Hj) as [A _]; [destruct H as [H|H]; rewrite H; reflexivity|]. rewrite Fr by assumption. apply (Hsn j t e Hj H).
  - intros t Ht. destruct (Nat.eq_dec t (ntasks s)) as [->|Hne].
    + right. left. cbn [tasks tracker]. rewrite upd_eq. cbn [t_id tlookup]. rewrite Nat.eqb_refl. reflexivity.
    + assert (Ht' : t < ntasks s) by lia. destruct (HJ t Ht') as [A|A]; [left; rewrite Fr by assumption; exact A|right; apply Own; assumption].
  - intros Hr j t e Hj. unfold upd at 1. destruct (Nat.eqb j i) eqn:E; [discriminate|]. intros H.
    destruct (Hsv j t Hj) as [A _]; [rewrite H; reflexivity|]. rewrite Fr by assumption.
    destruct (HI2 Hr j t e Hj H) as [B|[[B C]|B]]; [left; exact B|right; left; split; [exact B|apply Own; assumption]|right; right; exact B].
  - intros id t. cbn [tlookup]. destruct (Nat.eqb id (idof ids i)) eqn:E.
    + apply Nat.eqb_eq in E. intros _. right; right. exists i, (ntasks s). cbn [subs]. rewrite upd_eq. auto.
    + intros H. destruct (HI1 id t H) as [Q|[Q|(j & t' & Hj & Hs & Hid)]]; [left; exact Q|right; left; exact Q|].
      right; right. exists j, t'. cbn [subs]. rewrite upd_neq; [auto|]. intros ->. congruence.
  - intros j t Hj. unfold upd. destruct (Nat.eqb j i) eqn:E; [discriminate|]. apply Hord. exact Hj.
Qed.

(** S1: the event is sent into the pipeline channel. *)
Lemma inv_send : forall rep ids s i t,
  Inv rep ids s -> i < List.length ids -> subs s i = S1 t ->
  Inv rep ids {| tasks := tasks s; ntasks := ntasks s; tracker := tracker s; locked := locked s;
                 queue := queue s ++ [(idof ids i, i)]; pipe := pipe s; subs := upd (subs s) i (S2 t) |}.
Proof.
  intros rep ids s i t I Hi Hs1. inv_fields I.
  constructor; cbn [locked pipe tasks ntasks tracker queue subs]; auto.
  - intros j t' Hj. unfold upd. destruct (Nat.eqb j i) eqn:E; [|apply Hsv; assumption].
    apply Nat.eqb_eq in E. subst j. cbn [sub_task]. intros H. apply Hsv; [assumption|]. rewrite Hs1. exact H.
  - intros id r H. apply in_app_or in H. destruct H as [H|[H|[]]]; [apply Hqv; exact H|]. inversion H; subst. auto.
  - intros j r Hj. unfold upd. destruct (Nat.eqb j i) eqn:E; [discriminate|]. apply Hdo. exact Hj.
  - intros j t' Hj. unfold upd. destruct (Nat.eqb j i) eqn:E; [discriminate|]. apply H5. exact Hj.
  - intros j t' e Hj. unfold upd. destruct (Nat.eqb j i) eqn:E; [intros [H|H]; discriminate|]. apply Hsn. exact Hj.
  - intros Hr j t' e Hj. unfold upd. destruct (Nat.eqb j i) eqn:E; [discriminate|]. intros H.
    destruct (HI2 Hr j t' e Hj H) as [B|[B|B]]; auto.
  - intros id t' H. destruct (HI1 id t' H) as [[r Q]|[Q|(j & t'' & Hj & Hs & Hid)]].
    + left. exists r. apply in_or_app. left. exact Q.
    + right; left; exact Q.
    + destruct (Nat.eq_dec j i) as [->|Hne].
      * left. exists i. apply in_or_app. right. left. rewrite Hid. reflexivity.
      * right; right. exists j, t''. cbn [subs]. rewrite upd_neq by assumption. auto.
  - intros j t' Hj. unfold upd. destruct (Nat.eqb j i) eqn:E; [discriminate|]. apply Hord. exact Hj.
Qed.

(** P0: an event is received from the channel. *)
Lemma inv_pop : forall rep ids s id r q,
  Inv rep ids s -> pipe s = P0 -> queue s = (id, r) :: q ->
  Inv rep ids {| tasks := tasks s; ntasks := ntasks s; tracker := tracker s; locked := locked s;
                 queue := q; pipe := P1 id r; subs := subs s |}.
Proof.
  intros rep ids s id r q I Hp Hq. inv_fields I. rewrite Hp in *. rewrite Hq in *.
  assert (Own : forall t, owned s t -> owned {| tasks := tasks s; ntasks := ntasks s; tracker := tracker s; locked := locked s;
                                                queue := q; pipe := P1 id r; subs := subs s |} t).
  { intros t [O|[r0 O]]; [left; exact O|congruence]. }
  constructor; cbn [locked pipe tasks ntasks tracker queue subs pipe_locks]; auto.
  - apply Hqv. left. reflexivity.
  - intros id' r' H. apply Hqv. right. exact H.
  - intros t Ht. destruct (HJ t Ht) as [A|A]; [left; exact A|right; apply Own; exact A].
  - intros Hr j t e Hj H. destruct (HI2 Hr j t e Hj H) as [B|[[B C]|B]]; [left; exact B|right; left; split; [exact B|apply Own; exact C]|congruence].
  - intros id' t H. destruct (HI1 id' t H) as [[r' Q]|[[r' Q]|Q]].
    + rewrite Hq in Q. destruct Q as [Q|Q]; [inversion Q; subst; right; left; eexists; reflexivity|left; exists r'; exact Q].
    + congruence.
    + right; right. exact Q.
Qed.

(** P1, entry found: the entry is removed under the tracker lock. *)
Lemma inv_take : forall rep ids s id r t,
  Inv rep ids s -> pipe s = P1 id r -> tlookup id (tracker s) = Some t ->
  Inv rep ids {| tasks := tasks s; ntasks := ntasks s; tracker := tremove id (tracker s); locked := true;
                 queue := queue s; pipe := P2 t r; subs := subs s |}.
Proof.
  intros rep ids s id r t I Hp Ht. inv_fields I. rewrite Hp in *.
  destruct (Htv id t Ht) as [Tv Tid]. destruct Hpv as [Rv Rid].
  assert (Own : forall t', owned s t' -> owned {| tasks := tasks s; ntasks := ntasks s; tracker := tremove id (tracker s); locked := true;
                                                  queue := queue s; pipe := P2 t r; subs := subs s |} t').
  { intros t' [O|[r0 O]]; [|congruence]. cbn [owned tasks tracker pipe]. unfold owned. cbn [tasks tracker pipe].
    destruct (Nat.eq_dec (t_id (tasks s t')) id) as [E|E].
    - rewrite E in O. assert (t' = t) by congruence. subst t'. right. exists r. reflexivity.
    - left. rewrite tlookup_remove_neq by assumption. exact O. }
  constructor; cbn [locked pipe tasks ntasks tracker queue subs pipe_locks]; auto.
  - intros id' t' H. destruct (Nat.eq_dec id' id) as [->|Hne]; [rewrite tlookup_remove_same in H; congruence|].
    rewrite tlookup_remove_neq in H by assumption. apply Htv. exact H.
  - repeat split; try assumption. congruence.
  - intros t' Ht'. destruct (HJ t' Ht') as [A|A]; [left; exact A|right; apply Own; exact A].
  - intros Hr j t' e Hj H. destruct (HI2 Hr j t' e Hj H) as [B|[[B C]|B]]; [left; exact B|right; left; split; [exact B|apply Own; exact C]|congruence].
  - intros id' t' H. destruct (Nat.eq_dec id' id) as [->|Hne]; [rewrite tlookup_remove_same in H; congruence|].
    rewrite tlookup_remove_neq in H by assumption.
    destruct (HI1 id' t' H) as [Q|[[r' Q]|Q]]; [left; exact Q|inversion Q; congruence|right; right; exact Q].
Qed.

(** P1, no entry: nothing to do. *)
Lemma inv_skip : forall rep ids s id r,
  Inv rep ids s -> pipe s = P1 id r -> tlookup id (tracker s) = None ->
  Inv rep ids {| tasks := tasks s; ntasks := ntasks s; tracker := tracker s; locked := locked s;
                 queue := queue s; pipe := P0; subs := subs s |}.
Proof.
  intros rep ids s id r I Hp Ht. inv_fields I. rewrite Hp in *.
  assert (Own : forall t', owned s t' -> owned {| tasks := tasks s; ntasks := ntasks s; tracker := tracker s; locked := locked s;
                                                  queue := queue s; pipe := P0; subs := subs s |} t').
  { intros t' [O|[r0 O]]; [left; exact O|congruence]. }
  constructor; cbn [locked pipe tasks ntasks tracker queue subs pipe_locks]; auto.
  - intros t' Ht'. destruct (HJ t' Ht') as [A|A]; [left; exact A|right; apply Own; exact A].
  - intros Hr j t' e Hj H. destruct (HI2 Hr j t' e Hj H) as [B|[[B C]|B]]; [left; exact B|right; left; split; [exact B|apply Own; exact C]|congruence].
  - intros id' t' H. destruct (HI1 id' t' H) as [Q|[[r' Q]|Q]]; [left; exact Q|inversion Q; congruence|right; right; exact Q].
Qed.

(** P2: the result is stored. *)
Lemma inv_set : forall rep ids s t r,
  Inv rep ids s -> pipe s = P2 t r ->
  Inv rep ids {| tasks := upd (tasks s) t {| t_id := t_id (tasks s t); t_res := Some r; t_epoch := t_epoch (tasks s t) |};
                 ntasks := ntasks s; tracker := tracker s; locked := locked s;
                 queue := queue s; pipe := P3 t; subs := subs s |}.
Proof.
  intros rep ids s t r I Hp. inv_fields I. rewrite Hp in *. destruct Hpv as (Tv & Rv & Rid).
  set (k := {| t_id := t_id (tasks s t); t_res := Some r; t_epoch := t_epoch (tasks s t) |}).
  assert (Tid : forall t', t_id (upd (tasks s) t k t') = t_id (tasks s t')).
  { intros t'. unfold upd. destruct (Nat.eqb t' t) eqn:E; [apply Nat.eqb_eq in E; subst; reflexivity|reflexivity]. }
  assert (Tep : forall t', t_epoch (upd (tasks s) t k t') = t_epoch (tasks s t')).
  { intros t'. unfold upd. destruct (Nat.eqb t' t) eqn:E; [apply Nat.eqb_eq in E; subst; reflexivity|reflexivity]. }
  constructor; cbn [locked pipe tasks ntasks tracker queue subs pipe_locks]; auto.
  - intros j t' Hj H. rewrite Tid. apply Hsv; assumption.
  - intros id t' H. rewrite Tid. apply Htv; assumption.
  - split; [exact Tv|]. rewrite upd_eq. cbn [k t_res]. congruence.
  - intros t' r' Ht'. rewrite Tid. unfold upd. destruct (Nat.eqb t' t) eqn:E.
    + apply Nat.eqb_eq in E. subst t'. cbn [k t_res]. intros H; inversion H; subst. auto.
    + apply Hro. exact Ht'.
  - intros t' Ht'. rewrite Tep. unfold upd. destruct (Nat.eqb t' t) eqn:E; [cbn [k t_res]; congruence|apply Her; exact Ht'].
  - intros j t' Hj H. rewrite Tep. apply (H5 j t' Hj H).
  - intros j t' e Hj H. rewrite Tep. apply (Hsn j t' e Hj H).
  - intros t' Ht'. destruct (Nat.eq_dec t' t) as [->|Hne].
    + left. rewrite upd_eq. cbn [k t_res]. congruence.
    + destruct (HJ t' Ht') as [A|[A|[r0 A]]].
      * left. rewrite upd_neq by assumption. exact A.
      * right. left. cbn [tasks tracker]. rewrite Tid. exact A.
      * inversion A. congruence.
  - intros Hr j t' e Hj H. rewrite Tep. destruct (Nat.eq_dec t' t) as [->|Hne]; [right; right; reflexivity|].
    destruct (HI2 Hr j t' e Hj H) as [B|[[B [C|[r0 C]]]|B]]; [left; exact B| |inversion C; congruence|congruence].
    right; left. rewrite upd_neq by assumption. split; [exact B|]. left. cbn [tasks tracker]. rewrite Tid. exact C.
  - intros id t' H. destruct (HI1 id t' H) as [Q|[[r' Q]|Q]]; [left; exact Q|congruence|right; right; exact Q].
Qed.

(** P3: notify_waiters and release of the tracker lock. *)
Lemma inv_notify : forall rep ids s t,
  Inv rep ids s -> pipe s = P3 t ->
  Inv rep ids {| tasks := upd (tasks s) t {| t_id := t_id (tasks s t); t_res := t_res (tasks s t); t_epoch := S (t_epoch (tasks s t)) |};
                 ntasks := ntasks s; tracker := tracker s; locked := false;
                 queue := queue s; pipe := P0; subs := subs s |}.
Proof.
  intros rep ids s t I Hp. inv_fields I. rewrite Hp in *. destruct Hpv as (Tv & Rset).
  set (k := {| t_id := t_id (tasks s t); t_res := t_res (tasks s t); t_epoch := S (t_epoch (tasks s t)) |}).
  assert (Tid : forall t', t_id (upd (tasks s) t k t') = t_id (tasks s t')).
  { intros t'. unfold upd. destruct (Nat.eqb t' t) eqn:E; [apply Nat.eqb_eq in E; subst; reflexivity|reflexivity]. }
  assert (Tres : forall t', t_res (upd (tasks s) t k t') = t_res (tasks s t')).
  { intros t'. unfold upd. destruct (Nat.eqb t' t) eqn:E; [apply Nat.eqb_eq in E; subst; reflexivity|reflexivity]. }
  assert (Tep : forall t', t_epoch (tasks s t') <= t_epoch (upd (tasks s) t k t')).
  { intros t'. unfold upd. destruct (Nat.eqb t' t) eqn:E; [apply Nat.eqb_eq in E; subst; cbn [k t_epoch]; lia|lia]. }
  constructor; cbn [locked pipe tasks ntasks tracker queue subs pipe_locks]; auto.
  - intros j t' Hj H. rewrite Tid. apply Hsv; assumption.
  - intros id t' H. rewrite Tid. apply Htv; assumption.
  - intros t' r' Ht'. rewrite Tid, Tres. apply Hro. exact Ht'.
  - intros t' Ht' He. rewrite Tres. destruct (Nat.eq_dec t' t) as [->|Hne]; [exact Rset|].
    rewrite upd_neq in He by assumption. apply Her; assumption.
  - intros j t' Hj H. pose proof (H5 j t' Hj H). pose proof (Tep t'). lia.
  - intros j t' e Hj H. pose proof (Hsn j t' e Hj H). pose proof (Tep t'). lia.
  - intros t' Ht'. rewrite Tres. destruct (HJ t' Ht') as [A|[A|[r0 A]]]; [left; exact A| |congruence].
    right. left. cbn [tasks tracker]. rewrite Tid. exact A.
  - intros Hr j t' e Hj H. destruct (Nat.eq_dec t' t) as [->|Hne].
    + left. rewrite upd_eq. cbn [k t_epoch]. pose proof (Hsn j t e Hj (or_intror H)). lia.
    + rewrite Tres. rewrite upd_neq by assumption.
      destruct (HI2 Hr j t' e Hj H) as [B|[[B [C|[r0 C]]]|B]]; [left; exact B| |congruence|inversion B; congruence].
      right; left. split; [exact B|]. left. cbn [tasks tracker]. rewrite Tid. exact C.
  - intros id t' H. destruct (HI1 id t' H) as [Q|[[r' Q]|Q]]; [left; exact Q|congruence|right; right; exact Q].
Qed.

(** The invariant is preserved by every step. *)
Theorem inv_step : forall rep ids s l s1, Inv rep ids s -> stepb rep ids s l = Some s1 -> Inv rep ids s1.
Proof.
  intros rep ids s l s1 I H. destruct l as [i|]; cbn [stepb] in H.
  - destruct (Nat.ltb i (List.length ids)) eqn:Hi; [|discriminate]. apply Nat.ltb_lt in Hi.
    inv_fields I. unfold step_sub, res_of, epoch_of in H. destruct (subs s i) eqn:Es.
    + (* S0 *) destruct (locked s) eqn:L; [discriminate|].
      destruct (tlookup (idof ids i) (tracker s)) as [t|] eqn:Et; inversion H; subst.
      * apply (inv_set_sub rep ids s i (S1 t) I Hi); [try (intros t00 E00; discriminate E00); try (intros; reflexivity)| | | | | | ].
        -- intros t0. congruence.
        -- intros t0 E. cbn [sub_task] in E. inversion E; subst. apply Htv. exact Et.
        -- intros r E. discriminate.
        -- intros t0 E. discriminate.
        -- intros t0 e [E|E]; discriminate.
        -- intros _ t0 e E. discriminate.
      * rewrite <- L. apply inv_track_new; assumption.
    + (* S1 *) inversion H; subst. apply inv_send; assumption.
    + (* S2 *)
      destruct (Hsv i t Hi) as [Tv Tid]; [rewrite Es; reflexivity|].
      destruct rep.
      * inversion H; subst. apply (inv_set_sub true ids s i _ I Hi); [try (intros t00 E00; discriminate E00); try (intros; reflexivity)| | | | | | ].
        -- intros t0. congruence.
        -- intros t0 E. cbn [sub_task] in E. inversion E; subst. auto.
        -- intros r E. discriminate.
        -- intros t0 E. discriminate.
        -- intros t0 e [E|E]; inversion E; subst. lia.
        -- intros _ t0 e E. discriminate.
      * destruct (t_res (tasks s t)) as [r|] eqn:R; inversion H; subst.
        -- apply (inv_set_sub false ids s i _ I Hi); [try (intros t00 E00; discriminate E00); try (intros; reflexivity)| | | | | | ].
           ++ intros t0. congruence.
           ++ intros t0 E. discriminate.
           ++ intros r0 E. inversion E; subst. destruct (Hro t r0 Tv R) as [A B]. split; [exact A|congruence].
           ++ intros t0 E. discriminate.
           ++ intros t0 e [E|E]; discriminate.
           ++ intros Hr. discriminate.
        -- apply (inv_set_sub false ids s i _ I Hi); [try (intros t00 E00; discriminate E00); try (intros; reflexivity)| | | | | | ].
           ++ intros t0. congruence.
           ++ intros t0 E. cbn [sub_task] in E. inversion E; subst. auto.
           ++ intros r0 E. discriminate.
           ++ intros t0 E. discriminate.
           ++ intros t0 e [E|E]; discriminate.
           ++ intros Hr. discriminate.
    + (* S3: only in the order before the repair *)
      destruct rep; [discriminate|].
      destruct (Hsv i t Hi) as [Tv Tid]; [rewrite Es; reflexivity|].
      inversion H; subst. apply (inv_set_sub false ids s i _ I Hi); [try (intros t00 E00; discriminate E00); try (intros; reflexivity)| | | | | | ].
      * intros t0. congruence.
      * intros t0 E. cbn [sub_task] in E. inversion E; subst. auto.
      * intros r0 E. discriminate.
      * intros t0 E. discriminate.
      * intros t0 e [E|E]; inversion E; subst. lia.
      * intros Hr. discriminate.
    + (* S3r: only in the repaired order *)
      destruct rep; [|discriminate].
      destruct (Hsv i t Hi) as [Tv Tid]; [rewrite Es; reflexivity|].
      destruct (t_res (tasks s t)) as [r|] eqn:R; inversion H; subst.
      * apply (inv_set_sub true ids s i _ I Hi); [try (intros t00 E00; discriminate E00); try (intros; reflexivity)| | | | | | ].
        -- intros t0. congruence.
        -- intros t0 E. discriminate.
        -- intros r0 E. inversion E; subst. destruct (Hro t r0 Tv R) as [A B]. split; [exact A|congruence].
        -- intros t0 E. discriminate.
        -- intros t0 e0 [E|E]; discriminate.
        -- intros _ t0 e0 E. discriminate.
      * apply (inv_set_sub true ids s i _ I Hi); [try (intros t00 E00; discriminate E00); try (intros; reflexivity)| | | | | | ].
        -- intros t0. congruence.
        -- intros t0 E. cbn [sub_task] in E. inversion E; subst. auto.
        -- intros r0 E. discriminate.
        -- intros t0 E. discriminate.
        -- intros t0 e0 [E|E]; inversion E; subst. apply (Hsn i t0 e0 Hi). left. exact Es.
        -- intros _ t0 e0 E. inversion E; subst. right. left. split; [exact R|].
           destruct (HJ t0 Tv) as [A|A]; [congruence|exact A].
    + (* S4 *)
      destruct (Hsv i t Hi) as [Tv Tid]; [rewrite Es; reflexivity|].
      destruct (Nat.ltb e (t_epoch (tasks s t))) eqn:Lt; [|discriminate]. apply Nat.ltb_lt in Lt.
      inversion H; subst. apply (inv_set_sub rep ids s i _ I Hi); [try (intros t00 E00; discriminate E00); try (intros; reflexivity)| | | | | | ].
      * intros t0. congruence.
      * intros t0 E. cbn [sub_task] in E. inversion E; subst. auto.
      * intros r0 E. discriminate.
      * intros t0 E. inversion E; subst. lia.
      * intros t0 e0 [E|E]; discriminate.
      * intros _ t0 e0 E. discriminate.
    + (* S5 *)
      destruct (Hsv i t Hi) as [Tv Tid]; [rewrite Es; reflexivity|].
      destruct (t_res (tasks s t)) as [r|] eqn:R; [|discriminate].
      inversion H; subst. apply (inv_set_sub rep ids s i _ I Hi); [try (intros t00 E00; discriminate E00); try (intros; reflexivity)| | | | | | ].
      * intros t0. congruence.
      * intros t0 E. discriminate.
      * intros r0 E. inversion E; subst. destruct (Hro t r0 Tv R) as [A B]. split; [exact A|congruence].
      * intros t0 E. discriminate.
      * intros t0 e0 [E|E]; discriminate.
      * intros _ t0 e0 E. discriminate.
    + discriminate.
  - unfold step_pipe in H. destruct (pipe s) as [|id r|t r|t] eqn:Ep.
    + destruct (queue s) as [|[id r] q] eqn:Eq; [discriminate|]. inversion H; subst. apply inv_pop; assumption.
    + destruct (locked s) eqn:L; [discriminate|]. destruct (tlookup id (tracker s)) as [t|] eqn:Et; inversion H; subst.
      * apply inv_take; assumption.
      * rewrite <- L. apply (inv_skip rep ids s id r); assumption.
    + inversion H; subst. apply inv_set; assumption.
    + inversion H; subst. apply inv_notify; assumption.
Qed.

Lemma inv_exec : forall rep ids s tr s', exec rep ids s tr s' -> Inv rep ids s -> Inv rep ids s'.
Proof. intros rep ids s tr s' H. induction H as [s|s l s1 tr s2 Hs _ IH]; intros I; [exact I|]. apply IH. eapply inv_step; eassumption. Qed.

Lemma inv_reachable : forall rep ids tr s, exec rep ids init tr s -> Inv rep ids s.
Proof. intros rep ids tr s H. eapply inv_exec; [exact H|apply inv_init]. Qed.

(** * Safety: a submitter only ever returns the result of an event with its own id *)

Theorem result_is_own : forall rep ids tr s i r,
  exec rep ids init tr s -> i < List.length ids -> subs s i = SDone r ->
  r < List.length ids /\ idof ids r = idof ids i.
Proof. intros rep ids tr s i r H Hi Hd. exact (i_done_own _ _ _ (inv_reachable rep ids tr s H) i r Hi Hd). Qed.

(** * Liveness of the repaired order *)

Lemma not_all_done : forall ids s, all_doneb ids s = false ->
  exists i, i < List.length ids /\ is_done (subs s i) = false.
Proof.
  intros ids s H. unfold all_doneb in H.
  assert (G : forall l, forallb (fun i => is_done (subs s i)) l = false -> exists i, In i l /\ is_done (subs s i) = false).
  { induction l as [|x l IH]; cbn [forallb]; [discriminate|]. intros E. apply andb_false_iff in E. destruct E as [E|E].
    - exists x. split; [left; reflexivity|exact E].
    - destruct (IH E) as (i & A & B). exists i. split; [right; exact A|exact B]. }
  destruct (G _ H) as (i & A & B). exists i. split; [|exact B]. apply in_seq in A. lia.
Qed.

(** While some submitter has not returned, some step is enabled (no lost wake-up, no deadlock). *)
Theorem deadlock_free_inv : forall ids s,
  Inv true ids s -> all_doneb ids s = false -> exists l s', stepb true ids s l = Some s'.
Proof.
  intros ids s I Hnd. inv_fields I.
  destruct (pipe s) as [|id r|t r|t] eqn:Ep.
  2:{ exists LPipe. cbn [stepb]. unfold step_pipe. rewrite Ep. cbn [pipe_locks] in Hlock. rewrite Hlock.
      destruct (tlookup id (tracker s)); eexists; reflexivity. }
  2:{ exists LPipe. cbn [stepb]. unfold step_pipe. rewrite Ep. eexists; reflexivity. }
  2:{ exists LPipe. cbn [stepb]. unfold step_pipe. rewrite Ep. eexists; reflexivity. }
  cbn [pipe_locks] in Hlock.
  destruct (queue s) as [|[id r] q] eqn:Eq.
  2:{ exists LPipe. cbn [stepb]. unfold step_pipe. rewrite Ep, Eq. eexists; reflexivity. }
  destruct (not_all_done ids s Hnd) as (i & Hi & Hdi).
  assert (Hlt : Nat.ltb i (List.length ids) = true) by (apply Nat.ltb_lt; exact Hi).
  destruct (subs s i) eqn:Es; cbn [is_done] in Hdi; try discriminate.
  - exists (LSub i). cbn [stepb]. rewrite Hlt. unfold step_sub. rewrite Es, Hlock.
    destruct (tlookup (idof ids i) (tracker s)); eexists; reflexivity.
  - exists (LSub i). cbn [stepb]. rewrite Hlt. unfold step_sub. rewrite Es. eexists; reflexivity.
  - exists (LSub i). cbn [stepb]. rewrite Hlt. unfold step_sub. rewrite Es. eexists; reflexivity.
  - (* S3 does not occur in the repaired order *) pose proof (Hord i t Hi Es). discriminate.
  - exists (LSub i). cbn [stepb]. rewrite Hlt. unfold step_sub. rewrite Es. destruct (res_of s t); eexists; reflexivity.
  - destruct (Nat.ltb e (t_epoch (tasks s t))) eqn:Lt.
    + exists (LSub i). cbn [stepb]. rewrite Hlt. unfold step_sub, epoch_of. rewrite Es, Lt. eexists; reflexivity.
    + apply Nat.ltb_ge in Lt.
      destruct (HI2 eq_refl i t e Hi Es) as [B|[[B [C|[r0 C]]]|B]]; [lia| |congruence|congruence].
      destruct (HI1 _ _ C) as [[r Q]|[[r Q]|(j & t' & Hj & Hs & Hid)]]; [rewrite Eq in Q; destruct Q|congruence|].
      exists (LSub j). cbn [stepb]. apply Nat.ltb_lt in Hj. rewrite Hj. unfold step_sub. rewrite Hs. eexists; reflexivity.
  - exists (LSub i). cbn [stepb]. rewrite Hlt. unfold step_sub, res_of. rewrite Es.
    destruct (Hsv i t Hi) as [Tv _]; [rewrite Es; reflexivity|].
    pose proof (Her t Tv (H5 i t Hi Es)) as R. destruct (t_res (tasks s t)); [eexists; reflexivity|congruence].
Qed.

Theorem deadlock_free : forall ids tr s,
  exec true ids init tr s -> all_doneb ids s = false -> exists l s', stepb true ids s l = Some s'.
Proof. intros ids tr s H. apply deadlock_free_inv. eapply inv_reachable. exact H. Qed.

Lemma all_done_spec : forall ids s, all_doneb ids s = true ->
  forall i, i < List.length ids -> exists r, subs s i = SDone r.
Proof.
  intros ids s H i Hi. unfold all_doneb in H. rewrite forallb_forall in H.
  specialize (H i). rewrite in_seq in H. specialize (H ltac:(lia)).
  destruct (subs s i); try discriminate. eexists; reflexivity.
Qed.

(** Every maximal trace (a trace that cannot be extended — and by [traces_bounded] every trace
    can be extended only finitely often) ends with every submitter having returned, each with the
    result of an event with its own id.  No fairness assumption is needed. *)
Theorem every_maximal_trace_returns : forall ids tr s,
  exec true ids init tr s -> (forall l, stepb true ids s l = None) ->
  forall i, i < List.length ids ->
    exists r, subs s i = SDone r /\ r < List.length ids /\ idof ids r = idof ids i.
Proof.
  intros ids tr s H Hmax i Hi.
  destruct (all_doneb ids s) eqn:D.
  - destruct (all_done_spec ids s D i Hi) as [r Hr]. exists r. split; [exact Hr|].
    exact (result_is_own true ids tr s i r H Hi Hr).
  - destruct (deadlock_free ids tr s H D) as (l & s' & Hs). rewrite Hmax in Hs. discriminate.
Qed.

Lemma exec_app : forall rep ids s tr1 s1 tr2 s2,
  exec rep ids s tr1 s1 -> exec rep ids s1 tr2 s2 -> exec rep ids s (tr1 ++ tr2) s2.
Proof.
  intros rep ids s tr1 s1 tr2 s2 H1 H2. induction H1 as [s|s l sa tr sb Hs _ IH]; cbn [app]; [exact H2|].
  econstructor; [exact Hs|apply IH; exact H2].
Qed.

(** From every reachable state the run can be completed: whatever has happened so far, there is
    a continuation after which every submitter has returned (and every continuation is finite). *)
Theorem can_always_complete : forall ids tr s,
  exec true ids init tr s -> exists tr' s', exec true ids s tr' s' /\ all_doneb ids s' = true.
Proof.
  intros ids tr s H. pose proof (inv_reachable true ids tr s H) as I. clear H tr.
  remember (measure ids s) as m eqn:Hm. revert s I Hm.
  induction m as [m IH] using lt_wf_ind. intros s I Hm.
  destruct (all_doneb ids s) eqn:D.
  - exists [], s. split; [constructor|exact D].
  - destruct (deadlock_free_inv ids s I D) as (l & s1 & Hs).
    pose proof (measure_decreases true ids s l s1 Hs) as Hd.
    destruct (IH (measure ids s1) ltac:(lia) s1 (inv_step true ids s l s1 I Hs) eq_refl) as (tr' & s' & He & Hdone).
    exists (l :: tr'), s'. split; [econstructor; eassumption|exact Hdone].
Qed.

(** * The order before the repair loses the wake-up

    One submitter, one event: the submitter checks (no result yet), the pipeline then receives
    the event, removes the task, sets the result and calls notify_waiters; only then does the
    submitter create its Notified — too late, nobody will ever notify again. *)
Definition asis_schedule : list label := [LSub 0; LSub 0; LSub 0; LPipe; LPipe; LPipe; LPipe; LSub 0].

Definition run_labels (rep : bool) (ids : list nat) (s : state) (tr : list label) : option state :=
  fold_left (fun o l => match o with Some s => stepb rep ids s l | None => None end) tr (Some s).

Lemma run_labels_exec : forall rep ids tr s s', run_labels rep ids s tr = Some s' -> exec rep ids s tr s'.
Proof.
  intros rep ids. induction tr as [|l tr IH]; intros s s' H; unfold run_labels in H; cbn [fold_left] in H.
  - inversion H. constructor.
  - destruct (stepb rep ids s l) as [s1|] eqn:E.
    + econstructor; [exact E|apply IH; exact H].
    + exfalso. clear -H. induction tr as [|x tr IHt]; cbn [fold_left] in H; [discriminate|auto].
Qed.

Theorem asis_order_deadlocks : exists s,
  exec false [0] init asis_schedule s /\ all_doneb [0] s = false /\ forall l, stepb false [0] s l = None.
Proof.
  destruct (run_labels false [0] init asis_schedule) as [s|] eqn:E; [|vm_compute in E; discriminate].
  exists s. split; [apply run_labels_exec; exact E|].
  vm_compute in E. inversion E; subst s. clear E. split; [reflexivity|].
  intros [i|]; [|reflexivity]. destruct i as [|i]; reflexivity.
Qed.

(** Non-vacuity: a reachable, not yet finished state of the repaired order with two concurrent
    submissions of the same operation, one waiting ([S4]) while the pipeline is between setting
    the result and notifying. *)
Example example_reachable : exists s,
  exec true [0; 0] init [LSub 0; LSub 1; LSub 0; LSub 0; LSub 0; LPipe; LPipe; LPipe] s /\
  all_doneb [0; 0] s = false /\ subs s 0 = S4 0 0 /\ pipe s = P3 0.
Proof.
  destruct (run_labels true [0; 0] init [LSub 0; LSub 1; LSub 0; LSub 0; LSub 0; LPipe; LPipe; LPipe]) as [s|] eqn:E;
    [|vm_compute in E; discriminate].
  exists s. split; [apply run_labels_exec; exact E|].
  vm_compute in E. inversion E; subst s. repeat split; reflexivity.
Qed.
