(** Proofs about the header encoding model (Model/Header.v) — property C02.

    Trusted assumptions (Section hypotheses, see the sections below):
    - [order], [order1], [order2]: the iteration order of a Rust [HashSet] is *some* permutation
      of its elements ([order_perm]); nothing else is assumed about it.
    - [key_ok]: an arbitrary predicate "these 32 bytes are an Ed25519 point".
    - [hash], [verify_sig]: arbitrary functions of the encoded tokens (for the corollaries that
      the operation id and the signature check are functions of the header value). *)
From Coq Require Import List NArith Bool Arith Lia Permutation Sorted.
From PV Require Import Model.Header.
Import ListNotations.

(** * Lexicographic order on byte strings *)

Lemma bytes_eqb_eq : forall a b, bytes_eqb a b = true <-> a = b.
Proof.
  induction a as [|x a IH]; destruct b as [|y b]; cbn [bytes_eqb]; split; intro H;
    try reflexivity; try discriminate.
  - apply andb_true_iff in H. destruct H as [H1 H2]. apply N.eqb_eq in H1. apply IH in H2. congruence.
  - inversion H; subst. apply andb_true_iff. split. apply N.eqb_refl. apply IH. reflexivity.
Qed.

Lemma bytes_eqb_refl : forall a, bytes_eqb a a = true.
Proof. intro a. apply bytes_eqb_eq. reflexivity. Qed.

Lemma bytes_eqb_neq : forall a b, bytes_eqb a b = false <-> a <> b.
Proof.
  intros a b. split; intro H.
  - intro E. apply bytes_eqb_eq in E. congruence.
  - destruct (bytes_eqb a b) eqn:E; [|reflexivity]. apply bytes_eqb_eq in E. contradiction.
Qed.

Lemma bytes_leb_refl : forall a, bytes_leb a a = true.
Proof.
  induction a as [|x a IH]; cbn [bytes_leb]; [reflexivity|].
  rewrite N.ltb_irrefl, N.eqb_refl. exact IH.
Qed.

Lemma bytes_leb_total : forall a b, bytes_leb a b = true \/ bytes_leb b a = true.
Proof.
  induction a as [|x a IH]; destruct b as [|y b]; cbn [bytes_leb]; auto.
  destruct (N.ltb x y) eqn:L1; [auto|].
  destruct (N.ltb y x) eqn:L2; [auto|].
  apply N.ltb_ge in L1. apply N.ltb_ge in L2.
  assert (E : x = y) by lia. subst y. rewrite N.eqb_refl. apply IH.
Qed.

Lemma bytes_leb_antisym : forall a b, bytes_leb a b = true -> bytes_leb b a = true -> a = b.
Proof.
  induction a as [|x a IH]; destruct b as [|y b]; cbn [bytes_leb]; intros H1 H2;
    try reflexivity; try discriminate.
  destruct (N.ltb x y) eqn:L1.
  - apply N.ltb_lt in L1. destruct (N.ltb y x) eqn:L2.
    + apply N.ltb_lt in L2. lia.
    + destruct (N.eqb y x) eqn:E; [apply N.eqb_eq in E; lia | discriminate].
  - destruct (N.eqb x y) eqn:E; [|discriminate]. apply N.eqb_eq in E. subst y.
    rewrite N.ltb_irrefl, N.eqb_refl in H2. f_equal. apply IH; assumption.
Qed.

Lemma bytes_leb_trans : forall a b c, bytes_leb a b = true -> bytes_leb b c = true -> bytes_leb a c = true.
Proof.
  induction a as [|x a IH]; destruct b as [|y b]; destruct c as [|z c]; cbn [bytes_leb];
    intros H1 H2; try reflexivity; try discriminate.
  destruct (N.ltb x y) eqn:L1.
  - apply N.ltb_lt in L1. destruct (N.ltb y z) eqn:L2.
    + apply N.ltb_lt in L2. assert (L : N.ltb x z = true) by (apply N.ltb_lt; lia). rewrite L. reflexivity.
    + destruct (N.eqb y z) eqn:E; [|discriminate]. apply N.eqb_eq in E. subst z.
      assert (L : N.ltb x y = true) by (apply N.ltb_lt; lia). rewrite L. reflexivity.
  - destruct (N.eqb x y) eqn:E; [|discriminate]. apply N.eqb_eq in E. subst y.
    destruct (N.ltb x z); [reflexivity|].
    destruct (N.eqb x z); [|discriminate]. eapply IH; eassumption.
Qed.

Definition le_b (a b : bytes) : Prop := bytes_leb a b = true.

(** * Insertion sort: permutation, sortedness, uniqueness of the sorted form *)

Lemma insert_sorted_perm : forall x l, Permutation (insert_sorted x l) (x :: l).
Proof.
  induction l as [|y r IH]; cbn [insert_sorted]; [apply Permutation_refl|].
  destruct (bytes_leb x y); [apply Permutation_refl|].
  eapply Permutation_trans; [apply perm_skip; exact IH | apply perm_swap].
Qed.

Lemma isort_perm : forall l, Permutation (isort l) l.
Proof.
  induction l as [|x r IH]; cbn [isort]; [apply Permutation_refl|].
  eapply Permutation_trans; [apply insert_sorted_perm | apply perm_skip; exact IH].
Qed.

Lemma insert_sorted_sorted : forall x l,
  StronglySorted le_b l -> StronglySorted le_b (insert_sorted x l).
Proof.
  induction l as [|y r IH]; intro S; cbn [insert_sorted].
  - constructor; constructor.
  - inversion S as [|? ? Sr Fy]; subst.
    destruct (bytes_leb x y) eqn:L.
    + constructor; [exact S|]. constructor; [exact L|].
      eapply Forall_impl; [|exact Fy]. intros z Hz. eapply bytes_leb_trans; eassumption.
    + constructor; [apply IH; exact Sr|].
      assert (Hyx : le_b y x) by (destruct (bytes_leb_total x y) as [H|H]; [congruence | exact H]).
      eapply Permutation_Forall; [apply Permutation_sym; apply insert_sorted_perm|].
      constructor; assumption.
Qed.

Lemma isort_sorted : forall l, StronglySorted le_b (isort l).
Proof.
  induction l as [|x r IH]; cbn [isort]; [constructor|]. apply insert_sorted_sorted. exact IH.
Qed.

Lemma sorted_perm_unique : forall l1 l2,
  StronglySorted le_b l1 -> StronglySorted le_b l2 -> Permutation l1 l2 -> l1 = l2.
Proof.
  induction l1 as [|a l1 IH]; intros l2 S1 S2 P.
  - apply Permutation_nil in P. subst. reflexivity.
  - destruct l2 as [|b l2]; [apply Permutation_sym, Permutation_nil in P; discriminate|].
    inversion S1 as [|? ? S1' F1]; subst. inversion S2 as [|? ? S2' F2]; subst.
    assert (E : a = b).
    { assert (Ia : In a (b :: l2)) by (eapply Permutation_in; [exact P | left; reflexivity]).
      assert (Ib : In b (a :: l1)) by (eapply Permutation_in; [apply Permutation_sym; exact P | left; reflexivity]).
      destruct Ia as [Ia|Ia]; [congruence|]. destruct Ib as [Ib|Ib]; [congruence|].
      rewrite Forall_forall in F1, F2.
      apply bytes_leb_antisym; [apply F1; exact Ib | apply F2; exact Ia]. }
    subst b. f_equal. apply IH; try assumption. eapply Permutation_cons_inv; exact P.
Qed.

(** Sorting is a function of the multiset of elements: this is what makes the repaired encoder
    independent of the [HashSet] iteration order. *)
Lemma isort_perm_eq : forall l1 l2, Permutation l1 l2 -> isort l1 = isort l2.
Proof.
  intros l1 l2 P. apply sorted_perm_unique; try apply isort_sorted.
  eapply Permutation_trans; [apply isort_perm|].
  eapply Permutation_trans; [exact P|]. apply Permutation_sym, isort_perm.
Qed.

Lemma strictly_sorted_cons : forall x l,
  strictly_sorted (x :: l) = true ->
  strictly_sorted l = true /\ Forall (fun y => le_b x y /\ x <> y) l.
Proof.
  intros x l; revert x. induction l as [|y r IH]; intros x H.
  - split; [reflexivity | constructor].
  - cbn [strictly_sorted] in H. fold (strictly_sorted (y :: r)) in H.
    apply andb_true_iff in H. destruct H as [H Hr].
    apply andb_true_iff in H. destruct H as [Hle Hne].
    apply negb_true_iff, bytes_eqb_neq in Hne.
    split; [exact Hr|].
    constructor; [split; assumption|].
    destruct (IH y Hr) as [_ F].
    eapply Forall_impl; [|exact F]. intros z [Hz1 Hz2]. split.
    + eapply bytes_leb_trans; eassumption.
    + intro E. subst z. apply Hne. apply bytes_leb_antisym; assumption.
Qed.

Lemma strictly_sorted_sorted : forall l, strictly_sorted l = true -> StronglySorted le_b l.
Proof.
  induction l as [|x r IH]; intro H; [constructor|].
  destruct (strictly_sorted_cons _ _ H) as [Hr F].
  constructor; [apply IH; exact Hr|]. eapply Forall_impl; [|exact F]. intros z [Hz _]. exact Hz.
Qed.

Lemma strictly_sorted_nodup : forall l, strictly_sorted l = true -> NoDup l.
Proof.
  induction l as [|x r IH]; intro H; [constructor|].
  destruct (strictly_sorted_cons _ _ H) as [Hr F].
  constructor; [|apply IH; exact Hr]. intro I. rewrite Forall_forall in F.
  destruct (F x I) as [_ N]. apply N. reflexivity.
Qed.

Lemma isort_of_sorted : forall l, strictly_sorted l = true -> isort l = l.
Proof.
  intros l H. apply sorted_perm_unique; [apply isort_sorted | apply strictly_sorted_sorted; exact H | apply isort_perm].
Qed.

Lemma memb_in : forall x l, memb x l = true <-> In x l.
Proof.
  intros x l. unfold memb. rewrite existsb_exists. split.
  - intros [y [I E]]. apply bytes_eqb_eq in E. subst. exact I.
  - intro I. exists x. split; [exact I | apply bytes_eqb_refl].
Qed.

Lemma dedup_nodup_id : forall l, NoDup l -> dedup l = l.
Proof.
  induction l as [|x r IH]; intro N; [reflexivity|]. inversion N as [|? ? Nx Nr]; subst.
  cbn [dedup]. destruct (memb x r) eqn:M.
  - apply memb_in in M. contradiction.
  - f_equal. apply IH. exact Nr.
Qed.

(** Decoding whatever order arrived gives back the canonical representative. *)
Lemma canon_of_perm : forall pv l,
  strictly_sorted pv = true -> Permutation l pv -> canon l = pv.
Proof.
  intros pv l S P. unfold canon.
  assert (N : NoDup l) by (eapply Permutation_NoDup; [apply Permutation_sym; exact P | apply strictly_sorted_nodup; exact S]).
  rewrite (dedup_nodup_id _ N). rewrite (isort_perm_eq _ _ P). apply isort_of_sorted. exact S.
Qed.

(** * Decoder on the image of the encoder *)

Lemma next_hashes_app : forall l rest,
  forallb (len_is 32) l = true ->
  next_hashes (length l) (map TBytes l ++ rest) = Some (l, rest).
Proof.
  induction l as [|b l IH]; intros rest H; [reflexivity|].
  cbn [forallb] in H. apply andb_true_iff in H. destruct H as [Hb Hl].
  cbn [length map app next_hashes]. unfold len_is in Hb. rewrite Hb.
  rewrite (IH rest Hl). reflexivity.
Qed.

Lemma forallb_perm : forall (f : bytes -> bool) l1 l2,
  Permutation l1 l2 -> forallb f l1 = true -> forallb f l2 = true.
Proof.
  intros f l1 l2 P H. rewrite forallb_forall in *. intros x I. apply H.
  eapply Permutation_in; [apply Permutation_sym; exact P | exact I].
Qed.

Lemma next_uint_ok : forall bound n v r,
  N.ltb v bound = true -> next_uint bound (S n, TUInt v :: r) = Some (v, (n, r)).
Proof. intros bound n v r H. cbn [next_uint]. rewrite H. reflexivity. Qed.

Lemma next_bytes_ok : forall len n b r,
  Nat.eqb (length b) len = true -> next_bytes len (S n, TBytes b :: r) = Some (b, (n, r)).
Proof. intros len n b r H. cbn [next_bytes]. rewrite H. reflexivity. Qed.

Lemma next_bool_ok : forall n b r, next_bool (S n, TBool b :: r) = Some (b, (n, r)).
Proof. reflexivity. Qed.

Lemma bind_some : forall {A B} (a : A) (f : A -> option B), bind (Some a) f = f a.
Proof. reflexivity. Qed.

Section RoundTrip.
  Variable key_ok : bytes -> bool.
  (** [arrange]: in which order the serializer emits the elements of [previous]; all that is
      needed for the round trip is that it emits exactly the elements. *)
  Variable arrange : list bytes -> list bytes.
  Hypothesis arrange_perm : forall l, Permutation (arrange l) l.

  Lemma dec_node_ext_enc : forall e rest,
    kind_of e = KNode -> valid_ext e = true ->
    dec_node_ext (enc_ext_with arrange e ++ rest) = Some (e, rest).
  Proof.
    intros e rest K V. destruct e as [|n|l t p|l t pv]; try discriminate.
    - cbn [valid_ext] in V. apply andb_true_iff in V. destruct V as [Vl Vt].
      unfold len_is in Vl.
      cbn [enc_ext_with app]. unfold dec_node_ext.
      rewrite next_uint_ok by reflexivity. rewrite bind_some. cbv beta iota.
      change (negb (N.eqb 1 1)) with false. cbv iota.
      rewrite next_uint_ok by reflexivity. rewrite bind_some. cbv beta iota.
      change (N.eqb 0 0) with true. cbv iota.
      rewrite (next_bytes_ok _ _ _ _ Vl). rewrite bind_some. cbv beta iota.
      rewrite (next_uint_ok _ _ _ _ Vt). rewrite bind_some. cbv beta iota.
      rewrite next_bool_ok. rewrite bind_some. reflexivity.
    - cbn [valid_ext] in V. apply andb_true_iff in V. destruct V as [V Vs].
      apply andb_true_iff in V. destruct V as [V Vf].
      apply andb_true_iff in V. destruct V as [Vl Vt]. unfold len_is in Vl.
      cbn [enc_ext_with]. rewrite <- app_assoc. cbn [app]. unfold dec_node_ext.
      rewrite next_uint_ok by reflexivity. rewrite bind_some. cbv beta iota.
      change (negb (N.eqb 1 1)) with false. cbv iota.
      rewrite next_uint_ok by reflexivity. rewrite bind_some. cbv beta iota.
      change (N.eqb 1 0) with false. change (N.eqb 1 1) with true. cbv iota.
      rewrite (next_bytes_ok _ _ _ _ Vl). rewrite bind_some. cbv beta iota.
      rewrite (next_uint_ok _ _ _ _ Vt). rewrite bind_some. cbv beta iota.
      assert (L : length pv = length (arrange pv)) by (apply Permutation_length, Permutation_sym, arrange_perm).
      rewrite L. rewrite next_hashes_app.
      + rewrite bind_some. cbv beta iota.
        rewrite (canon_of_perm pv (arrange pv) Vs (arrange_perm pv)). reflexivity.
      + eapply forallb_perm; [apply Permutation_sym; apply arrange_perm | exact Vf].
  Qed.

  Lemma dec_ext_enc : forall e n rest,
    valid_ext e = true ->
    dec_ext (kind_of e) (ext_cnt e + n, enc_ext_with arrange e ++ rest) = Some (e, (n, rest)).
  Proof.
    intros e n rest V. destruct e as [|m|l t p|l t pv].
    - reflexivity.
    - cbn [valid_ext] in V. cbn [kind_of ext_cnt enc_ext_with app dec_ext plus].
      rewrite (next_uint_ok _ _ _ _ V). reflexivity.
    - cbn [kind_of ext_cnt dec_ext plus]. rewrite dec_node_ext_enc; [reflexivity | reflexivity | exact V].
    - cbn [kind_of ext_cnt dec_ext plus]. rewrite dec_node_ext_enc; [reflexivity | reflexivity | exact V].
  Qed.

  (** Round trip: decoding the encoding of a valid header gives the header back (and leaves
      whatever followed it). *)
  Theorem dec_enc_with : forall h rest,
    valid key_ok h = true ->
    dec_header key_ok (kind_of (h_ext h)) (enc_header_with arrange h ++ rest) = Some (h, rest).
  Proof.
    intros [v pk sg ps ph sq bl e] rest V. unfold valid in V.
    cbn [h_version h_pk h_sig h_psize h_phash h_seq h_backlink h_ext] in V.
    repeat (apply andb_true_iff in V; let V' := fresh "V" in destruct V as [V V']).
    rename V into Vv, V9 into Vpk, V8 into Vk, V7 into Vsg, V6 into Vps, V5 into Vph, V4 into Vphl,
           V3 into Vsq, V2 into Vbl, V1 into Vbll, V0 into Ve.
    destruct sg as [sg|]; [|discriminate]. unfold len_is in Vpk, Vsg.
    apply eqb_prop in Vph. apply eqb_prop in Vbl.
    unfold enc_header_with, field_count.
    cbn [h_version h_pk h_sig h_psize h_phash h_seq h_backlink h_ext opt_tok opt_cnt].
    unfold dec_header.
    destruct ph as [ph|]; destruct bl as [bl|];
      cbn [is_some] in Vph, Vbl; cbn [opt_len_is] in Vphl, Vbll; unfold len_is in Vphl, Vbll;
      cbn [opt_tok opt_cnt app plus];
      rewrite (next_uint_ok _ _ _ _ Vv), bind_some; cbv beta iota;
      unfold next_key; rewrite (next_bytes_ok _ _ _ _ Vpk), bind_some; cbv beta iota; rewrite Vk;
      rewrite bind_some; cbv beta iota;
      rewrite (next_bytes_ok _ _ _ _ Vsg), bind_some; cbv beta iota;
      rewrite (next_uint_ok _ _ _ _ Vps), bind_some; cbv beta iota;
      rewrite <- Vph; unfold next_opt_hash;
      try (rewrite (next_bytes_ok _ _ _ _ Vphl), bind_some; cbv beta iota);
      rewrite bind_some; cbv beta iota;
      rewrite (next_uint_ok _ _ _ _ Vsq), bind_some; cbv beta iota;
      rewrite <- Vbl;
      try (rewrite (next_bytes_ok _ _ _ _ Vbll), bind_some; cbv beta iota);
      rewrite bind_some; cbv beta iota.
    all: replace (ext_cnt e) with (ext_cnt e + 0) by lia;
      rewrite (dec_ext_enc e 0 rest Ve); reflexivity.
  Qed.
End RoundTrip.

(** * The theorems of C02 *)

Definition is_perm_fun (order : list bytes -> list bytes) : Prop := forall l, Permutation (order l) l.

Lemma sorted_order_perm : forall order, is_perm_fun order -> is_perm_fun (fun l => isort (order l)).
Proof.
  intros order P l. eapply Permutation_trans; [apply isort_perm | apply P].
Qed.

Section C02.
  Variable key_ok : bytes -> bool.
  (** Two arbitrary iteration orders of the [HashSet] (two different decodes, two different
      processes, ...). *)
  Variables order1 order2 : list bytes -> list bytes.
  Hypothesis order1_perm : is_perm_fun order1.
  Hypothesis order2_perm : is_perm_fun order2.

  (** The repaired encoder gives the same tokens whatever the iteration order. *)
  Theorem enc_deterministic : forall h, enc_header order1 h = enc_header order2 h.
  Proof.
    intro h. unfold enc_header, enc_header_with. do 3 f_equal.
    do 3 (apply f_equal2; [reflexivity|]; try apply f_equal).
    destruct (h_ext h) as [|n|l t p|l t pv]; try reflexivity.
    cbn [enc_ext_with]. do 2 f_equal.
    apply isort_perm_eq. eapply Permutation_trans; [apply order1_perm | apply Permutation_sym, order2_perm].
  Qed.

  (** Round trip for the repaired encoder. *)
  Theorem dec_enc : forall h rest,
    valid key_ok h = true ->
    dec_header key_ok (kind_of (h_ext h)) (enc_header order1 h ++ rest) = Some (h, rest).
  Proof.
    intros h rest V. unfold enc_header. apply dec_enc_with; [|exact V].
    apply sorted_order_perm. exact order1_perm.
  Qed.

  (** The value round trip also holds for the encoder as it was (the defect was never a lost
      value, only a non-deterministic byte string). *)
  Theorem dec_enc_asis : forall h rest,
    valid key_ok h = true ->
    dec_header key_ok (kind_of (h_ext h)) (enc_header_asis order1 h ++ rest) = Some (h, rest).
  Proof.
    intros h rest V. unfold enc_header_asis. apply dec_enc_with; [exact order1_perm | exact V].
  Qed.

  (** Injectivity: different valid header values never share an encoding, even when produced
      under different iteration orders. *)
  Theorem enc_inj : forall h1 h2,
    valid key_ok h1 = true -> valid key_ok h2 = true ->
    kind_of (h_ext h1) = kind_of (h_ext h2) ->
    enc_header order1 h1 = enc_header order2 h2 -> h1 = h2.
  Proof.
    intros h1 h2 V1 V2 K E.
    pose proof (dec_enc h1 [] V1) as D1.
    assert (D2 : dec_header key_ok (kind_of (h_ext h2)) (enc_header order2 h2 ++ []) = Some (h2, [])).
    { unfold enc_header. apply dec_enc_with; [apply sorted_order_perm; exact order2_perm | exact V2]. }
    rewrite E, K in D1. rewrite D1 in D2. inversion D2. reflexivity.
  Qed.

  (** Operation id and signature check are functions of the header *value*. *)
  Variable H : Type.
  Variable hash : list token -> H.
  Variable verify_sig : bytes -> list token -> bytes -> bool.

  Definition header_hash (order : list bytes -> list bytes) (h : header) : H := hash (enc_header order h).

  Definition header_verify (order : list bytes -> list bytes) (h : header) : bool :=
    match h_sig h with
    | Some s => verify_sig (h_pk h) (enc_header order (unsigned h)) s
    | None => false
    end.

  Theorem hash_fn_of_value : forall h, header_hash order1 h = header_hash order2 h.
  Proof. intro h. unfold header_hash. rewrite enc_deterministic. reflexivity. Qed.

  Theorem verify_fn_of_value : forall h, header_verify order1 h = header_verify order2 h.
  Proof.
    intro h. unfold header_verify. destruct (h_sig h); [|reflexivity].
    rewrite enc_deterministic. reflexivity.
  Qed.

  (** A header that verified where it was signed (iteration order [order1]) still verifies, and
      has the same id, after it travelled as bytes and was decoded elsewhere (order [order2]). *)
  Theorem verify_after_roundtrip : forall h h' rest,
    valid key_ok h = true ->
    dec_header key_ok (kind_of (h_ext h)) (enc_header order1 h ++ rest) = Some (h', rest) ->
    h' = h /\ header_verify order2 h' = header_verify order1 h /\ header_hash order2 h' = header_hash order1 h.
  Proof.
    intros h h' rest V D. rewrite (dec_enc h rest V) in D. inversion D; subst h'.
    split; [reflexivity|]. split; [symmetry; apply verify_fn_of_value | symmetry; apply hash_fn_of_value].
  Qed.
End C02.

(** * The encoder as it was: refuted *)

Definition w_hash (x : N) : bytes := repeat x 32.
Definition w_header : header :=
  mkHeader 1 (repeat 7%N 32) (Some (repeat 9%N 64)) 0 None 0 None
           (ECausal (repeat 3%N 32) 5 [w_hash 1; w_hash 2]).

Theorem unsorted_refuted :
  exists (h : header) (o1 o2 : list bytes -> list bytes),
    valid (fun _ => true) h = true /\ is_perm_fun o1 /\ is_perm_fun o2 /\
    enc_header_asis o1 h <> enc_header_asis o2 h.
Proof.
  exists w_header, (fun l => l), (@rev bytes).
  split; [vm_compute; reflexivity|].
  split; [intro l; apply Permutation_refl|].
  split; [intro l; apply Permutation_sym, Permutation_rev|].
  vm_compute. intro E. discriminate E.
Qed.

(** ... and the only headers on which the old encoder depends on the order are causal ones with
    at least two [previous] hashes. *)
Definition causal_multi (h : header) : Prop :=
  match h_ext h with ECausal _ _ pv => 2 <= length pv | _ => False end.

Lemma perm_small : forall (l l' : list bytes), length l < 2 -> Permutation l' l -> l' = l.
Proof.
  intros l l' L P. destruct l as [|a [|b r]]; cbn [length] in L; try lia.
  - apply Permutation_sym, Permutation_nil in P. exact P.
  - apply Permutation_sym, Permutation_length_1_inv in P. exact P.
Qed.

Theorem unsorted_outside_known : forall (o1 o2 : list bytes -> list bytes) h,
  is_perm_fun o1 -> is_perm_fun o2 -> ~ causal_multi h ->
  enc_header_asis o1 h = enc_header_asis o2 h.
Proof.
  intros o1 o2 h P1 P2 NK. unfold enc_header_asis, enc_header_with. do 3 f_equal.
  do 3 (apply f_equal2; [reflexivity|]; try apply f_equal).
  unfold causal_multi in NK. destruct (h_ext h) as [|n|l t p|l t pv]; try reflexivity.
  cbn [enc_ext_with]. do 2 f_equal.
  assert (L : length pv < 2) by lia.
  rewrite (perm_small pv (o1 pv) L (P1 pv)), (perm_small pv (o2 pv) L (P2 pv)). reflexivity.
Qed.

(** Examples: the hypotheses are satisfiable by non-trivial values. *)
Example valid_w_header : valid (fun _ => true) w_header = true.
Proof. vm_compute. reflexivity. Qed.

Example w_roundtrip :
  dec_header (fun _ => true) KNode (enc_header (@rev bytes) w_header) = Some (w_header, []).
Proof. vm_compute. reflexivity. Qed.

Example w_header_two_orders :
  enc_header (fun l => l) w_header = enc_header (@rev bytes) w_header.
Proof. vm_compute. reflexivity. Qed.
