(** C31, second part: [apply_action] respects extensional equality of states; the states stored
    by [run] satisfy a fixpoint equation over the causal history; two causal processing orders of
    one operation set converge. *)
From Coq Require Import List NArith Bool Lia Permutation.
From PV Require Import Lib.AListC31 Model.GroupCrdt Proofs.GroupCrdt.
Import ListNotations.

(** * state.rs functions respect [geq], keep [wf] and "no conditions" *)
Lemma gset_cong k v s s' : geq s s' -> geq (gset k v s) (gset k v s').
Proof. intros E k'. rewrite !glookup_gset. rewrite (E k'). reflexivity. Qed.

Lemma gnc_gset k v s : gnc s -> mnc v -> gnc (gset k v s).
Proof.
  intros H Hv k' v'. rewrite glookup_gset. destruct (key_eqb k' k).
  - intros E; inversion E; subst; exact Hv.
  - apply H.
Qed.

Lemma glookup_clear k g s :
  glookup k (clear_group g s) = if N.eqb (fst k) g then None else glookup k s.
Proof.
  unfold clear_group, glookup.
  rewrite (lookup_filter_key key_eqb key_eqb_spec (fun k0 => negb (N.eqb (fst k0) g))).
  destruct (N.eqb (fst k) g); reflexivity.
Qed.

Lemma wf_clear g s : wf s -> wf (clear_group g s).
Proof. apply wf_filter. Qed.

Lemma clear_cong g s s' : geq s s' -> geq (clear_group g s) (clear_group g s').
Proof. intros E k. rewrite !glookup_clear, (E k). reflexivity. Qed.

Lemma gnc_clear g s : gnc s -> gnc (clear_group g s).
Proof.
  intros H k v. rewrite glookup_clear. destruct (N.eqb (fst k) g); [discriminate|apply H].
Qed.

Definition create_step (g : N) (cur : gstate) (e : member * access) : gstate :=
  gset (g, fst e) {| mc := 1; acc := snd e; ac := 0 |} cur.

Lemma st_create_fold g init s : st_create g init s = fold_left (create_step g) init (clear_group g s).
Proof. reflexivity. Qed.

Lemma create_fold_cong g init : forall s s', geq s s' ->
  geq (fold_left (create_step g) init s) (fold_left (create_step g) init s').
Proof.
  induction init as [|e r IH]; intros s s' E; cbn [fold_left]; [exact E|].
  apply IH. apply gset_cong. exact E.
Qed.

Lemma create_fold_wf g init : forall s, wf s -> wf (fold_left (create_step g) init s).
Proof.
  induction init as [|e r IH]; intros s W; cbn [fold_left]; [exact W|].
  apply IH. apply wf_gset. exact W.
Qed.

Lemma create_fold_gnc g init : forall s,
  Forall (fun e => nc (snd e)) init -> gnc s -> gnc (fold_left (create_step g) init s).
Proof.
  induction init as [|e r IH]; intros s Hn H; cbn [fold_left]; [exact H|].
  inversion Hn; subst. apply IH; [assumption|]. apply gnc_gset; [exact H|assumption].
Qed.

(** option-lifted equality / invariants *)
Definition oeq (a b : option gstate) : Prop :=
  match a, b with
  | Some x, Some y => geq x y
  | None, None => True
  | _, _ => False
  end.

Definition owf (a : option gstate) : Prop := match a with Some x => wf x | None => True end.
Definition ognc (a : option gstate) : Prop := match a with Some x => gnc x | None => True end.

Lemma oeq_refl a : oeq a a.
Proof. destruct a; cbn; [apply geq_refl|exact I]. Qed.

Lemma actor_manages_cong s s' g a : geq s s' -> actor_manages s g a = actor_manages s' g a.
Proof. intros E. unfold actor_manages. rewrite (E (g, a)). reflexivity. Qed.

Lemma st_add_cong s s' g ad m a : geq s s' -> oeq (st_add s g ad m a) (st_add s' g ad m a).
Proof.
  intros E. unfold st_add. rewrite <- (actor_manages_cong s s' g ad E), <- (E (g, m)).
  destruct (negb (actor_manages s g ad)); [exact I|].
  destruct (glookup (g, m) s) as [v|]; [destruct (is_member v); [exact I|]|]; cbn [oeq]; apply gset_cong; exact E.
Qed.

Lemma st_remove_cong s s' g r m : geq s s' -> oeq (st_remove s g r m) (st_remove s' g r m).
Proof.
  intros E. unfold st_remove. rewrite <- (E (g, r)), <- (E (g, m)).
  destruct (glookup (g, r) s) as [vr|]; [|exact I].
  destruct (negb (is_member vr)); [exact I|].
  destruct (negb (is_manager vr) && negb (member_eqb r m)); [exact I|].
  destruct (glookup (g, m) s) as [v|]; [|exact I].
  destruct (negb (is_member v)); [exact I|]. cbn [oeq]. apply gset_cong; exact E.
Qed.

Lemma st_modify_cong s s' g p m a : geq s s' -> oeq (st_modify s g p m a) (st_modify s' g p m a).
Proof.
  intros E. unfold st_modify. rewrite <- (actor_manages_cong s s' g p E), <- (E (g, m)).
  destruct (negb (actor_manages s g p)); [exact I|].
  destruct (glookup (g, m) s) as [v|]; [|exact I].
  destruct (negb (is_member v)); [exact I|].
  destruct (acc_eqb (acc v) a); cbn [oeq]; [exact E|apply gset_cong; exact E].
Qed.

Lemma st_promote_cong s s' g p m a : geq s s' -> oeq (st_promote s g p m a) (st_promote s' g p m a).
Proof.
  intros E. unfold st_promote. rewrite <- (E (g, m)), <- (actor_manages_cong s s' g p E).
  destruct (glookup (g, m) s) as [v|]; [|exact I].
  destruct (is_manager v); [destruct (actor_manages s g p); [exact E|exact I]|apply st_modify_cong; exact E].
Qed.

Lemma st_demote_cong s s' g p m a : geq s s' -> oeq (st_demote s g p m a) (st_demote s' g p m a).
Proof.
  intros E. unfold st_demote. rewrite <- (E (g, m)), <- (actor_manages_cong s s' g p E).
  destruct (glookup (g, m) s) as [v|]; [|exact I].
  destruct (is_pull (acc v)); [destruct (actor_manages s g p); [exact E|exact I]|apply st_modify_cong; exact E].
Qed.

(** wf *)
Lemma st_add_wf s g ad m a : wf s -> owf (st_add s g ad m a).
Proof.
  intros W. unfold st_add. destruct (negb (actor_manages s g ad)); [exact I|].
  destruct (glookup (g, m) s) as [v|]; [destruct (is_member v); [exact I|]|]; cbn [owf]; apply wf_gset; exact W.
Qed.
Lemma st_remove_wf s g r m : wf s -> owf (st_remove s g r m).
Proof.
  intros W. unfold st_remove.
  destruct (glookup (g, r) s) as [vr|]; [|exact I].
  destruct (negb (is_member vr)); [exact I|].
  destruct (negb (is_manager vr) && negb (member_eqb r m)); [exact I|].
  destruct (glookup (g, m) s) as [v|]; [|exact I].
  destruct (negb (is_member v)); [exact I|]. cbn [owf]. apply wf_gset; exact W.
Qed.
Lemma st_modify_wf s g p m a : wf s -> owf (st_modify s g p m a).
Proof.
  intros W. unfold st_modify. destruct (negb (actor_manages s g p)); [exact I|].
  destruct (glookup (g, m) s) as [v|]; [|exact I].
  destruct (negb (is_member v)); [exact I|].
  destruct (acc_eqb (acc v) a); cbn [owf]; [exact W|apply wf_gset; exact W].
Qed.
Lemma st_promote_wf s g p m a : wf s -> owf (st_promote s g p m a).
Proof.
  intros W. unfold st_promote. destruct (glookup (g, m) s) as [v|]; [|exact I].
  destruct (is_manager v); [destruct (actor_manages s g p); [exact W|exact I]|apply st_modify_wf; exact W].
Qed.
Lemma st_demote_wf s g p m a : wf s -> owf (st_demote s g p m a).
Proof.
  intros W. unfold st_demote. destruct (glookup (g, m) s) as [v|]; [|exact I].
  destruct (is_pull (acc v)); [destruct (actor_manages s g p); [exact W|exact I]|apply st_modify_wf; exact W].
Qed.

(** no conditions *)
Lemma st_add_gnc s g ad m a : nc a -> gnc s -> ognc (st_add s g ad m a).
Proof.
  intros Ha H. unfold st_add. destruct (negb (actor_manages s g ad)); [exact I|].
  destruct (glookup (g, m) s) as [v|]; [destruct (is_member v); [exact I|]|]; cbn [ognc]; apply gnc_gset;
    try exact H; exact Ha.
Qed.
Lemma st_remove_gnc s g r m : gnc s -> ognc (st_remove s g r m).
Proof.
  intros H. unfold st_remove.
  destruct (glookup (g, r) s) as [vr|]; [|exact I].
  destruct (negb (is_member vr)); [exact I|].
  destruct (negb (is_manager vr) && negb (member_eqb r m)); [exact I|].
  destruct (glookup (g, m) s) as [v|] eqn:Ev; [|exact I].
  destruct (negb (is_member v)); [exact I|]. cbn [ognc]. apply gnc_gset; [exact H|].
  exact (H _ _ Ev).
Qed.
Lemma st_modify_gnc s g p m a : nc a -> gnc s -> ognc (st_modify s g p m a).
Proof.
  intros Ha H. unfold st_modify. destruct (negb (actor_manages s g p)); [exact I|].
  destruct (glookup (g, m) s) as [v|]; [|exact I].
  destruct (negb (is_member v)); [exact I|].
  destruct (acc_eqb (acc v) a); cbn [ognc]; [exact H|apply gnc_gset; [exact H|exact Ha]].
Qed.
Lemma st_promote_gnc s g p m a : nc a -> gnc s -> ognc (st_promote s g p m a).
Proof.
  intros Ha H. unfold st_promote. destruct (glookup (g, m) s) as [v|]; [|exact I].
  destruct (is_manager v); [destruct (actor_manages s g p); [exact H|exact I]|apply st_modify_gnc; assumption].
Qed.
Lemma st_demote_gnc s g p m a : nc a -> gnc s -> ognc (st_demote s g p m a).
Proof.
  intros Ha H. unfold st_demote. destruct (glookup (g, m) s) as [v|]; [|exact I].
  destruct (is_pull (acc v)); [destruct (actor_manages s g p); [exact H|exact I]|apply st_modify_gnc; assumption].
Qed.

(** * [apply_action] *)
Definition op_nc (o : op) : Prop :=
  match act o with
  | Create init => Forall (fun e => nc (snd e)) init
  | Add _ a | Promote _ a | Demote _ a => nc a
  | Remove _ => True
  end.

Lemma apply_shape (f : option gstate) (f' : option gstate) s s' :
  oeq f f' -> geq s s' ->
  geq (fst (match f with Some x => (x, ROk) | None => (s, RErr) end))
      (fst (match f' with Some x => (x, ROk) | None => (s', RErr) end)) /\
  snd (match f with Some x => (x, ROk) | None => (s, RErr) end) =
  snd (match f' with Some x => (x, ROk) | None => (s', RErr) end).
Proof.
  intros Ef Es. destruct f, f'; cbn in Ef; try contradiction; cbn [fst snd]; split; auto.
Qed.

Lemma apply_cong s s' o i :
  geq s s' ->
  geq (fst (apply_action s o i)) (fst (apply_action s' o i)) /\
  snd (apply_action s o i) = snd (apply_action s' o i).
Proof.
  intros E. unfold apply_action. destruct i.
  - cbn [fst snd]. split; [|reflexivity]. destruct (act o); try exact E. apply clear_cong; exact E.
  - destruct (act o) as [init|m a|m|m a|m a].
    + cbn [fst snd]. split; [|reflexivity]. rewrite !st_create_fold.
      apply create_fold_cong. apply clear_cong. exact E.
    + apply apply_shape; [apply st_add_cong|]; exact E.
    + apply apply_shape; [apply st_remove_cong|]; exact E.
    + apply apply_shape; [apply st_promote_cong|]; exact E.
    + apply apply_shape; [apply st_demote_cong|]; exact E.
Qed.

Lemma apply_wf s o i : wf s -> wf (fst (apply_action s o i)).
Proof.
  intros W. unfold apply_action. destruct i.
  - cbn [fst]. destruct (act o); try exact W. apply wf_clear; exact W.
  - destruct (act o) as [init|m a|m|m a|m a].
    + cbn [fst]. rewrite st_create_fold. apply create_fold_wf. apply wf_clear. exact W.
    + pose proof (st_add_wf s (group o) (false, author o) m a W) as H.
      destruct (st_add s (group o) (false, author o) m a); [exact H|exact W].
    + pose proof (st_remove_wf s (group o) (false, author o) m W) as H.
      destruct (st_remove s (group o) (false, author o) m); [exact H|exact W].
    + pose proof (st_promote_wf s (group o) (false, author o) m a W) as H.
      destruct (st_promote s (group o) (false, author o) m a); [exact H|exact W].
    + pose proof (st_demote_wf s (group o) (false, author o) m a W) as H.
      destruct (st_demote s (group o) (false, author o) m a); [exact H|exact W].
Qed.

Lemma apply_gnc s o i : op_nc o -> gnc s -> gnc (fst (apply_action s o i)).
Proof.
  intros Ho H. unfold apply_action. destruct i.
  - cbn [fst]. destruct (act o); try exact H. apply gnc_clear; exact H.
  - unfold op_nc in Ho. destruct (act o) as [init|m a|m|m a|m a].
    + cbn [fst]. rewrite st_create_fold. apply create_fold_gnc; [exact Ho|]. apply gnc_clear. exact H.
    + pose proof (st_add_gnc s (group o) (false, author o) m a Ho H) as G.
      destruct (st_add s (group o) (false, author o) m a); [exact G|exact H].
    + pose proof (st_remove_gnc s (group o) (false, author o) m H) as G.
      destruct (st_remove s (group o) (false, author o) m); [exact G|exact H].
    + pose proof (st_promote_gnc s (group o) (false, author o) m a Ho H) as G.
      destruct (st_promote s (group o) (false, author o) m a); [exact G|exact H].
    + pose proof (st_demote_gnc s (group o) (false, author o) m a Ho H) as G.
      destruct (st_demote s (group o) (false, author o) m a); [exact G|exact H].
Qed.

(** * The states stored by [run] *)
Definition ids (l : list op) : list N := map oid l.

Definition is_some {A} (o : option A) : bool := match o with Some _ => true | None => false end.
Definition unwrap (get : N -> option gstate) (d : N) : gstate :=
  match get d with Some s => s | None => [] end.

Fixpoint dep_states_f (get : N -> option gstate) (ds : list N) : option (list gstate) :=
  match ds with
  | [] => Some []
  | d :: r => match get d, dep_states_f get r with
              | Some s, Some l => Some (s :: l)
              | _, _ => None
              end
  end.

Lemma dep_states_eq S ds : dep_states S ds = dep_states_f (fun d => sget d S) ds.
Proof. induction ds as [|d r IH]; cbn [dep_states dep_states_f]; [reflexivity|]. rewrite IH. reflexivity. Qed.

Lemma dep_states_f_char get ds :
  dep_states_f get ds =
  if forallb (fun d => is_some (get d)) ds then Some (map (unwrap get) ds) else None.
Proof.
  induction ds as [|d r IH]; cbn [dep_states_f forallb map]; [reflexivity|].
  rewrite IH. destruct (get d) as [g|] eqn:E; cbn [is_some andb]; [|reflexivity].
  destruct (forallb (fun d0 => is_some (get d0)) r); [|reflexivity].
  change (unwrap get d) with (match get d with Some s => s | None => [] end). rewrite E. reflexivity.
Qed.

Definition state_at_f (get : N -> option gstate) (ds : list N) : option gstate :=
  option_map merge_list (dep_states_f get ds).

Lemma state_at_eq S ds : state_at S ds = state_at_f (fun d => sget d S) ds.
Proof. unfold state_at, state_at_f. rewrite dep_states_eq. reflexivity. Qed.

(** The equation every stored state satisfies. *)
Definition R (o : op) (get : N -> option gstate) : option gstate :=
  if manager_group o then None else
  match state_at_f get (deps o) with
  | None => None
  | Some s => match apply_action s o false with
              | (s', ROk) => Some s'
              | _ => None
              end
  end.

Definition get_of (y : replica) : N -> option gstate := fun d => sget d (r_sts y).

Lemma sget_cons i j s S : sget i ((j, s) :: S) = if N.eqb i j then Some s else sget i S.
Proof. reflexivity. Qed.

Lemma step_dup y o s : sget (oid o) (r_sts y) = Some s -> step y o = y.
Proof. intros E. unfold step. rewrite E. reflexivity. Qed.

Lemma step_new y o :
  sget (oid o) (r_sts y) = None ->
  step y o = match R o (get_of y) with
             | Some s' => {| r_ops := r_ops y ++ [o]; r_sts := (oid o, s') :: r_sts y |}
             | None => y
             end.
Proof.
  intros E. unfold step, R, get_of. rewrite E, state_at_eq.
  destruct (manager_group o); [reflexivity|].
  destruct (state_at_f (fun d => sget d (r_sts y)) (deps o)) as [s|]; [|reflexivity].
  destruct (apply_action s o false) as [s' [| |]]; reflexivity.
Qed.

Lemma run_snoc l x : run (l ++ [x]) = step (run l) x.
Proof. unfold run. rewrite fold_left_app. reflexivity. Qed.

Lemma state_at_f_ext get get' ds :
  (forall d, In d ds -> get d = get' d) -> state_at_f get ds = state_at_f get' ds.
Proof.
  intros H. unfold state_at_f. f_equal.
  induction ds as [|d r IH]; cbn [dep_states_f]; [reflexivity|].
  rewrite (H d) by (left; reflexivity). rewrite IH; [reflexivity|].
  intros d' Hd. apply H. right. exact Hd.
Qed.

Lemma R_ext o get get' : (forall d, In d (deps o) -> get d = get' d) -> R o get = R o get'.
Proof. intros H. unfold R. rewrite (state_at_f_ext get get' (deps o) H). reflexivity. Qed.

(** Only processed ids have a state. *)
Lemma run_dom l i : sget i (r_sts (run l)) <> None -> In i (ids l).
Proof.
  induction l as [|x l IH] using rev_ind.
  - cbn. intros H. exfalso. apply H. reflexivity.
  - rewrite run_snoc. unfold ids. rewrite map_app, in_app_iff. cbn [map In].
    destruct (sget (oid x) (r_sts (run l))) as [s|] eqn:E.
    + rewrite (step_dup _ _ _ E). intros H. left. apply IH. exact H.
    + rewrite (step_new _ _ E). destruct (R x (get_of (run l))) as [s'|].
      * cbn [r_sts]. rewrite sget_cons. destruct (N.eqb_spec i (oid x)) as [->|Hne].
        -- intros _. right. left. reflexivity.
        -- intros H. left. apply IH. exact H.
      * intros H. left. apply IH. exact H.
Qed.

Definition causal (l : list op) : Prop :=
  forall pre o post, l = pre ++ o :: post -> incl (deps o) (ids pre).

Lemma causal_snoc l x : causal (l ++ [x]) -> causal l /\ incl (deps x) (ids l).
Proof.
  intros H. split.
  - intros pre o post E. apply (H pre o (post ++ [x])). rewrite E, <- app_assoc. reflexivity.
  - apply (H l x []). reflexivity.
Qed.

Lemma causal_deps_in l o : causal l -> In o l -> incl (deps o) (ids l).
Proof.
  intros C Hin. destruct (in_split _ _ Hin) as [pre [post E]].
  intros d Hd. specialize (C pre o post E d Hd). rewrite E. unfold ids in *. rewrite map_app, in_app_iff. left. exact C.
Qed.

Lemma ids_snoc l x : ids (l ++ [x]) = ids l ++ [oid x].
Proof. unfold ids. rewrite map_app. reflexivity. Qed.

Lemma nodup_snoc l x : NoDup (ids (l ++ [x])) -> NoDup (ids l) /\ ~ In (oid x) (ids l).
Proof.
  rewrite ids_snoc. intros H. apply NoDup_remove in H. rewrite app_nil_r in H. exact H.
Qed.

Lemma step_other y o i : i <> oid o -> sget i (r_sts (step y o)) = sget i (r_sts y).
Proof.
  intros Hne. destruct (sget (oid o) (r_sts y)) as [s|] eqn:E.
  - rewrite (step_dup _ _ _ E). reflexivity.
  - rewrite (step_new _ _ E). destruct (R o (get_of y)); [|reflexivity].
    cbn [r_sts]. rewrite sget_cons. destruct (N.eqb_spec i (oid o)); [contradiction|reflexivity].
Qed.

Theorem run_fix l :
  NoDup (ids l) -> causal l ->
  forall o, In o l -> sget (oid o) (r_sts (run l)) = R o (get_of (run l)).
Proof.
  induction l as [|x l IH] using rev_ind; intros ND C o Hin; [contradiction|].
  apply nodup_snoc in ND. destruct ND as [ND Hx].
  apply causal_snoc in C. destruct C as [C Dx].
  rewrite run_snoc.
  assert (Ex : sget (oid x) (r_sts (run l)) = None).
  { destruct (sget (oid x) (r_sts (run l))) eqn:E; [|reflexivity].
    exfalso. apply Hx. apply run_dom. rewrite E. discriminate. }
  assert (Hget : forall o0, incl (deps o0) (ids l) ->
                 R o0 (get_of (step (run l) x)) = R o0 (get_of (run l))).
  { intros o0 Hd. apply R_ext. intros d Hdd. unfold get_of. apply step_other.
    intros ->. apply Hx. apply Hd. exact Hdd. }
  apply in_app_or in Hin. destruct Hin as [Hin|[<-|[]]].
  - rewrite step_other.
    + rewrite (IH ND C o Hin). symmetry. apply Hget. apply causal_deps_in; assumption.
    + intros E. apply Hx. rewrite <- E. apply in_map. exact Hin.
  - rewrite (Hget x Dx). rewrite (step_new _ _ Ex).
    destruct (R x (get_of (run l))) as [s'|] eqn:ER.
    + cbn [r_sts]. rewrite sget_cons, N.eqb_refl. reflexivity.
    + exact Ex.
Qed.

(** Accepted operations = those that have a state. *)
Lemma r_ops_filter l :
  NoDup (ids l) ->
  r_ops (run l) = filter (fun o => is_some (sget (oid o) (r_sts (run l)))) l.
Proof.
  induction l as [|x l IH] using rev_ind; intros ND; [reflexivity|].
  apply nodup_snoc in ND. destruct ND as [ND Hx].
  rewrite run_snoc, filter_app.
  assert (Ex : sget (oid x) (r_sts (run l)) = None).
  { destruct (sget (oid x) (r_sts (run l))) eqn:E; [|reflexivity].
    exfalso. apply Hx. apply run_dom. rewrite E. discriminate. }
  assert (Efilt : filter (fun o => is_some (sget (oid o) (r_sts (step (run l) x)))) l =
                  filter (fun o => is_some (sget (oid o) (r_sts (run l)))) l).
  { apply filter_ext_in. intros o Ho. rewrite step_other; [reflexivity|].
    intros E. apply Hx. rewrite <- E. apply in_map. exact Ho. }
  rewrite Efilt, <- (IH ND). cbn [filter].
  rewrite (step_new _ _ Ex). destruct (R x (get_of (run l))) as [s'|].
  - cbn [r_ops r_sts]. rewrite sget_cons, N.eqb_refl. reflexivity.
  - rewrite Ex. cbn [is_some]. rewrite app_nil_r. reflexivity.
Qed.

Lemma nodup_ids_filter (f : op -> bool) l : NoDup (ids l) -> NoDup (ids (filter f l)).
Proof.
  unfold ids. induction l as [|x l IH]; cbn [filter map]; intros H; [constructor|].
  inversion H as [|? ? Hn Hr]; subst. destruct (f x); cbn [map]; [|apply IH; exact Hr].
  constructor; [|apply IH; exact Hr].
  intros Hin. apply Hn. apply in_map_iff in Hin. destruct Hin as [o [E Ho]].
  apply filter_In in Ho. apply in_map_iff. exists o. split; [exact E|apply Ho].
Qed.

(** Stored states are well formed and, without conditions in the operations, free of conditions. *)
Definition ok_get (get : N -> option gstate) : Prop := forall d s, get d = Some s -> wf s /\ gnc s.

Lemma unwrap_ok get ds : ok_get get -> Forall wf (map (unwrap get) ds) /\ Forall gnc (map (unwrap get) ds).
Proof.
  intros H. split; apply Forall_map; apply Forall_forall; intros d _; unfold unwrap;
    destruct (get d) as [s|] eqn:E; try (apply (H d s E)); [apply wf_nil|apply gnc_nil].
Qed.

Lemma state_at_f_ok get ds s : ok_get get -> state_at_f get ds = Some s -> wf s /\ gnc s.
Proof.
  intros H. unfold state_at_f. rewrite dep_states_f_char.
  destruct (forallb (fun d => is_some (get d)) ds); cbn [option_map]; [|discriminate].
  intros E. inversion E; subst. destruct (unwrap_ok get ds H) as [W G].
  split; [apply wf_merge_list|apply gnc_merge_list; assumption].
Qed.

Lemma R_ok o get s' : op_nc o -> ok_get get -> R o get = Some s' -> wf s' /\ gnc s'.
Proof.
  intros Ho H. unfold R. destruct (manager_group o); [discriminate|].
  destruct (state_at_f get (deps o)) as [s|] eqn:E; [|discriminate].
  destruct (state_at_f_ok get (deps o) s H E) as [W G].
  destruct (apply_action s o false) as [s1 r] eqn:EA.
  assert (E1 : s1 = fst (apply_action s o false)) by (rewrite EA; reflexivity).
  destruct r; try discriminate. intros X; inversion X; subst s'. rewrite E1.
  split; [apply apply_wf; exact W|apply apply_gnc; assumption].
Qed.

Lemma run_ok l : Forall op_nc l -> ok_get (get_of (run l)).
Proof.
  induction l as [|x l IH] using rev_ind; intros Hn.
  - intros d s E. discriminate.
  - apply Forall_app in Hn. destruct Hn as [Hn Hx]. inversion Hx as [|? ? Hx' _]; subst.
    specialize (IH Hn). rewrite run_snoc. unfold get_of.
    destruct (sget (oid x) (r_sts (run l))) as [s0|] eqn:E.
    + rewrite (step_dup _ _ _ E). exact IH.
    + rewrite (step_new _ _ E). destruct (R x (get_of (run l))) as [s'|] eqn:ER; [|exact IH].
      cbn [r_sts]. intros d s. rewrite sget_cons. destruct (N.eqb d (oid x)).
      * intros X; inversion X; subst. eapply R_ok; eassumption.
      * apply IH.
Qed.

(** * Two processing orders of one operation set *)
Definition op_sim (o o' : op) : Prop :=
  oid o = oid o' /\ author o = author o' /\ group o = group o' /\ act o = act o' /\
  Permutation (deps o) (deps o').

Definition same_ops (l1 l2 : list op) : Prop :=
  (forall o, In o l1 -> exists o', In o' l2 /\ op_sim o o') /\
  (forall o', In o' l2 -> exists o, In o l1 /\ op_sim o o').

Lemma op_sim_sym o o' : op_sim o o' -> op_sim o' o.
Proof. intros (A & B & C & D & E). repeat split; try (symmetry; assumption). Qed.

Lemma same_ops_sym l1 l2 : same_ops l1 l2 -> same_ops l2 l1.
Proof.
  intros [H1 H2]. split; intros o Ho.
  - destruct (H2 o Ho) as [o' [Hi Hs]]. exists o'. split; [exact Hi|apply op_sim_sym; exact Hs].
  - destruct (H1 o Ho) as [o' [Hi Hs]]. exists o'. split; [exact Hi|apply op_sim_sym; exact Hs].
Qed.

Lemma apply_action_sim s o o' : op_sim o o' -> apply_action s o false = apply_action s o' false.
Proof. intros (_ & B & C & D & _). unfold apply_action. rewrite B, C, D. reflexivity. Qed.

Lemma manager_group_sim o o' : op_sim o o' -> manager_group o = manager_group o'.
Proof. intros (_ & _ & _ & D & _). unfold manager_group. rewrite D. reflexivity. Qed.

Lemma forallb_perm {A} (f : A -> bool) l l' : Permutation l l' -> forallb f l = forallb f l'.
Proof.
  induction 1 as [|x l l' HP IH|x y l|l l' l'' HP1 IH1 HP2 IH2]; cbn [forallb].
  - reflexivity.
  - rewrite IH; reflexivity.
  - destruct (f x), (f y); reflexivity.
  - rewrite IH1; exact IH2.
Qed.

Lemma forallb_ext_in' {A} (f g : A -> bool) l :
  (forall x, In x l -> f x = g x) -> forallb f l = forallb g l.
Proof.
  induction l as [|x r IH]; intros H; cbn [forallb]; [reflexivity|].
  rewrite (H x) by (left; reflexivity). rewrite IH; [reflexivity|].
  intros y Hy. apply H. right. exact Hy.
Qed.

Lemma oeq_is_some a b : oeq a b -> is_some a = is_some b.
Proof. destruct a, b; cbn; intros H; try reflexivity; contradiction. Qed.

Lemma state_at_f_cong get1 get2 ds ds' :
  Permutation ds ds' ->
  (forall d, In d ds -> oeq (get1 d) (get2 d)) ->
  ok_get get1 -> ok_get get2 ->
  oeq (state_at_f get1 ds) (state_at_f get2 ds').
Proof.
  intros HP HE O1 O2. unfold state_at_f. rewrite !dep_states_f_char.
  assert (Eb : forallb (fun d => is_some (get1 d)) ds = forallb (fun d => is_some (get2 d)) ds').
  { rewrite <- (forallb_perm _ _ _ HP). apply forallb_ext_in'. intros d Hd. apply oeq_is_some. apply HE. exact Hd. }
  rewrite <- Eb. destruct (forallb (fun d => is_some (get1 d)) ds) eqn:Ef; cbn [option_map oeq]; [|exact I].
  destruct (unwrap_ok get1 ds O1) as [W1 G1]. destruct (unwrap_ok get2 ds' O2) as [W2 _].
  apply (merge_states_perm_invariant _ _ (map (unwrap get1) ds')); try assumption.
  - apply Permutation_map. exact HP.
  - rewrite forallb_forall in Ef.
    assert (Hall : forall d, In d ds' -> geq (unwrap get1 d) (unwrap get2 d)).
    { intros d Hd. assert (Hd' : In d ds) by (eapply Permutation_in; [apply Permutation_sym; exact HP|exact Hd]).
      specialize (HE d Hd'). specialize (Ef d Hd'). unfold unwrap.
      destruct (get1 d), (get2 d); cbn in HE, Ef; try contradiction; try discriminate. exact HE. }
    clear -Hall. induction ds' as [|d r IH]; cbn [map]; constructor.
    + apply Hall. left; reflexivity.
    + apply IH. intros d' Hd'. apply Hall. right; exact Hd'.
Qed.

Lemma R_cong o o' get1 get2 :
  op_sim o o' ->
  (forall d, In d (deps o) -> oeq (get1 d) (get2 d)) ->
  ok_get get1 -> ok_get get2 ->
  oeq (R o get1) (R o' get2).
Proof.
  intros Hs HE O1 O2. unfold R. rewrite <- (manager_group_sim o o' Hs).
  destruct (manager_group o); [exact I|].
  pose proof (state_at_f_cong get1 get2 (deps o) (deps o') (proj2 (proj2 (proj2 (proj2 Hs)))) HE O1 O2) as HS.
  destruct (state_at_f get1 (deps o)) as [s1|], (state_at_f get2 (deps o')) as [s2|]; cbn [oeq] in HS;
    try contradiction; [|exact I].
  rewrite <- (apply_action_sim s2 o o' Hs).
  destruct (apply_cong s1 s2 o false HS) as [Eg Er].
  destruct (apply_action s1 o false) as [a1 r1], (apply_action s2 o false) as [a2 r2].
  cbn [fst snd] in Eg, Er. subst r2. destruct r1; cbn [oeq]; try exact I. exact Eg.
Qed.

Record good (l : list op) : Prop :=
  { g_nodup : NoDup (ids l); g_causal : causal l; g_nc : Forall op_nc l }.

Lemma same_ops_ids l1 l2 i : same_ops l1 l2 -> In i (ids l1) -> In i (ids l2).
Proof.
  intros [H _] Hi. unfold ids in *. apply in_map_iff in Hi. destruct Hi as [o [E Ho]].
  destruct (H o Ho) as [o' [Ho' Hs]]. apply in_map_iff. exists o'. split; [|exact Ho'].
  rewrite <- E. symmetry. apply Hs.
Qed.

(** The state recorded for an operation depends only on the operation's causal history, not on
    the order in which the replica processed the operations (nor on the order in which
    dependency sets are iterated). *)
Theorem state_fn_of_history l1 l2 :
  good l1 -> good l2 -> same_ops l1 l2 ->
  forall i, oeq (sget i (r_sts (run l1))) (sget i (r_sts (run l2))).
Proof.
  intros G1 G2 HS.
  pose proof (run_ok l1 (g_nc _ G1)) as O1. pose proof (run_ok l2 (g_nc _ G2)) as O2.
  assert (Main : forall pre post, l1 = pre ++ post ->
                 forall o, In o pre -> oeq (sget (oid o) (r_sts (run l1))) (sget (oid o) (r_sts (run l2)))).
  { induction pre as [|x pre IH] using rev_ind; intros post E o Hin; [contradiction|].
    rewrite <- app_assoc in E. cbn [app] in E.
    apply in_app_or in Hin. destruct Hin as [Hin|[<-|[]]]; [apply (IH _ E); exact Hin|].
    assert (Hx1 : In x l1) by (rewrite E; apply in_or_app; right; left; reflexivity).
    destruct (proj1 HS x Hx1) as [x' [Hx2 Hsim]].
    rewrite (run_fix l1 (g_nodup _ G1) (g_causal _ G1) x Hx1).
    rewrite (proj1 Hsim).
    rewrite (run_fix l2 (g_nodup _ G2) (g_causal _ G2) x' Hx2).
    apply R_cong; try assumption.
    intros d Hd. pose proof (g_causal _ G1 pre x post E d Hd) as Hdp.
    unfold ids in Hdp. apply in_map_iff in Hdp. destruct Hdp as [od [Eo Hod]].
    rewrite <- Eo. apply (IH _ E). exact Hod. }
  intros i. destruct (in_dec N.eq_dec i (ids l1)) as [Hi|Hi].
  - unfold ids in Hi. apply in_map_iff in Hi. destruct Hi as [o [E Ho]]. rewrite <- E.
    apply (Main l1 []); [rewrite app_nil_r; reflexivity|exact Ho].
  - assert (E1 : sget i (r_sts (run l1)) = None).
    { destruct (sget i (r_sts (run l1))) eqn:E; [|reflexivity]. exfalso. apply Hi. apply run_dom. rewrite E. discriminate. }
    assert (E2 : sget i (r_sts (run l2)) = None).
    { destruct (sget i (r_sts (run l2))) eqn:E; [|reflexivity]. exfalso. apply Hi.
      apply (same_ops_ids l2 l1); [apply same_ops_sym; exact HS|]. apply run_dom. rewrite E. discriminate. }
    rewrite E1, E2. exact I.
Qed.
