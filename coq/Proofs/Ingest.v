(** Proofs about Model/Ingest.v (C03, C05, C04). *)
From Coq Require Import List Arith NArith Bool Lia.
From PV Require Import Model.Ingest.
Import ListNotations.
Local Open Scope N_scope.

(** * Basic facts *)

Lemma in_log_true : forall a l r, in_log a l r = true <-> r_author r = a /\ r_log r = l.
Proof.
  intros a l r. unfold in_log. rewrite andb_true_iff, !N.eqb_eq. tauto.
Qed.

Lemma latest_some : forall s a l m,
  latest s a l = Some m ->
  In m s /\ in_log a l m = true /\
  forall r, In r s -> in_log a l r = true -> r_seq r <= r_seq m.
Proof.
  induction s as [|x t IH]; intros a l m H.
  - discriminate.
  - cbn [latest] in H. destruct (in_log a l x) eqn:Ex.
    + destruct (latest t a l) as [m'|] eqn:El.
      * destruct (IH a l m' El) as (Hin & Hlog & Hmax).
        destruct (r_seq x <? r_seq m') eqn:Elt.
        -- inversion H; subst m. apply N.ltb_lt in Elt.
           split; [right; exact Hin|]. split; [exact Hlog|].
           intros r [->|Hr] Hl; [lia|]. apply Hmax; assumption.
        -- inversion H; subst m. apply N.ltb_ge in Elt.
           split; [left; reflexivity|]. split; [exact Ex|].
           intros r [->|Hr] Hl; [lia|]. specialize (Hmax r Hr Hl). lia.
      * inversion H; subst m. split; [left; reflexivity|]. split; [exact Ex|].
        intros r [->|Hr] Hl; [lia|].
        exfalso. clear IH H. revert r Hr Hl. induction t as [|y t' IHt]; intros r Hr Hl.
        -- destruct Hr.
        -- cbn [latest] in El. destruct (in_log a l y) eqn:Ey.
           ++ destruct (latest t' a l); [destruct (r_seq y <? r_seq r0)|]; discriminate.
           ++ destruct Hr as [->|Hr]; [congruence|]. eapply IHt; eauto.
    + destruct (IH a l m H) as (Hin & Hlog & Hmax).
      split; [right; exact Hin|]. split; [exact Hlog|].
      intros r [->|Hr] Hl; [congruence|]. apply Hmax; assumption.
Qed.

Lemma latest_none : forall s a l,
  latest s a l = None -> forall r, In r s -> in_log a l r = false.
Proof.
  induction s as [|x t IH]; intros a l H r Hr.
  - destruct Hr.
  - cbn [latest] in H. destruct (in_log a l x) eqn:Ex.
    + destruct (latest t a l); [destruct (r_seq x <? r_seq r0)|]; discriminate.
    + destruct Hr as [->|Hr]; [exact Ex|]. eapply IH; eauto.
Qed.

Lemma latest_exists : forall s a l r,
  In r s -> in_log a l r = true -> exists m, latest s a l = Some m.
Proof.
  intros s a l r Hr Hl. destruct (latest s a l) as [m|] eqn:E; [eauto|].
  rewrite (latest_none _ _ _ E r Hr) in Hl. discriminate.
Qed.

Lemma has_op_true : forall s id, has_op s id = true <-> exists r, In r s /\ r_id r = id.
Proof.
  intros s id. unfold has_op. rewrite existsb_exists. split.
  - intros (r & Hr & E). apply N.eqb_eq in E. eauto.
  - intros (r & Hr & E). exists r. split; [exact Hr|]. apply N.eqb_eq. exact E.
Qed.

(** * Backlink validation: what [VOk] means, and the rejection reasons *)

Lemma validate_backlink_ok : forall p o,
  validate_backlink p o = VOk <->
  r_author p = o_author o /\ r_seq p <> U32MAX /\ r_seq p + 1 = o_seq o /\ o_backlink o = Some (r_hh p).
Proof.
  intros p o. unfold validate_backlink.
  destruct (r_author p =? o_author o) eqn:Ea; cbn [negb].
  2:{ apply N.eqb_neq in Ea. split; [discriminate|]. intros (H & _); contradiction. }
  apply N.eqb_eq in Ea.
  destruct (r_seq p =? U32MAX) eqn:Em.
  { apply N.eqb_eq in Em. split; [discriminate|]. intros (_ & H & _); contradiction. }
  apply N.eqb_neq in Em.
  destruct (r_seq p + 1 =? o_seq o) eqn:Es; cbn [negb].
  2:{ apply N.eqb_neq in Es. split; [discriminate|]. intros (_ & _ & H & _); contradiction. }
  apply N.eqb_eq in Es.
  destruct (o_backlink o) as [b|].
  - destruct (r_hh p =? b) eqn:Eb.
    + apply N.eqb_eq in Eb. subst b. tauto.
    + apply N.eqb_neq in Eb. split; [discriminate|]. intros (_ & _ & _ & H). inversion H. congruence.
  - split; [discriminate|]. intros (_ & _ & _ & H). discriminate.
Qed.

(** The log-extension relation: what it means for [o] to extend a log whose latest entry is [p]. *)
Definition extends (p : option row) (o : op) : Prop :=
  match p with
  | None => o_seq o = 0 \/ o_prune o = true
  | Some p =>
      (o_prune o = false /\ r_author p = o_author o /\ r_seq p <> U32MAX /\
       r_seq p + 1 = o_seq o /\ o_backlink o = Some (r_hh p))
      \/ (o_prune o = true /\ r_seq p < o_seq o)
  end.

Lemma vpb_ok_iff : forall p o,
  validate_prunable_backlink p o (o_prune o) = VOk <-> extends p o.
Proof.
  intros p o. unfold validate_prunable_backlink, extends.
  destruct (0 <? o_seq o) eqn:E0.
  - apply N.ltb_lt in E0. destruct (o_prune o) eqn:Ep; cbn [negb].
    + destruct p as [p|].
      * destruct (o_seq o <=? r_seq p) eqn:El.
        -- apply N.leb_le in El. split; [discriminate|]. intros [(H & _)|(_ & H)]; [discriminate|lia].
        -- apply N.leb_gt in El. split; [intros _; right; split; [reflexivity|lia]|reflexivity].
      * split; [intros _; right; reflexivity|reflexivity].
    + destruct p as [p|].
      * rewrite validate_backlink_ok. split.
        -- intros (A & B & C & D). left. tauto.
        -- intros [(_ & A & B & C & D)|(H & _)]; [tauto|discriminate].
      * split; [discriminate|]. intros [H|H]; [lia|discriminate].
  - apply N.ltb_ge in E0. assert (Hz : o_seq o = 0) by lia.
    destruct p as [p|].
    + rewrite validate_backlink_ok. split.
      * intros (_ & _ & C & _). lia.
      * intros [(_ & _ & _ & C & _)|(_ & C)]; lia.
    + split; [intros _; left; exact Hz|reflexivity].
Qed.

(** * One ingest step *)

Lemma ingest_with_shape : forall vpb s o s' r,
  ingest_with vpb s o = (s', r) ->
  (r = Inserted /\ s' = s ++ [row_of o] /\ o_valid o = true /\ has_op s (o_id o) = false /\
   vpb (latest s (o_author o) (o_log o)) o (o_prune o) = VOk)
  \/ (r <> Inserted /\ s' = s).
Proof.
  intros vpb s o s' r H. unfold ingest_with in H.
  destruct (o_valid o) eqn:Ev; cbn [negb] in H.
  2:{ inversion H; subst. right. split; [discriminate|reflexivity]. }
  destruct (has_op s (o_id o)) eqn:Eh.
  { inversion H; subst. right. split; [discriminate|reflexivity]. }
  destruct (vpb (latest s (o_author o) (o_log o)) o (o_prune o)) eqn:Ep; inversion H; subst.
  - left. repeat split; auto.
  - right. split; [discriminate|reflexivity].
  - right. split; [discriminate|reflexivity].
Qed.

(** The specification of [ingest]: an operation is inserted exactly when it is validated, new,
    and extends its log; every other outcome leaves the store untouched. *)
Theorem ingest_inserted_iff : forall s o,
  snd (ingest s o) = Inserted <->
  o_valid o = true /\ has_op s (o_id o) = false /\ extends (latest s (o_author o) (o_log o)) o.
Proof.
  intros s o. rewrite <- vpb_ok_iff. unfold ingest, ingest_with.
  destruct (o_valid o); cbn [negb snd].
  2:{ split; [discriminate|]. intros (H & _); discriminate. }
  destruct (has_op s (o_id o)); cbn [snd].
  { split; [discriminate|]. intros (_ & H & _); discriminate. }
  destruct (validate_prunable_backlink (latest s (o_author o) (o_log o)) o (o_prune o)); cbn [snd].
  - tauto.
  - split; [discriminate|]. intros (_ & _ & H); discriminate.
  - split; [discriminate|]. intros (_ & _ & H); discriminate.
Qed.

Theorem ingest_not_inserted_unchanged : forall s o,
  snd (ingest s o) <> Inserted -> fst (ingest s o) = s.
Proof.
  intros s o H. destruct (ingest s o) as [s' r] eqn:E. cbn [fst snd] in *.
  destruct (ingest_with_shape _ _ _ _ _ E) as [(Hr & _)|(_ & Hs)]; [contradiction|exact Hs].
Qed.

Theorem ingest_inserted_appends : forall s o,
  snd (ingest s o) = Inserted -> fst (ingest s o) = s ++ [row_of o].
Proof.
  intros s o H. destruct (ingest s o) as [s' r] eqn:E. cbn [fst snd] in *.
  destruct (ingest_with_shape _ _ _ _ _ E) as [(_ & Hs & _)|(Hr & _)]; [exact Hs|contradiction].
Qed.

(** An inserted operation lies strictly above everything stored in its log. *)
Lemma extends_above : forall s o,
  extends (latest s (o_author o) (o_log o)) o ->
  forall r, In r s -> in_log (o_author o) (o_log o) r = true -> r_seq r < o_seq o.
Proof.
  intros s o Hx r Hr Hl. destruct (latest s (o_author o) (o_log o)) as [m|] eqn:El.
  - destruct (latest_some _ _ _ _ El) as (_ & _ & Hmax). specialize (Hmax r Hr Hl).
    cbn [extends] in Hx. destruct Hx as [(_ & _ & _ & Hs & _)|(_ & Hs)]; lia.
  - rewrite (latest_none _ _ _ El r Hr) in Hl. discriminate.
Qed.

(** The four named rejection reasons (and the repaired prune-point check). *)
Theorem rejected_invalid : forall s o,
  o_valid o = false -> ingest s o = (s, Rejected EInvalid).
Proof. intros s o H. unfold ingest, ingest_with. rewrite H. reflexivity. Qed.

Theorem rejected_wrong_author : forall p o,
  r_author p <> o_author o -> validate_backlink p o = VErr ETooManyAuthors.
Proof.
  intros p o H. unfold validate_backlink. apply N.eqb_neq in H. rewrite H. reflexivity.
Qed.

Theorem rejected_non_incremental : forall s o p,
  o_valid o = true -> has_op s (o_id o) = false ->
  latest s (o_author o) (o_log o) = Some p -> r_seq p <> U32MAX ->
  o_prune o = false -> r_seq p + 1 <> o_seq o ->
  ingest s o = (s, Rejected ESeqNonIncremental).
Proof.
  intros s o p Hv Hh Hl Hm Hp Hs. unfold ingest, ingest_with. rewrite Hv, Hh, Hl, Hp. cbn [negb].
  destruct (latest_some _ _ _ _ Hl) as (_ & Hlog & _). apply in_log_true in Hlog. destruct Hlog as (Ha & _).
  assert (E : validate_prunable_backlink (Some p) o false = VErr ESeqNonIncremental).
  { unfold validate_prunable_backlink, validate_backlink.
    apply N.eqb_eq in Ha. apply N.eqb_neq in Hm. apply N.eqb_neq in Hs.
    rewrite Ha, Hm, Hs. destruct (0 <? o_seq o); reflexivity. }
  rewrite E. reflexivity.
Qed.

Theorem rejected_wrong_backlink : forall s o p,
  o_valid o = true -> has_op s (o_id o) = false ->
  latest s (o_author o) (o_log o) = Some p -> r_seq p <> U32MAX ->
  o_prune o = false -> r_seq p + 1 = o_seq o -> o_backlink o <> Some (r_hh p) ->
  ingest s o = (s, Rejected (match o_backlink o with Some _ => EBacklinkMismatch | None => EBacklinkMissing end)).
Proof.
  intros s o p Hv Hh Hl Hm Hp Hs Hb. unfold ingest, ingest_with. rewrite Hv, Hh, Hl, Hp. cbn [negb].
  destruct (latest_some _ _ _ _ Hl) as (_ & Hlog & _). apply in_log_true in Hlog. destruct Hlog as (Ha & _).
  assert (E : validate_prunable_backlink (Some p) o false =
              VErr (match o_backlink o with Some _ => EBacklinkMismatch | None => EBacklinkMissing end)).
  { unfold validate_prunable_backlink, validate_backlink.
    apply N.eqb_eq in Ha. apply N.eqb_neq in Hm. rewrite Ha, Hm.
    assert (Hs' : (r_seq p + 1 =? o_seq o) = true) by (apply N.eqb_eq; exact Hs). rewrite Hs'. cbn [negb].
    assert (H0 : (0 <? o_seq o) = true) by (apply N.ltb_lt; lia). rewrite H0.
    destruct (o_backlink o) as [b|]; [|reflexivity].
    destruct (r_hh p =? b) eqn:Eb; [|reflexivity]. apply N.eqb_eq in Eb. subst b. contradiction. }
  rewrite E. reflexivity.
Qed.

Theorem rejected_missing_prefix : forall s o,
  o_valid o = true -> has_op s (o_id o) = false ->
  latest s (o_author o) (o_log o) = None -> 0 < o_seq o -> o_prune o = false ->
  ingest s o = (s, Rejected EBacklinkMissing).
Proof.
  intros s o Hv Hh Hl H0 Hp. unfold ingest, ingest_with. rewrite Hv, Hh, Hl, Hp. cbn [negb].
  unfold validate_prunable_backlink. apply N.ltb_lt in H0. rewrite H0. reflexivity.
Qed.

Theorem rejected_old_prune_point : forall s o p,
  o_valid o = true -> has_op s (o_id o) = false ->
  latest s (o_author o) (o_log o) = Some p -> o_prune o = true -> 0 < o_seq o -> o_seq o <= r_seq p ->
  ingest s o = (s, Rejected ESeqNonIncremental).
Proof.
  intros s o p Hv Hh Hl Hp H0 Hs. unfold ingest, ingest_with. rewrite Hv, Hh, Hl, Hp. cbn [negb].
  unfold validate_prunable_backlink. apply N.ltb_lt in H0. apply N.leb_le in Hs. rewrite H0, Hs. reflexivity.
Qed.

(** Overflow made visible: a non-prune successor of an entry at [u32::MAX] panics (debug build). *)
Lemma seq_max_panics : forall s o p,
  o_valid o = true -> has_op s (o_id o) = false ->
  latest s (o_author o) (o_log o) = Some p -> r_seq p = U32MAX -> o_prune o = false ->
  ingest s o = (s, Panicked).
Proof.
  intros s o p Hv Hh Hl Hm Hp. unfold ingest, ingest_with. rewrite Hv, Hh, Hl, Hp. cbn [negb].
  destruct (latest_some _ _ _ _ Hl) as (_ & Hlog & _). apply in_log_true in Hlog. destruct Hlog as (Ha & _).
  assert (E : validate_prunable_backlink (Some p) o false = VPanic).
  { unfold validate_prunable_backlink, validate_backlink.
    apply N.eqb_eq in Ha. apply N.eqb_eq in Hm. rewrite Ha, Hm. destruct (0 <? o_seq o); reflexivity. }
  rewrite E. reflexivity.
Qed.

(** Within [ingest] the latest entry is looked up under the operation's own author, so
    [TooManyAuthors] is unreachable there. *)
Lemma ingest_never_too_many_authors : forall s o, snd (ingest s o) <> Rejected ETooManyAuthors.
Proof.
  intros s o. unfold ingest, ingest_with.
  destruct (o_valid o); cbn [negb snd]; [|discriminate].
  destruct (has_op s (o_id o)); cbn [snd]; [discriminate|].
  destruct (latest s (o_author o) (o_log o)) as [p|] eqn:El.
  - destruct (latest_some _ _ _ _ El) as (_ & Hlog & _). apply in_log_true in Hlog. destruct Hlog as (Ha & _).
    apply N.eqb_eq in Ha.
    unfold validate_prunable_backlink, validate_backlink. rewrite Ha. cbn [negb].
    destruct (0 <? o_seq o); destruct (o_prune o); cbn [negb];
      repeat (match goal with |- context [if ?c then _ else _] => destruct c end; cbn [snd negb]);
      try discriminate; destruct (o_backlink o); repeat (match goal with |- context [if ?c then _ else _] => destruct c end; cbn [snd]); discriminate.
  - unfold validate_prunable_backlink.
    destruct (0 <? o_seq o); destruct (o_prune o); cbn [negb snd]; discriminate.
Qed.

(** * Store invariants *)

Definition slot (r : row) : N * N * N := (r_author r, r_log r, r_seq r).

Definition unique_seq (s : store) : Prop := NoDup (map slot s).

Definition chain_ok (s : store) : Prop :=
  forall r, In r s -> r_prune r = false -> 0 < r_seq r ->
    exists p, In p s /\ r_author p = r_author r /\ r_log p = r_log r /\
              r_seq p + 1 = r_seq r /\ r_backlink r = Some (r_hh p).

Definition prov (ds : list op) (s : store) : Prop :=
  forall r, In r s -> exists d, In d ds /\ o_valid d = true /\ r = row_of d.

Definition Inv (ds : list op) (s : store) : Prop := unique_seq s /\ chain_ok s /\ prov ds s.

Lemma unique_seq_same : forall s x y,
  unique_seq s -> In x s -> In y s -> slot x = slot y -> x = y.
Proof.
  unfold unique_seq. induction s as [|z t IH]; intros x y Hn Hx Hy E.
  - destruct Hx.
  - cbn [map] in Hn. inversion Hn as [|? ? Hnot Hn']; subst.
    destruct Hx as [->|Hx]; destruct Hy as [->|Hy].
    + reflexivity.
    + exfalso. apply Hnot. rewrite E. apply in_map. exact Hy.
    + exfalso. apply Hnot. rewrite <- E. apply in_map. exact Hx.
    + apply IH; assumption.
Qed.

Lemma NoDup_snoc : forall (A : Type) (l : list A) (a : A), NoDup l -> ~ In a l -> NoDup (l ++ [a]).
Proof.
  intros A l a Hn Hnot. induction Hn as [|x l Hx Hn IH].
  - cbn. constructor; [intros []|constructor].
  - cbn [app]. constructor.
    + rewrite in_app_iff. intros [H|[H|[]]]; [contradiction|]. subst. apply Hnot. left. reflexivity.
    + apply IH. intros H. apply Hnot. right. exact H.
Qed.

Lemma NoDup_map_filter : forall (A B : Type) (f : A -> B) (g : A -> bool) (l : list A),
  NoDup (map f l) -> NoDup (map f (filter g l)).
Proof.
  intros A B f g. induction l as [|x t IH]; intros Hn.
  - constructor.
  - cbn [map] in Hn. inversion Hn as [|? ? Hnot Hn']; subst. cbn [filter].
    destruct (g x).
    + cbn [map]. constructor; [|apply IH; exact Hn'].
      intros Hin. apply Hnot. apply in_map_iff in Hin. destruct Hin as (y & Ey & Hy).
      apply filter_In in Hy. apply in_map_iff. exists y. tauto.
    + apply IH; exact Hn'.
Qed.

Lemma slot_eq_in_log : forall x o, slot x = slot (row_of o) ->
  in_log (o_author o) (o_log o) x = true /\ r_seq x = o_seq o.
Proof.
  intros x o E. unfold slot in E. cbn [row_of r_author r_log r_seq] in E. injection E as Ha Hl Hs.
  split; [apply in_log_true; split; assumption|exact Hs].
Qed.

Lemma ingest_preserves_Inv : forall ds s o,
  In o ds -> Inv ds s -> Inv ds (fst (ingest s o)).
Proof.
  intros ds s o Ho (Hu & Hc & Hp).
  destruct (ingest s o) as [s' r] eqn:E. cbn [fst].
  destruct (ingest_with_shape _ _ _ _ _ E) as [(Hr & Hs & Hv & Hh & Hok)|(_ & Hs)]; subst s'.
  2:{ repeat split; assumption. }
  apply vpb_ok_iff in Hok.
  split; [|split].
  - unfold unique_seq. rewrite map_app. cbn [map]. apply NoDup_snoc; [exact Hu|].
    intros Hin. apply in_map_iff in Hin. destruct Hin as (x & Ex & Hx).
    destruct (slot_eq_in_log _ _ Ex) as (Hl & Hsq).
    pose proof (extends_above _ _ Hok x Hx Hl). lia.
  - intros x Hx Hpr H0. apply in_app_iff in Hx. destruct Hx as [Hx|[<-|[]]].
    + destruct (Hc x Hx Hpr H0) as (p & Hpin & Hrest). exists p. split; [apply in_app_iff; left; exact Hpin|exact Hrest].
    + cbn [row_of r_prune r_seq r_author r_log r_backlink] in *.
      destruct (latest s (o_author o) (o_log o)) as [p|] eqn:El; cbn [extends] in Hok.
      * destruct (latest_some _ _ _ _ El) as (Hpin & Hlog & _). apply in_log_true in Hlog.
        destruct Hok as [(_ & Ha & _ & Hsq & Hb)|(Hpt & _)]; [|congruence].
        exists p. split; [apply in_app_iff; left; exact Hpin|]. tauto.
      * destruct Hok as [Hz|Hpt]; [lia|congruence].
  - intros x Hx. apply in_app_iff in Hx. destruct Hx as [Hx|[<-|[]]].
    + apply Hp; exact Hx.
    + exists o. auto.
Qed.

(** * History well-formedness as propositions *)

Lemma wf_history_one : forall ds x, wf_history ds = true -> In x ds -> o_valid x = true -> o_id x = o_hh x.
Proof.
  intros ds x H Hx Hv. unfold wf_history in H. apply andb_true_iff in H. destruct H as (H1 & _).
  rewrite forallb_forall in H1. specialize (H1 x Hx). unfold wf_one in H1. rewrite Hv in H1.
  apply N.eqb_eq. exact H1.
Qed.

Lemma same_header_true : forall x y, same_header x y = true ->
  o_author x = o_author y /\ o_log x = o_log y /\ o_seq x = o_seq y /\
  o_backlink x = o_backlink y /\ o_prune x = o_prune y.
Proof.
  intros x y H. unfold same_header in H. rewrite !andb_true_iff, !N.eqb_eq in H.
  destruct H as ((((Ha & Hl) & Hs) & Hb) & Hp). apply eqb_prop in Hp.
  repeat split; try assumption.
  destruct (o_backlink x), (o_backlink y); try discriminate; [|reflexivity].
  apply N.eqb_eq in Hb. subst. reflexivity.
Qed.

Lemma wf_history_hash : forall ds x y, wf_history ds = true -> In x ds -> In y ds ->
  o_valid x = true -> o_valid y = true -> o_hh x = o_hh y -> same_header x y = true.
Proof.
  intros ds x y H Hx Hy Hvx Hvy E. unfold wf_history in H. apply andb_true_iff in H. destruct H as (_ & H2).
  rewrite forallb_forall in H2. specialize (H2 x Hx). rewrite forallb_forall in H2. specialize (H2 y Hy).
  unfold wf_pair in H2. rewrite Hvx, Hvy in H2. cbn [andb] in H2.
  apply N.eqb_eq in E. rewrite E in H2. apply andb_true_iff in H2. tauto.
Qed.

Lemma wf_history_app_l : forall a b, wf_history (a ++ b) = true -> wf_history a = true.
Proof.
  intros a b H. unfold wf_history in *. apply andb_true_iff in H. destruct H as (H1 & H2).
  rewrite forallb_forall in H1, H2. apply andb_true_iff. split.
  - apply forallb_forall. intros x Hx. apply H1. apply in_app_iff. left. exact Hx.
  - apply forallb_forall. intros x Hx. apply forallb_forall. intros y Hy.
    assert (Hx' : In x (a ++ b)) by (apply in_app_iff; left; exact Hx).
    specialize (H2 x Hx'). rewrite forallb_forall in H2. apply H2. apply in_app_iff. left. exact Hy.
Qed.

(** If a validated, well-formed operation is reported as already stored, the stored row sits in
    the operation's own slot and carries its prune flag. *)
Lemma stored_row_of_op : forall ds s o,
  wf_history ds = true -> prov ds s -> In o ds -> o_valid o = true -> has_op s (o_id o) = true ->
  exists x, In x s /\ slot x = slot (row_of o) /\ r_prune x = o_prune o.
Proof.
  intros ds s o Hwf Hp Ho Hv Hh. apply has_op_true in Hh. destruct Hh as (x & Hx & Eid).
  destruct (Hp x Hx) as (d & Hd & Hvd & ->). cbn [row_of r_id] in Eid.
  assert (Ehh : o_hh d = o_hh o).
  { rewrite <- (wf_history_one ds d Hwf Hd Hvd), <- (wf_history_one ds o Hwf Ho Hv). exact Eid. }
  pose proof (wf_history_hash ds d o Hwf Hd Ho Hvd Hv Ehh) as Hsame.
  apply same_header_true in Hsame. destruct Hsame as (Ha & Hl & Hs & _ & Hpr).
  exists (row_of d). split; [exact Hx|]. unfold slot. cbn. rewrite Ha, Hl, Hs, Hpr. auto.
Qed.

(** After a successful ingest of [o] its row is in the store, in its slot, with its prune flag. *)
Lemma ok_row_present : forall ds s o,
  wf_history ds = true -> prov ds s -> In o ds -> res_ok (snd (ingest s o)) = true ->
  exists x, In x (fst (ingest s o)) /\ slot x = slot (row_of o) /\ r_prune x = o_prune o.
Proof.
  intros ds s o Hwf Hp Ho Hok. destruct (ingest s o) as [s' r] eqn:E. cbn [fst snd] in *.
  unfold ingest, ingest_with in E.
  destruct (o_valid o) eqn:Hv; cbn [negb] in E; [|inversion E; subst; discriminate].
  destruct (has_op s (o_id o)) eqn:Hh.
  - inversion E; subst. eapply stored_row_of_op; eauto.
  - destruct (validate_prunable_backlink (latest s (o_author o) (o_log o)) o (o_prune o));
      inversion E; subst; try discriminate.
    exists (row_of o). split; [apply in_app_iff; right; left; reflexivity|]. split; reflexivity.
Qed.

(** * Pruning *)

Lemma prune_below_In : forall s a l n r,
  In r (prune_below s a l n) <-> In r s /\ ~ (in_log a l r = true /\ r_seq r < n).
Proof.
  intros s a l n r. unfold prune_below. rewrite filter_In. split.
  - intros (Hr & Hk). split; [exact Hr|]. intros (Hl & Hs). apply N.ltb_lt in Hs. rewrite Hl, Hs in Hk. discriminate.
  - intros (Hr & Hk). split; [exact Hr|]. destruct (in_log a l r) eqn:El; [|reflexivity].
    destruct (r_seq r <? n) eqn:Es; [|reflexivity]. apply N.ltb_lt in Es. exfalso. apply Hk. auto.
Qed.

Lemma prune_preserves_Inv : forall ds s x,
  Inv ds s -> In x s -> r_prune x = true ->
  Inv ds (prune_below s (r_author x) (r_log x) (r_seq x)).
Proof.
  intros ds s x (Hu & Hc & Hp) Hx Hpx. split; [|split].
  - unfold unique_seq, prune_below. apply NoDup_map_filter. exact Hu.
  - intros r Hr Hpr H0. apply prune_below_In in Hr. destruct Hr as (Hr & Hk).
    destruct (Hc r Hr Hpr H0) as (p & Hpin & Ha & Hl & Hs & Hb).
    exists p. split; [|tauto]. apply prune_below_In. split; [exact Hpin|].
    intros (Hpl & Hps). apply in_log_true in Hpl. destruct Hpl as (Hpa & Hpll).
    (* p is deleted, r is kept, r directly follows p: r sits in x's slot, so r = x, a prune row *)
    assert (Hrl : in_log (r_author x) (r_log x) r = true) by (apply in_log_true; split; congruence).
    assert (Hge : ~ r_seq r < r_seq x) by (intros H; apply Hk; auto).
    assert (Heq : r_seq r = r_seq x) by lia.
    assert (r = x).
    { apply (unique_seq_same s); try assumption. apply in_log_true in Hrl. destruct Hrl. unfold slot. congruence. }
    subst r. congruence.
  - intros r Hr. apply prune_below_In in Hr. apply Hp. tauto.
Qed.

(** * One pipeline step *)

Lemma deliver_unfold : forall s o,
  deliver s o =
  (if res_ok (snd (ingest s o)) && o_prune o
   then prune_below (fst (ingest s o)) (o_author o) (o_log o) (o_seq o) else fst (ingest s o),
   snd (ingest s o)).
Proof.
  intros s o. unfold deliver, deliver_with. fold ingest. destruct (ingest s o). reflexivity.
Qed.

Theorem deliver_preserves_Inv : forall ds s o,
  wf_history ds = true -> In o ds -> Inv ds s -> Inv ds (fst (deliver s o)).
Proof.
  intros ds s o Hwf Ho HI. rewrite deliver_unfold. cbn [fst].
  pose proof (ingest_preserves_Inv ds s o Ho HI) as HI1.
  destruct (res_ok (snd (ingest s o))) eqn:Hok; cbn [andb]; [|exact HI1].
  destruct (o_prune o) eqn:Hpr; [|exact HI1].
  destruct HI as (_ & _ & Hp).
  destruct (ok_row_present ds s o Hwf Hp Ho Hok) as (x & Hx & Hslot & Hxp).
  unfold slot in Hslot. cbn [row_of r_author r_log r_seq] in Hslot. injection Hslot as Ha Hl Hs.
  rewrite <- Ha, <- Hl, <- Hs. apply prune_preserves_Inv; [exact HI1|exact Hx|congruence].
Qed.

Lemma Inv_nil : forall ds, Inv ds [].
Proof.
  intros ds. split; [constructor|]. split; intros r [].
Qed.

Lemma run_from_Inv : forall ds xs s,
  wf_history ds = true -> (forall x, In x xs -> In x ds) -> Inv ds s -> Inv ds (run_from s xs).
Proof.
  intros ds xs. induction xs as [|o t IH]; intros s Hwf Hsub HI.
  - exact HI.
  - cbn [run_from fold_left]. apply IH; [exact Hwf| |].
    + intros x Hx. apply Hsub. right. exact Hx.
    + apply deliver_preserves_Inv; [exact Hwf| |exact HI]. apply Hsub. left. reflexivity.
Qed.

(** C03, chain part: after any delivery sequence from non-equivocating authors (any order,
    duplicates, gaps, forged or corrupted copies) every stored log has unique sequence numbers and
    every stored non-prune entry with seq > 0 links to the stored entry directly before it.
    (Every intermediate state is covered: a prefix of a well-formed history is well-formed.) *)
Theorem deliveries_Inv : forall ds, wf_history ds = true -> unique_seq (run ds) /\ chain_ok (run ds).
Proof.
  intros ds Hwf. pose proof (run_from_Inv ds ds [] Hwf (fun x H => H) (Inv_nil ds)) as (A & B & _).
  split; assumption.
Qed.

Lemma run_app : forall a b, run (a ++ b) = run_from (run a) b.
Proof. intros a b. unfold run, run_from. apply fold_left_app. Qed.

Theorem deliveries_Inv_prefix : forall pre post,
  wf_history (pre ++ post) = true -> unique_seq (run pre) /\ chain_ok (run pre).
Proof. intros pre post H. apply deliveries_Inv. eapply wf_history_app_l; eauto. Qed.

(** * Heights never decrease *)

Lemma height_mono_gen : forall s s' a l,
  (forall r, In r s -> in_log a l r = true ->
     exists r', In r' s' /\ in_log a l r' = true /\ r_seq r <= r_seq r') ->
  opt_le (height s a l) (height s' a l) = true.
Proof.
  intros s s' a l H. unfold height.
  destruct (latest s a l) as [m|] eqn:E; cbn [option_map opt_le]; [|reflexivity].
  destruct (latest_some _ _ _ _ E) as (Hm & Hml & _).
  destruct (H m Hm Hml) as (r' & Hr' & Hl' & Hle).
  destruct (latest_exists _ _ _ _ Hr' Hl') as (m' & E'). rewrite E'. cbn [option_map opt_le].
  destruct (latest_some _ _ _ _ E') as (_ & _ & Hmax). specialize (Hmax r' Hr' Hl').
  apply N.leb_le. lia.
Qed.

Theorem height_monotone_step : forall ds s o a l,
  wf_history ds = true -> In o ds -> Inv ds s ->
  opt_le (height s a l) (height (fst (deliver s o)) a l) = true.
Proof.
  intros ds s o a l Hwf Ho HI. apply height_mono_gen. intros r Hr Hl.
  rewrite deliver_unfold. cbn [fst].
  assert (Hr1 : In r (fst (ingest s o))).
  { destruct (ingest s o) as [s1 r1] eqn:E. cbn [fst].
    destruct (ingest_with_shape _ _ _ _ _ E) as [(_ & -> & _)|(_ & ->)]; [apply in_app_iff; left|]; exact Hr. }
  destruct (res_ok (snd (ingest s o))) eqn:Hok; cbn [andb].
  2:{ exists r. split; [exact Hr1|]. split; [exact Hl|lia]. }
  destruct (o_prune o) eqn:Hpr.
  2:{ exists r. split; [exact Hr1|]. split; [exact Hl|lia]. }
  destruct HI as (_ & _ & Hp).
  destruct (ok_row_present ds s o Hwf Hp Ho Hok) as (x & Hx & Hslot & _).
  destruct (slot_eq_in_log _ _ Hslot) as (Hxl & Hxs).
  destruct (in_log (o_author o) (o_log o) r) eqn:Hrl.
  - destruct (r_seq r <? o_seq o) eqn:Hlt.
    + apply N.ltb_lt in Hlt. exists x. split.
      * apply prune_below_In. split; [exact Hx|]. intros (_ & H). lia.
      * apply in_log_true in Hrl. apply in_log_true in Hl. apply in_log_true in Hxl.
        split; [apply in_log_true; destruct Hrl, Hl, Hxl; split; congruence|lia].
    + apply N.ltb_ge in Hlt. exists r. split; [|split; [exact Hl|lia]].
      apply prune_below_In. split; [exact Hr1|]. intros (_ & H). lia.
  - exists r. split; [|split; [exact Hl|lia]].
    apply prune_below_In. split; [exact Hr1|]. intros (H & _). congruence.
Qed.

(** C03, height part: no delivery lowers the height of any log. *)
Theorem height_monotone : forall ds o a l,
  wf_history (ds ++ [o]) = true ->
  opt_le (height (run ds) a l) (height (run (ds ++ [o])) a l) = true.
Proof.
  intros ds o a l Hwf. rewrite run_app. cbn [run_from fold_left].
  apply (height_monotone_step (ds ++ [o])); [exact Hwf|apply in_app_iff; right; left; reflexivity|].
  apply run_from_Inv; [exact Hwf| |apply Inv_nil].
  intros x Hx. apply in_app_iff. left. exact Hx.
Qed.

(** * C05: pruned prefixes never come back *)

Definition low_water (a l n : N) (s : store) : Prop :=
  (forall r, In r s -> in_log a l r = true -> n <= r_seq r) /\
  (exists x, In x s /\ in_log a l x = true).

Lemma low_water_established : forall ds s o,
  wf_history ds = true -> In o ds -> Inv ds s ->
  o_prune o = true -> res_ok (snd (deliver s o)) = true ->
  low_water (o_author o) (o_log o) (o_seq o) (fst (deliver s o)).
Proof.
  intros ds s o Hwf Ho (_ & _ & Hp) Hpr Hok. rewrite deliver_unfold in *. cbn [fst snd] in *.
  rewrite Hok, Hpr. cbn [andb].
  destruct (ok_row_present ds s o Hwf Hp Ho Hok) as (x & Hx & Hslot & _).
  destruct (slot_eq_in_log _ _ Hslot) as (Hxl & Hxs).
  split.
  - intros r Hr Hl. apply prune_below_In in Hr. destruct Hr as (_ & Hk).
    destruct (N.lt_ge_cases (r_seq r) (o_seq o)) as [H|H]; [exfalso; apply Hk; auto|exact H].
  - exists x. split; [|exact Hxl]. apply prune_below_In. split; [exact Hx|]. intros (_ & H). lia.
Qed.

Lemma low_water_preserved : forall ds s o a l n,
  wf_history ds = true -> In o ds -> Inv ds s ->
  low_water a l n s -> low_water a l n (fst (deliver s o)).
Proof.
  intros ds s o a l n Hwf Ho HI (Hall & x & Hx & Hxl).
  rewrite deliver_unfold. cbn [fst].
  assert (L1 : low_water a l n (fst (ingest s o))).
  { destruct (ingest s o) as [s1 r1] eqn:E. cbn [fst].
    destruct (ingest_with_shape _ _ _ _ _ E) as [(_ & -> & _ & _ & Hok)|(_ & ->)].
    - apply vpb_ok_iff in Hok. split.
      + intros r Hr Hl. apply in_app_iff in Hr. destruct Hr as [Hr|[<-|[]]]; [apply Hall; assumption|].
        cbn [row_of r_seq]. apply in_log_true in Hl. cbn [row_of r_author r_log] in Hl. destruct Hl as (<- & <-).
        pose proof (extends_above _ _ Hok x Hx Hxl). specialize (Hall x Hx Hxl). lia.
      + exists x. split; [apply in_app_iff; left; exact Hx|exact Hxl].
    - split; [exact Hall|eauto]. }
  destruct (res_ok (snd (ingest s o))) eqn:Hok; cbn [andb]; [|exact L1].
  destruct (o_prune o) eqn:Hpr; [|exact L1].
  destruct L1 as (Hall1 & y & Hy & Hyl). destruct HI as (_ & _ & Hp).
  split.
  - intros r Hr Hl. apply prune_below_In in Hr. apply Hall1; tauto.
  - destruct (ok_row_present ds s o Hwf Hp Ho Hok) as (z & Hz & Hslot & _).
    destruct (slot_eq_in_log _ _ Hslot) as (Hzl & Hzs).
    destruct (in_log (o_author o) (o_log o) y) eqn:Hyo.
    + exists z. split.
      * apply prune_below_In. split; [exact Hz|]. intros (_ & H). lia.
      * apply in_log_true in Hyo. apply in_log_true in Hyl. apply in_log_true in Hzl.
        apply in_log_true. destruct Hyo, Hyl, Hzl. split; congruence.
    + exists y. split; [|exact Hyl]. apply prune_below_In. split; [exact Hy|]. intros (H & _). congruence.
Qed.

Lemma low_water_run : forall ds xs s a l n,
  wf_history ds = true -> (forall x, In x xs -> In x ds) -> Inv ds s ->
  low_water a l n s -> low_water a l n (run_from s xs).
Proof.
  intros ds xs. induction xs as [|o t IH]; intros s a l n Hwf Hsub HI HL.
  - exact HL.
  - cbn [run_from fold_left]. apply IH; [exact Hwf| | |].
    + intros x Hx. apply Hsub. right. exact Hx.
    + apply deliver_preserves_Inv; [exact Hwf| |exact HI]. apply Hsub. left. reflexivity.
    + apply low_water_preserved with (ds := ds); [exact Hwf| |exact HI|exact HL]. apply Hsub. left. reflexivity.
Qed.

(** C05: once a prune-flagged operation at [N] was ingested for a log (inserted, or recognised
    as already stored), every later state -- whatever is delivered afterwards, in whatever
    order -- holds only entries of that log with seq >= N (and the log does not vanish). *)
Theorem no_resurrection : forall pre o post,
  wf_history (pre ++ o :: post) = true ->
  o_prune o = true -> res_ok (snd (deliver (run pre) o)) = true ->
  forall r, In r (run (pre ++ o :: post)) ->
    in_log (o_author o) (o_log o) r = true -> o_seq o <= r_seq r.
Proof.
  intros pre o post Hwf Hpr Hok.
  set (ds := pre ++ o :: post) in *.
  assert (Ho : In o ds) by (apply in_app_iff; right; left; reflexivity).
  assert (HI : Inv ds (run pre)).
  { apply run_from_Inv; [exact Hwf| |apply Inv_nil]. intros x Hx. apply in_app_iff. left. exact Hx. }
  assert (HL : low_water (o_author o) (o_log o) (o_seq o) (run ds)).
  { unfold ds. rewrite run_app. cbn [run_from fold_left]. fold (run_from (fst (deliver (run pre) o)) post).
    apply low_water_run with (ds := ds); [exact Hwf| | |].
    - intros x Hx. apply in_app_iff. right. right. exact Hx.
    - apply deliver_preserves_Inv; assumption.
    - apply low_water_established with (ds := ds); assumption. }
  destruct HL as (Hall & _). exact Hall.
Qed.

(** * C04: pruning is authenticated and scoped (per pipeline step, no history hypotheses) *)

Theorem failed_event_changes_nothing : forall s o,
  res_ok (snd (deliver s o)) = false -> fst (deliver s o) = s.
Proof.
  intros s o H. rewrite deliver_unfold in *. cbn [fst snd] in *. rewrite H. cbn [andb].
  apply ingest_not_inserted_unchanged. intros E. rewrite E in H. discriminate.
Qed.

Theorem invalid_event_changes_nothing : forall s o,
  o_valid o = false -> deliver s o = (s, Rejected EInvalid).
Proof.
  intros s o H. rewrite deliver_unfold. rewrite (rejected_invalid s o H). reflexivity.
Qed.

Lemma res_ok_valid : forall s o, res_ok (snd (ingest s o)) = true -> o_valid o = true.
Proof.
  intros s o H. unfold ingest, ingest_with in H. destruct (o_valid o); [reflexivity|]. cbn in H. discriminate.
Qed.

Theorem deleted_only_by_authentic_prune_in_scope : forall s o r,
  In r s -> ~ In r (fst (deliver s o)) ->
  o_valid o = true /\ o_prune o = true /\ res_ok (snd (deliver s o)) = true /\
  r_author r = o_author o /\ r_log r = o_log o /\ r_seq r < o_seq o.
Proof.
  intros s o r Hr Hnot. rewrite deliver_unfold in *. cbn [fst snd] in *.
  assert (Hr1 : In r (fst (ingest s o))).
  { destruct (ingest s o) as [s1 r1] eqn:E. cbn [fst].
    destruct (ingest_with_shape _ _ _ _ _ E) as [(_ & -> & _)|(_ & ->)]; [apply in_app_iff; left|]; exact Hr. }
  destruct (res_ok (snd (ingest s o))) eqn:Hok; cbn [andb] in Hnot; [|contradiction].
  destruct (o_prune o) eqn:Hpr; [|contradiction].
  rewrite prune_below_In in Hnot.
  destruct (in_log (o_author o) (o_log o) r) eqn:Hl.
  - destruct (N.lt_ge_cases (r_seq r) (o_seq o)) as [Hlt|Hge].
    + apply in_log_true in Hl. destruct Hl. pose proof (res_ok_valid _ _ Hok). tauto.
    + exfalso. apply Hnot. split; [exact Hr1|]. intros (_ & H). lia.
  - exfalso. apply Hnot. split; [exact Hr1|]. intros (H & _). discriminate.
Qed.

Theorem prune_deletes_exactly_the_prefix : forall s o r,
  o_prune o = true -> res_ok (snd (deliver s o)) = true -> In r s ->
  (In r (fst (deliver s o)) <-> ~ (r_author r = o_author o /\ r_log r = o_log o /\ r_seq r < o_seq o)).
Proof.
  intros s o r Hpr Hok Hr. rewrite deliver_unfold in *. cbn [fst snd] in *. rewrite Hok, Hpr. cbn [andb].
  assert (Hr1 : In r (fst (ingest s o))).
  { destruct (ingest s o) as [s1 r1] eqn:E. cbn [fst].
    destruct (ingest_with_shape _ _ _ _ _ E) as [(_ & -> & _)|(_ & ->)]; [apply in_app_iff; left|]; exact Hr. }
  rewrite prune_below_In, in_log_true. tauto.
Qed.

Theorem no_prune_flag_no_deletion : forall s o r,
  o_prune o = false -> In r s -> In r (fst (deliver s o)).
Proof.
  intros s o r Hpr Hr. rewrite deliver_unfold. cbn [fst]. rewrite Hpr, andb_false_r.
  destruct (ingest s o) as [s1 r1] eqn:E. cbn [fst].
  destruct (ingest_with_shape _ _ _ _ _ E) as [(_ & -> & _)|(_ & ->)]; [apply in_app_iff; left|]; exact Hr.
Qed.

(** * Regression witnesses: the two defects of the unrepaired code, in the as-is models *)

Definition w_op (a l sq id : N) (bl : option N) (pr : bool) (valid : bool) : op :=
  mkOp a l sq id id bl pr true valid.

(** C05 as it was: prune point 7 ingested and applied, then the older prune point 3 is stored. *)
Definition c05_witness : list op :=
  [w_op 1 1 7 8 (Some 7) true true; w_op 1 1 3 4 (Some 3) true true].

Theorem C05_asis_refuted :
  wf_history c05_witness = true /\
  map r_seq (fold_left (fun s o => fst (deliver_asis_prune s o)) c05_witness []) = [7; 3].
Proof. vm_compute. split; reflexivity. Qed.

(** C04 as it was: a forged (not validated) prune-flagged operation wipes the victim's log. *)
Definition c04_victim_log : list op :=
  [w_op 1 1 0 1 None false true; w_op 1 1 1 2 (Some 1) false true; w_op 1 1 2 3 (Some 2) false true].
Definition c04_forged : op := w_op 1 1 3 99 (Some 3) true false.

Theorem C04_asis_refuted :
  snd (deliver_asis_pipeline (run c04_victim_log) c04_forged) = Rejected EInvalid /\
  List.length (run c04_victim_log) = 3%nat /\
  fst (deliver_asis_pipeline (run c04_victim_log) c04_forged) = [].
Proof. vm_compute. repeat split; reflexivity. Qed.

(** ... and the repaired model on the same inputs. *)
Example c05_witness_repaired : map r_seq (run c05_witness) = [7].
Proof. vm_compute. reflexivity. Qed.
Example c04_witness_repaired : fst (deliver (run c04_victim_log) c04_forged) = run c04_victim_log.
Proof. vm_compute. reflexivity. Qed.

(** * Open finding: the hash field of an [Operation] is not validated.

    [validate_operation] never compares [Operation.hash] with [header.hash()].  If an operation
    carrying a *foreign* hash field is accepted (here: author 2's own first operation stored under
    the hash of author 1's prune point), the genuine prune point is later answered
    [AlreadyExists] and log-prune runs although the prune point is not in the log: author 1's
    log is emptied and its height drops.  The history satisfies everything in [wf_history]
    except "hash field = header hash". *)
Definition pairs_ok (ds : list op) : bool := forallb (fun x => forallb (wf_pair x) ds) ds.
Definition ids_ok (ds : list op) : bool := forallb wf_one ds.

Lemma wf_history_split : forall ds, wf_history ds = ids_ok ds && pairs_ok ds.
Proof. reflexivity. Qed.

Definition foreign_hash_witness : list op :=
  [ w_op 1 1 0 1 None false true; w_op 1 1 1 2 (Some 1) false true; w_op 1 1 2 3 (Some 2) false true;
    mkOp 2 1 0 4 5 None false true true ].
Definition foreign_hash_last : op := w_op 1 1 3 4 (Some 3) true true.

Theorem foreign_hash_field_refuted :
  pairs_ok (foreign_hash_witness ++ [foreign_hash_last]) = true /\
  height (run foreign_hash_witness) 1 1 = Some 2 /\
  height (run (foreign_hash_witness ++ [foreign_hash_last])) 1 1 = None.
Proof. vm_compute. repeat split; reflexivity. Qed.

(** Outside that class (every validated operation carries its own header hash) the height
    theorem holds: this is [height_monotone] with the hypothesis spelled out. *)
Theorem height_monotone_outside_known : forall ds o a l,
  pairs_ok (ds ++ [o]) = true -> ids_ok (ds ++ [o]) = true ->
  opt_le (height (run ds) a l) (height (run (ds ++ [o])) a l) = true.
Proof.
  intros ds o a l Hp Hi. apply height_monotone. rewrite wf_history_split, Hi, Hp. reflexivity.
Qed.

(** * Non-vacuity: a well-formed history with two authors, a prune point, an out-of-order
    delivery, a duplicate and a forged copy; the theorems' hypotheses hold for it and the
    resulting store is not trivial. *)
Definition ex_history : list op :=
  [ w_op 1 1 1 2 (Some 1) false true;      (* arrives before its predecessor: rejected *)
    w_op 1 1 0 1 None false true;
    w_op 1 1 1 2 (Some 1) false true;
    w_op 2 1 0 11 None false true;
    w_op 1 1 1 2 (Some 1) false true;      (* duplicate *)
    w_op 1 1 2 3 (Some 2) true true;       (* prune point *)
    w_op 1 1 1 77 (Some 1) true false;     (* forged prune-flagged copy *)
    w_op 1 1 3 4 (Some 3) false true;
    w_op 1 1 0 1 None false true ].        (* pruned prefix arrives again: rejected *)

Example ex_history_wf : wf_history ex_history = true.
Proof. vm_compute. reflexivity. Qed.
Example ex_history_store : map (fun r => (r_author r, r_seq r)) (run ex_history) = [(2, 0); (1, 2); (1, 3)].
Proof. vm_compute. reflexivity. Qed.
Example ex_no_resurrection_hyp :
  res_ok (snd (deliver (run (firstn 5 ex_history)) (w_op 1 1 2 3 (Some 2) true true))) = true.
Proof. vm_compute. reflexivity. Qed.

(** * Soundness of the boolean invariant checker used by the oracle *)

Lemma chain_okb_sound : forall s, chain_okb s = true -> chain_ok s.
Proof.
  intros s H r Hr Hpr H0. unfold chain_okb in H. rewrite forallb_forall in H. specialize (H r Hr).
  unfold chain_row_ok in H. rewrite Hpr in H. cbn [orb] in H.
  apply orb_true_iff in H. destruct H as [H|H]; [apply N.eqb_eq in H; lia|].
  apply existsb_exists in H. destruct H as (p & Hp & H).
  rewrite !andb_true_iff in H. destruct H as ((Hl & Hs) & Hb).
  apply in_log_true in Hl. apply N.eqb_eq in Hs. destruct Hl as (Ha & Hl).
  exists p. repeat split; try assumption.
  destruct (r_backlink r) as [b|]; [|discriminate]. apply N.eqb_eq in Hb. subst b. reflexivity.
Qed.

Lemma slot_eq_true : forall x y, slot_eq x y = true <-> slot x = slot y.
Proof.
  intros x y. unfold slot_eq, slot. rewrite !andb_true_iff, !N.eqb_eq. split.
  - intros ((-> & ->) & ->). reflexivity.
  - intros E. inversion E. auto.
Qed.

Lemma unique_seqb_sound : forall s, unique_seqb s = true -> unique_seq s.
Proof.
  unfold unique_seq. induction s as [|r t IH]; intros H.
  - constructor.
  - cbn [unique_seqb] in H. apply andb_true_iff in H. destruct H as (H1 & H2).
    cbn [map]. constructor; [|apply IH; exact H2].
    intros Hin. apply in_map_iff in Hin. destruct Hin as (y & Ey & Hy).
    apply negb_true_iff in H1. assert (existsb (slot_eq r) t = true); [|congruence].
    apply existsb_exists. exists y. split; [exact Hy|]. apply slot_eq_true. auto.
Qed.
