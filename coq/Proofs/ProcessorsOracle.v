(** The oracle of C13 is the predicate of the theorems, applied to observations. *)
From Coq Require Import List Arith NArith Bool.
From PV Require Import Model.Processors Oracle.C13 Proofs.Processors.
Import ListNotations.

Lemma emitted_of_remits s :
  emitted_of s = match remits s with [] => map (fun x => OQ (Ok x)) (gone_of s) | E :: _ => E end.
Proof. destruct s; reflexivity. Qed.

Lemma ocheck_is_scheck s xs : scheck s xs = ocheck (rshape s) (remits s) xs (gone_of s).
Proof.
  induction s as [gone rest|c up IH l]; cbn [scheck rshape remits ocheck gone_of]; [reflexivity|].
  rewrite IH, (emitted_of_remits up). reflexivity.
Qed.

Lemma rev_shape s : rev (shape s) = rshape s.
Proof. induction s as [|c up IH l]; cbn; [reflexivity|]. rewrite rev_app_distr, IH. reflexivity. Qed.

(** [check] on (shape, inputs, source items delivered, per-layer outputs first layer first) is
    [scheck]: what the harness observes and what the theorems conclude are the same predicate. *)
Theorem check_is_scheck s xs :
  check (shape s) xs (gone_of s) (rev (remits s)) = scheck s xs.
Proof. unfold check. rewrite rev_involutive, rev_shape. symmetry. apply ocheck_is_scheck. Qed.
