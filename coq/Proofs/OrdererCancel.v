(** Cancellation of [Orderer::next] (C12): dropping the future anywhere before the commit has been
    applied leaves the world untouched; dropping it between the applied commit and the completion
    of [get_operation] loses the item (the known finding); nothing else loses an item. *)
From Coq Require Import List Arith NArith Bool Lia.
From PV Require Import Model.Orderer Model.OrdererCancel Proofs.OrdererBase Proofs.Orderer.
Import ListNotations.

(** * what a [next()] future can have done after any number of await points *)
Definition taken (w0 : world) : store := fst (take_next_ready (st w0)).

Definition R (w0 : world) (p : pc) (w : world) : Prop :=
  match p with
  | PLock | PBegin | PTake | PNotified => w = w0
  | PCommit x s' => w = w0 /\ take_next_ready (st w0) = (s', Some x)
  | PCommitted x | PGetOp x =>
      w = mkW (taken w0) (opstore w0) (ret w0) /\ snd (take_next_ready (st w0)) = Some x
  | PDone (ROk x) =>
      w = mkW (taken w0) (opstore w0) (ret w0 ++ [x]) /\ snd (take_next_ready (st w0)) = Some x /\
      In x (opstore w0)
  | PDone (RInconsistent x) =>
      w = mkW (taken w0) (opstore w0) (ret w0) /\ snd (take_next_ready (st w0)) = Some x /\
      ~ In x (opstore w0)
  end.

Lemma step_R w0 p w : R w0 p w -> R w0 (fst (step p w)) (snd (step p w)).
Proof.
  destruct p as [| | |x s'|x|x| |[x|x]]; cbn [step R]; intros H.
  - subst. reflexivity.
  - subst. reflexivity.
  - subst w. destruct (take_next_ready (st w0)) as [s' [x|]] eqn:E; cbn [fst snd R]; auto.
  - destruct H as [Hw E]. subst w. cbn [fst snd R]. unfold taken. rewrite E. auto.
  - cbn [fst snd R]. exact H.
  - destruct H as [Hw E]. subst w. cbn [opstore st ret].
    destruct (memN x (opstore w0)) eqn:Em; cbn [fst snd R].
    + apply memN_In in Em. auto.
    + apply memN_false in Em. auto.
  - cbn [fst snd R]. exact H.
  - cbn [fst snd R]. exact H.
  - cbn [fst snd R]. exact H.
Qed.

Lemma exec_R w0 : forall n p w, R w0 p w -> R w0 (fst (exec n p w)) (snd (exec n p w)).
Proof.
  induction n as [|n IH]; intros p w H; [exact H|].
  cbn [exec]. pose proof (step_R w0 p w H) as Hs. destruct (step p w) as [p' w']. apply IH. exact Hs.
Qed.

Lemma reach n w : R w (fst (exec n PLock w)) (snd (exec n PLock w)).
Proof. apply exec_R. reflexivity. Qed.

(** * cancellation before the commit is applied changes nothing at all *)
Definition is_done (p : pc) : bool := match p with PDone _ => true | _ => false end.

Theorem cancel_safe_before_commit : forall n w,
  after_commit (fst (exec n PLock w)) = false -> is_done (fst (exec n PLock w)) = false ->
  attempt n w = w.
Proof.
  intros n w Ha Hd. unfold attempt, cancel. pose proof (reach n w) as H.
  destruct (fst (exec n PLock w)) as [| | |x s'|x|x| |r]; cbn [R after_commit is_done] in *;
    try discriminate; try exact H. exact (proj1 H).
Qed.

(** * effect of a successful take *)
Lemma take_Some_rows s x :
  snd (take_next_ready s) = Some x ->
  (exists m, In m (ready_tbl s) /\ r_id m = x) /\
  forall r', In r' (ready_tbl (fst (take_next_ready s))) -> r_inq r' = false ->
             r_id r' = x \/ (In r' (ready_tbl s) /\ r_inq r' = false).
Proof.
  unfold take_next_ready. destruct (min_row (ready_tbl s)) as [m|] eqn:Em; cbn [fst snd]; [|discriminate].
  intros E. inversion E; subst x. apply min_row_spec in Em. destruct Em as [Hm _].
  split; [exists m; auto|].
  cbn [ready_tbl set_ready]. intros r' Hr' Hq. apply in_map_iff in Hr'. destruct Hr' as [r [Er Hr]].
  destruct (N.eqb (r_id r) (r_id m)) eqn:E'.
  - left. subst r'. cbn [r_id]. apply N.eqb_eq. exact E'.
  - right. subst r'. auto.
Qed.

Lemma NoLoss_done w0 x :
  NoLoss w0 -> snd (take_next_ready (st w0)) = Some x ->
  NoLoss (mkW (taken w0) (opstore w0) (ret w0 ++ [x])).
Proof.
  intros HN E r Hr Hq. cbn [st ret] in *. apply in_app_iff.
  destruct (proj2 (take_Some_rows (st w0) x E) r Hr Hq) as [Hx|[Hr0 Hq0]].
  - right. left. auto.
  - left. exact (HN r Hr0 Hq0).
Qed.

Lemma ops_present_taken w0 rt :
  ops_present w0 -> ops_present (mkW (taken w0) (opstore w0) rt).
Proof.
  intros H r Hr. cbn [st opstore] in *.
  assert (Hin : In (r_id r) (ids (taken w0))) by (apply in_map; exact Hr).
  unfold taken in Hin. rewrite take_ids in Hin. apply in_map_iff in Hin.
  destruct Hin as [r0 [E Hr0]]. rewrite <- E. exact (H r0 Hr0).
Qed.

(** * any attempt that is not cancelled in the known class keeps [NoLoss] *)
Lemma attempt_safe n w :
  NoLoss w -> ops_present w -> after_commit (fst (exec n PLock w)) = false ->
  NoLoss (attempt n w) /\ ops_present (attempt n w) /\ ids (st (attempt n w)) = ids (st w).
Proof.
  intros HN HO Ha. unfold attempt, cancel. pose proof (reach n w) as H.
  destruct (fst (exec n PLock w)) as [| | |x s'|x|x| |[x|x]]; cbn [R after_commit] in *;
    try discriminate; try (rewrite H; auto).
  - destruct H as [H _]. rewrite H. auto.
  - destruct H as [H [E Hin]]. rewrite H. split; [apply NoLoss_done; assumption|].
    split; [apply ops_present_taken; exact HO|]. cbn [st]. apply take_ids.
  - destruct H as [_ [E Hnot]]. exfalso. apply Hnot.
    destruct (proj1 (take_Some_rows (st w) x E)) as [m [Hm Em]]. rewrite <- Em. exact (HO m Hm).
Qed.

Lemma run_attempts_safe : forall ns w,
  NoLoss w -> ops_present w -> safe_sched ns w ->
  NoLoss (run_attempts ns w) /\ ops_present (run_attempts ns w) /\
  ids (st (run_attempts ns w)) = ids (st w).
Proof.
  induction ns as [|n ns IH]; intros w HN HO Hs; [cbn; auto|].
  cbn [safe_sched] in Hs. destruct Hs as [Ha Hs].
  destruct (attempt_safe n w HN HO Ha) as [HN' [HO' Hid]].
  unfold run_attempts. cbn [fold_left]. fold (run_attempts ns (attempt n w)).
  destruct (IH _ HN' HO' Hs) as [A [B C]]. split; [exact A|]. split; [exact B|]. congruence.
Qed.

(** * a [next()] awaited to completion; draining *)
Lemma attempt_full w :
  ops_present w ->
  attempt full w =
  match take_next_ready (st w) with
  | (s', Some x) => mkW s' (opstore w) (ret w ++ [x])
  | (_, None) => w
  end.
Proof.
  intros HO. unfold attempt, cancel, full. cbn [exec step].
  destruct (take_next_ready (st w)) as [s' [x|]] eqn:E; cbn [exec step snd opstore st ret]; [|reflexivity].
  assert (Hx : memN x (opstore w) = true).
  { apply memN_In. assert (E' : snd (take_next_ready (st w)) = Some x) by (rewrite E; reflexivity).
    destruct (proj1 (take_Some_rows (st w) x E')) as [m [Hm Em]]. rewrite <- Em. exact (HO m Hm). }
  rewrite Hx. reflexivity.
Qed.

Lemma full_not_after_commit w : after_commit (fst (exec full PLock w)) = false.
Proof.
  unfold full. cbn [exec step].
  destruct (take_next_ready (st w)) as [s' [x|]]; cbn [exec step opstore]; [|reflexivity].
  destruct (memN x (opstore w)); reflexivity.
Qed.

Lemma wdrain_spec : forall n w,
  ops_present w ->
  st (wdrain n w) = fst (drain n (st w)) /\ ret (wdrain n w) = ret w ++ snd (drain n (st w)) /\
  opstore (wdrain n w) = opstore w.
Proof.
  induction n as [|n IH]; intros w HO.
  - cbn [wdrain drain fst snd]. rewrite app_nil_r. auto.
  - cbn [wdrain drain]. rewrite (attempt_full w HO).
    destruct (take_next_ready (st w)) as [s' [x|]] eqn:E.
    + assert (HO' : ops_present (mkW s' (opstore w) (ret w ++ [x]))).
      { pose proof (ops_present_taken w (ret w ++ [x]) HO) as H. unfold taken in H. rewrite E in H. exact H. }
      destruct (IH _ HO') as [A [B C]]. cbn [st ret opstore] in *.
      destruct (drain n s') as [s'' l]. cbn [fst snd] in *. rewrite A, B, C, <- app_assoc. auto.
    + (* the queue is empty: every further attempt finds nothing *)
      clear IH. cbn [fst snd]. rewrite app_nil_r.
      assert (Hn : forall m, wdrain m w = w).
      { induction m as [|m IHm]; [reflexivity|]. cbn [wdrain]. rewrite (attempt_full w HO), E. exact IHm. }
      rewrite Hn.
      assert (Es : s' = st w).
      { unfold take_next_ready in E. destruct (min_row (ready_tbl (st w))); inversion E. reflexivity. }
      subst s'. auto.
Qed.

Lemma wdrain_safe : forall n w, NoLoss w -> ops_present w -> NoLoss (wdrain n w) /\ ops_present (wdrain n w).
Proof.
  induction n as [|n IH]; intros w HN HO; [auto|]. cbn [wdrain].
  destruct (attempt_safe full w HN HO (full_not_after_commit w)) as [A [B _]]. exact (IH _ A B).
Qed.

(** * C12 outside the known class: nothing is lost *)
Theorem outside_known : forall ns w,
  NoLoss w -> ops_present w -> safe_sched ns w ->
  let wf := run_attempts ns w in
  NoLoss wf /\
  forall r, In r (ready_tbl (st w)) ->
            In (r_id r) (ret (wdrain (S (length (ready_tbl (st wf)))) wf)).
Proof.
  intros ns w HN HO Hs wf.
  destruct (run_attempts_safe ns w HN HO Hs) as [HNf [HOf Hid]]. fold wf in HNf, HOf, Hid.
  split; [exact HNf|]. intros r Hr.
  set (N := S (length (ready_tbl (st wf)))).
  destruct (wdrain_safe N wf HNf HOf) as [HNd _].
  destruct (wdrain_spec N wf HOf) as [Est _].
  (* the row of the same id in the drained store is out of the queue *)
  assert (Hin : In (r_id r) (ids (st (wdrain N wf)))).
  { rewrite Est. unfold ids.
    assert (Ed : forall n s, map r_id (ready_tbl (fst (drain n s))) = map r_id (ready_tbl s)).
    { induction n as [|n IH]; intros s; [reflexivity|]. cbn [drain].
      pose proof (take_ids s) as Ht. unfold ids in Ht.
      destruct (take_next_ready s) as [s' [x|]]; cbn [fst] in *.
      - specialize (IH s'). destruct (drain n s') as [s'' l]. cbn [fst] in *. congruence.
      - exact Ht. }
    rewrite Ed. fold (ids (st wf)). rewrite Hid. apply in_map. exact Hr. }
  apply in_map_iff in Hin. destruct Hin as [r' [Er' Hr']]. rewrite <- Er'.
  apply (HNd r' Hr'). rewrite Est in Hr'.
  apply (drain_empties N (st wf)); [|exact Hr']. unfold N. pose proof (inq_count_le (st wf)). lia.
Qed.

(** * the known finding: cancelled after the commit was applied, the item is gone for good *)
Definition w_ex : world := mkW (mark_ready empty 0%N) [0%N] [].

Lemma wdrain_none w : ops_present w -> snd (take_next_ready (st w)) = None -> forall m, wdrain m w = w.
Proof.
  intros HO E. induction m as [|m IH]; [reflexivity|]. cbn [wdrain]. rewrite (attempt_full w HO).
  destruct (take_next_ready (st w)) as [s' [x|]]; [discriminate | exact IH].
Qed.

Theorem refuted :
  exists w n x,
    NoLoss w /\ ops_present w /\
    after_commit (fst (exec n PLock w)) = true /\
    (exists r, In r (ready_tbl (st w)) /\ r_id r = x /\ r_inq r = true) /\
    forall m, ~ In x (ret (wdrain m (attempt n w))).
Proof.
  exists w_ex, 4, 0%N. split; [|split; [|split; [|split]]].
  - intros r [H|[]] Hq. subst r. discriminate.
  - intros r [H|[]]. subst r. left. reflexivity.
  - reflexivity.
  - eexists. split; [left; reflexivity|]. split; reflexivity.
  - intros m. rewrite wdrain_none; [intros [] | | reflexivity].
    intros r [H|[]]. subst r. left. reflexivity.
Qed.

(** the same holds one await point later (inside [get_operation]) *)
Example refuted_getop :
  after_commit (fst (exec 5 PLock w_ex)) = true /\ ret (wdrain 3 (attempt 5 w_ex)) = [].
Proof. split; reflexivity. Qed.

(** non-vacuity of [outside_known]: cancelled while taking, while committing (not yet applied),
    completed once, cancelled in [begin] -- then everything is still handed out *)
Definition w_ex2 : world :=
  mkW (mark_ready (mark_ready (mark_ready empty 0%N) 1%N) 2%N) [0%N; 1%N; 2%N] [].

Example ex_safe_sched : NoLoss w_ex2 /\ ops_present w_ex2 /\ safe_sched [2; 3; 6; 1] w_ex2.
Proof.
  split; [|split].
  - intros r [H|[H|[H|[]]]] Hq; subst r; discriminate.
  - intros r [H|[H|[H|[]]]]; subst r; cbn; auto.
  - cbn. auto.
Qed.

Example ex_safe_result : ret (wdrain 4 (run_attempts [2; 3; 6; 1] w_ex2)) = [0%N; 1%N; 2%N].
Proof. reflexivity. Qed.
