(** Soundness of the C10 observation oracle (Oracle/C10.v): if [check] accepts an observation
    then the observed token sequence is accepted by the observer automaton (which admits at most
    one permit owner at any time) and the final rows are exactly the writes of the transactions
    observed to commit, applied in the observed commit order. *)
From Coq Require Import List Arith NArith Bool.
From PV Require Import Model.Tx Oracle.C10.
Import ListNotations.

Lemma eqb_listN_eq a : forall b, eqb_listN a b = true -> a = b.
Proof.
  unfold eqb_listN. induction a as [|x a IH]; destruct b as [|y b]; cbn; intros H;
    try reflexivity; try discriminate.
  apply andb_true_iff in H. destruct H as [H1 H2]. apply andb_true_iff in H2. destruct H2 as [H2 H3].
  apply N.eqb_eq in H2. subst. f_equal. apply IH. rewrite H1, H3. reflexivity.
Qed.

Theorem check_sound progs hs ts rows probe :
  check progs hs ts rows probe = true ->
  exists o, orun (mkP progs) oinit hs ts = Some o
            /\ rows = apply_all (mkP progs) (o_commits o) /\ probe = true.
Proof.
  unfold check. destruct (orun (mkP progs) oinit hs ts) as [o|]; [|discriminate].
  intros H. apply andb_true_iff in H. destruct H as [H1 H2].
  exists o. repeat split; auto. apply eqb_listN_eq; exact H1.
Qed.

Example check_accepts :
  check [([1; 2]%N, FCommit); ([3]%N, FDrop)] [HS 0; HS 1; HS 0; HS 0; HS 0; HS 0; HS 0; HS 1; HS 1; HS 1; HR 1; HR 1]
        [TG; TW; TB; TI; TI; Tt; TK; TB; TI; TD; Ts; Tr] [1; 2]%N true = true.
Proof. vm_compute. reflexivity. Qed.
Example check_rejects_two_owners :
  check [([1]%N, FCommit); ([3]%N, FCommit)] [HS 0; HS 1] [TG; TG] [] true = false.
Proof. vm_compute. reflexivity. Qed.
Example check_rejects_leftover_row :
  check [([1]%N, FDrop)] [HS 0; HS 0; HS 0; HS 0; HR 0; HR 0] [TG; TB; TI; TD; Ts; Tr] [1]%N true = false.
Proof. vm_compute. reflexivity. Qed.
