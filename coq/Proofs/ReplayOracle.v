(** Soundness of the C15 observation oracle: what [check_obs] accepts is the property. *)
From Coq Require Import List Arith NArith Bool.
From PV Require Import Model.Replay Proofs.Replay Oracle.C15.
Import ListNotations.

Lemma kind_eqb_eq (a b : ekind) : kind_eqb a b = true <-> a = b.
Proof. destruct a, b; cbn; split; intros H; try reflexivity; try discriminate. Qed.

Lemma oe_eqb_eq (a b : obs_event) : oe_eqb a b = true <-> a = b.
Proof.
  destruct a as [ka ia], b as [kb ib]. unfold oe_eqb. cbn [fst snd].
  rewrite andb_true_iff, kind_eqb_eq, N.eqb_eq. split.
  - intros [-> ->]. reflexivity.
  - intros H. injection H as -> ->. split; reflexivity.
Qed.

Lemma oe_mem_In (a : obs_event) (l : list obs_event) : oe_mem a l = true <-> In a l.
Proof.
  unfold oe_mem. rewrite existsb_exists. split.
  - intros [x [Hin E]]. apply oe_eqb_eq in E. subst. exact Hin.
  - intros H. exists a. split; [exact H|apply oe_eqb_eq; reflexivity].
Qed.

Lemma subset_In (a b : list obs_event) : subset a b = true <-> forall x, In x a -> In x b.
Proof.
  unfold subset. rewrite forallb_forall. split; intros H x Hx.
  - apply oe_mem_In. apply H. exact Hx.
  - apply oe_mem_In. apply H. exact Hx.
Qed.

Lemma expected_In (d : durable) (k : ekind) (i : N) :
  In (k, i) (expected d) <->
  exists r, In r (rows d) /\ r_id r = i /\ event_of r = Some k /\
            In (rkey r) (assoc d) /\ above_cursor d r = true.
Proof.
  unfold expected. rewrite in_map_iff. split.
  - intros [[k' r] [Heq Hin]]. cbn [fst snd] in Heq. injection Heq as -> <-.
    apply events_of_In in Hin. destruct Hin as [Hs He].
    apply replay_entries_spec in Hs. apply replay_entries_In in Hs. destruct Hs as [Hr [Ha Hc]].
    exists r. repeat split; assumption.
  - intros [r [Hr [Hi [He [Ha Hc]]]]]. exists (k, r). split; [cbn [fst snd]; rewrite Hi; reflexivity|].
    apply events_of_In. split; [|exact He].
    apply replay_entries_spec. apply replay_entries_In. repeat split; assumption.
Qed.

(** A complete observation accepted by the oracle delivered exactly the stored operations of the
    topic's logs that carry a body and lie above the cursor - each once. *)
Theorem check_obs_sound (o : obs) :
  check_obs o = true -> o_complete o = true ->
  forall k i, In (k, i) (o_events o) <->
    exists r, In r (rows (o_d o)) /\ r_id r = i /\ event_of r = Some k /\
              In (rkey r) (assoc (o_d o)) /\ above_cursor (o_d o) r = true.
Proof.
  unfold check_obs. intros H Hc k i. rewrite Hc in H.
  rewrite !andb_true_iff in H. destruct H as [[[[H1 H2] _] _] _].
  rewrite <- expected_In. rewrite subset_In in H1, H2. split; intro Hx; [apply H1|apply H2]; exact Hx.
Qed.

(** ... and in an accepted observation every stored row of the topic's log is a row of a resolved
    log, so "stored operation of the topic" may be read for "row of an associated log". *)
Theorem check_obs_assoc (o : obs) :
  check_obs o = true ->
  forall r, In r (rows (o_d o)) -> r_log r = tlog -> In (rkey r) (assoc (o_d o)).
Proof.
  unfold check_obs. intros H r Hin Hl.
  rewrite !andb_true_iff in H. destruct H as [_ Ha].
  unfold assoc_complete in Ha. rewrite forallb_forall in Ha. specialize (Ha r Hin).
  apply orb_true_iff in Ha. destruct Ha as [Ha|Ha].
  - apply negb_true_iff in Ha. apply N.eqb_neq in Ha. contradiction.
  - apply in_assoc_In. exact Ha.
Qed.

(** A partial observation (the crash came while the replay was being consumed) accepted by the
    oracle delivered only such operations. *)
Theorem check_obs_partial_sound (o : obs) :
  check_obs o = true ->
  forall k i, In (k, i) (o_events o) ->
    exists r, In r (rows (o_d o)) /\ r_id r = i /\ event_of r = Some k /\
              In (rkey r) (assoc (o_d o)) /\ above_cursor (o_d o) r = true.
Proof.
  unfold check_obs. intros H k i Hin.
  rewrite !andb_true_iff in H. destruct H as [[[[H1 _] _] _] _].
  rewrite subset_In in H1. apply expected_In. apply H1. exact Hin.
Qed.
