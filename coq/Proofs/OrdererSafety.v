(** Safety of the causal orderer model: an item is released only after some delivered dependency
    list of it has been released entirely (for every delivery sequence, every interleaving of
    [next] calls, every HashSet iteration order, any fuel). *)
From Coq Require Import List Arith NArith Bool Lia Permutation.
From PV Require Import Model.Orderer Proofs.OrdererBase.
Import ListNotations.

Lemma NoDup_map_inj {A B} (f : A -> B) l a b :
  NoDup (map f l) -> In a l -> In b l -> f a = f b -> a = b.
Proof.
  induction l as [|c l IH]; intros Hnd Ha Hb E; [destruct Ha|].
  cbn [map] in Hnd. inversion Hnd as [|? ? Hn Hnd']; subst.
  destruct Ha as [Ha|Ha], Hb as [Hb|Hb]; subst.
  - reflexivity.
  - exfalso. apply Hn. rewrite E. apply in_map. exact Hb.
  - exfalso. apply Hn. rewrite <- E. apply in_map. exact Ha.
  - apply IH; assumption.
Qed.

(** * invariants, relative to what has been delivered / released so far *)
Definition just (del : list entry) (rel : list id) (t : list rrow) (r : rrow) : Prop :=
  exists ds, In (r_id r, ds) del /\
    forall d, In d ds ->
      exists rd, In rd t /\ r_id rd = d /\ (In d rel \/ (r_inq rd = true /\ (r_idx rd < r_idx r)%N)).

Definition InvR (del : list entry) (rel : list id) (s : store) : Prop :=
  PK s /\
  (forall r, In r (ready_tbl s) -> just del rel (ready_tbl s) r) /\
  (forall r, In r (ready_tbl s) -> r_inq r = false -> In (r_id r) rel).

Definition InvP (del : list entry) (s : store) : Prop :=
  forall row, In row (pending_tbl s) ->
    exists ds, In (p_child row, ds) del /\ p_dig row = (p_child row, sortN ds) /\
               In (p_parent row) ds /\ In (p_id row) ds /\
               forall p, In p ds -> In (mkP (p_id row) (p_child row) p (p_dig row)) (pending_tbl s).

Lemma InvR_ext del rel s s' : ready_tbl s' = ready_tbl s -> InvR del rel s -> InvR del rel s'.
Proof. unfold InvR, PK, ids. intros E. rewrite E. auto. Qed.

Lemma InvP_ext del s s' : pending_tbl s' = pending_tbl s -> InvP del s -> InvP del s'.
Proof. unfold InvP. intros E. rewrite E. auto. Qed.

Lemma InvR_mono del rel del' rel' s :
  incl del del' -> incl rel rel' -> InvR del rel s -> InvR del' rel' s.
Proof.
  intros Hd Hr [Hpk [Hj H3]]. split; [exact Hpk|]. split.
  - intros r Hin. destruct (Hj r Hin) as [ds [Hds Hall]]. exists ds. split; [apply Hd; exact Hds|].
    intros d Hdin. destruct (Hall d Hdin) as [rd [A [B C]]]. exists rd. split; [exact A|]. split; [exact B|].
    destruct C as [C|C]; [left; apply Hr; exact C | right; exact C].
  - intros r Hin Hq. apply Hr. exact (H3 r Hin Hq).
Qed.

Lemma InvP_mono del del' s : incl del del' -> InvP del s -> InvP del' s.
Proof.
  intros Hd H row Hrow. destruct (H row Hrow) as [ds [A [B [C [D E]]]]].
  exists ds. split; [apply Hd; exact A|]. auto.
Qed.

(** * [mark_ready] *)
Definition can_mark (del : list entry) (s : store) (x : id) : Prop :=
  exists ds, In (x, ds) del /\ forall d, In d ds -> is_ready s d = true.

Lemma InvR_mark_ready del rel s x :
  InvR del rel s -> can_mark del s x -> InvR del rel (mark_ready s x).
Proof.
  intros HI [ds [Hds Hall]].
  assert (HPK' := mark_ready_PK s x (proj1 HI)).
  destruct HI as [Hpk [Hj H3]].
  (* what the new/re-queued row needs *)
  set (qi := (max_idx (ready_tbl s) + 1)%N).
  unfold InvR. split; [exact HPK'|]. clear HPK'.
  unfold mark_ready. fold qi.
  destruct (find (fun r => N.eqb (r_id r) x) (ready_tbl s)) as [r0|] eqn:Ef.
  - apply find_row_Some in Ef. destruct Ef as [Hr0 Ex0].
    destruct (r_inq r0) eqn:Eq0; [split; assumption|].
    cbn [ready_tbl set_ready].
    set (f := fun r : rrow => if N.eqb (r_id r) x then mkR x qi true else r).
    assert (Hf_id : forall r, r_id (f r) = r_id r).
    { intros r. unfold f. destruct (N.eqb (r_id r) x) eqn:E; [|reflexivity].
      apply N.eqb_eq in E. cbn [r_id]. congruence. }
    assert (Hinq : forall rd, In rd (ready_tbl s) -> r_inq rd = true -> f rd = rd).
    { intros rd Hrd Hq. unfold f. destruct (N.eqb (r_id rd) x) eqn:E; [|reflexivity].
      apply N.eqb_eq in E. exfalso.
      assert (rd = r0) by (apply (NoDup_map_inj r_id (ready_tbl s)); [exact Hpk| | |congruence]; assumption).
      subst rd. congruence. }
    split.
    + intros r' Hr'. apply in_map_iff in Hr'. destruct Hr' as [r [Er Hr]]. subst r'.
      destruct (N.eqb (r_id r) x) eqn:E.
      * (* the re-queued row *)
        assert (Ef : f r = mkR x qi true) by (unfold f; rewrite E; reflexivity). rewrite Ef.
        exists ds. cbn [r_id r_idx]. split; [exact Hds|]. intros d Hd.
        apply Hall in Hd. apply is_ready_row in Hd. destruct Hd as [rd [Hrd Ed]].
        exists (f rd). split; [apply in_map; exact Hrd|]. split; [rewrite Hf_id; exact Ed|].
        destruct (r_inq rd) eqn:Eqd.
        -- right. rewrite (Hinq rd Hrd Eqd). split; [exact Eqd|].
           pose proof (max_idx_ge _ _ Hrd). unfold qi. lia.
        -- left. subst d. exact (H3 rd Hrd Eqd).
      * assert (Ef : f r = r) by (unfold f; rewrite E; reflexivity). rewrite Ef.
        destruct (Hj r Hr) as [ds' [Hds' Hall']]. exists ds'. split; [exact Hds'|].
        intros d Hd. destruct (Hall' d Hd) as [rd [Hrd [Ed C]]].
        exists (f rd). split; [apply in_map; exact Hrd|]. split; [rewrite Hf_id; exact Ed|].
        destruct C as [C|[Cq Ci]]; [left; exact C|]. right. rewrite (Hinq rd Hrd Cq). auto.
    + intros r' Hr' Hq'. apply in_map_iff in Hr'. destruct Hr' as [r [Er Hr]]. subst r'.
      rewrite Hf_id. unfold f in Hq'. destruct (N.eqb (r_id r) x); [discriminate|]. exact (H3 r Hr Hq').
  - cbn [ready_tbl set_ready]. split.
    + intros r Hr. apply in_app_iff in Hr. destruct Hr as [Hr|[Hr|[]]].
      * destruct (Hj r Hr) as [ds' [Hds' Hall']]. exists ds'. split; [exact Hds'|].
        intros d Hd. destruct (Hall' d Hd) as [rd [Hrd C]]. exists rd. split; [|exact C].
        apply in_app_iff. left. exact Hrd.
      * subst r. exists ds. cbn [r_id r_idx]. split; [exact Hds|]. intros d Hd.
        apply Hall in Hd. apply is_ready_row in Hd. destruct Hd as [rd [Hrd Ed]].
        exists rd. split; [apply in_app_iff; left; exact Hrd|]. split; [exact Ed|].
        destruct (r_inq rd) eqn:Eqd.
        -- right. split; [reflexivity|]. pose proof (max_idx_ge _ _ Hrd). unfold qi. lia.
        -- left. subst d. exact (H3 rd Hrd Eqd).
    + intros r Hr Hq. apply in_app_iff in Hr. destruct Hr as [Hr|[Hr|[]]].
      * exact (H3 r Hr Hq).
      * subst r. discriminate.
Qed.

(** * [take_next_ready] *)
Lemma InvR_take del rel s :
  InvR del rel s ->
  match snd (take_next_ready s) with
  | None => fst (take_next_ready s) = s /\ forall r, In r (ready_tbl s) -> r_inq r = false
  | Some x =>
      InvR del (rel ++ [x]) (fst (take_next_ready s)) /\
      exists ds, In (x, ds) del /\ forall d, In d ds -> In d rel
  end.
Proof.
  intros [Hpk [Hj H3]]. unfold take_next_ready.
  destruct (min_row (ready_tbl s)) as [m|] eqn:Em; cbn [fst snd].
  - apply min_row_spec in Em. destruct Em as [Hm [Hmq Hmin]].
    set (g := fun r : rrow => if N.eqb (r_id r) (r_id m) then mkR (r_id r) (r_idx r) false else r).
    assert (Hg_id : forall r, r_id (g r) = r_id r).
    { intros r. unfold g. destruct (N.eqb (r_id r) (r_id m)); reflexivity. }
    assert (Hg_idx : forall r, r_idx (g r) = r_idx r).
    { intros r. unfold g. destruct (N.eqb (r_id r) (r_id m)); reflexivity. }
    split.
    + split; [|split].
      * unfold PK, ids. cbn [ready_tbl set_ready]. rewrite map_map.
        rewrite (map_ext _ r_id Hg_id). exact Hpk.
      * cbn [ready_tbl set_ready]. intros r' Hr'. apply in_map_iff in Hr'.
        destruct Hr' as [r [Er Hr]]. subst r'. destruct (Hj r Hr) as [ds [Hds Hall]].
        exists ds. rewrite Hg_id, Hg_idx. split; [exact Hds|]. intros d Hd.
        destruct (Hall d Hd) as [rd [Hrd [Ed C]]].
        exists (g rd). split; [apply in_map; exact Hrd|]. split; [rewrite Hg_id; exact Ed|].
        destruct C as [C|[Cq Ci]]; [left; apply in_app_iff; left; exact C|].
        unfold g. destruct (N.eqb (r_id rd) (r_id m)) eqn:E.
        -- left. apply N.eqb_eq in E. apply in_app_iff. right. left. congruence.
        -- right. auto.
      * cbn [ready_tbl set_ready]. intros r' Hr' Hq'. apply in_map_iff in Hr'.
        destruct Hr' as [r [Er Hr]]. subst r'. rewrite Hg_id. apply in_app_iff.
        unfold g in Hq'. destruct (N.eqb (r_id r) (r_id m)) eqn:E.
        -- right. left. apply N.eqb_eq in E. congruence.
        -- left. exact (H3 r Hr Hq').
    + destruct (Hj m Hm) as [ds [Hds Hall]]. exists ds. split; [exact Hds|]. intros d Hd.
      destruct (Hall d Hd) as [rd [Hrd [Ed [C|[Cq Ci]]]]]; [exact C|].
      specialize (Hmin rd Hrd Cq). lia.
  - split; [reflexivity|]. apply min_row_None. exact Em.
Qed.

(** * pending table *)
Lemma InvP_mark_pending del s c ps :
  In (c, ps) del -> InvP del s -> InvP del (mark_pending s c ps).
Proof.
  intros Hc H row Hrow. apply mark_pending_In in Hrow. destruct Hrow as [Hrow|[i [p [Hi [Hr [Hp E]]]]]].
  - destruct (H row Hrow) as [ds [A [B [C [D F]]]]]. exists ds. repeat (split; [assumption|]).
    intros p Hp. apply mark_pending_In. left. apply F. exact Hp.
  - subst row. cbn [p_child p_dig p_parent p_id]. exists ps. repeat (split; [assumption || reflexivity|]).
    intros p' Hp'. apply mark_pending_In. right. exists i, p'. auto.
Qed.

Lemma InvP_remove_pending del s k : InvP del s -> InvP del (remove_pending s k).
Proof.
  intros H row Hrow. apply remove_pending_In in Hrow. destruct Hrow as [Hrow Hk].
  destruct (H row Hrow) as [ds [A [B [C [D F]]]]]. exists ds. repeat (split; [assumption|]).
  intros p Hp. apply remove_pending_In. cbn [p_id]. split; [apply F; exact Hp | exact Hk].
Qed.

(** entries handed out by [get_next_pending] stand for delivered dependency lists *)
Definition good_entry (del : list entry) (k : id) (e : entry) : Prop :=
  exists ds, In (fst e, ds) del /\ (forall p, In p (snd e) <-> In p ds) /\ In k ds.

Lemma gnp_good del s k es :
  InvP del s -> get_next_pending s k = Some es -> forall e, In e es -> good_entry del k e.
Proof.
  intros HP Hg e He. apply (proj1 (gnp_Some_In s k es e Hg)) in He.
  destruct He as [row [Hrow [Hk Ee]]]. subst e. cbn [fst snd].
  destruct (HP row Hrow) as [ds [A [B [C [D F]]]]]. exists ds. split; [exact A|]. split; [|congruence].
  intros p. cbn [snd]. rewrite group_parents_In. split.
  - intros [row' [Hrow' [Ec [Ed Ep]]]]. destruct (HP row' Hrow') as [ds' [A' [B' [C' _]]]].
    rewrite Ed, B, Ec in B'. inversion B' as [Es]. subst p.
    apply sortN_In. rewrite Es. apply sortN_In. exact C'.
  - intros Hp. exists (mkP (p_id row) (p_child row) p (p_dig row)). split; [apply F; exact Hp|]. auto.
Qed.

(** * [process_pending] preserves the invariants *)
Section Safety.
Variable perm : perm_t.
Hypothesis perm_incl : forall n l e, In e (perm n l) -> In e l.
Variables (del : list entry) (rel : list id).

Definition I (s : store) : Prop := InvR del rel s /\ InvP del s.

Lemma I_bump s n : I s -> I (bump s n).
Proof. intros [A B]. split; [apply (InvR_ext _ _ s); auto | apply (InvP_ext _ s); auto]. Qed.

Lemma I_set_oof s : I s -> I (set_oof s).
Proof. intros [A B]. split; [apply (InvR_ext _ _ s); auto | apply (InvP_ext _ s); auto]. Qed.

Lemma I_mark_ready s x : I s -> can_mark del s x -> I (mark_ready s x).
Proof.
  intros [A B] H. split; [apply InvR_mark_ready; assumption|].
  apply (InvP_ext _ s); [apply mark_ready_pending | exact B].
Qed.

Lemma I_remove_pending s k : I s -> I (remove_pending s k).
Proof.
  intros [A B]. split; [apply (InvR_ext _ _ s); [reflexivity|exact A] | apply InvP_remove_pending; exact B].
Qed.

Lemma good_can_mark s k e : I s -> good_entry del k e -> ready s (snd e) = true -> can_mark del s (fst e).
Proof.
  intros [[Hpk _] _] [ds [A [B _]]] Hr. exists ds. split; [exact A|].
  intros d Hd. apply (proj1 (ready_spec s (snd e) Hpk) Hr). apply B. exact Hd.
Qed.

Definition body (f : nat) (st : store) (e : entry) : store :=
  if ready st (snd e) then process_pending perm f (mark_ready st (fst e)) (fst e) else st.

Lemma pp_unfold f s key :
  process_pending perm (S f) s key =
  match get_next_pending s key with
  | None => s
  | Some es => remove_pending (fold_left (body f) (perm (tick s) es) (bump s (length es))) key
  end.
Proof. reflexivity. Qed.

Lemma pp_I : forall f s k, I s -> I (process_pending perm f s k).
Proof.
  induction f as [|f IH]; intros s k HI.
  - apply I_set_oof. exact HI.
  - rewrite pp_unfold. destruct (get_next_pending s k) as [es|] eqn:Eg; [|exact HI].
    apply I_remove_pending.
    assert (Hgood : forall e, In e (perm (tick s) es) -> exists k', good_entry del k' e).
    { intros e He. exists k. apply (gnp_good del s k es (proj2 HI) Eg). apply (perm_incl _ _ _ He). }
    assert (HI0 : I (bump s (length es))) by (apply I_bump; exact HI).
    generalize dependent (bump s (length es)). generalize dependent (perm (tick s) es).
    clear Eg HI. intros l. induction l as [|e l IHl]; intros Hgood st Hst; [exact Hst|].
    cbn [fold_left]. apply IHl; [intros e' He'; apply Hgood; right; exact He'|].
    unfold body. destruct (ready st (snd e)) eqn:Er; [|exact Hst].
    apply IH. apply I_mark_ready; [exact Hst|].
    destruct (Hgood e (or_introl eq_refl)) as [k' Hk']. exact (good_can_mark st k' e Hst Hk' Er).
Qed.

End Safety.

(** * whole runs *)
Definition safe_trace (tr : list event) : Prop :=
  forall pre x post, tr = pre ++ ERel x :: post ->
    exists ds, In (EDel x ds) pre /\ forall d, In d ds -> In (ERel d) pre.

Lemma dels_In tr x ds : In (x, ds) (dels tr) <-> In (EDel x ds) tr.
Proof.
  unfold dels. rewrite in_flat_map. split.
  - intros [e [He Hin]]. destruct e as [x' ds'|x']; [|destruct Hin].
    destruct Hin as [E|[]]. inversion E; subst. exact He.
  - intros H. exists (EDel x ds). split; [exact H | left; reflexivity].
Qed.

Lemma rels_In tr x : In x (rels tr) <-> In (ERel x) tr.
Proof.
  unfold rels. rewrite in_flat_map. split.
  - intros [e [He Hin]]. destruct e as [x' ds'|x']; [destruct Hin|].
    destruct Hin as [E|[]]. subst. exact He.
  - intros H. exists (ERel x). split; [exact H | left; reflexivity].
Qed.

Lemma dels_app a b : dels (a ++ b) = dels a ++ dels b.
Proof. unfold dels. apply flat_map_app. Qed.
Lemma rels_app a b : rels (a ++ b) = rels a ++ rels b.
Proof. unfold rels. apply flat_map_app. Qed.

Lemma safe_snoc_del tr x ds : safe_trace tr -> safe_trace (tr ++ [EDel x ds]).
Proof.
  intros H pre y post E.
  destruct (exists_last (l := ERel y :: post)) as [l' [a El]]; [discriminate|].
  rewrite El, app_assoc in E. apply app_inj_tail in E. destruct E as [E1 E2]. subst a.
  destruct post as [|b post].
  - destruct l' as [|? [|? ?]]; cbn in El; inversion El.
  - assert (El' : exists post', b :: post = post' ++ [EDel x ds] /\ l' = ERel y :: post').
    { destruct (exists_last (l := b :: post)) as [q [a Eq]]; [discriminate|].
      rewrite Eq in El. change (ERel y :: q ++ [a]) with ((ERel y :: q) ++ [a]) in El.
      apply app_inj_tail in El. destruct El as [E3 E4]. subst. eauto. }
    destruct El' as [post' [_ El']]. subst l'. exact (H pre y post' E1).
Qed.

Lemma safe_snoc_rel tr x :
  safe_trace tr -> (exists ds, In (EDel x ds) tr /\ forall d, In d ds -> In (ERel d) tr) ->
  safe_trace (tr ++ [ERel x]).
Proof.
  intros H Hx pre y post E.
  destruct post as [|b post].
  - apply app_inj_tail in E. destruct E as [E1 E2]. inversion E2; subst. exact Hx.
  - destruct (exists_last (l := b :: post)) as [q [a Eq]]; [discriminate|].
    rewrite Eq in E. change (pre ++ ERel y :: q ++ [a]) with (pre ++ (ERel y :: q) ++ [a]) in E.
    rewrite app_assoc in E. apply app_inj_tail in E. destruct E as [E1 _]. exact (H pre y q E1).
Qed.

Definition InvT (tr : list event) (s : store) : Prop :=
  InvR (dels tr) (rels tr) s /\ InvP (dels tr) s.

Section Run.
Variable perm : perm_t.
Hypothesis perm_incl : forall n l e, In e (perm n l) -> In e l.
Variable fuel : nat.

Lemma process_InvT tr s x ds :
  InvT tr s -> InvT (tr ++ [EDel x ds]) (process perm fuel s x ds).
Proof.
  intros [HR HP].
  assert (Hin : In (x, ds) (dels (tr ++ [EDel x ds]))).
  { apply dels_In. apply in_app_iff. right. left. reflexivity. }
  assert (HR' : InvR (dels (tr ++ [EDel x ds])) (rels (tr ++ [EDel x ds])) s).
  { apply (InvR_mono (dels tr) (rels tr)); [| |exact HR].
    - rewrite dels_app. apply incl_appl, incl_refl.
    - rewrite rels_app. apply incl_appl, incl_refl. }
  assert (HP' : InvP (dels (tr ++ [EDel x ds])) s).
  { apply (InvP_mono (dels tr)); [|exact HP]. rewrite dels_app. apply incl_appl, incl_refl. }
  unfold process. destruct (ready s ds) eqn:Er.
  - apply (pp_I perm perm_incl). apply I_mark_ready; [split; assumption|].
    exists ds. split; [exact Hin|]. exact (proj1 (ready_spec s ds (proj1 HR)) Er).
  - split.
    + apply (InvR_ext _ _ s); [reflexivity | exact HR'].
    + apply InvP_mark_pending; assumption.
Qed.

Lemma take_InvT tr s :
  InvT tr s -> safe_trace tr ->
  InvT (tr ++ out_events (ONext (snd (take_next_ready s)))) (fst (take_next_ready s)) /\
  safe_trace (tr ++ out_events (ONext (snd (take_next_ready s)))).
Proof.
  intros [HR HP] Hs. pose proof (InvR_take _ _ s HR) as Ht.
  destruct (snd (take_next_ready s)) as [x|] eqn:Eo; cbn [out_events].
  - destruct Ht as [HR' [ds [Hds Hall]]]. split.
    + split.
      * rewrite rels_app, dels_app. cbn [dels rels flat_map]. rewrite !app_nil_r. exact HR'.
      * rewrite dels_app. cbn [dels flat_map]. rewrite app_nil_r.
        apply (InvP_ext _ s); [apply take_pending | exact HP].
    + apply safe_snoc_rel; [exact Hs|]. exists ds. split; [apply dels_In; exact Hds|].
      intros d Hd. apply rels_In. apply Hall. exact Hd.
  - destruct Ht as [Es _]. rewrite Es, app_nil_r. split; [split; assumption | exact Hs].
Qed.

Lemma drain_InvT : forall n tr s,
  InvT tr s -> safe_trace tr ->
  InvT (tr ++ map ERel (snd (drain n s))) (fst (drain n s)) /\
  safe_trace (tr ++ map ERel (snd (drain n s))).
Proof.
  induction n as [|n IH]; intros tr s HI Hs.
  - cbn [drain fst snd map]. rewrite app_nil_r. auto.
  - cbn [drain]. pose proof (take_InvT tr s HI Hs) as Ht.
    destruct (take_next_ready s) as [s' [x|]] eqn:Et; cbn [fst snd out_events] in Ht.
    + destruct Ht as [HI' Hs']. specialize (IH _ _ HI' Hs').
      destruct (drain n s') as [s'' l] eqn:Ed. cbn [fst snd map] in *.
      rewrite <- app_assoc in IH. exact IH.
    + cbn [fst snd map]. exact Ht.
Qed.

Lemma run_InvT : forall ops tr s,
  InvT tr s -> safe_trace tr ->
  InvT (tr ++ events_of ops (snd (run perm fuel s ops))) (fst (run perm fuel s ops)) /\
  safe_trace (tr ++ events_of ops (snd (run perm fuel s ops))).
Proof.
  induction ops as [|o ops IH]; intros tr s HI Hs.
  - cbn [run events_of fst snd]. rewrite app_nil_r. auto.
  - cbn [run]. destruct o as [x ds| |]; cbn [step].
    + specialize (IH (tr ++ [EDel x ds]) (process perm fuel s x ds)
                     (process_InvT tr s x ds HI) (safe_snoc_del tr x ds Hs)).
      destruct (run perm fuel (process perm fuel s x ds) ops) as [s2 o2]. cbn [fst snd app events_of] in *.
      rewrite <- app_assoc in IH. exact IH.
    + pose proof (take_InvT tr s HI Hs) as Ht.
      destruct (take_next_ready s) as [s' r] eqn:Et. cbn [fst snd] in Ht.
      destruct Ht as [HI' Hs']. specialize (IH _ _ HI' Hs').
      destruct (run perm fuel s' ops) as [s2 o2]. cbn [fst snd app events_of] in *.
      rewrite <- app_assoc in IH. exact IH.
    + pose proof (drain_InvT (S (length (ready_tbl s))) tr s HI Hs) as Ht.
      destruct (drain (S (length (ready_tbl s))) s) as [s' l] eqn:Ed. cbn [fst snd] in Ht.
      destruct Ht as [HI' Hs']. specialize (IH _ _ HI' Hs').
      destruct (run perm fuel s' ops) as [s2 o2]. cbn [fst snd app events_of out_events] in *.
      rewrite <- app_assoc in IH. exact IH.
Qed.

Lemma InvT_empty : InvT [] empty.
Proof.
  split.
  - split; [constructor|]. split; intros r [].
  - intros row [].
Qed.

Lemma safe_nil : safe_trace [].
Proof. intros pre x post E. destruct pre; discriminate. Qed.

(** Safety: in every run, each release of [x] is preceded by a delivery of [x] with a dependency
    list all of whose members were released before. *)
Theorem release_after_deps : forall ops,
  safe_trace (events_of ops (snd (run perm fuel empty ops))).
Proof. intros ops. exact (proj2 (run_InvT ops [] empty InvT_empty safe_nil)). Qed.

Lemma run_InvT_empty ops :
  InvT (events_of ops (snd (run perm fuel empty ops))) (fst (run perm fuel empty ops)).
Proof. exact (proj1 (run_InvT ops [] empty InvT_empty safe_nil)). Qed.

End Run.
