(** Proofs about the hybrid timestamp model (C18; reused by C16). *)
From Coq Require Import List NArith Bool Lia Sorted.
From PV Require Import Model.Timestamp.
Import ListNotations.
Local Open Scope N_scope.

Lemma hltb_spec (a b : hts) : hltb a b = true <-> hlt a b.
Proof.
  unfold hltb, hlt. rewrite orb_true_iff, andb_true_iff, !N.ltb_lt, N.eqb_eq. tauto.
Qed.

Lemma hlt_irrefl (a : hts) : ~ hlt a a.
Proof. unfold hlt. lia. Qed.

Lemma hlt_trans (a b c : hts) : hlt a b -> hlt b c -> hlt a c.
Proof. unfold hlt. lia. Qed.

Lemma hlt_neq (a b : hts) : hlt a b -> a <> b.
Proof. intros H E. subst. exact (hlt_irrefl _ H). Qed.

(** ** One increment *)

Lemma increment_cases (h : hts) (now : N) :
  (fst h < now /\ increment h now = Some (now, 0)) \/
  (now <= fst h /\ snd h < u64max /\ increment h now = Some (fst h, snd h + 1)) \/
  (now <= fst h /\ u64max <= snd h /\ increment h now = None).
Proof.
  unfold increment, lamport_inc.
  destruct (N.ltb_spec (fst h) now) as [H|H].
  - left. auto.
  - right. destruct (N.ltb_spec (snd h) u64max) as [L|L]; [left|right]; auto.
Qed.

(** Main statement: whatever the clock reads (earlier, equal, later), the result is strictly
    greater.  The only guard is the logical counter's overflow boundary, and it is needed only
    when the clock did not advance. *)
Theorem increment_gt (h : hts) (now : N) :
  (now <= fst h -> snd h < u64max) ->
  exists h', increment h now = Some h' /\ hlt h h'.
Proof.
  intros G. destruct (increment_cases h now) as [[H E]|[[H [L E]]|[H [L E]]]].
  - exists (now, 0). split; [exact E|]. left. exact H.
  - exists (fst h, snd h + 1). split; [exact E|]. right. cbn [fst snd]. lia.
  - specialize (G H). lia.
Qed.

Example increment_gt_nonvacuous_backwards :
  increment (1000, 0) 500 = Some (1000, 1) /\ hlt (1000, 0) (1000, 1).
Proof. split; [reflexivity|]. right. cbn. lia. Qed.
Example increment_gt_nonvacuous_forward :
  increment (1000, 7) 1001 = Some (1001, 0) /\ hlt (1000, 7) (1001, 0).
Proof. split; [reflexivity|]. left. cbn. lia. Qed.

(** The increment fails (debug build: overflow panic) exactly at the boundary. *)
Theorem increment_none_iff (h : hts) (now : N) :
  increment h now = None <-> (now <= fst h /\ u64max <= snd h).
Proof.
  destruct (increment_cases h now) as [[H E]|[[H [L E]]|[H [L E]]]]; rewrite E; split;
    try discriminate; try lia; auto.
Qed.

(** Boundary lemma: with the clock not ahead and the logical counter at u64::MAX the debug build
    panics and the release build wraps the counter to 0, which is *not* greater. *)
Theorem increment_overflow_boundary (t now : N) :
  now <= t ->
  increment (t, u64max) now = None /\
  increment_wrap (t, u64max) now = (t, 0) /\
  ~ hlt (t, u64max) (increment_wrap (t, u64max) now).
Proof.
  intros H. assert (E : increment_wrap (t, u64max) now = (t, 0)).
  { unfold increment_wrap, lamport_inc_wrap. cbn [fst snd].
    destruct (N.ltb_spec t now); [lia|]. reflexivity. }
  split; [|split].
  - apply increment_none_iff. cbn [fst snd]. lia.
  - exact E.
  - rewrite E. unfold hlt, u64max. cbn [fst snd]. lia.
Qed.

(** The release-build function agrees with the checked one wherever the latter returns. *)
Lemma increment_wrap_agrees (h h' : hts) (now : N) :
  increment h now = Some h' -> increment_wrap h now = h'.
Proof.
  unfold increment, increment_wrap, lamport_inc, lamport_inc_wrap.
  destruct (fst h <? now); [congruence|].
  destruct (snd h <? u64max); congruence.
Qed.

(** The code before the repair violated the statement (regression witness, replayed on the
    implementation on every run through findings/C18-clock-backwards.json). *)
Theorem increment_asis_refuted :
  exists h now h', increment_asis h now = Some h' /\ ~ hlt h h'.
Proof.
  exists (1000, 0), 500, (500, 0). split; [reflexivity|]. unfold hlt. cbn [fst snd]. lia.
Qed.

(** ** Sequences of increments under an arbitrary clock script *)

Lemma increment_logical_bound (h h' : hts) (now : N) :
  increment h now = Some h' -> snd h' <= snd h + 1.
Proof.
  destruct (increment_cases h now) as [[H E]|[[H [L E]]|[H [L E]]]]; rewrite E; intros X;
    inversion X; subst; cbn [snd]; lia.
Qed.

Lemma run_sorted :
  forall nows h,
    snd h + N.of_nat (length nows) <= u64max ->
    snd (run h nows) = true /\
    length (fst (run h nows)) = length nows /\
    StronglySorted hlt (h :: fst (run h nows)).
Proof.
  induction nows as [|n r IH]; intros h G.
  - cbn [run fst snd length]. repeat split. constructor; constructor.
  - cbn [length] in G. rewrite Nat2N.inj_succ in G.
    destruct (increment_gt h n) as [h1 [E L]]; [lia|].
    pose proof (increment_logical_bound _ _ _ E) as B.
    destruct (IH h1) as [Hok [Hlen Hs]]; [lia|].
    cbn [run]. rewrite E. destruct (run h1 r) as [out ok]. cbn [fst snd] in *.
    repeat split; [exact Hok|cbn [length]; congruence|].
    constructor; [exact Hs|].
    constructor; [exact L|].
    apply StronglySorted_inv in Hs. destruct Hs as [_ Hall].
    rewrite Forall_forall in *. intros x Hx. eapply hlt_trans; [exact L|auto].
Qed.

Theorem increments_strictly_sorted (h : hts) (nows : list N) :
  snd h + N.of_nat (length nows) <= u64max ->
  snd (run h nows) = true /\
  length (fst (run h nows)) = length nows /\
  StronglySorted hlt (h :: fst (run h nows)).
Proof. apply run_sorted. Qed.

Example increments_strictly_sorted_nonvacuous :
  run (1000, 0) [500; 1000; 999; 1001; 1001; 3] =
  ([(1000, 1); (1000, 2); (1000, 3); (1001, 0); (1001, 1); (1001, 2)], true).
Proof. reflexivity. Qed.

Lemma sorted_nodup (l : list hts) : StronglySorted hlt l -> NoDup l.
Proof.
  induction 1 as [|a l Hs IH Hall]; constructor; [|exact IH].
  intros Hin. rewrite Forall_forall in Hall. exact (hlt_irrefl _ (Hall _ Hin)).
Qed.

Theorem increments_pairwise_distinct (h : hts) (nows : list N) :
  snd h + N.of_nat (length nows) <= u64max ->
  NoDup (h :: fst (run h nows)).
Proof. intros G. apply sorted_nodup. apply run_sorted. exact G. Qed.

(** ** Transport records *)

Theorem transport_info_newer (cur : tinfo) (created now a : N) :
  (now <= fst (ts cur) -> snd (ts cur) < u64max) ->
  exists t,
    increment_timestamp (hnow created) (Some cur) now = Some t /\
    hlt (ts cur) t /\
    update_transports (Some cur) {| ts := t; sig_ok := true; addrs := a |}
    = (UOk true, Some {| ts := t; sig_ok := true; addrs := a |}).
Proof.
  intros G. destruct (increment_gt (ts cur) now G) as [t [E L]].
  exists t. split; [exact E|]. split; [exact L|].
  unfold update_transports. cbn [sig_ok negb ts].
  apply hltb_spec in L. rewrite L. reflexivity.
Qed.

Example transport_info_newer_nonvacuous :
  let cur := {| ts := (1000, 0); sig_ok := true; addrs := 1 |} in
  increment_timestamp (hnow 400) (Some cur) 500 = Some (1000, 1) /\
  fst (update_transports (Some cur) {| ts := (1000, 1); sig_ok := true; addrs := 2 |}) = UOk true.
Proof. split; reflexivity. Qed.

Lemma republish_accepted :
  forall rounds cur,
    snd (ts cur) + N.of_nat (length rounds) <= u64max ->
    snd (republish cur rounds) = true /\
    length (fst (republish cur rounds)) = length rounds /\
    Forall (fun p => snd p = true) (fst (republish cur rounds)) /\
    StronglySorted hlt (ts cur :: map fst (fst (republish cur rounds))).
Proof.
  induction rounds as [|[created now] r IH]; intros cur G.
  - cbn [republish fst snd length map]. repeat split; constructor; constructor.
  - cbn [length] in G. rewrite Nat2N.inj_succ in G.
    destruct (transport_info_newer cur created now (addrs cur + 1)) as [t [E [L U]]]; [lia|].
    cbn [republish]. rewrite E, U.
    cbn [increment_timestamp] in E. pose proof (increment_logical_bound _ _ _ E) as B.
    destruct (IH {| ts := t; sig_ok := true; addrs := addrs cur + 1 |}) as [Hok [Hlen [Hall Hs]]].
    { cbn [ts]. lia. }
    destruct (republish _ r) as [out ok]. cbn [fst snd ts] in *.
    repeat split; [exact Hok|cbn [length]; congruence|constructor; [reflexivity|exact Hall]|].
    cbn [map fst]. constructor; [exact Hs|].
    constructor; [exact L|].
    apply StronglySorted_inv in Hs. destruct Hs as [_ Hf].
    rewrite Forall_forall in *. intros x Hx. eapply hlt_trans; [exact L|auto].
Qed.

Theorem republish_always_accepted (cur : tinfo) (rounds : list (N * N)) :
  snd (ts cur) + N.of_nat (length rounds) <= u64max ->
  snd (republish cur rounds) = true /\
  length (fst (republish cur rounds)) = length rounds /\
  Forall (fun p => snd p = true) (fst (republish cur rounds)).
Proof. intros G. destruct (republish_accepted rounds cur G) as [A [B [C _]]]. auto. Qed.

Example republish_nonvacuous :
  republish {| ts := (1000, 0); sig_ok := true; addrs := 0 |} [(10, 20); (2000, 2001); (5, 2001)]
  = ([((1000, 1), true); ((2001, 0), true); ((2001, 1), true)], true).
Proof. reflexivity. Qed.
