(** C31, last part: accepted sets, heads, current state and the queries of two replicas that
    processed one operation set in two causal orders coincide; the refutation with conditions;
    soundness of the oracle. *)
From Coq Require Import List NArith Bool Lia Permutation String.
From PV Require Import Lib.AListC31 Model.GroupCrdt Proofs.GroupCrdt Proofs.GroupCrdtRun
     Proofs.GroupCrdtMembers Oracle.C31.
Import ListNotations.

Lemma memN_in x l : memN x l = true <-> In x l.
Proof.
  unfold memN. rewrite existsb_exists. split.
  - intros [y [Hy E]]. apply N.eqb_eq in E. subst. exact Hy.
  - intros H. exists x. split; [exact H|apply N.eqb_refl].
Qed.

Lemma in_heads i ops :
  In i (heads_of ops) <->
  exists o, In o ops /\ oid o = i /\ forall o', In o' ops -> ~ In i (deps o').
Proof.
  unfold heads_of. rewrite in_map_iff. split.
  - intros [o [E Ho]]. apply filter_In in Ho. destruct Ho as [Ho Hf]. exists o. repeat split; try assumption.
    intros o' Ho' Hd. apply negb_true_iff in Hf.
    assert (X : existsb (fun o'0 => memN (oid o) (deps o'0)) ops = true).
    { apply existsb_exists. exists o'. split; [exact Ho'|]. apply memN_in. rewrite E. exact Hd. }
    congruence.
  - intros [o [Ho [E Hn]]]. exists o. split; [exact E|]. apply filter_In. split; [exact Ho|].
    apply negb_true_iff. destruct (existsb (fun o' => memN (oid o) (deps o')) ops) eqn:X; [|reflexivity].
    apply existsb_exists in X. destruct X as [o' [Ho' Hm]]. apply memN_in in Hm.
    exfalso. apply (Hn o' Ho'). rewrite <- E. exact Hm.
Qed.

Lemma heads_nodup ops : NoDup (ids ops) -> NoDup (heads_of ops).
Proof. intros H. unfold heads_of. apply (nodup_ids_filter _ _ H). Qed.

Lemma heads_incl ops : incl (heads_of ops) (ids ops).
Proof.
  intros i Hi. apply in_heads in Hi. destruct Hi as [o [Ho [E _]]]. rewrite <- E. apply in_map. exact Ho.
Qed.

Lemma heads_sub a b i : same_ops a b -> In i (heads_of a) -> In i (heads_of b).
Proof.
  intros HS Hi. apply in_heads in Hi. destruct Hi as [o [Ho [E Hn]]].
  destruct (proj1 HS o Ho) as [o' [Ho' Hsim]]. apply in_heads. exists o'. repeat split.
  - exact Ho'.
  - rewrite <- (proj1 Hsim). exact E.
  - intros q' Hq' Hd. destruct (proj2 HS q' Hq') as [q [Hq Hsq]].
    apply (Hn q Hq). eapply Permutation_in; [apply Permutation_sym; apply Hsq|exact Hd].
Qed.

Lemma heads_perm a b :
  NoDup (ids a) -> NoDup (ids b) -> same_ops a b -> Permutation (heads_of a) (heads_of b).
Proof.
  intros Na Nb HS. apply NoDup_Permutation; try (apply heads_nodup; assumption).
  intros i. split; [apply heads_sub; exact HS|apply heads_sub; apply same_ops_sym; exact HS].
Qed.

Section Converge.
  Variables l1 l2 : list op.
  Hypothesis G1 : good l1.
  Hypothesis G2 : good l2.
  Hypothesis HS : same_ops l1 l2.

  Let y1 := run l1.
  Let y2 := run l2.

  Lemma accepted_same : same_ops (r_ops y1) (r_ops y2).
  Proof.
    assert (Half : forall la lb, good la -> good lb -> same_ops la lb ->
                   forall o, In o (r_ops (run la)) -> exists o', In o' (r_ops (run lb)) /\ op_sim o o').
    { intros la lb Ga Gb Hab o Ho.
      rewrite (r_ops_filter la (g_nodup _ Ga)) in Ho. apply filter_In in Ho. destruct Ho as [Ho Hs].
      destruct (proj1 Hab o Ho) as [o' [Ho' Hsim]]. exists o'. split; [|exact Hsim].
      rewrite (r_ops_filter lb (g_nodup _ Gb)). apply filter_In. split; [exact Ho'|].
      rewrite <- (proj1 Hsim). rewrite <- Hs. symmetry. apply oeq_is_some.
      apply state_fn_of_history; assumption. }
    split.
    - apply Half; assumption.
    - intros o' Ho'. destruct (Half l2 l1 G2 G1 (same_ops_sym _ _ HS) o' Ho') as [o [Ho Hsim]].
      exists o. split; [exact Ho|apply op_sim_sym; exact Hsim].
  Qed.

  Lemma accepted_nodup l : good l -> NoDup (ids (r_ops (run l))).
  Proof. intros G. rewrite (r_ops_filter l (g_nodup _ G)). apply nodup_ids_filter. apply (g_nodup _ G). Qed.

  Lemma current_geq : geq (current y1) (current y2).
  Proof.
    unfold current, current_of. rewrite !state_at_eq.
    pose proof (state_at_f_cong (fun d => sget d (r_sts y1)) (fun d => sget d (r_sts y2))
                  (heads_of (r_ops y1)) (heads_of (r_ops y2))) as H.
    assert (HP : Permutation (heads_of (r_ops y1)) (heads_of (r_ops y2))).
    { apply heads_perm; [apply accepted_nodup; exact G1|apply accepted_nodup; exact G2|apply accepted_same]. }
    specialize (H HP (fun d _ => state_fn_of_history l1 l2 G1 G2 HS d)
                  (run_ok l1 (g_nc _ G1)) (run_ok l2 (g_nc _ G2))).
    destruct (state_at_f (fun d => sget d (r_sts y1)) (heads_of (r_ops y1))),
             (state_at_f (fun d => sget d (r_sts y2)) (heads_of (r_ops y2))); cbn [oeq] in H;
      try contradiction; [exact H|apply geq_refl].
  Qed.

  Lemma current_ok l : good l -> wf (current (run l)) /\ gnc (current (run l)).
  Proof.
    intros G. unfold current, current_of. rewrite state_at_eq.
    destruct (state_at_f (fun d => sget d (r_sts (run l))) (heads_of (r_ops (run l)))) as [s|] eqn:E.
    - eapply state_at_f_ok; [|exact E]. apply (run_ok l (g_nc _ G)).
    - split; [apply wf_nil|apply gnc_nil].
  Qed.

  Theorem converge :
    (forall i, oeq (sget i (r_sts y1)) (sget i (r_sts y2))) /\
    same_ops (r_ops y1) (r_ops y2) /\
    (forall g m, mlookup m (members y1 g) = mlookup m (members y2 g)) /\
    (forall g, Permutation (root_members y1 g) (root_members y2 g)).
  Proof.
    destruct (current_ok l1 G1) as [W1 N1]. destruct (current_ok l2 G2) as [W2 _].
    repeat split.
    - apply state_fn_of_history; assumption.
    - apply (proj1 accepted_same).
    - apply (proj2 accepted_same).
    - intros g m. unfold members. apply members_query_deterministic; try assumption. apply current_geq.
    - intros g. unfold root_members. apply entries_perm; try assumption. apply current_geq.
  Qed.
End Converge.

(** Any two causal processing orders (dependency sets iterated in any order) of one set of
    condition-free operations: same per-operation states, same accepted operations, same
    members and root members for every group. *)
Theorem converge_no_rebuild l1 l2 :
  good l1 -> good l2 -> same_ops l1 l2 ->
  (forall i, oeq (sget i (r_sts (run l1))) (sget i (r_sts (run l2)))) /\
  same_ops (r_ops (run l1)) (r_ops (run l2)) /\
  (forall g m, mlookup m (members (run l1) g) = mlookup m (members (run l2) g)) /\
  (forall g, Permutation (root_members (run l1) g) (root_members (run l2) g)).
Proof. intros G1 G2 HS. exact (converge l1 l2 G1 G2 HS). Qed.

(** The hypotheses are satisfiable by a history with real concurrency: two managers act
    concurrently on one group (a promotion and an add), a third operation joins both branches. *)
Definition ex_a (l : level) : access := {| cond := None; lvl := l |}.
Definition ex_o0 : op :=
  {| oid := 0; author := 0; group := 100;
     act := Create [((false, 0), ex_a Manage); ((false, 1), ex_a Manage); ((false, 2), ex_a Read)]; deps := [] |}%N.
Definition ex_o1 : op := {| oid := 1; author := 0; group := 100; act := Promote (false, 2) (ex_a Write); deps := [0] |}%N.
Definition ex_o2 : op := {| oid := 2; author := 1; group := 100; act := Add (false, 3) (ex_a Pull); deps := [0] |}%N.
Definition ex_o3 : op := {| oid := 3; author := 1; group := 100; act := Demote (false, 2) (ex_a Pull); deps := [1; 2] |}%N.
Definition ex_o3' : op := {| oid := 3; author := 1; group := 100; act := Demote (false, 2) (ex_a Pull); deps := [2; 1] |}%N.
Definition ex_ops : list op := [ex_o0; ex_o1; ex_o2; ex_o3].
Definition ex_ops' : list op := [ex_o0; ex_o2; ex_o1; ex_o3'].

Fixpoint causal_b (pre : list N) (l : list op) : bool :=
  match l with
  | [] => true
  | o :: r => forallb (fun d => memN d pre) (deps o) && causal_b (pre ++ [oid o]) r
  end.

Lemma causal_check l : causal_b [] l = true -> causal l.
Proof.
  assert (Gen : forall l0 pre0, causal_b pre0 l0 = true ->
    forall pre o post, l0 = pre ++ o :: post -> incl (deps o) (pre0 ++ ids pre)).
  { clear l. induction l0 as [|x r IH]; intros pre0 H pre o post E.
    - exfalso. exact (app_cons_not_nil _ _ _ E).
    - cbn [causal_b] in H. apply andb_true_iff in H. destruct H as [Hx Hr].
      destruct pre as [|p pre'].
      + cbn [app] in E. inversion E; subst. cbn [ids map]. rewrite app_nil_r.
        intros d Hd. rewrite forallb_forall in Hx. apply memN_in. apply Hx. exact Hd.
      + cbn [app] in E. inversion E; subst.
        specialize (IH _ Hr pre' o post eq_refl). cbn [ids map]. rewrite <- app_assoc in IH. exact IH. }
  intros H pre o post E. exact (Gen l [] H pre o post E).
Qed.

Example converge_hyps_satisfiable :
  good ex_ops /\ good ex_ops' /\ same_ops ex_ops ex_ops' /\
  r_ops (run ex_ops) = ex_ops /\
  mlookup (false, 2%N) (members (run ex_ops) 100%N) = Some (ex_a Pull).
Proof.
  assert (Hnc : Forall op_nc ex_ops).
  { repeat constructor. }
  assert (Hnc' : Forall op_nc ex_ops').
  { repeat constructor. }
  repeat split; try assumption.
  - repeat constructor; cbn; intuition discriminate.
  - apply causal_check. reflexivity.
  - repeat constructor; cbn; intuition discriminate.
  - apply causal_check. reflexivity.
  - intros o Ho. cbn in Ho. destruct Ho as [<-|[<-|[<-|[<-|[]]]]].
    + eexists; split; [left; reflexivity|]. repeat split; apply Permutation_refl.
    + eexists; split; [right; right; left; reflexivity|]. repeat split; apply Permutation_refl.
    + eexists; split; [right; left; reflexivity|]. repeat split; apply Permutation_refl.
    + eexists; split; [right; right; right; left; reflexivity|]. repeat split. apply perm_swap.
  - intros o Ho. cbn in Ho. destruct Ho as [<-|[<-|[<-|[<-|[]]]]].
    + eexists; split; [left; reflexivity|]. repeat split; apply Permutation_refl.
    + eexists; split; [right; right; left; reflexivity|]. repeat split; apply Permutation_refl.
    + eexists; split; [right; left; reflexivity|]. repeat split; apply Permutation_refl.
    + eexists; split; [right; right; right; left; reflexivity|]. repeat split. apply perm_swap.
Qed.

(** * With access conditions the property fails on the model of the code as it is *)
Definition cx_ops : list op :=
  [ {| oid := 0; author := 0; group := 100;
       act := Create [((false, 0), ex_a Manage); ((false, 1), ex_a Read)]; deps := [] |};
    {| oid := 1; author := 0; group := 100; act := Promote (false, 1) (ex_a Write); deps := [0] |};
    {| oid := 2; author := 0; group := 100;
       act := Promote (false, 1) {| cond := Some 1; lvl := Write |}; deps := [0] |} ]%N.
Definition cx_ops' : list op :=
  [ {| oid := 0; author := 0; group := 100;
       act := Create [((false, 0), ex_a Manage); ((false, 1), ex_a Read)]; deps := [] |};
    {| oid := 2; author := 0; group := 100;
       act := Promote (false, 1) {| cond := Some 1; lvl := Write |}; deps := [0] |};
    {| oid := 1; author := 0; group := 100; act := Promote (false, 1) (ex_a Write); deps := [0] |} ]%N.

(** "same operation set, both orders causal, unique ids" without the no-conditions clause *)
Definition good_cond (l : list op) : Prop := NoDup (ids l) /\ causal l.

Theorem refuted_conditions :
  exists l1 l2 g m,
    good_cond l1 /\ good_cond l2 /\ same_ops l1 l2 /\
    mlookup m (members (run l1) g) <> mlookup m (members (run l2) g).
Proof.
  exists cx_ops, cx_ops', 100%N, (false, 1%N). repeat split.
  - repeat constructor; cbn; intuition discriminate.
  - apply causal_check. reflexivity.
  - repeat constructor; cbn; intuition discriminate.
  - apply causal_check. reflexivity.
  - intros o Ho. cbn in Ho. destruct Ho as [<-|[<-|[<-|[]]]].
    + eexists; split; [left; reflexivity|]. repeat split; apply Permutation_refl.
    + eexists; split; [right; right; left; reflexivity|]. repeat split; apply Permutation_refl.
    + eexists; split; [right; left; reflexivity|]. repeat split; apply Permutation_refl.
  - intros o Ho. cbn in Ho. destruct Ho as [<-|[<-|[<-|[]]]].
    + eexists; split; [left; reflexivity|]. repeat split; apply Permutation_refl.
    + eexists; split; [right; right; left; reflexivity|]. repeat split; apply Permutation_refl.
    + eexists; split; [right; left; reflexivity|]. repeat split; apply Permutation_refl.
  - vm_compute. discriminate.
Qed.

(** A single replica, one state, two iteration orders of the same map: the answer of
    [members] differs (repeated queries need not agree). *)
Theorem refuted_conditions_query :
  exists cs cs' g m,
    wf cs /\ wf cs' /\ geq cs cs' /\
    mlookup m (members_cs cs g) <> mlookup m (members_cs cs' g).
Proof.
  pose (a := {| cond := None; lvl := Write |}).
  pose (b := {| cond := Some 1%N; lvl := Write |}).
  pose (cs := [((100, (false, 1)), {| mc := 1; acc := a; ac := 0 |});
               ((100, (true, 101)), {| mc := 1; acc := a; ac := 0 |});
               ((101, (false, 1)), {| mc := 1; acc := b; ac := 0 |})]%N).
  exists cs, (rev cs), 100%N, (false, 1%N). repeat split.
  - repeat constructor; cbn; intuition discriminate.
  - repeat constructor; cbn; intuition discriminate.
  - intros k. unfold glookup. cbn [cs rev app lookup].
    destruct (key_eqb_spec k (100%N, (false, 1%N))) as [->|H1]; [reflexivity|].
    destruct (key_eqb_spec k (100%N, (true, 101%N))) as [->|H2]; [reflexivity|].
    destruct (key_eqb_spec k (101%N, (false, 1%N))) as [->|H3]; reflexivity.
  - vm_compute. discriminate.
Qed.

(** * Oracle soundness *)
Lemma check_sound answers :
  check answers = true -> forall a b, In a answers -> In b answers -> a = b.
Proof.
  unfold check. destruct answers as [|x r]; [discriminate|].
  intros H. rewrite forallb_forall in H.
  assert (E : forall a, In a (x :: r) -> a = x).
  { intros a [<-|Ha]; [reflexivity|]. symmetry. apply String.eqb_eq. apply H. exact Ha. }
  intros a b Ha Hb. rewrite (E a Ha), (E b Hb). reflexivity.
Qed.

(** * The finding's class: histories in which some access carries a condition *)
Definition has_conditions (l : list op) : Prop := ~ Forall op_nc l.

Lemma nc_dec a : {nc a} + {~ nc a}.
Proof. unfold nc. destruct (cond a); [right; discriminate|left; reflexivity]. Qed.

Lemma op_nc_dec o : {op_nc o} + {~ op_nc o}.
Proof.
  unfold op_nc. destruct (act o) as [init|m a|m|m a|m a]; try apply nc_dec; [|left; exact I].
  apply Forall_dec. intros e. apply nc_dec.
Qed.

Theorem converge_outside_known l1 l2 :
  good_cond l1 -> good_cond l2 -> same_ops l1 l2 ->
  ~ has_conditions l1 -> ~ has_conditions l2 ->
  (forall g m, mlookup m (members (run l1) g) = mlookup m (members (run l2) g)) /\
  (forall g, Permutation (root_members (run l1) g) (root_members (run l2) g)).
Proof.
  intros [N1 C1] [N2 C2] HS K1 K2.
  assert (F1 : Forall op_nc l1).
  { destruct (Forall_dec op_nc op_nc_dec l1) as [F|F]; [exact F|exfalso; apply K1; exact F]. }
  assert (F2 : Forall op_nc l2).
  { destruct (Forall_dec op_nc op_nc_dec l2) as [F|F]; [exact F|exfalso; apply K2; exact F]. }
  destruct (converge_no_rebuild l1 l2 (Build_good _ N1 C1 F1) (Build_good _ N2 C2 F2) HS) as (_ & _ & M & Rm).
  split; assumption.
Qed.
