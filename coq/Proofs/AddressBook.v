(** Proofs about the address-book model (C27).

    Trusted assumptions (section variables / hypotheses, nothing global):
    - [sigT], [verify]: an arbitrary signature type and verification function; every theorem of
      section [Book] holds for all of them.
    - section [Ideal]: [sign] and the hypothesis [verify_ideal] (a signature verifies for a node
      and a payload iff it is the one the node's key produces for exactly that payload) — used
      only by [stored_signed_by_node]; shown satisfiable by the symbolic scheme
      ([sym_verify_ideal]). *)
From Coq Require Import List NArith Bool Lia Permutation.
From PV Require Import Model.AddressBook.
Import ListNotations.
Local Open Scope N_scope.

(** * Timestamp order *)
Lemma ts_ltb_irrefl a : ts_ltb a a = false.
Proof.
  unfold ts_ltb. rewrite !N.ltb_irrefl. rewrite andb_false_r. reflexivity.
Qed.

Lemma ts_ltb_spec a b :
  ts_ltb a b = true <-> (fst a < fst b \/ (fst a = fst b /\ snd a < snd b)).
Proof.
  unfold ts_ltb. rewrite orb_true_iff, andb_true_iff, !N.ltb_lt, N.eqb_eq. tauto.
Qed.

Lemma ts_ltb_false a b :
  ts_ltb a b = false <-> (fst b < fst a \/ (fst a = fst b /\ snd b <= snd a)).
Proof.
  split.
  - intros H. destruct (N.lt_trichotomy (fst a) (fst b)) as [L|[E|G]].
    + assert (ts_ltb a b = true) by (apply ts_ltb_spec; auto). congruence.
    + right. split; [exact E|]. destruct (N.le_gt_cases (snd b) (snd a)) as [L|G]; [exact L|].
      assert (ts_ltb a b = true) by (apply ts_ltb_spec; auto). congruence.
    + left. exact G.
  - intros H. destruct (ts_ltb a b) eqn:E; [|reflexivity].
    apply ts_ltb_spec in E. lia.
Qed.

Lemma ts_le_trans a b c : ts_ltb a b = false -> ts_ltb b c = false -> ts_ltb a c = false.
Proof. rewrite !ts_ltb_false. lia. Qed.

Lemma ts_lt_le_trans a b c : ts_ltb b a = true -> ts_ltb b c = false -> ts_ltb a c = false.
Proof. rewrite ts_ltb_spec, !ts_ltb_false. lia. Qed.

Lemma ts_antisym a b : ts_ltb a b = false -> ts_ltb b a = false -> a = b.
Proof.
  rewrite !ts_ltb_false. destruct a as [a1 a2], b as [b1 b2]. cbn [fst snd].
  intros H1 H2. f_equal; lia.
Qed.

Lemma ts_lt_asym a b : ts_ltb a b = true -> ts_ltb b a = false.
Proof. rewrite ts_ltb_spec, ts_ltb_false. lia. Qed.

(** * Association-list facts *)
Section Book.
  Variable sigT : Type.
  Variable verify : N -> payload -> sigT -> bool.

  Notation tinfo := (tinfo sigT).
  Notation authentic := (authentic sigT verify).
  Notation update_transports := (update_transports sigT verify).
  Notation arrive := (arrive sigT verify).
  Notation newest_authentic := (newest_authentic sigT verify).
  Notation newer_of := (newer_of sigT).
  Notation info_ts := (info_ts sigT).
  Notation lookup := (lookup sigT).
  Notation upsert := (upsert sigT).
  Notation stored := (stored sigT).
  Notation actor_step := (actor_step sigT verify).
  Notation actor_run := (actor_run sigT verify).
  Notation transports_for := (transports_for sigT).
  Notation only_transport_ops := (only_transport_ops sigT).
  Notation verify_info := (verify_info sigT verify).
  Notation verify_node_info := (verify_node_info sigT verify).

  Lemma lookup_upsert_same b n v : lookup (upsert b n v) n = Some v.
  Proof.
    induction b as [|[k w] r IH]; cbn [upsert lookup].
    - rewrite N.eqb_refl. reflexivity.
    - destruct (k =? n) eqn:E; cbn [lookup]; rewrite E; auto.
  Qed.

  Lemma lookup_upsert_other b n m v : n <> m -> lookup (upsert b n v) m = lookup b m.
  Proof.
    intros Hnm. induction b as [|[k w] r IH]; cbn [upsert lookup].
    - destruct (n =? m) eqn:E; [apply N.eqb_eq in E; contradiction|reflexivity].
    - destruct (k =? n) eqn:E; cbn [lookup].
      + apply N.eqb_eq in E. subst k. destruct (n =? m) eqn:E2; [apply N.eqb_eq in E2; contradiction|reflexivity].
      + destruct (k =? m); auto.
  Qed.

  (** * One node: update_transports is "take the newer authentic record" *)
  Lemma update_fst node cur r :
    fst (update_transports node cur r) = if authentic node r then newer_of cur r else cur.
  Proof.
    unfold update_transports, AddressBook.authentic, AddressBook.newer_of.
    destruct (verify_info node r); [reflexivity|].
    destruct cur as [c|]; [|reflexivity].
    destruct (ts_ltb (info_ts c) (info_ts r)); reflexivity.
  Qed.

  (** an unauthentic record is answered with an error and changes nothing *)
  Lemma update_rejects node cur r :
    authentic node r = false ->
    exists e, update_transports node cur r = (cur, Err e).
  Proof.
    unfold AddressBook.authentic, update_transports. destruct (verify_info node r) as [e|]; [|discriminate].
    intros _. exists e. reflexivity.
  Qed.

  (** an authentic record is answered [Ok newer], with [newer] = "it became the stored one" *)
  Lemma update_accepts node cur r :
    authentic node r = true ->
    exists nw, update_transports node cur r = (newer_of cur r, Ok nw) /\
               (nw = true <-> newer_of cur r = Some r /\ (cur = None \/ exists c, cur = Some c /\ ts_ltb (info_ts c) (info_ts r) = true)).
  Proof.
    unfold AddressBook.authentic, update_transports, AddressBook.newer_of.
    destruct (verify_info node r); [discriminate|]. intros _.
    destruct cur as [c|].
    - destruct (ts_ltb (info_ts c) (info_ts r)) eqn:E.
      + exists true. split; [reflexivity|]. split; [|reflexivity]. intros _. split; [reflexivity|].
        right. exists c. auto.
      + exists false. split; [reflexivity|]. split; [discriminate|].
        intros [_ [H|[c' [H1 H2]]]]; [discriminate|]. injection H1 as <-. congruence.
    - exists true. split; [reflexivity|]. split; auto.
  Qed.

  Lemma arrive_is_newest_authentic node rs cur :
    arrive node cur rs = newest_authentic node cur rs.
  Proof.
    unfold AddressBook.arrive, AddressBook.newest_authentic.
    revert cur. induction rs as [|r rs IH]; intros cur; cbn [fold_left filter]; [reflexivity|].
    rewrite IH, update_fst. destruct (authentic node r); reflexivity.
  Qed.

  (** the fold keeps the start value or takes an element of the list *)
  Lemma fold_newer_origin l init :
    fold_left newer_of l init = init \/ exists s, fold_left newer_of l init = Some s /\ In s l.
  Proof.
    revert init. induction l as [|x l IH]; intros init; cbn [fold_left]; [left; reflexivity|].
    destruct (IH (newer_of init x)) as [H|[s [H1 H2]]].
    - rewrite H. unfold AddressBook.newer_of. destruct init as [c|].
      + destruct (ts_ltb (info_ts c) (info_ts x)); [right; exists x; split; [reflexivity|left; reflexivity]|left; reflexivity].
      + right. exists x. split; [reflexivity|left; reflexivity].
    - right. exists s. split; [exact H1|right; exact H2].
  Qed.

  (** ... and what it ends with is at least as new as the start value and every element *)
  Lemma fold_newer_max l : forall init x,
    (init = Some x \/ In x l) ->
    exists s, fold_left newer_of l init = Some s /\ ts_ltb (info_ts s) (info_ts x) = false.
  Proof.
    induction l as [|y l IH]; intros init x Hx; cbn [fold_left].
    - destruct Hx as [->|[]]. exists x. split; [reflexivity|apply ts_ltb_irrefl].
    - destruct Hx as [Hx|[Hx|Hx]].
      + subst init. unfold AddressBook.newer_of at 2.
        destruct (ts_ltb (info_ts x) (info_ts y)) eqn:E.
        * destruct (IH (Some y) y (or_introl eq_refl)) as [s [H1 H2]].
          exists s. split; [exact H1|]. eapply ts_le_trans; [exact H2|]. apply ts_lt_asym. exact E.
        * apply IH. left. reflexivity.
      + subst y. unfold AddressBook.newer_of at 2. destruct init as [c|].
        * destruct (ts_ltb (info_ts c) (info_ts x)) eqn:E.
          -- apply IH. left. reflexivity.
          -- destruct (IH (Some c) c (or_introl eq_refl)) as [s [H1 H2]].
             exists s. split; [exact H1|]. eapply ts_le_trans; eassumption.
        * apply IH. left. reflexivity.
      + apply IH. right. exact Hx.
  Qed.

  (** forged or mismatched records are never the stored one *)
  Theorem forged_never_stored node rs r :
    arrive node None rs = Some r -> In r rs /\ authentic node r = true.
  Proof.
    rewrite arrive_is_newest_authentic. unfold AddressBook.newest_authentic.
    intros H. destruct (fold_newer_origin (filter (authentic node) rs) None) as [E|[s [E1 E2]]].
    - congruence.
    - rewrite H in E1. injection E1 as <-. apply filter_In in E2. exact E2.
  Qed.

  (** the stored record is an authentic one with the greatest timestamp *)
  Theorem stored_is_max_authentic node rs :
    match arrive node None rs with
    | None => forall r, In r rs -> authentic node r = false
    | Some s =>
        In s rs /\ authentic node s = true /\
        forall r, In r rs -> authentic node r = true -> ts_ltb (info_ts s) (info_ts r) = false
    end.
  Proof.
    destruct (arrive node None rs) as [s|] eqn:E.
    - destruct (forged_never_stored node rs s E) as [H1 H2]. split; [exact H1|]. split; [exact H2|].
      intros r Hr Ha. rewrite arrive_is_newest_authentic in E. unfold AddressBook.newest_authentic in E.
      destruct (fold_newer_max (filter (authentic node) rs) None r) as [s' [F1 F2]].
      { right. apply filter_In. auto. }
      rewrite E in F1. injection F1 as <-. exact F2.
    - intros r Hr. destruct (authentic node r) eqn:Ha; [|reflexivity].
      rewrite arrive_is_newest_authentic in E. unfold AddressBook.newest_authentic in E.
      destruct (fold_newer_max (filter (authentic node) rs) None r) as [s' [F1 _]].
      { right. apply filter_In. auto. }
      congruence.
  Qed.

  Lemma NoDup_map_inj_in {A B} (f : A -> B) l a b :
    NoDup (map f l) -> In a l -> In b l -> f a = f b -> a = b.
  Proof.
    induction l as [|x l IH]; cbn [map]; intros Hnd Ha Hb Hf; [destruct Ha|].
    inversion Hnd as [|? ? Hnin Hnd']; subst.
    destruct Ha as [->|Ha], Hb as [->|Hb]; auto.
    - exfalso. apply Hnin. rewrite Hf. apply in_map. exact Hb.
    - exfalso. apply Hnin. rewrite <- Hf. apply in_map. exact Ha.
  Qed.

  (** Order independence: with pairwise distinct timestamps among the authentic records, every
      arrival order ends with the same stored record. *)
  Theorem arrival_order_irrelevant node rs rs' :
    Permutation rs rs' ->
    NoDup (map info_ts (filter (authentic node) rs)) ->
    arrive node None rs = arrive node None rs'.
  Proof.
    intros HP Hnd.
    pose proof (stored_is_max_authentic node rs) as H1.
    pose proof (stored_is_max_authentic node rs') as H2.
    destruct (arrive node None rs) as [s|], (arrive node None rs') as [s'|]; auto.
    - destruct H1 as [I1 [A1 M1]], H2 as [I2 [A2 M2]].
      f_equal. apply (NoDup_map_inj_in info_ts (filter (authentic node) rs)); auto.
      + apply filter_In. auto.
      + apply filter_In. split; [|exact A2]. eapply Permutation_in; [apply Permutation_sym; exact HP|exact I2].
      + apply ts_antisym.
        * apply M1; [|exact A2]. eapply Permutation_in; [apply Permutation_sym; exact HP|exact I2].
        * apply M2; [|exact A1]. eapply Permutation_in; [exact HP|exact I1].
    - destruct H1 as [I1 [A1 _]]. rewrite (H2 s) in A1; [discriminate|]. eapply Permutation_in; eassumption.
    - destruct H2 as [I2 [A2 _]]. rewrite (H1 s') in A2; [discriminate|].
      eapply Permutation_in; [apply Permutation_sym; exact HP|exact I2].
  Qed.

  (** * The actor *)

  (** the actor's InsertTransport is update_transports on the node's entry, local data kept *)
  Lemma actor_transport_stored b n r m :
    stored (fst (actor_step b (InsertTransport n r))) m =
    if n =? m then fst (update_transports n (stored b n) r) else stored b m.
  Proof.
    unfold AddressBook.actor_step, AddressBook.stored.
    destruct (n =? m) eqn:Enm.
    - apply N.eqb_eq in Enm. subst m.
      unfold AddressBook.update_transports.
      destruct (verify_info n r) as [e|] eqn:V; cbn [fst]; [reflexivity|].
      destruct (lookup b n) as [i|] eqn:L; cbn [ni_transports ni_bootstrap].
      + destruct (ni_transports i) as [c|].
        * destruct (ts_ltb (info_ts c) (info_ts r)); cbn [fst]; rewrite lookup_upsert_same; reflexivity.
        * cbn [fst]. rewrite lookup_upsert_same. reflexivity.
      + cbn [fst]. rewrite lookup_upsert_same. reflexivity.
    - assert (Hnm : n <> m) by (intros ->; rewrite N.eqb_refl in Enm; discriminate).
      destruct (verify_info n r) as [e|] eqn:V; cbn [fst]; [reflexivity|].
      destruct (AddressBook.update_transports sigT verify n _ r) as [t [nw|e]] eqn:U; cbn [fst]; [|reflexivity].
      rewrite lookup_upsert_other by exact Hnm. reflexivity.
  Qed.

  (** InsertTransportInfo leaves the local "bootstrap" flag of an existing entry alone *)
  Lemma actor_transport_keeps_bootstrap b n r m i :
    lookup b m = Some i ->
    exists i', lookup (fst (actor_step b (InsertTransport n r))) m = Some i' /\
               ni_bootstrap i' = ni_bootstrap i.
  Proof.
    intros L. unfold AddressBook.actor_step.
    destruct (verify_info n r) as [e|]; cbn [fst]; [eauto|].
    destruct (n =? m) eqn:Enm.
    - apply N.eqb_eq in Enm. subst m. rewrite L.
      destruct (AddressBook.update_transports sigT verify n _ r) as [t [nw|e]]; cbn [fst]; [|eauto].
      rewrite lookup_upsert_same. eexists. split; [reflexivity|reflexivity].
    - assert (Hnm : n <> m) by (intros ->; rewrite N.eqb_refl in Enm; discriminate).
      destruct (AddressBook.update_transports sigT verify n _ r) as [t [nw|e]]; cbn [fst]; [|eauto].
      rewrite lookup_upsert_other by exact Hnm. eauto.
  Qed.

  (** Scope lemma (not part of "records arriving"): InsertNodeInfo is a local overwrite — it
      replaces the whole entry, whatever the timestamps, provided the attached record is
      authentic. *)
  Lemma insert_node_info_overwrites b n bs r :
    verify_node_info n r = None ->
    lookup (fst (actor_step b (InsertNode n bs r))) n = Some {| ni_bootstrap := bs; ni_transports := r |}.
  Proof.
    intros V. unfold AddressBook.actor_step. rewrite V. cbn [fst]. apply lookup_upsert_same.
  Qed.

  Lemma insert_node_info_rejects b n bs r e :
    verify_node_info n r = Some e -> actor_step b (InsertNode n bs r) = (b, Err e).
  Proof. intros V. unfold AddressBook.actor_step. rewrite V. reflexivity. Qed.

  Lemma actor_run_fst_cons b o ops :
    fst (actor_run b (o :: ops)) = fst (actor_run (fst (actor_step b o)) ops).
  Proof.
    cbn [AddressBook.actor_run]. destruct (actor_step b o) as [b1 x]. cbn [fst].
    destruct (actor_run b1 ops). reflexivity.
  Qed.

  (** Records arriving through the actor for any number of nodes, interleaved in any way: every
      node's stored record is the newest authentic one among those addressed to it. *)
  Theorem book_stored_is_newest ops : forall b n,
    only_transport_ops ops = true ->
    stored (fst (actor_run b ops)) n = newest_authentic n (stored b n) (transports_for n ops).
  Proof.
    induction ops as [|o ops IH]; intros b n Hops.
    - reflexivity.
    - rewrite actor_run_fst_cons.
      cbn [AddressBook.only_transport_ops forallb] in Hops. apply andb_true_iff in Hops. destruct Hops as [Ho Hops].
      destruct o as [k r|k bs r]; [|discriminate].
      rewrite IH by exact Hops. rewrite actor_transport_stored.
      cbn [AddressBook.transports_for]. destruct (k =? n) eqn:E.
      + apply N.eqb_eq in E. subst k. rewrite update_fst.
        unfold AddressBook.newest_authentic. cbn [filter].
        destruct (authentic n r); reflexivity.
      + reflexivity.
  Qed.

  (** Whatever is done to the book (including local overwrites), a record that is not authentic
      for a node is never stored for it. *)
  Definition book_authentic (b : book sigT) : Prop :=
    forall n r, stored b n = Some r -> authentic n r = true.

  Lemma actor_step_authentic b o : book_authentic b -> book_authentic (fst (actor_step b o)).
  Proof.
    intros Hb n r. destruct o as [k x|k bs x].
    - rewrite actor_transport_stored. destruct (k =? n) eqn:E; [|apply Hb].
      apply N.eqb_eq in E. subst k. rewrite update_fst.
      destruct (authentic n x) eqn:A; [|apply Hb].
      unfold AddressBook.newer_of. destruct (stored b n) as [c|] eqn:S.
      + destruct (ts_ltb (info_ts c) (info_ts x)); intros H; injection H as <-; [exact A|apply Hb; exact S].
      + intros H; injection H as <-. exact A.
    - unfold AddressBook.actor_step. destruct (verify_node_info k x) as [e|] eqn:V; cbn [fst]; [apply Hb|].
      unfold AddressBook.stored. destruct (N.eq_dec k n) as [->|Hkn].
      + rewrite lookup_upsert_same. cbn [ni_transports]. intros ->.
        unfold AddressBook.verify_node_info in V. unfold AddressBook.authentic. rewrite V. reflexivity.
      + rewrite lookup_upsert_other by exact Hkn. apply Hb.
  Qed.

  Theorem book_never_stores_forged ops : forall b,
    book_authentic b -> book_authentic (fst (actor_run b ops)).
  Proof.
    induction ops as [|o ops IH]; intros b Hb; [exact Hb|].
    rewrite actor_run_fst_cons. apply IH. apply actor_step_authentic. exact Hb.
  Qed.

  Lemma empty_book_authentic : book_authentic [].
  Proof. intros n r H. discriminate. Qed.

  Lemma transports_for_spec n ops :
    only_transport_ops ops = true ->
    forall r, In r (transports_for n ops) <-> In (InsertTransport n r) ops.
  Proof.
    induction ops as [|o ops IH]; intros Hops r; [cbn; tauto|].
    cbn [AddressBook.only_transport_ops forallb] in Hops. apply andb_true_iff in Hops. destruct Hops as [Ho Hops].
    destruct o as [k x|]; [|discriminate]. cbn [AddressBook.transports_for In].
    destruct (k =? n) eqn:E.
    - apply N.eqb_eq in E. subst k. cbn [In]. rewrite (IH Hops). split.
      + intros [->|H]; auto.
      + intros [H|H]; [injection H as ->; auto|auto].
    - rewrite (IH Hops). split; [auto|]. intros [H|H]; [|exact H].
      injection H as -> _. rewrite N.eqb_refl in E. discriminate.
  Qed.

  (** Book-level order independence: two operation sequences that deliver, for node [n], the
      same records in any order (and anything at all to other nodes) leave the same stored
      record for [n], provided the authentic ones have pairwise distinct timestamps. *)
  Theorem book_order_irrelevant ops ops' n :
    only_transport_ops ops = true -> only_transport_ops ops' = true ->
    Permutation (transports_for n ops) (transports_for n ops') ->
    NoDup (map info_ts (filter (authentic n) (transports_for n ops))) ->
    stored (fst (actor_run [] ops)) n = stored (fst (actor_run [] ops')) n.
  Proof.
    intros H1 H2 HP Hnd. rewrite !book_stored_is_newest by assumption.
    change (stored [] n) with (@None tinfo).
    rewrite <- !arrive_is_newest_authentic. apply arrival_order_irrelevant; assumption.
  Qed.

  Section Ideal.
    Variable sign : N -> payload -> sigT.
    Hypothesis verify_ideal : forall node p s, verify node p s = true <-> s = sign node p.

    (** Under the ideal-signature reading a stored authenticated record carries exactly the
        signature the node itself produces over the stored timestamp and addresses; a stored
        trusted record mentions no other node. *)
    Theorem stored_signed_by_node ops n r :
      stored (fst (actor_run [] ops)) n = Some r ->
      match r with
      | Authenticated t s a => s = sign n (t, a)
      | Trusted _ a => forall x, In x a -> fst x = n
      end.
    Proof.
      intros H. pose proof (book_never_stores_forged ops [] empty_book_authentic n r H) as A.
      unfold AddressBook.authentic, AddressBook.verify_info in A. destruct r as [t a|t s a].
      - destruct (forallb (addr_ok n) a) eqn:F; [|discriminate].
        intros x Hx. rewrite forallb_forall in F. specialize (F x Hx). apply N.eqb_eq in F. exact F.
      - destruct (verify n (t, a) s) eqn:V; [|discriminate]. apply verify_ideal. exact V.
    Qed.
  End Ideal.
End Book.

(** * The symbolic scheme used for evaluation is an ideal scheme *)
Lemma list_eqb_eq {A} (e : A -> A -> bool) (He : forall x y, e x y = true <-> x = y) a b :
  list_eqb e a b = true <-> a = b.
Proof.
  revert b. induction a as [|x a IH]; intros [|y b]; cbn [list_eqb]; try (split; [discriminate|congruence]).
  - tauto.
  - rewrite andb_true_iff, He, IH. split; [intros [-> ->]; reflexivity|intros H; injection H; auto].
Qed.

Lemma ts_eqb_eq a b : ts_eqb a b = true <-> a = b.
Proof.
  unfold ts_eqb. rewrite andb_true_iff, !N.eqb_eq. destruct a, b; cbn [fst snd].
  split; [intros [-> ->]; reflexivity|intros H; injection H; auto].
Qed.

Lemma addr_eqb_eq a b : addr_eqb a b = true <-> a = b.
Proof. apply ts_eqb_eq. Qed.

Lemma payload_eqb_eq p q : payload_eqb p q = true <-> p = q.
Proof.
  unfold payload_eqb. rewrite andb_true_iff, ts_eqb_eq, (list_eqb_eq addr_eqb addr_eqb_eq).
  destruct p, q; cbn [fst snd]. split; [intros [-> ->]; reflexivity|intros H; injection H; auto].
Qed.

Lemma sym_verify_ideal node p s : sym_verify node p s = true <-> s = sym_sign node p.
Proof.
  unfold sym_verify, sym_sign. rewrite andb_true_iff, N.eqb_eq, payload_eqb_eq.
  destruct s as [k q]; cbn [fst snd]. split; [intros [-> ->]; reflexivity|intros H; injection H; auto].
Qed.

Lemma sym_sig_eqb_eq a b : sym_sig_eqb a b = true <-> a = b.
Proof.
  unfold sym_sig_eqb. rewrite andb_true_iff, N.eqb_eq, payload_eqb_eq. destruct a, b; cbn [fst snd].
  split; [intros [-> ->]; reflexivity|intros H; injection H; auto].
Qed.

Lemma tinfo_eqb_eq a b : tinfo_eqb a b = true <-> a = b.
Proof.
  destruct a as [t x|t s x], b as [u y|u r y]; cbn [tinfo_eqb]; try (split; [discriminate|congruence]).
  - rewrite andb_true_iff, ts_eqb_eq, (list_eqb_eq addr_eqb addr_eqb_eq).
    split; [intros [-> ->]; reflexivity|intros H; injection H; auto].
  - rewrite !andb_true_iff, ts_eqb_eq, sym_sig_eqb_eq, (list_eqb_eq addr_eqb addr_eqb_eq).
    split; [intros [[-> ->] ->]; reflexivity|intros H; injection H; auto].
Qed.

(** * Non-vacuity: a scenario with a newer forged record, an older and a newer authentic one, a
      trusted record naming another node, for node 1. *)
Definition ex_a1 : tinfo sym_sig := Authenticated (5, 0) (sym_sign 1 ((5, 0), [(1, 7)])) [(1, 7)].
Definition ex_a2 : tinfo sym_sig := Authenticated (9, 1) (sym_sign 1 ((9, 1), [(1, 8)])) [(1, 8)].
Definition ex_forged : tinfo sym_sig := Authenticated (20, 0) (sym_sign 2 ((20, 0), [(1, 9)])) [(1, 9)].
Definition ex_tampered : tinfo sym_sig := Authenticated (30, 0) (sym_sign 1 ((3, 0), [(1, 9)])) [(1, 9)].
Definition ex_mismatch : tinfo sym_sig := Trusted (40, 0) [(2, 1)].
Definition ex_recs := [ex_forged; ex_a2; ex_mismatch; ex_a1; ex_tampered].

Example ex_stored : arrive sym_sig sym_verify 1 None ex_recs = Some ex_a2.
Proof. vm_compute. reflexivity. Qed.

Example ex_order_hyps :
  NoDup (map (info_ts sym_sig) (filter (authentic sym_sig sym_verify 1) ex_recs)) /\
  Permutation ex_recs (rev ex_recs) /\
  arrive sym_sig sym_verify 1 None (rev ex_recs) = Some ex_a2.
Proof.
  split; [|split].
  - vm_compute. repeat constructor; cbn; intuition discriminate.
  - apply Permutation_rev.
  - vm_compute. reflexivity.
Qed.

Example ex_book :
  only_transport_ops sym_sig (map (InsertTransport 1) ex_recs ++ [InsertTransport 2 ex_mismatch]) = true /\
  stored sym_sig (fst (actor_run sym_sig sym_verify [] (map (InsertTransport 1) ex_recs ++ [InsertTransport 2 ex_mismatch]))) 2
    = Some ex_mismatch.
Proof. split; vm_compute; reflexivity. Qed.

(** * Oracle soundness lives in Proofs/C27Oracle.v *)

Lemma book_never_stores_forged_from_empty sigT (verify : N -> payload -> sigT -> bool)
      (ops : list (op sigT)) (n : N) (r : tinfo sigT) :
  stored sigT (fst (actor_run sigT verify [] ops)) n = Some r -> authentic sigT verify n r = true.
Proof. exact (book_never_stores_forged sigT verify ops [] (empty_book_authentic sigT verify) n r). Qed.
