(** Soundness of the C28 oracle for the bounds part of the property: an accepted observation has
    every observed delay between the initial value and the maximum. *)
From Coq Require Import List Arith NArith ZArith Bool Lia.
From PV Require Import Model.Backoff Oracle.C28.
Import ListNotations.
Local Open Scope N_scope.

Lemma in_bounds_b_sound (c : config) (v : N) :
  in_bounds_b c v = true -> initial_value c <= v <= max_value c.
Proof.
  unfold in_bounds_b. intros H. apply andb_prop in H. destruct H as [H1 H2].
  apply N.leb_le in H1. apply N.leb_le in H2. lia.
Qed.

Lemma check_ops_bounds (c : config) (ops : list op) : forall (v ra e : N) (obs : list (N * N)),
  check_ops c v ra e ops obs = true ->
  Forall (fun p => initial_value c <= fst p <= max_value c) obs.
Proof.
  induction ops as [|o r IH]; intros v ra e obs H.
  - destruct obs; [constructor|discriminate].
  - destruct obs as [|[v' ra'] obs']; [discriminate|].
    cbn [check_ops] in H. apply andb_prop in H. destruct H as [Hb H].
    constructor; [apply in_bounds_b_sound; exact Hb|].
    destruct o as [| |d|delta].
    + destruct (ra <=? e).
      * apply andb_prop in H. destruct H as [_ H]. exact (IH _ _ _ _ H).
      * apply andb_prop in H. destruct H as [_ H]. exact (IH _ _ _ _ H).
    + apply andb_prop in H. destruct H as [_ H]. exact (IH _ _ _ _ H).
    + apply andb_prop in H. destruct H as [_ H]. exact (IH _ _ _ _ H).
    + apply andb_prop in H. destruct H as [_ H]. exact (IH _ _ _ _ H).
Qed.

Theorem check_sound_bounds (c : config) (ops : list op) (obs_cfg : list N) (init : N * N) (obs : list (N * N)) :
  check c ops obs_cfg init obs = true ->
  Forall (fun p => initial_value c <= fst p <= max_value c) (init :: obs).
Proof.
  unfold check. intros H.
  apply andb_prop in H. destruct H as [H Hops].
  apply andb_prop in H. destruct H as [_ Hi].
  constructor; [apply in_bounds_b_sound; exact Hi|].
  exact (check_ops_bounds _ _ _ _ _ _ Hops).
Qed.
