(** Proofs about the topic sync session model (Model/TopicSync.v) — property C22.

    No section variables / hypotheses: everything is closed.

    Main results
      [run_shape]              for EVERY input sequence (messages, stream errors, closure at any
                               point), sink fault position (sticky or not), select schedule, live
                               flag and buffer capacity: the run returns (never diverges) and its
                               event list has one of the four documented shapes
      [shape_lifecycle_form]   a shaped list is  p ++ [t]  with p a terminal-free prefix of a
                               success sequence and t the single terminal event, t =
                               SessionFinished only after the complete success sequence
      [lifecycle_tail_iff_shape]  the boolean oracle (automaton) accepts exactly the shaped lists
      [result_matches_terminal]   the session returns Ok iff its terminal event is SessionFinished
      [session_started_never_emitted], [lifecycle_refuted], [lifecycle_outside_known]
                               part A of the property (SessionStarted first) fails for every
                               session; with the missing event prepended the full grammar holds. *)
From Coq Require Import List Arith NArith Bool Lia.
From PV Require Import Model.Dedup Model.TopicSync.
Import ListNotations.

(** ** Events are only ever appended, sends do not touch them *)
Lemma st_send_inv : forall s w ok s1, st_send s w = (ok, s1) -> evs s1 = evs s /\ dd s1 = dd s.
Proof.
  intros s w ok s1 H. unfold st_send in H. destruct (send (snk s) w) as [o k]. inversion H; subst.
  split; reflexivity.
Qed.

Lemma send_group_evs : forall g s ok s1, send_group g s = (ok, s1) -> evs s1 = evs s.
Proof.
  induction g as [|id r IH]; intros s ok s1 H; cbn [send_group] in H.
  - inversion H; reflexivity.
  - destruct (st_send s (WSync (MOp id))) as [o s2] eqn:E.
    apply st_send_inv in E. destruct E as [E1 _]. destruct o.
    + apply IH in H. cbn [with_dd evs] in H. congruence.
    + inversion H; subst. assumption.
Qed.

Lemma next_stream_shorter : forall ins lq i ins1 lq1,
  next_stream ins lq = (Some i, ins1, lq1) -> length ins1 < length ins.
Proof.
  induction ins as [|x r IH]; intros lq i ins1 lq1 H; cbn [next_stream] in H.
  - discriminate H.
  - destruct x as [it|l].
    + inversion H; subst. cbn. lia.
    + apply IH in H. cbn. lia.
Qed.

(** ** The Sync loop *)
Definition extends_by_ops (a b : list event) : Prop := exists o, b = a ++ map EOp o.

Lemma extends_refl : forall a, extends_by_ops a a.
Proof. intro a. exists []. cbn. rewrite app_nil_r. reflexivity. Qed.

Lemma extends_step : forall a id c, extends_by_ops (a ++ [EOp id]) c -> extends_by_ops a c.
Proof.
  intros a id c [o ->]. exists (id :: o). rewrite <- app_assoc. reflexivity.
Qed.

Lemma sync_loop_events : forall fuel rd sd groups ins lq sched s r s' ins' lq',
  sync_loop fuel rd sd groups ins lq sched s = (r, s', ins', lq') ->
  extends_by_ops (evs s) (evs s').
Proof.
  induction fuel as [|f IH]; intros rd sd groups ins lq sched s r s' ins' lq' H; cbn [sync_loop] in H.
  - inversion H; subst. apply extends_refl.
  - destruct (negb rd && ((match sched with [] => true | x :: _ => x end) || negb (match groups with [] => false | _ => true end))).
    + destruct (next_stream ins lq) as [[oi ins1] lq1]. destruct oi as [i|].
      * destruct (classify i) as [m|e].
        -- destruct m.
           ++ inversion H; subst; apply extends_refl.
           ++ inversion H; subst; apply extends_refl.
           ++ apply IH in H. exact H.
           ++ destruct (insert (dd s) id) as [b1 fresh]. apply IH in H. destruct fresh.
              ** cbn [emit with_dd evs] in H. eapply extends_step; exact H.
              ** exact H.
           ++ inversion H; subst; apply extends_refl.
        -- inversion H; subst; apply extends_refl.
      * inversion H; subst; apply extends_refl.
    + destruct groups as [|g rest].
      * destruct (rd && sd).
        -- inversion H; subst; apply extends_refl.
        -- apply IH in H. exact H.
      * destruct (send_group g s) as [ok s1] eqn:Eg. apply send_group_evs in Eg. destruct ok.
        -- destruct rest as [|g2 rest2].
           ++ destruct (st_send s1 (WSync MDone)) as [ok2 s2] eqn:Es. apply st_send_inv in Es.
              destruct Es as [Es _]. destruct ok2.
              ** apply IH in H. rewrite Es, Eg in H. exact H.
              ** inversion H; subst. rewrite Es, Eg. apply extends_refl.
           ++ apply IH in H. rewrite Eg in H. exact H.
        -- inversion H; subst. rewrite Eg. apply extends_refl.
Qed.

(** The loop never runs out of fuel: each iteration consumes an input or a group, or exits. *)
Lemma sync_loop_terminates : forall fuel rd sd groups ins lq sched s,
  (groups = [] -> sd = true) ->
  length ins + length groups < fuel ->
  fst (fst (fst (sync_loop fuel rd sd groups ins lq sched s))) <> SDiverge.
Proof.
  induction fuel as [|f IH]; intros rd sd groups ins lq sched s Hinv Hf; [lia|].
  cbn [sync_loop].
  destruct (negb rd && ((match sched with [] => true | x :: _ => x end) || negb (match groups with [] => false | _ => true end))) eqn:Eb.
  - destruct (next_stream ins lq) as [[oi ins1] lq1] eqn:En. destruct oi as [i|]; [|cbn; discriminate].
    apply next_stream_shorter in En.
    destruct (classify i) as [m|e]; [|cbn; discriminate].
    destruct m; try (cbn; discriminate).
    + apply IH; [assumption | lia].
    + destruct (insert (dd s) id) as [b1 fresh]. apply IH; [assumption | lia].
  - destruct groups as [|g rest].
    + (* the else branch: both done *)
      rewrite (Hinv eq_refl). destruct rd; [cbn; discriminate | cbn in Eb; rewrite orb_true_r in Eb; discriminate Eb].
    + destruct (send_group g s) as [ok s1]. destruct ok; [|cbn; discriminate].
      destruct rest as [|g2 rest2].
      * destruct (st_send s1 (WSync MDone)) as [ok2 s2]. destruct ok2; [|cbn; discriminate].
        apply IH; [reflexivity | cbn in *; lia].
      * apply IH; [discriminate | cbn in *; lia].
Qed.

(** ** The sync phase: either an error with at most [SyncStarted · Op*] emitted, or success with
    exactly [SyncStarted · Op*]. *)
Definition sync_events (before after : list event) (r : sres) : Prop :=
  r <> SDiverge /\
  ((after = before /\ r <> SOk) \/ exists o, after = before ++ ESyncStarted :: map EOp o).

Lemma concat_nil_groups : forall (sends : list (list N)), sends = [] -> concat sends = [].
Proof. intros sends ->. reflexivity. Qed.

Lemma sync_phase_events : forall sends ins sched s r s' ins' lq',
  sync_phase sends ins sched s = (r, s', ins', lq') -> sync_events (evs s) (evs s') r.
Proof.
  intros sends ins sched s r s' ins' lq' H. unfold sync_phase in H.
  destruct (st_send s (WSync MHave)) as [ok s1] eqn:E1. apply st_send_inv in E1. destruct E1 as [E1 _].
  destruct ok; cbn [negb] in H.
  2:{ inversion H; subst. split; [discriminate|]. left. split; [assumption | discriminate]. }
  destruct (next_stream ins []) as [[oi ins1] lq1]. destruct oi as [i|].
  2:{ inversion H; subst. split; [discriminate|]. left. split; [assumption | discriminate]. }
  destruct (classify i) as [m|e].
  2:{ inversion H; subst. split; [discriminate|]. left. split; [assumption | discriminate]. }
  destruct m; try (inversion H; subst; split; [discriminate|]; left; split; [assumption | discriminate]).
  (* MHave *)
  remember (match concat sends with [] => true | _ => false end) as nothing eqn:En.
  destruct (st_send s1 (WSync (if nothing then MDone else MPreSync))) as [ok2 s2] eqn:E2.
  apply st_send_inv in E2. destruct E2 as [E2 _]. destruct ok2; cbn [negb] in H.
  2:{ inversion H; subst. split; [discriminate|]. left. split; [congruence | discriminate]. }
  destruct (next_stream ins1 lq1) as [[oi2 ins2] lq2]. destruct oi2 as [i2|].
  2:{ inversion H; subst. split; [discriminate|]. left. split; [congruence | discriminate]. }
  destruct (classify i2) as [m2|e2].
  2:{ inversion H; subst. split; [discriminate|]. left. split; [congruence | discriminate]. }
  assert (Hinv : sends = [] -> nothing = true).
  { intros ->. subst nothing. reflexivity. }
  destruct m2; try (inversion H; subst; split; [discriminate|]; left; split; [congruence | discriminate]).
  - (* PreSync *)
    split.
    + pose proof (sync_loop_terminates (2 + length ins2 + length sends) false nothing sends ins2 lq2 sched
                    (emit s2 ESyncStarted) Hinv ltac:(lia)) as Ht.
      rewrite H in Ht. exact Ht.
    + right. apply sync_loop_events in H. destruct H as [o Ho]. exists o.
      rewrite Ho. cbn [emit evs]. rewrite E2, E1. rewrite <- app_assoc. reflexivity.
  - (* Done *)
    split.
    + pose proof (sync_loop_terminates (2 + length ins2 + length sends) true nothing sends ins2 lq2 sched
                    (emit s2 ESyncStarted) Hinv ltac:(lia)) as Ht.
      rewrite H in Ht. exact Ht.
    + right. apply sync_loop_events in H. destruct H as [o Ho]. exists o.
      rewrite Ho. cbn [emit evs]. rewrite E2, E1. rewrite <- app_assoc. reflexivity.
Qed.

(** ** Live mode *)
Lemma live_loop_events : forall ins cs s r s',
  live_loop ins cs s = (r, s') -> r <> RDiverge /\ extends_by_ops (evs s) (evs s').
Proof.
  induction ins as [|x rest IH]; intros cs s r s' H; cbn [live_loop] in H.
  - inversion H; subst. split; [destruct cs; discriminate | apply extends_refl].
  - destruct x as [it|l].
    + destruct it as [w|].
      * destruct w as [m|id|].
        -- inversion H; subst. split; [discriminate | apply extends_refl].
        -- destruct (insert (dd s) id) as [b1 fresh]. apply IH in H. destruct H as [Hr He].
           split; [assumption|]. destruct fresh.
           ++ cbn [emit with_dd evs] in He. eapply extends_step; exact He.
           ++ exact He.
        -- inversion H; subst. split; [discriminate | apply extends_refl].
      * inversion H; subst. split; [destruct cs; discriminate | apply extends_refl].
    + destruct l as [id|].
      * destruct (insert (dd s) id) as [b1 fresh]. destruct fresh.
        -- destruct (st_send (with_dd s b1) (WLive id)) as [ok s2] eqn:E. apply st_send_inv in E.
           destruct E as [E _]. cbn [with_dd evs] in E. destruct ok.
           ++ apply IH in H. rewrite E in H. exact H.
           ++ inversion H; subst. split; [discriminate|]. rewrite E. apply extends_refl.
        -- apply IH in H. exact H.
      * destruct (st_send s WClose) as [ok s1] eqn:E. apply st_send_inv in E. destruct E as [E _].
        destruct ok.
        -- apply IH in H. rewrite E in H. exact H.
        -- inversion H; subst. split; [discriminate|]. rewrite E. apply extends_refl.
Qed.

(** ** The documented lifecycle shapes (events after the never-emitted SessionStarted) *)
Definition terminal (e : event) : Prop := e = ESessionFinished \/ e = EFailed.

Inductive shape (lv : bool) : list event -> Prop :=
| sh_fail0 : shape lv [EFailed]
| sh_fail1 : forall o1, shape lv (ESyncStarted :: map EOp o1 ++ [EFailed])
| sh_nolive : forall o1 t, terminal t -> (t = ESessionFinished -> lv = false) ->
    shape lv (ESyncStarted :: map EOp o1 ++ [ESyncFinished; t])
| sh_live : forall o1 o2 t, lv = true -> terminal t ->
    shape lv (ESyncStarted :: map EOp o1 ++ [ESyncFinished; ELiveStarted] ++ map EOp o2 ++ [t]).

Definition last_is (l : list event) (e : event) : Prop := exists p, l = p ++ [e].

Lemma finish_spec : forall r s r' s', finish r s = (r', s') ->
  r <> RDiverge ->
  r' <> RDiverge /\
  exists t, evs s' = evs s ++ [t] /\ terminal t /\ (r' = ROk <-> t = ESessionFinished).
Proof.
  intros r s r' s' H Hr. unfold finish in H. destruct (close (snk s)) as [ok k]. inversion H; subst; clear H.
  destruct ok.
  - destruct r.
    + split; [discriminate|]. exists ESessionFinished. cbn. repeat split; auto. left; reflexivity.
    + split; [discriminate|]. exists EFailed. cbn. repeat split; try discriminate. right; reflexivity.
    + congruence.
  - split; [discriminate|]. exists EFailed. cbn. repeat split; try discriminate. right; reflexivity.
Qed.

(** The main theorem: every run returns and its events have a documented shape; the returned
    result agrees with the terminal event. *)
Theorem run_shape : forall c ins fa stk sched,
  let r := fst (run c ins fa stk sched) in
  let l := evs (snd (run c ins fa stk sched)) in
  r <> RDiverge /\ shape (live c) l /\ (r = ROk <-> last_is l ESessionFinished).
Proof.
  intros c ins fa stk sched. cbv zeta. unfold run.
  destruct (sync_phase (sends c) ins sched (st0 c fa stk)) as [[[sr s] ins1] lq1] eqn:Es.
  apply sync_phase_events in Es. destruct Es as [Hd Hev]. cbn [st0 evs] in Hev.
  destruct sr as [|e|]; [| |congruence].
  - (* sync phase succeeded *)
    destruct Hev as [[_ Hc]|[o1 Ho]]; [congruence|]. cbn [app] in Ho.
    destruct (live c) eqn:El.
    + destruct (live_loop (map InL lq1 ++ ins1) false (emit (emit s ESyncFinished) ELiveStarted)) as [r s2] eqn:Ell.
      apply live_loop_events in Ell. destruct Ell as [Hr [o2 Ho2]].
      destruct (finish r s2) as [r' s3] eqn:Ef. apply finish_spec in Ef; [|assumption].
      destruct Ef as [Hr' (t & Et & Ht & Hrt)]. cbn [fst snd].
      assert (El3 : evs s3 = ESyncStarted :: map EOp o1 ++ [ESyncFinished; ELiveStarted] ++ map EOp o2 ++ [t]).
      { rewrite Et, Ho2. cbn [emit evs]. rewrite Ho. cbn. repeat rewrite <- app_assoc. reflexivity. }
      split; [assumption|]. split.
      * rewrite El3. apply sh_live; auto.
      * rewrite Hrt. split.
        -- intros ->. exists (evs s2). assumption.
        -- intros [p Hp]. rewrite Et in Hp. apply app_inj_tail in Hp. destruct Hp as [_ Hp]. assumption.
    + destruct (finish ROk (emit s ESyncFinished)) as [r' s3] eqn:Ef. apply finish_spec in Ef; [|discriminate].
      destruct Ef as [Hr' (t & Et & Ht & Hrt)]. cbn [fst snd].
      assert (El3 : evs s3 = ESyncStarted :: map EOp o1 ++ [ESyncFinished; t]).
      { rewrite Et. cbn [emit evs]. rewrite Ho. cbn. repeat rewrite <- app_assoc. reflexivity. }
      split; [assumption|]. split.
      * rewrite El3. apply sh_nolive; auto.
      * rewrite Hrt. split.
        -- intros ->. exists (evs (emit s ESyncFinished)). assumption.
        -- intros [p Hp]. rewrite Et in Hp. apply app_inj_tail in Hp. destruct Hp as [_ Hp]. assumption.
  - (* sync phase failed *)
    destruct (close (snk (emit s EFailed))) as [ok k]. cbn [fst snd with_snk evs emit].
    split; [discriminate|]. split.
    + destruct Hev as [[-> _]|[o1 ->]].
      * apply sh_fail0.
      * cbn [app]. apply (sh_fail1 (live c) o1).
    + split; [discriminate|]. intros [p Hp]. apply app_inj_tail in Hp. destruct Hp as [_ Hp]. discriminate Hp.
Qed.

(** ** Shapes are exactly what the automaton (the oracle) accepts *)
Lemma fold_ops_Q1 : forall lv o rest, fold_left (delta lv) (map EOp o ++ rest) Q1 = fold_left (delta lv) rest Q1.
Proof. induction o as [|x o IH]; intros rest; cbn; [reflexivity | apply IH]. Qed.

Lemma fold_ops_Q3 : forall lv o rest, fold_left (delta lv) (map EOp o ++ rest) Q3 = fold_left (delta lv) rest Q3.
Proof. induction o as [|x o IH]; intros rest; cbn; [reflexivity | apply IH]. Qed.

Lemma fold_bad : forall lv l, fold_left (delta lv) l QBad = QBad.
Proof. induction l as [|x l IH]; cbn; [reflexivity | exact IH]. Qed.

Lemma fold_end : forall lv l, fold_left (delta lv) l QEnd = QEnd -> l = [].
Proof.
  intros lv l H. destruct l as [|x l]; [reflexivity|]. cbn in H.
  replace (delta lv QEnd x) with QBad in H by (destruct x; reflexivity). rewrite fold_bad in H. discriminate H.
Qed.

Lemma shape_accepted : forall lv l, shape lv l -> lifecycle_tail lv l = true.
Proof.
  intros lv l H. unfold lifecycle_tail. destruct H as [|o1|o1 t Ht Hl|o1 o2 t Hl Ht].
  - reflexivity.
  - cbn. rewrite fold_ops_Q1. reflexivity.
  - cbn. rewrite fold_ops_Q1. destruct Ht as [-> | ->]; [rewrite (Hl eq_refl)|]; reflexivity.
  - cbn. rewrite fold_ops_Q1. subst lv. cbn. rewrite fold_ops_Q3. destruct Ht as [-> | ->]; reflexivity.
Qed.

(** From [Q3]: operations, then exactly one terminal event. *)
Lemma accept_Q3 : forall lv l, q_is_end (fold_left (delta lv) l Q3) = true ->
  exists o t, l = map EOp o ++ [t] /\ terminal t.
Proof.
  intros lv. induction l as [|x l IH]; intro H; [discriminate H|].
  cbn [fold_left] in H. destruct x; cbn [delta] in H; try (rewrite fold_bad in H; discriminate H).
  - apply IH in H. destruct H as (o & t & -> & Ht). exists (id :: o), t. split; [reflexivity | assumption].
  - destruct (fold_left (delta lv) l QEnd) eqn:E; try discriminate H. apply fold_end in E. subst l.
    exists [], ESessionFinished. split; [reflexivity | left; reflexivity].
  - destruct (fold_left (delta lv) l QEnd) eqn:E; try discriminate H. apply fold_end in E. subst l.
    exists [], EFailed. split; [reflexivity | right; reflexivity].
Qed.

Lemma accept_Q2 : forall lv l, q_is_end (fold_left (delta lv) l Q2) = true ->
  (exists t, l = [t] /\ terminal t /\ (t = ESessionFinished -> lv = false)) \/
  (lv = true /\ exists o t, l = ELiveStarted :: map EOp o ++ [t] /\ terminal t).
Proof.
  intros lv l H. destruct l as [|x l]; [discriminate H|].
  cbn [fold_left] in H. destruct x; cbn [delta] in H; try (rewrite fold_bad in H; discriminate H).
  - destruct lv; [|rewrite fold_bad in H; discriminate H].
    apply accept_Q3 in H. destruct H as (o & t & -> & Ht). right. split; [reflexivity|]. eauto.
  - destruct lv; [rewrite fold_bad in H; discriminate H|].
    destruct (fold_left (delta false) l QEnd) eqn:E; try discriminate H. apply fold_end in E. subst l.
    left. exists ESessionFinished. repeat split; auto. left; reflexivity.
  - destruct (fold_left (delta lv) l QEnd) eqn:E; try discriminate H. apply fold_end in E. subst l.
    left. exists EFailed. repeat split; try discriminate. right; reflexivity.
Qed.

Lemma accept_Q1 : forall lv l, q_is_end (fold_left (delta lv) l Q1) = true ->
  exists o rest, l = map EOp o ++ rest /\
    (rest = [EFailed] \/ exists r2, rest = ESyncFinished :: r2 /\ q_is_end (fold_left (delta lv) r2 Q2) = true).
Proof.
  intros lv. induction l as [|x l IH]; intro H; [discriminate H|].
  cbn [fold_left] in H. destruct x; cbn [delta] in H; try (rewrite fold_bad in H; discriminate H).
  - apply IH in H. destruct H as (o & rest & -> & Hr). exists (id :: o), rest. split; [reflexivity | assumption].
  - exists [], (ESyncFinished :: l). split; [reflexivity|]. right. eauto.
  - destruct (fold_left (delta lv) l QEnd) eqn:E; try discriminate H. apply fold_end in E. subst l.
    exists [], [EFailed]. split; [reflexivity | left; reflexivity].
Qed.

Lemma accepted_shape : forall lv l, lifecycle_tail lv l = true -> shape lv l.
Proof.
  intros lv l H. unfold lifecycle_tail in H. destruct l as [|x l]; [discriminate H|].
  cbn [fold_left] in H. destruct x; cbn [delta] in H; try (rewrite fold_bad in H; discriminate H).
  - apply accept_Q1 in H. destruct H as (o1 & rest & -> & [-> | (r2 & -> & H2)]).
    + apply sh_fail1.
    + apply accept_Q2 in H2. destruct H2 as [(t & -> & Ht & Hlv) | (Hlv & o2 & t & -> & Ht)].
      * apply sh_nolive; auto.
      * apply (sh_live lv o1 o2 t); auto.
  - destruct (fold_left (delta lv) l QEnd) eqn:E; try discriminate H. apply fold_end in E. subst l.
    apply sh_fail0.
Qed.

Theorem lifecycle_tail_iff_shape : forall lv l, lifecycle_tail lv l = true <-> shape lv l.
Proof. intros lv l. split; [apply accepted_shape | apply shape_accepted]. Qed.

(** ** The grammar in the words of the property: events = p ++ [t] *)
Definition success_seq (lv : bool) (o1 o2 : list N) : list event :=
  [ESyncStarted] ++ map EOp o1 ++ [ESyncFinished] ++ (if lv then [ELiveStarted] ++ map EOp o2 else []).

Definition nonterminal (e : event) : Prop := e <> ESessionFinished /\ e <> EFailed.

Lemma nonterminal_ops : forall o, Forall nonterminal (map EOp o).
Proof. induction o; cbn; constructor; auto. split; discriminate. Qed.

(** [l = p ++ [t]]: [t] is the only terminal event and it is last; [p] is a prefix of a success
    sequence [SyncStarted Op^ SyncFinished (LiveModeStarted Op^)? (^ = repetition)]; if [t] is SessionFinished then
    [p] is a complete success sequence for the configured mode. *)
Definition lifecycle_form (lv : bool) (l : list event) : Prop :=
  exists p t, l = p ++ [t] /\ terminal t /\ Forall nonterminal p /\
    exists o1 o2 suffix, success_seq lv o1 o2 = p ++ suffix /\ (t = ESessionFinished -> suffix = []).

Theorem shape_lifecycle_form : forall lv l, shape lv l -> lifecycle_form lv l.
Proof.
  intros lv l H. destruct H as [|o1|o1 t Ht Hl|o1 o2 t Hl Ht].
  - exists [], EFailed. split; [reflexivity|]. split; [right; reflexivity|]. split; [constructor|].
    exists [], [], (success_seq lv [] []). split; [reflexivity | discriminate].
  - exists (ESyncStarted :: map EOp o1), EFailed. split; [reflexivity|]. split; [right; reflexivity|]. split.
    + constructor; [split; discriminate | apply nonterminal_ops].
    + exists o1, [], ([ESyncFinished] ++ (if lv then [ELiveStarted] ++ map EOp [] else [])).
      split; [reflexivity | discriminate].
  - exists (ESyncStarted :: map EOp o1 ++ [ESyncFinished]), t. split.
    { cbn [app]. rewrite <- app_assoc. reflexivity. }
    split; [assumption|]. split.
    + constructor; [split; discriminate|]. apply Forall_app. split; [apply nonterminal_ops|].
      constructor; [split; discriminate | constructor].
    + exists o1, [], (if lv then [ELiveStarted] else []). split.
      * unfold success_seq. cbn [app]. rewrite <- app_assoc. cbn [app]. destruct lv; reflexivity.
      * intro E. rewrite (Hl E). reflexivity.
  - subst lv. exists (ESyncStarted :: map EOp o1 ++ [ESyncFinished; ELiveStarted] ++ map EOp o2), t. split.
    { cbn [app]. rewrite <- !app_assoc. reflexivity. }
    split; [assumption|]. split.
    + constructor; [split; discriminate|]. apply Forall_app. split; [apply nonterminal_ops|].
      constructor; [split; discriminate|]. constructor; [split; discriminate|]. apply nonterminal_ops.
    + exists o1, o2, []. split; [|reflexivity].
      unfold success_seq. cbn [app]. rewrite app_nil_r. reflexivity.
Qed.

(** All together, in the property's words, for every run of the model. *)
Theorem lifecycle_every_run : forall c ins fa stk sched,
  fst (run c ins fa stk sched) <> RDiverge /\
  lifecycle_form (live c) (evs (snd (run c ins fa stk sched))) /\
  lifecycle_tail (live c) (evs (snd (run c ins fa stk sched))) = true.
Proof.
  intros c ins fa stk sched. destruct (run_shape c ins fa stk sched) as (Hr & Hs & _).
  split; [assumption|]. split; [apply shape_lifecycle_form | apply shape_accepted]; assumption.
Qed.

Theorem exactly_one_terminal_last : forall c ins fa stk sched,
  exists p t, evs (snd (run c ins fa stk sched)) = p ++ [t] /\
    (t = ESessionFinished \/ t = EFailed) /\
    Forall (fun e => e <> ESessionFinished /\ e <> EFailed) p.
Proof.
  intros c ins fa stk sched.
  destruct (lifecycle_every_run c ins fa stk sched) as (_ & (p & t & E & Ht & Hp & _) & _).
  exists p, t. split; [exact E|]. split; [exact Ht | exact Hp].
Qed.

Theorem result_matches_terminal : forall c ins fa stk sched,
  fst (run c ins fa stk sched) = ROk <-> last_is (evs (snd (run c ins fa stk sched))) ESessionFinished.
Proof. intros c ins fa stk sched. destruct (run_shape c ins fa stk sched) as (_ & _ & H). exact H. Qed.

(** ** Part A: SessionStarted *)
Lemma shape_no_session_started : forall lv l, shape lv l -> ~ In ESessionStarted l.
Proof.
  intros lv l H Hin. apply shape_accepted in H. unfold lifecycle_tail in H.
  (* an accepted word never contains SessionStarted: it sends every state to QBad *)
  assert (G : forall w s, In ESessionStarted w -> q_is_end (fold_left (delta lv) w s) = false).
  { induction w as [|x w IH]; intros s Hi; [destruct Hi|]. destruct Hi as [E|I].
    - subst x. cbn. replace (delta lv s ESessionStarted) with QBad by (destruct s; reflexivity).
      rewrite fold_bad. reflexivity.
    - cbn. apply IH. assumption. }
  rewrite (G l Q0 Hin) in H. discriminate H.
Qed.

Theorem session_started_never_emitted : forall c ins fa stk sched,
  ~ In ESessionStarted (evs (snd (run c ins fa stk sched))).
Proof.
  intros c ins fa stk sched. destruct (run_shape c ins fa stk sched) as (_ & Hs & _).
  eapply shape_no_session_started; exact Hs.
Qed.

(** The property as stated (SessionStarted first) fails — for every session, in particular for
    the plainest successful one. *)
Theorem lifecycle_refuted_everywhere : forall c ins fa stk sched,
  lifecycle (live c) (evs (snd (run c ins fa stk sched))) = false.
Proof.
  intros c ins fa stk sched. pose proof (session_started_never_emitted c ins fa stk sched) as H.
  destruct (evs (snd (run c ins fa stk sched))) as [|x l]; [reflexivity|].
  destruct x; try reflexivity. exfalso. apply H. left. reflexivity.
Qed.

Definition witness_cfg : cfg := {| live := false; cap := 8; sends := [] |}.
Definition witness_ins : list input := [InS (SMsg (WSync MHave)); InS (SMsg (WSync MDone))].

Theorem lifecycle_refuted :
  exists c ins fa stk sched,
    fst (run c ins fa stk sched) = ROk /\ lifecycle (live c) (evs (snd (run c ins fa stk sched))) = false.
Proof. exists witness_cfg, witness_ins, None, false, []. split; reflexivity. Qed.

(** Outside the known finding (the missing first event), the whole grammar holds: prepend the
    event the documentation promises and every run is accepted. *)
Theorem lifecycle_outside_known : forall c ins fa stk sched,
  lifecycle (live c) (ESessionStarted :: evs (snd (run c ins fa stk sched))) = true.
Proof.
  intros c ins fa stk sched. cbn [lifecycle].
  destruct (lifecycle_every_run c ins fa stk sched) as (_ & _ & H). exact H.
Qed.

(** ** Non-vacuity *)
Example ex_live_run :
  let c := {| live := true; cap := 4; sends := [[0%N; 1%N]] |} in
  let ins := [InS (SMsg (WSync MHave)); InS (SMsg (WSync MPreSync)); InS (SMsg (WSync (MOp 200%N)));
              InS (SMsg (WSync MDone)); InL (LPayload 7%N); InS (SMsg (WLive 201%N)); InL LClose; InS (SMsg WClose)] in
  fst (run c ins None false [false; true]) = ROk /\
  evs (snd (run c ins None false [false; true]))
  = [ESyncStarted; EOp 200%N; ESyncFinished; ELiveStarted; EOp 201%N; ESessionFinished] /\
  out (snk (snd (run c ins None false [false; true])))
  = [WSync MHave; WSync MPreSync; WSync (MOp 0%N); WSync (MOp 1%N); WSync MDone; WLive 7%N; WClose].
Proof. repeat split. Qed.

Example ex_faulty_run :
  let c := {| live := true; cap := 4; sends := [] |} in
  let ins := [InS (SMsg (WSync MHave)); InS (SMsg (WSync MDone)); InL (LPayload 7%N)] in
  fst (run c ins (Some 4) true []) = RErr ChanSink /\
  evs (snd (run c ins (Some 4) true [])) = [ESyncStarted; ESyncFinished; ELiveStarted; EFailed].
Proof. repeat split. Qed.

Example ex_closure_in_sync :
  let c := {| live := true; cap := 4; sends := [] |} in
  run c [InS (SMsg (WSync MHave)); InS (SMsg (WSync MPreSync))] None false []
  = (RErr SyncClosure, snd (run c [InS (SMsg (WSync MHave)); InS (SMsg (WSync MPreSync))] None false [])) /\
  evs (snd (run c [InS (SMsg (WSync MHave)); InS (SMsg (WSync MPreSync))] None false [])) = [ESyncStarted; EFailed].
Proof. split; reflexivity. Qed.
