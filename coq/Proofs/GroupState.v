(** Proofs about the group membership state model (Model/GroupState.v): association-list
    lemmas, the lookup characterisation of [merge], and the algebra of [merge] (C32). *)
From Coq Require Import List Arith NArith Bool Lia.
From PV Require Import Model.GroupState.
Import ListNotations.

(** * Association list basics *)

Section AList.
  Context {C : Type}.
  Implicit Types (s : State C) (m : MemberState C).

  Definition wf s : Prop := NoDup (keys s).

  Lemma lookup_remove_key_eq id s : lookup id (remove_key id s) = None.
  Proof.
    induction s as [|[k m] r IH]; cbn [remove_key lookup]; [reflexivity|].
    destruct (N.eqb id k) eqn:E; [exact IH|]. cbn [lookup]. rewrite E. exact IH.
  Qed.

  Lemma lookup_remove_key_neq id k s : id <> k -> lookup id (remove_key k s) = lookup id s.
  Proof.
    intros Hne. induction s as [|[k' m] r IH]; cbn [remove_key lookup]; [reflexivity|].
    destruct (N.eqb k k') eqn:E.
    - apply N.eqb_eq in E. subst k'.
      destruct (N.eqb_spec id k) as [->|_]; [contradiction|]. exact IH.
    - cbn [lookup]. destruct (N.eqb id k'); [reflexivity|exact IH].
  Qed.

  Lemma lookup_set_eq id m s : lookup id (set id m s) = Some m.
  Proof. unfold set. cbn [lookup]. rewrite N.eqb_refl. reflexivity. Qed.

  Lemma lookup_set_neq id k m s : id <> k -> lookup id (set k m s) = lookup id s.
  Proof.
    intros Hne. unfold set. cbn [lookup].
    destruct (N.eqb_spec id k) as [->|_]; [contradiction|]. apply lookup_remove_key_neq; exact Hne.
  Qed.

  Lemma lookup_set id k m s : lookup id (set k m s) = if N.eqb id k then Some m else lookup id s.
  Proof.
    destruct (N.eqb_spec id k) as [->|Hne]; [apply lookup_set_eq|apply lookup_set_neq; exact Hne].
  Qed.

  Lemma lookup_not_in id s : ~ In id (keys s) -> lookup id s = None.
  Proof.
    induction s as [|[k m] r IH]; cbn [keys map fst In lookup]; intros H; [reflexivity|].
    destruct (N.eqb_spec id k) as [->|_]; [exfalso; apply H; left; reflexivity|].
    apply IH. intros Hin. apply H. right. exact Hin.
  Qed.

  Lemma lookup_in id s m : lookup id s = Some m -> In id (keys s).
  Proof.
    induction s as [|[k m'] r IH]; cbn [keys map fst In lookup]; intros H; [discriminate|].
    destruct (N.eqb_spec id k) as [->|_]; [left; reflexivity|right; apply IH; exact H].
  Qed.

  Lemma in_keys_lookup id s : In id (keys s) -> exists m, lookup id s = Some m.
  Proof.
    induction s as [|[k m'] r IH]; cbn [keys map fst In lookup]; intros H; [contradiction|].
    destruct (N.eqb_spec id k) as [->|Hne]; [eexists; reflexivity|].
    destruct H as [H|H]; [congruence|apply IH; exact H].
  Qed.

  Lemma in_keys_remove_key id k s : In id (keys (remove_key k s)) -> In id (keys s) /\ id <> k.
  Proof.
    induction s as [|[k' m] r IH]; cbn [remove_key keys map fst In]; [contradiction|].
    destruct (N.eqb_spec k k') as [->|Hne]; cbn [keys map fst In].
    - intros H. destruct (IH H) as [H1 H2]. split; [right; exact H1|exact H2].
    - intros [H|H].
      + subst k'. split; [left; reflexivity|congruence].
      + destruct (IH H) as [H1 H2]. split; [right; exact H1|exact H2].
  Qed.

  Lemma wf_remove_key k s : wf s -> wf (remove_key k s).
  Proof.
    unfold wf. induction s as [|[k' m] r IH]; cbn [remove_key keys map fst]; intros H; [constructor|].
    inversion H as [|x l Hnin Hnd]; subst.
    destruct (N.eqb k k'); [apply IH; exact Hnd|].
    cbn [keys map fst]. constructor; [|apply IH; exact Hnd].
    intros Hin. apply Hnin. apply (in_keys_remove_key k' k r). exact Hin.
  Qed.

  Lemma wf_set k m s : wf s -> wf (set k m s).
  Proof.
    intros H. unfold wf, set. cbn [keys map fst]. constructor; [|apply wf_remove_key; exact H].
    intros Hin. apply in_keys_remove_key in Hin. destruct Hin as [_ Hne]. congruence.
  Qed.
End AList.

(** * Selection by a strict total order is commutative, associative, idempotent *)

Section Sel.
  Context {A : Type}.
  Variable R : A -> A -> bool.
  Variable dom : A -> Prop.

  Record strict_total_on : Prop := {
    sto_irrefl : forall a, dom a -> R a a = false;
    sto_asym : forall a b, dom a -> dom b -> R a b = true -> R b a = false;
    sto_trans : forall a b c, dom a -> dom b -> dom c -> R a b = true -> R b c = true -> R a c = true;
    sto_total : forall a b, dom a -> dom b -> R a b = false -> R b a = false -> a = b
  }.

  Definition sel (a b : A) : A := if R a b then a else b.

  Lemma sel_dom a b : dom a -> dom b -> dom (sel a b).
  Proof. unfold sel. destruct (R a b); auto. Qed.

  Lemma sel_idem a : sel a a = a.
  Proof. unfold sel. destruct (R a a); reflexivity. Qed.

  Hypothesis H : strict_total_on.

  Lemma sel_comm a b : dom a -> dom b -> sel a b = sel b a.
  Proof.
    intros Da Db. unfold sel.
    destruct (R a b) eqn:Eab.
    - rewrite (sto_asym H a b Da Db Eab). reflexivity.
    - destruct (R b a) eqn:Eba; [reflexivity|].
      symmetry. apply (sto_total H a b Da Db Eab Eba).
  Qed.

  Lemma neg_trans a b c : dom a -> dom b -> dom c -> R a b = false -> R b c = false -> R a c = false.
  Proof.
    intros Da Db Dc Eab Ebc.
    destruct (R a c) eqn:Eac; [|reflexivity].
    destruct (R b a) eqn:Eba.
    - (* b < a < c, so b < c *)
      rewrite (sto_trans H b a c Db Da Dc Eba Eac) in Ebc. discriminate.
    - assert (a = b) by (apply (sto_total H a b Da Db Eab Eba)). subst b. congruence.
  Qed.

  Lemma sel_assoc a b c : dom a -> dom b -> dom c -> sel (sel a b) c = sel a (sel b c).
  Proof.
    intros Da Db Dc. unfold sel.
    destruct (R a b) eqn:Eab; destruct (R b c) eqn:Ebc; cbv iota.
    - rewrite (sto_trans H a b c Da Db Dc Eab Ebc). rewrite Eab. reflexivity.
    - reflexivity.
    - rewrite Eab. reflexivity.
    - rewrite (neg_trans a b c Da Db Dc Eab Ebc). reflexivity.
  Qed.
End Sel.

(** * [merge_member_with] is selection by a lexicographic order *)

Section Member.
  Context {C : Type}.
  Variable lt : Access C -> Access C -> bool.
  Implicit Types (m : MemberState C).

  (** [m1] wins against [m2]: larger member counter, then larger access counter, then the
      access that is [lt]-smaller. *)
  Definition beats m1 m2 : bool :=
    N.ltb (member_counter m2) (member_counter m1)
    || (N.eqb (member_counter m1) (member_counter m2)
        && (N.ltb (access_counter m2) (access_counter m1)
            || (N.eqb (access_counter m1) (access_counter m2) && lt (access m1) (access m2)))).

  Lemma merge_member_sel m1 m2 :
    merge_member_with lt m1 m2 = if beats m1 m2 then m1 else m2.
  Proof.
    destruct m1 as [c1 a1 k1], m2 as [c2 a2 k2].
    unfold merge_member_with, beats. cbn [member_counter access access_counter].
    destruct (N.ltb_spec c2 c1) as [Hc|Hc]; cbn [member_counter access access_counter orb].
    - rewrite N.eqb_refl, N.ltb_irrefl. cbn [member_counter access access_counter].
      rewrite N.eqb_refl. cbn [andb]. destruct (lt a1 a1); reflexivity.
    - destruct (N.eqb_spec c1 c2) as [->|Hne]; cbn [andb]; [|reflexivity].
      destruct (N.ltb_spec k2 k1) as [Hk|Hk]; cbn [member_counter access access_counter orb].
      + rewrite N.eqb_refl. cbn [andb]. destruct (lt a1 a1); reflexivity.
      + destruct (N.eqb_spec k1 k2) as [->|Hkne]; cbn [andb]; [|reflexivity].
        destruct (lt a1 a2); reflexivity.
  Qed.

  Variable dom : Access C -> Prop.
  Definition mdom m : Prop := dom (access m).

  Hypothesis Hlt : strict_total_on lt dom.

  Lemma beats_iff m1 m2 :
    beats m1 m2 = true <->
    ((member_counter m2 < member_counter m1)%N \/
     (member_counter m1 = member_counter m2 /\
      ((access_counter m2 < access_counter m1)%N \/
       (access_counter m1 = access_counter m2 /\ lt (access m1) (access m2) = true)))).
  Proof.
    unfold beats.
    rewrite orb_true_iff, andb_true_iff, orb_true_iff, andb_true_iff.
    rewrite !N.ltb_lt, !N.eqb_eq. reflexivity.
  Qed.

  Lemma beats_strict_total : strict_total_on beats mdom.
  Proof.
    constructor.
    - intros m Da. destruct (beats m m) eqn:E; [|reflexivity].
      apply beats_iff in E. destruct E as [E|[_ [E|[_ E]]]]; try lia.
      rewrite (sto_irrefl _ _ Hlt _ Da) in E. discriminate.
    - intros m1 m2 D1 D2 H12. destruct (beats m2 m1) eqn:E; [|reflexivity].
      apply beats_iff in H12. apply beats_iff in E.
      destruct H12 as [H12|[Hc [H12|[Hk H12]]]]; destruct E as [E|[Ec [E|[Ek E]]]]; try lia.
      rewrite (sto_asym _ _ Hlt _ _ D1 D2 H12) in E. discriminate.
    - intros m1 m2 m3 D1 D2 D3 H12 H23.
      apply beats_iff in H12. apply beats_iff in H23. apply beats_iff.
      destruct H12 as [H12|[Hc [H12|[Hk H12]]]]; destruct H23 as [H23|[Hc' [H23|[Hk' H23]]]];
        first [ left; lia
              | right; split; [lia|left; lia]
              | right; split; [lia|right; split; [lia|]] ].
      exact (sto_trans _ _ Hlt _ _ _ D1 D2 D3 H12 H23).
    - intros m1 m2 D1 D2 H12 H21.
      apply not_true_iff_false in H12. apply not_true_iff_false in H21.
      rewrite beats_iff in H12. rewrite beats_iff in H21.
      assert (Ec : member_counter m1 = member_counter m2).
      { destruct (N.lt_trichotomy (member_counter m1) (member_counter m2)) as [X|[X|X]];
          [exfalso; apply H21; left; exact X|exact X|exfalso; apply H12; left; exact X]. }
      assert (Ek : access_counter m1 = access_counter m2).
      { destruct (N.lt_trichotomy (access_counter m1) (access_counter m2)) as [X|[X|X]];
          [exfalso; apply H21; right; split; [symmetry; exact Ec|left; exact X]
          |exact X
          |exfalso; apply H12; right; split; [exact Ec|left; exact X]]. }
      assert (Ea : access m1 = access m2).
      { apply (sto_total _ _ Hlt _ _ D1 D2).
        - destruct (lt (access m1) (access m2)) eqn:X; [|reflexivity].
          exfalso. apply H12. right. split; [exact Ec|]. right. split; [exact Ek|reflexivity].
        - destruct (lt (access m2) (access m1)) eqn:X; [|reflexivity].
          exfalso. apply H21. right. split; [symmetry; exact Ec|]. right.
          split; [symmetry; exact Ek|reflexivity]. }
      destruct m1 as [c1 a1 k1], m2 as [c2 a2 k2]. cbn [member_counter access access_counter] in *. subst. reflexivity.
  Qed.

  Lemma merge_member_dom m1 m2 : mdom m1 -> mdom m2 -> mdom (merge_member_with lt m1 m2).
  Proof. intros. rewrite merge_member_sel. destruct (beats m1 m2); assumption. Qed.

  Lemma merge_member_comm m1 m2 :
    mdom m1 -> mdom m2 -> merge_member_with lt m1 m2 = merge_member_with lt m2 m1.
  Proof.
    intros D1 D2. rewrite !merge_member_sel.
    exact (sel_comm beats mdom beats_strict_total m1 m2 D1 D2).
  Qed.

  Lemma merge_member_assoc m1 m2 m3 :
    mdom m1 -> mdom m2 -> mdom m3 ->
    merge_member_with lt (merge_member_with lt m1 m2) m3
    = merge_member_with lt m1 (merge_member_with lt m2 m3).
  Proof.
    intros D1 D2 D3. rewrite !merge_member_sel.
    exact (sel_assoc beats mdom beats_strict_total m1 m2 m3 D1 D2 D3).
  Qed.
End Member.

Lemma merge_member_idem {C} (lt : Access C -> Access C -> bool) (m : MemberState C) :
  merge_member_with lt m m = m.
Proof. rewrite merge_member_sel. destruct (beats lt m m); reflexivity. Qed.

(** * Lookup characterisation of [merge_with] *)

Section Merge.
  Context {C : Type}.
  Variable lt : Access C -> Access C -> bool.
  Implicit Types (s : State C) (m : MemberState C).

  (** what [merge] does to one key *)
  Definition merge_opt (o1 o2 : option (MemberState C)) : option (MemberState C) :=
    match o1, o2 with
    | Some m1, Some m2 => Some (merge_member_with lt m1 m2)
    | Some m1, None => Some m1
    | None, o => o
    end.

  Definition merge_step (acc : State C) (km : N * MemberState C) : State C :=
    match lookup (fst km) acc with
    | Some ms => set (fst km) (merge_member_with lt (snd km) ms) acc
    | None => set (fst km) (snd km) acc
    end.

  Lemma merge_with_fold s1 s2 : merge_with lt s1 s2 = fold_left merge_step s1 s2.
  Proof. reflexivity. Qed.

  Lemma lookup_merge_step id acc k m :
    lookup id (merge_step acc (k, m)) =
    if N.eqb id k then merge_opt (Some m) (lookup k acc) else lookup id acc.
  Proof.
    unfold merge_step. cbn [fst snd].
    destruct (lookup k acc) as [ms|] eqn:E; rewrite lookup_set; destruct (N.eqb id k); reflexivity.
  Qed.

  Lemma wf_merge_step acc km : wf acc -> wf (merge_step acc km).
  Proof. intros H. unfold merge_step. destruct (lookup (fst km) acc); apply wf_set; exact H. Qed.

  Lemma lookup_fold_merge s1 : forall s2 id,
    wf s1 -> lookup id (fold_left merge_step s1 s2) = merge_opt (lookup id s1) (lookup id s2).
  Proof.
    induction s1 as [|[k m] r IH]; intros s2 id Hwf; cbn [fold_left lookup].
    - reflexivity.
    - inversion Hwf as [|x l Hnin Hnd]; subst.
      rewrite (IH _ id Hnd). rewrite lookup_merge_step.
      destruct (N.eqb_spec id k) as [->|Hne].
      + rewrite (lookup_not_in k r Hnin). cbn [merge_opt]. reflexivity.
      + reflexivity.
  Qed.

  (** Every key of the merged state is decided by that key alone, whatever the order in which
      [state_1]'s entries are visited. *)
  Theorem lookup_merge s1 s2 id :
    wf s1 -> lookup id (merge_with lt s1 s2) = merge_opt (lookup id s1) (lookup id s2).
  Proof. intros H. rewrite merge_with_fold. apply lookup_fold_merge; exact H. Qed.

  Lemma wf_fold_merge s1 : forall s2, wf s2 -> wf (fold_left merge_step s1 s2).
  Proof.
    induction s1 as [|km r IH]; intros s2 H; cbn [fold_left]; [exact H|].
    apply IH. apply wf_merge_step. exact H.
  Qed.

  Theorem wf_merge s1 s2 : wf s2 -> wf (merge_with lt s1 s2).
  Proof. intros H. rewrite merge_with_fold. apply wf_fold_merge; exact H. Qed.

  (** ** Idempotent: no assumption on [lt] at all *)
  Theorem merge_idem s id : wf s -> lookup id (merge_with lt s s) = lookup id s.
  Proof.
    intros H. rewrite (lookup_merge s s id H).
    destruct (lookup id s) as [m|]; cbn [merge_opt]; [|reflexivity].
    rewrite merge_member_idem. reflexivity.
  Qed.

  (** ** Commutative / associative at a key whose accesses lie in a set on which [lt] is a
      strict total order *)
  Variable dom : Access C -> Prop.
  Hypothesis Hlt : strict_total_on lt dom.

  (** all entries for [id] in [s] have their access in [dom] *)
  Definition dom_at (id : N) s : Prop := forall m, lookup id s = Some m -> dom (access m).

  Theorem merge_comm_at s1 s2 id :
    wf s1 -> wf s2 -> dom_at id s1 -> dom_at id s2 ->
    lookup id (merge_with lt s1 s2) = lookup id (merge_with lt s2 s1).
  Proof.
    intros W1 W2 D1 D2. rewrite (lookup_merge s1 s2 id W1), (lookup_merge s2 s1 id W2).
    destruct (lookup id s1) as [m1|] eqn:E1; destruct (lookup id s2) as [m2|] eqn:E2;
      cbn [merge_opt]; try reflexivity.
    f_equal. apply (merge_member_comm lt dom Hlt); [apply D1|apply D2]; assumption.
  Qed.

  Theorem merge_assoc_at s1 s2 s3 id :
    wf s1 -> wf s2 -> wf s3 -> dom_at id s1 -> dom_at id s2 -> dom_at id s3 ->
    lookup id (merge_with lt (merge_with lt s1 s2) s3)
    = lookup id (merge_with lt s1 (merge_with lt s2 s3)).
  Proof.
    intros W1 W2 W3 D1 D2 D3.
    rewrite (lookup_merge (merge_with lt s1 s2) s3 id (wf_merge s1 s2 W2)).
    rewrite (lookup_merge s1 s2 id W1).
    rewrite (lookup_merge s1 (merge_with lt s2 s3) id W1).
    rewrite (lookup_merge s2 s3 id W2).
    destruct (lookup id s1) as [m1|] eqn:E1; destruct (lookup id s2) as [m2|] eqn:E2;
      destruct (lookup id s3) as [m3|] eqn:E3; cbn [merge_opt]; try reflexivity.
    f_equal. apply (merge_member_assoc lt dom Hlt); [apply D1|apply D2|apply D3]; assumption.
  Qed.
End Merge.

(** * Instance 1: any access order that is a strict total order ([TotalAccess]) *)

Definition TotalAccess {C} (lt : Access C -> Access C -> bool) : Prop :=
  strict_total_on lt (fun _ => True).

Section Total.
  Context {C : Type}.
  Variable lt : Access C -> Access C -> bool.
  Hypothesis Htotal : TotalAccess lt.

  Theorem merge_comm_total (s1 s2 : State C) id :
    wf s1 -> wf s2 -> lookup id (merge_with lt s1 s2) = lookup id (merge_with lt s2 s1).
  Proof. intros W1 W2. apply (merge_comm_at lt _ Htotal); auto; intros m _; exact I. Qed.

  Theorem merge_assoc_total (s1 s2 s3 : State C) id :
    wf s1 -> wf s2 -> wf s3 ->
    lookup id (merge_with lt (merge_with lt s1 s2) s3)
    = lookup id (merge_with lt s1 (merge_with lt s2 s3)).
  Proof. intros W1 W2 W3. apply (merge_assoc_at lt _ Htotal); auto; intros m _; exact I. Qed.
End Total.

(** [TotalAccess] is satisfiable: order accesses by level, then "no conditions" above any
    condition, then by the condition value (conditions [N]). *)
Definition lex_lt (a b : Access N) : bool :=
  match level_cmp (level a) (level b) with
  | Lt => true
  | Gt => false
  | Eq =>
      match conditions a, conditions b with
      | Some x, Some y => N.ltb x y
      | Some _, None => true
      | None, _ => false
      end
  end.

Lemma level_N_inj a b : level_N a = level_N b -> a = b.
Proof. destruct a, b; cbn; intros H; try reflexivity; discriminate. Qed.

Example lex_lt_total : TotalAccess lex_lt.
Proof.
  constructor.
  - intros [c l] _. unfold lex_lt, level_cmp. cbn [level conditions]. rewrite N.compare_refl.
    destruct c; [apply N.ltb_irrefl|reflexivity].
  - intros [c1 l1] [c2 l2] _ _. unfold lex_lt, level_cmp. cbn [level conditions].
    rewrite (N.compare_antisym (level_N l1) (level_N l2)).
    destruct (level_N l1 ?= level_N l2)%N; cbn [CompOpp]; try discriminate; try reflexivity.
    destruct c1 as [x|], c2 as [y|]; try discriminate; try reflexivity.
    intros H. apply N.ltb_lt in H. apply N.ltb_ge. lia.
  - intros [c1 l1] [c2 l2] [c3 l3] _ _ _. unfold lex_lt, level_cmp. cbn [level conditions].
    destruct (N.compare_spec (level_N l1) (level_N l2)) as [E12|L12|G12]; try discriminate;
      destruct (N.compare_spec (level_N l2) (level_N l3)) as [E23|L23|G23]; try discriminate;
      destruct (N.compare_spec (level_N l1) (level_N l3)) as [E13|L13|G13]; try lia; try reflexivity.
    destruct c1 as [x|], c2 as [y|], c3 as [z|]; try discriminate; try reflexivity.
    intros H1 H2. apply N.ltb_lt in H1. apply N.ltb_lt in H2. apply N.ltb_lt. lia.
  - intros [c1 l1] [c2 l2] _ _. unfold lex_lt, level_cmp. cbn [level conditions].
    rewrite (N.compare_antisym (level_N l1) (level_N l2)).
    destruct (N.compare_spec (level_N l1) (level_N l2)) as [E|L|G]; cbn [CompOpp]; try discriminate.
    apply level_N_inj in E. subst l2.
    destruct c1 as [x|], c2 as [y|]; try discriminate; try reflexivity.
    intros H1 H2. apply N.ltb_ge in H1. apply N.ltb_ge in H2. assert (x = y) by lia. subst y. reflexivity.
Qed.

(** * Instance 2: the real [Access] order on accesses without conditions *)

Definition no_cond {C} (a : Access C) : Prop := conditions a = None.

Lemma access_lt_nocond {C} (ccmp : C -> C -> option comparison) (a b : Access C) :
  no_cond a -> no_cond b ->
  access_lt ccmp a b = N.ltb (level_N (level a)) (level_N (level b)).
Proof.
  unfold no_cond, access_lt, access_partial_cmp, level_cmp. intros -> ->.
  unfold N.ltb. destruct (level_N (level a) ?= level_N (level b))%N; reflexivity.
Qed.

Lemma real_lt_strict_total_nocond {C} (ccmp : C -> C -> option comparison) :
  strict_total_on (access_lt ccmp) no_cond.
Proof.
  constructor.
  - intros a Da. rewrite access_lt_nocond by assumption. apply N.ltb_irrefl.
  - intros a b Da Db. rewrite !access_lt_nocond by assumption.
    intros H. apply N.ltb_lt in H. apply N.ltb_ge. lia.
  - intros a b c Da Db Dc. rewrite !access_lt_nocond by assumption.
    intros H1 H2. apply N.ltb_lt in H1. apply N.ltb_lt in H2. apply N.ltb_lt. lia.
  - intros [ca la] [cb lb] Da Db. rewrite !access_lt_nocond by assumption.
    unfold no_cond in *. cbn [conditions level] in *. subst ca cb.
    intros H1 H2. apply N.ltb_ge in H1. apply N.ltb_ge in H2.
    assert (E : level_N la = level_N lb) by lia. apply level_N_inj in E. subst lb. reflexivity.
Qed.

(** no entry for [id] in [s] carries access conditions *)
Definition nocond_at {C} (id : N) (s : State C) : Prop := dom_at no_cond id s.

Section Real.
  Context {C : Type}.
  Variable ccmp : C -> C -> option comparison.

  Theorem merge_comm_nocond (s1 s2 : State C) id :
    wf s1 -> wf s2 -> nocond_at id s1 -> nocond_at id s2 ->
    lookup id (merge ccmp s1 s2) = lookup id (merge ccmp s2 s1).
  Proof. apply (merge_comm_at _ _ (real_lt_strict_total_nocond ccmp)). Qed.

  Theorem merge_assoc_nocond (s1 s2 s3 : State C) id :
    wf s1 -> wf s2 -> wf s3 -> nocond_at id s1 -> nocond_at id s2 -> nocond_at id s3 ->
    lookup id (merge ccmp (merge ccmp s1 s2) s3) = lookup id (merge ccmp s1 (merge ccmp s2 s3)).
  Proof. apply (merge_assoc_at _ _ (real_lt_strict_total_nocond ccmp)). Qed.

  Theorem merge_idem_real (s : State C) id :
    wf s -> lookup id (merge ccmp s s) = lookup id s.
  Proof. apply merge_idem. Qed.
End Real.

(** Example: the hypotheses of the no-conditions theorems are satisfiable by states in which
    the tie-break is actually exercised (same counters, different levels). *)
Example nocond_example :
  let s1 : State N := [(0%N, mkMember 1 (mkAccess None Write) 0); (1%N, mkMember 2 (mkAccess None Read) 1)] in
  let s2 : State N := [(0%N, mkMember 1 (mkAccess None Read) 0)] in
  wf s1 /\ wf s2 /\ nocond_at 0 s1 /\ nocond_at 0 s2 /\
  lookup 0%N (merge ncmp s1 s2) = Some (mkMember 1 (mkAccess None Read) 0) /\
  lookup 0%N (merge ncmp s2 s1) = Some (mkMember 1 (mkAccess None Read) 0).
Proof.
  cbv zeta. repeat split.
  - repeat constructor; cbn; intuition congruence.
  - repeat constructor; cbn; intuition congruence.
  - intros m. cbn. intros H. inversion H. reflexivity.
  - intros m. cbn. intros H. inversion H. reflexivity.
Qed.

(** * The real order with conditions is not a strict total order, and the real merge is not
      commutative / associative *)

(** (no conditions, Write) and (Some 7, Write) are different and neither is below the other;
    (Some 5, Read) and (Some 3, Write) are each below the other. *)
Lemma real_lt_not_total : ~ TotalAccess (access_lt ncmp).
Proof.
  intros H.
  pose (a := mkAccess (@None N) Write). pose (b := mkAccess (Some 7%N) Write).
  assert (E : a = b) by (apply (sto_total _ _ H a b I I); reflexivity).
  discriminate E.
Qed.

Lemma real_lt_not_asym :
  access_lt ncmp (mkAccess (Some 5%N) Read) (mkAccess (Some 3%N) Write) = true /\
  access_lt ncmp (mkAccess (Some 3%N) Write) (mkAccess (Some 5%N) Read) = true.
Proof. split; reflexivity. Qed.

Definition wit_mixed_1 : State N := [(0%N, mkMember 1 (mkAccess None Write) 0)].
Definition wit_mixed_2 : State N := [(0%N, mkMember 1 (mkAccess (Some 7%N) Write) 0)].
Definition wit_some_1 : State N := [(0%N, mkMember 1 (mkAccess (Some 5%N) Read) 0)].
Definition wit_some_2 : State N := [(0%N, mkMember 1 (mkAccess (Some 3%N) Write) 0)].

Lemma merge_not_comm_mixed :
  lookup 0%N (merge ncmp wit_mixed_1 wit_mixed_2) <> lookup 0%N (merge ncmp wit_mixed_2 wit_mixed_1).
Proof. vm_compute. discriminate. Qed.

Lemma merge_not_comm_some :
  lookup 0%N (merge ncmp wit_some_1 wit_some_2) <> lookup 0%N (merge ncmp wit_some_2 wit_some_1).
Proof. vm_compute. discriminate. Qed.

Theorem merge_refuted_conditions :
  exists (s1 s2 : State N) (id : N),
    wf s1 /\ wf s2 /\ lookup id (merge ncmp s1 s2) <> lookup id (merge ncmp s2 s1).
Proof.
  exists wit_mixed_1, wit_mixed_2, 0%N. repeat split.
  - repeat constructor; cbn; intuition.
  - repeat constructor; cbn; intuition.
  - exact merge_not_comm_mixed.
Qed.

(** associativity fails as well, with conditions present everywhere (totally ordered [N]):
    (Some 5,Read), (Some 3,Write), (Some 4,Read) *)
Definition wit_assoc_1 : State N := [(0%N, mkMember 1 (mkAccess (Some 5%N) Read) 0)].
Definition wit_assoc_2 : State N := [(0%N, mkMember 1 (mkAccess (Some 3%N) Write) 0)].
Definition wit_assoc_3 : State N := [(0%N, mkMember 1 (mkAccess (Some 4%N) Read) 0)].

Theorem merge_assoc_refuted_conditions :
  exists (s1 s2 s3 : State N) (id : N),
    wf s1 /\ wf s2 /\ wf s3 /\
    lookup id (merge ncmp (merge ncmp s1 s2) s3) <> lookup id (merge ncmp s1 (merge ncmp s2 s3)).
Proof.
  exists wit_assoc_1, wit_assoc_2, wit_assoc_3, 0%N. repeat split.
  - repeat constructor; cbn; intuition.
  - repeat constructor; cbn; intuition.
  - repeat constructor; cbn; intuition.
  - vm_compute. discriminate.
Qed.

(** * Commutativity exactly outside the class of the open finding

    [unambiguous m1 m2]: the two entries do not tie on both counters, or carry the same access, or
    neither carries conditions.  Its negation - a tie on both counters between two different
    accesses at least one of which carries conditions - is the class [known] of the finding
    [merge_noncommutative_with_conditions]. *)
Definition unambiguous {C} (m1 m2 : MemberState C) : Prop :=
  member_counter m1 <> member_counter m2 \/ access_counter m1 <> access_counter m2 \/
  access m1 = access m2 \/ (no_cond (access m1) /\ no_cond (access m2)).

Lemma beats_by_member_counter {C} (lt : Access C -> Access C -> bool) m1 m2 :
  (member_counter m2 < member_counter m1)%N -> beats lt m1 m2 = true /\ beats lt m2 m1 = false.
Proof.
  intros H. split; [apply beats_iff; left; exact H|].
  apply not_true_iff_false. rewrite beats_iff. intros [X|[X _]]; lia.
Qed.

Lemma beats_by_access_counter {C} (lt : Access C -> Access C -> bool) m1 m2 :
  member_counter m1 = member_counter m2 -> (access_counter m2 < access_counter m1)%N ->
  beats lt m1 m2 = true /\ beats lt m2 m1 = false.
Proof.
  intros E H. split; [apply beats_iff; right; split; [exact E|left; exact H]|].
  apply not_true_iff_false. rewrite beats_iff. intros [X|[_ [X|[X _]]]]; lia.
Qed.

Lemma merge_member_comm_unambiguous {C} (ccmp : C -> C -> option comparison) (m1 m2 : MemberState C) :
  unambiguous m1 m2 ->
  merge_member_with (access_lt ccmp) m1 m2 = merge_member_with (access_lt ccmp) m2 m1.
Proof.
  intros U. rewrite !merge_member_sel.
  destruct (N.lt_trichotomy (member_counter m1) (member_counter m2)) as [Hc|[Hc|Hc]].
  - destruct (beats_by_member_counter (access_lt ccmp) m2 m1 Hc) as [-> ->]. reflexivity.
  - destruct (N.lt_trichotomy (access_counter m1) (access_counter m2)) as [Hk|[Hk|Hk]].
    + destruct (beats_by_access_counter (access_lt ccmp) m2 m1 (eq_sym Hc) Hk) as [-> ->]. reflexivity.
    + destruct U as [U|[U|[U|[U1 U2]]]]; try contradiction.
      * assert (m1 = m2) as ->.
        { destruct m1 as [c1 a1 k1], m2 as [c2 a2 k2]. cbn [member_counter access access_counter] in *.
          subst. reflexivity. }
        reflexivity.
      * rewrite <- !merge_member_sel.
        apply (merge_member_comm _ _ (real_lt_strict_total_nocond ccmp)); assumption.
    + destruct (beats_by_access_counter (access_lt ccmp) m1 m2 Hc Hk) as [-> ->]. reflexivity.
  - destruct (beats_by_member_counter (access_lt ccmp) m1 m2 Hc) as [-> ->]. reflexivity.
Qed.

Theorem merge_comm_outside_known {C} (ccmp : C -> C -> option comparison) (s1 s2 : State C) id :
  wf s1 -> wf s2 ->
  (forall m1 m2, lookup id s1 = Some m1 -> lookup id s2 = Some m2 -> unambiguous m1 m2) ->
  lookup id (merge ccmp s1 s2) = lookup id (merge ccmp s2 s1).
Proof.
  intros W1 W2 U. unfold merge.
  rewrite (lookup_merge _ s1 s2 id W1), (lookup_merge _ s2 s1 id W2).
  destruct (lookup id s1) as [m1|] eqn:E1; destruct (lookup id s2) as [m2|] eqn:E2;
    cbn [merge_opt]; try reflexivity.
  f_equal. apply merge_member_comm_unambiguous. apply U; reflexivity.
Qed.
