(** Proofs about a subscription run over a whole sequence of incoming items (C16).

    [sub_run] is the code (stateless: [accept] per item), [auth_filter] the specification (the
    authentic messages of the sequence, in order; no reference to [verify]).  Trusted assumption:
    the one hypothesis of the section (ideal [verify]); it is an explicit premise of the exported
    theorem. *)
From Coq Require Import List NArith Bool.
From PV Require Import Model.Timestamp Model.Ephemeral Proofs.Ephemeral.
Import ListNotations.
Local Open Scope N_scope.

Section IdealSeq.
  Variables key skey sigT bytes : Type.
  Variable sk_of : key -> skey.
  Variable sign : skey -> bytes -> sigT.
  Variable verify : key -> bytes -> sigT -> bool.
  Variable enc : fields key -> bytes.

  Hypothesis verify_spec : forall p m s, verify p m s = true <-> s = sign (sk_of p) m.

  Notation accept := (accept key sigT bytes verify enc).
  Notation sub_run := (sub_run key sigT bytes verify enc).
  Notation authentic := (authentic key skey sigT bytes sk_of sign enc).
  Notation auth_filter := (auth_filter key skey sigT bytes sk_of sign enc).
  Notation wrapped := (wrapped key sigT).
  Notation incoming := (incoming key sigT).

  Lemma accept_decoded (w : wrapped) :
    (authentic w /\ accept (Decoded w) = Some w) \/ (~ authentic w /\ accept (Decoded w) = None).
  Proof.
    destruct (accept (Decoded w)) as [m|] eqn:E.
    - left. apply (yielded_authentic key skey sigT bytes sk_of sign verify enc verify_spec) in E.
      destruct E as [A [B C]]. inversion A. subst m. split; [split; assumption|reflexivity].
    - right. split; [|reflexivity]. intros [V S].
      cbn [Ephemeral.accept] in E.
      destruct (from_wire key sigT bytes verify enc w) as [m|e] eqn:F; [discriminate|].
      assert (from_wire key sigT bytes verify enc w = inl w) as G.
      { apply (from_wire_ok key skey sigT bytes sk_of sign verify enc verify_spec). auto. }
      congruence.
  Qed.

  Lemma sub_run_is_filter (l : list incoming) : auth_filter l (sub_run l).
  Proof.
    induction l as [|i l IH]; [constructor|].
    destruct i as [|w]; cbn [Ephemeral.sub_run].
    - cbn [Ephemeral.accept]. constructor. exact IH.
    - destruct (accept_decoded w) as [[A E]|[A E]]; rewrite E.
      + apply af_keep; assumption.
      + apply af_drop; assumption.
  Qed.

  Lemma auth_filter_unique (l : list incoming) (ys : list wrapped) :
    auth_filter l ys -> ys = sub_run l.
  Proof.
    induction 1 as [|w l ys A _ IH|w l ys A _ IH|l ys _ IH]; cbn [Ephemeral.sub_run].
    - reflexivity.
    - destruct (accept_decoded w) as [[_ E]|[B _]]; [rewrite E; f_equal; exact IH|contradiction].
    - destruct (accept_decoded w) as [[B _]|[_ E]]; [contradiction|rewrite E; exact IH].
    - cbn [Ephemeral.accept]. exact IH.
  Qed.

  Lemma auth_filter_sound (l : list incoming) (ys : list wrapped) :
    auth_filter l ys -> Forall (fun m => authentic m /\ In (Decoded m) l) ys.
  Proof.
    induction 1 as [|w l ys A _ IH|w l ys A _ IH|l ys _ IH].
    - constructor.
    - constructor; [split; [exact A|left; reflexivity]|].
      eapply Forall_impl; [|exact IH]. cbn beta. intros m [B C]. split; [exact B|right; exact C].
    - eapply Forall_impl; [|exact IH]. cbn beta. intros m [B C]. split; [exact B|right; exact C].
    - eapply Forall_impl; [|exact IH]. cbn beta. intros m [B C]. split; [exact B|right; exact C].
  Qed.

  (** A run over any sequence yields exactly the authentic messages of the sequence, in order
      (duplicates of an authentic message again, a tampered / re-signed / forged copy never —
      whatever precedes it), and [auth_filter] determines the result. *)
  Theorem sequence_yields_authentic_only (l : list incoming) :
    auth_filter l (sub_run l) /\
    (forall ys, auth_filter l ys -> ys = sub_run l) /\
    Forall (fun m => authentic m /\ In (Decoded m) l) (sub_run l).
  Proof.
    split; [apply sub_run_is_filter|]. split; [apply auth_filter_unique|].
    apply auth_filter_sound, sub_run_is_filter.
  Qed.

  (** The position does not matter: a tampered copy right after its authentic original (or after
      a duplicate of it, or before it) is dropped, the original and its duplicates are kept. *)
  Corollary tampered_copy_after_original (pre post : list incoming) (w w' : wrapped) :
    authentic w -> ~ authentic w' ->
    sub_run (pre ++ Decoded w :: Decoded w' :: post) = sub_run pre ++ w :: sub_run post /\
    sub_run (pre ++ Decoded w :: Decoded w :: Decoded w' :: post) = sub_run pre ++ w :: w :: sub_run post /\
    sub_run (pre ++ Decoded w' :: Decoded w :: post) = sub_run pre ++ w :: sub_run post.
  Proof.
    intros A B.
    assert (forall a b, sub_run (a ++ b) = sub_run a ++ sub_run b) as App.
    { induction a as [|i a IH]; intros b; [reflexivity|]. cbn [app Ephemeral.sub_run].
      destruct (accept i); [cbn [app]; f_equal|]; apply IH. }
    destruct (accept_decoded w) as [[_ E]|[C _]]; [|contradiction].
    destruct (accept_decoded w') as [[C _]|[_ E']]; [contradiction|].
    rewrite !App. cbn [Ephemeral.sub_run]. rewrite E, E'. auto.
  Qed.
End IdealSeq.

(** Non-vacuous: on the symbolic instance a sequence original, tampered copy (body changed under
    the original signature), duplicate, re-signed copy yields the original twice. *)
Example sequence_nonvacuous :
  let f := {| ver := 1; author := 1; time := 1000; logical := 0; body := 10 |} in
  let g := {| ver := 1; author := 1; time := 1000; logical := 0; body := 99 |} in
  let w := {| wf := f; wsig := Sym.sign 1 (Sym.enc f) |} in
  Sym.sub_run [Decoded w; Decoded {| wf := g; wsig := Sym.sign 1 (Sym.enc f) |}; Decoded w;
               Decoded {| wf := f; wsig := Sym.sign 2 (Sym.enc f) |}; Undecodable] = [w; w].
Proof. vm_compute. reflexivity. Qed.
