(** Proofs about Model/Node.v: every node entry point deletes only what an authentic prune
    operation of the same (author, log) allows (C04, "whichever entry point"). *)
From Coq Require Import List Arith NArith Bool Lia.
From PV Require Import Model.Ingest Model.Node Proofs.Ingest.
Import ListNotations.
Local Open Scope N_scope.

Lemma node_import_fst : forall me s o, fst (node_step me s (NImport o)) = fst (deliver s o).
Proof. intros me s o. cbn [node_step]. destruct (deliver s o). reflexivity. Qed.

Lemma node_import_snd : forall me s o, snd (node_step me s (NImport o)) = res_ok (snd (deliver s o)).
Proof. intros me s o. cbn [node_step]. destruct (deliver s o). reflexivity. Qed.

(** Import (and the sync stream, which feeds the same [process_operation]). *)
Theorem import_deletes_only_in_scope : forall me s o r,
  In r s -> ~ In r (fst (node_step me s (NImport o))) ->
  o_valid o = true /\ o_prune o = true /\ snd (node_step me s (NImport o)) = true /\
  r_author r = o_author o /\ r_log r = o_log o /\ r_seq r < o_seq o.
Proof.
  intros me s o r Hr Hn. rewrite node_import_fst in Hn. rewrite node_import_snd.
  apply deleted_only_by_authentic_prune_in_scope; assumption.
Qed.

Theorem import_of_invalid_changes_nothing : forall me s o,
  o_valid o = false -> node_step me s (NImport o) = (s, false).
Proof.
  intros me s o H. cbn [node_step]. rewrite (invalid_event_changes_nothing s o H). reflexivity.
Qed.

(** Publish / prune by the node itself. *)
Theorem publish_deletes_only_own_prefix : forall me s l prune body id r,
  In r s -> ~ In r (fst (node_step me s (NPublish l prune body id))) ->
  prune = true /\ r_author r = me /\ r_log r = l /\
  r_seq r < o_seq (forge_op me s l prune body id).
Proof.
  intros me s l prune body id r Hr Hn. cbn [node_step] in Hn.
  set (o := forge_op me s l prune body id) in *.
  destruct (deliver (s ++ [row_of o]) o) as [s' x] eqn:E. cbn [fst] in Hn.
  assert (Hr' : In r (s ++ [row_of o])) by (apply in_app_iff; left; exact Hr).
  assert (Hn' : ~ In r (fst (deliver (s ++ [row_of o]) o))) by (rewrite E; exact Hn).
  destruct (deleted_only_by_authentic_prune_in_scope _ _ _ Hr' Hn') as (_ & Hp & _ & Ha & Hl & Hs).
  assert (Hoa : o_author o = me /\ o_log o = l /\ o_prune o = prune).
  { unfold o, forge_op. destruct (latest s me l); cbn; auto. }
  destruct Hoa as (Hoa & Hol & Hop). rewrite Hoa in Ha. rewrite Hol in Hl. rewrite Hop in Hp. auto.
Qed.

(** Replay: every stored operation of the topic's log runs through the pipeline again. *)
Lemma row_of_op_of_row : forall x, row_of (op_of_row x) = x.
Proof. intros [a l sq i h b p bd]. reflexivity. Qed.

Lemma deliver_subset : forall s o r, In r (fst (deliver s o)) -> In r s \/ r = row_of o.
Proof.
  intros s o r H. rewrite deliver_unfold in H. cbn [fst] in H.
  assert (H1 : In r (fst (ingest s o))).
  { destruct (res_ok (snd (ingest s o)) && o_prune o); [apply prune_below_In in H; tauto|exact H]. }
  destruct (ingest s o) as [s1 r1] eqn:E. cbn [fst] in H1.
  destruct (ingest_with_shape _ _ _ _ _ E) as [(_ & -> & _)|(_ & ->)]; [|left; exact H1].
  apply in_app_iff in H1. destruct H1 as [H1|[<-|[]]]; auto.
Qed.

Lemma row_eq_dec : forall a b : row, {a = b} + {a <> b}.
Proof.
  decide equality; try apply N.eq_dec; try apply bool_dec.
  decide equality; apply N.eq_dec.
Qed.

Lemma replay_gen : forall s0 l os st r,
  (forall o, In o os -> exists x, In x s0 /\ r_log x = l /\ o = op_of_row x) ->
  (forall y, In y st -> In y s0) ->
  In r st -> ~ In r (fold_left (fun st o => fst (deliver st o)) os st) ->
  exists x, In x s0 /\ r_prune x = true /\ r_author x = r_author r /\ r_log x = r_log r /\
            r_log x = l /\ r_seq r < r_seq x.
Proof.
  intros s0 l os. induction os as [|o t IH]; intros st r Hos Hsub Hr Hn.
  - contradiction.
  - cbn [fold_left] in Hn.
    destruct (Hos o (or_introl eq_refl)) as (x & Hx & Hxl & Ho).
    destruct (in_dec row_eq_dec r (fst (deliver st o))) as [Hin|Hout].
    + apply (IH (fst (deliver st o)) r); auto.
      * intros o' Ho'. apply Hos. right. exact Ho'.
      * intros y Hy. destruct (deliver_subset _ _ _ Hy) as [Hy'|Hy']; [apply Hsub; exact Hy'|].
        subst y o. rewrite row_of_op_of_row. exact Hx.
    + destruct (deleted_only_by_authentic_prune_in_scope _ _ _ Hr Hout) as (_ & Hp & _ & Ha & Hl & Hs).
      subst o. cbn [op_of_row o_prune o_author o_log o_seq] in *.
      exists x. repeat split; auto; congruence.
Qed.

Theorem replay_deletes_only_below_stored_prune_points : forall me s l r,
  In r s -> ~ In r (fst (node_step me s (NReplay l))) ->
  exists x, In x s /\ r_prune x = true /\ r_author x = r_author r /\ r_log x = r_log r /\
            r_log x = l /\ r_seq r < r_seq x.
Proof.
  intros me s l r Hr Hn. cbn [node_step fst] in Hn. unfold replay in Hn.
  apply (replay_gen s l (map op_of_row (filter (fun r : row => r_log r =? l) s)) s r); auto.
  intros o Ho. apply in_map_iff in Ho. destruct Ho as (x & <- & Hx). apply filter_In in Hx.
  destruct Hx as (Hx & Hl). apply N.eqb_eq in Hl. exists x. auto.
Qed.

(** Non-vacuity: a node that published twice, received a three-entry log of author 1, a forged
    prune point for it, and then the author's real prune point. *)
Definition ex_steps : list nstep :=
  [ NPublish 0 false true 501; NPublish 0 false true 502;
    NImport (w_op 1 0 0 1 None false true); NImport (w_op 1 0 1 2 (Some 1) false true);
    NImport (w_op 1 0 2 3 (Some 2) false true);
    NImport (w_op 1 0 3 4 (Some 3) true false);
    NImport (w_op 1 0 3 5 (Some 3) true true);
    NPublish 0 true false 503; NReplay 0 ].

Example ex_steps_trace :
  map (fun x => (fst x, map (fun r => (r_author r, r_seq r)) (snd x))) (node_trace 0 [] ex_steps) =
  [ (true, [(0, 0)]); (true, [(0, 0); (0, 1)]);
    (true, [(0, 0); (0, 1); (1, 0)]); (true, [(0, 0); (0, 1); (1, 0); (1, 1)]);
    (true, [(0, 0); (0, 1); (1, 0); (1, 1); (1, 2)]);
    (false, [(0, 0); (0, 1); (1, 0); (1, 1); (1, 2)]);
    (true, [(0, 0); (0, 1); (1, 3)]);
    (true, [(1, 3); (0, 2)]); (true, [(1, 3); (0, 2)]) ].
Proof. vm_compute. reflexivity. Qed.

(** * Authentic operations rejected by the log-integrity rules (no forged signature involved).

    A prune-flagged operation that is validly signed ([o_valid]), not yet stored, and lies at or
    below the latest stored entry of its log (a fork, or an older prune point after a newer one)
    is rejected and deletes nothing. *)
Theorem outdated_prune_point_changes_nothing : forall s o p,
  o_valid o = true -> o_prune o = true -> has_op s (o_id o) = false ->
  latest s (o_author o) (o_log o) = Some p -> o_seq o <= r_seq p ->
  fst (deliver s o) = s /\ res_ok (snd (deliver s o)) = false.
Proof.
  intros s o p Hv Hp Hh Hl Hle.
  assert (Hr : res_ok (snd (deliver s o)) = false).
  { rewrite deliver_unfold. cbn [snd]. unfold ingest, ingest_with. rewrite Hv, Hh, Hl, Hp. cbn [negb].
    unfold validate_prunable_backlink. cbn [negb].
    destruct (0 <? o_seq o) eqn:E0.
    - assert (E : (o_seq o <=? r_seq p) = true) by (apply N.leb_le; exact Hle). rewrite E. reflexivity.
    - apply N.ltb_ge in E0. assert (Hz : o_seq o = 0) by lia.
      unfold validate_backlink.
      destruct (negb (r_author p =? o_author o)); [reflexivity|].
      destruct (r_seq p =? U32MAX); [reflexivity|].
      assert (E : (r_seq p + 1 =? o_seq o) = false) by (apply N.eqb_neq; lia). rewrite E. reflexivity. }
  split; [apply failed_event_changes_nothing; exact Hr|exact Hr].
Qed.

Theorem import_of_outdated_prune_point_changes_nothing : forall me s o p,
  o_valid o = true -> o_prune o = true -> has_op s (o_id o) = false ->
  latest s (o_author o) (o_log o) = Some p -> o_seq o <= r_seq p ->
  node_step me s (NImport o) = (s, false).
Proof.
  intros me s o p Hv Hp Hh Hl Hle.
  destruct (outdated_prune_point_changes_nothing s o p Hv Hp Hh Hl Hle) as (Hs & Hr).
  cbn [node_step]. destruct (deliver s o) as [s' r]. cbn [fst snd] in *. subst s'. rewrite Hr. reflexivity.
Qed.

(** Whatever the reason of the failure: an import that is reported as failed left the store as it
    was (the statement the seeded change C04-1 breaks). *)
Theorem failed_import_changes_nothing : forall me s o,
  snd (node_step me s (NImport o)) = false -> fst (node_step me s (NImport o)) = s.
Proof.
  intros me s o H. rewrite node_import_snd in H. rewrite node_import_fst.
  apply failed_event_changes_nothing. exact H.
Qed.

(** Non-vacuity and regression witness: author 1's six-entry log and a validly signed
    prune-flagged fork at seq 3.  The pipeline rejects it and keeps the log; a pipeline that
    ignores the prune request only for unauthenticated operations deletes 0, 1, 2. *)
Definition c04_six_log : list op :=
  [w_op 1 0 0 1 None false true; w_op 1 0 1 2 (Some 1) false true; w_op 1 0 2 3 (Some 2) false true;
   w_op 1 0 3 4 (Some 3) false true; w_op 1 0 4 5 (Some 4) false true; w_op 1 0 5 6 (Some 5) false true].
Definition c04_outdated_prune : op := w_op 1 0 3 77 (Some 900) true true.

Example outdated_prune_point_hypotheses_satisfiable :
  o_valid c04_outdated_prune = true /\ o_prune c04_outdated_prune = true /\
  has_op (run c04_six_log) (o_id c04_outdated_prune) = false /\
  option_map r_seq (latest (run c04_six_log) 1 0) = Some 5 /\
  deliver (run c04_six_log) c04_outdated_prune = (run c04_six_log, Rejected ESeqNonIncremental).
Proof. vm_compute. repeat split; reflexivity. Qed.

Theorem C04_prune_unless_invalid_refuted :
  snd (deliver_prune_unless_invalid (run c04_six_log) c04_outdated_prune) = Rejected ESeqNonIncremental /\
  map r_seq (run c04_six_log) = [0; 1; 2; 3; 4; 5] /\
  map r_seq (fst (deliver_prune_unless_invalid (run c04_six_log) c04_outdated_prune)) = [3; 4; 5].
Proof. vm_compute. repeat split; reflexivity. Qed.
