(** Every run of the joint system is finite: a measure that every step decreases.  Together with
    [deadlock_free] this is termination: every maximal run ends in the finished state. *)
From Coq Require Import List Arith NArith Bool Lia.
From PV Require Import Model.Dedup Model.LogSync Proofs.LogSyncC20 Proofs.LogSyncScript Proofs.LogSyncNode
  Proofs.LogSyncJoint Proofs.LogSyncLive.
Import ListNotations.

(** ** Ticks a side still has to do *)
Definition arm_work (n : needs_t) : nat := fold_right (fun alr acc => length (snd alr) + 2 + acc) 0 n.
Definition sync_work (n : needs_t) : nat := arm_work n + 1.
Definition pre_work (n : needs_t) : nat := length (flat_needs n) + 1 + sync_work n.

(** [needs0]: the ranges the side will compute once the peer's Have has arrived. *)
Definition tw (needs0 : needs_t) (s : st) : nat :=
  match ph s with
  | PStart logs => 1 + length logs + 1 + pre_work needs0
  | PSendHave todo _ => length todo + 1 + pre_work needs0
  | PReceiveHave _ => pre_work needs0
  | PSendPreSync needs todo _ _ => length todo + 1 + sync_work needs
  | PReceivePreSyncOrDone needs _ _ => sync_work needs
  | PSync rest cur => (match cur with Some alr => length (snd alr) + 1 | None => 0 end) + sync_work rest
  | PEnd | PFailed => 0
  end.

Lemma tick_tw needs0 r s : tick_enabled true s = true -> tw needs0 (fst (tick true r s)) < tw needs0 s.
Proof.
  unfold tick_enabled, tick, tw. destruct s as [p dr ds d]. cbn [ph done_sent done_recv dd].
  destruct p as [logs|todo acc|local|needs todo ops bytes|needs ops bytes|rest cur| |]; intros E;
    try discriminate.
  - cbn. lia.
  - destruct todo; cbn; lia.
  - destruct todo; [destruct (N.ltb 0 bytes)|]; cbn; lia.
  - destruct cur as [[a lrs]|].
    + destruct lrs; [destruct rest|]; cbn; lia.
    + destruct (arm_on true _ rest) eqn:Arm.
      * destruct rest as [|alr rest']; [discriminate|]. cbn [fst snd ph set_ph].
        unfold sync_work. cbn [arm_work fold_right]. fold (arm_work rest'). lia.
      * cbn [orb] in E. rewrite E. cbn. unfold sync_work. lia.
Qed.

Lemma recv_tw needs0 s m :
  (forall local h, ph s = PReceiveHave local -> m = Have h -> compare local h = needs0) ->
  tw needs0 (fst (recv s m)) <= tw needs0 s.
Proof.
  unfold recv, tw. destruct s as [p dr ds d]. cbn [ph done_sent done_recv dd].
  destruct p as [logs|todo acc|local|needs todo ops bytes|needs ops bytes|rest cur| |]; intros H;
    try (cbn; lia).
  - destruct m; cbn; try lia. rewrite (H local h eq_refl eq_refl). unfold pre_work. lia.
  - destruct m; cbn; lia.
  - destruct cur as [[a lrs]|]; [cbn; lia|]. destruct dr; [cbn; lia|]. destruct m; cbn; lia.
Qed.

Section Measure.
  Variables rA rB : replica.
  Variables logsA logsB : list (N * list N).
  Variable cbuf : option nat.

  Notation scA := (scA rA rB logsA logsB).
  Notation scB := (scB rA rB logsA logsB).
  Notation hA := (hA rA logsA).
  Notation hB := (hB rB logsB).
  Notation J := (J rA rB logsA logsB cbuf).

  Definition needsA : needs_t := compare hA hB.
  Definition needsB : needs_t := compare hB hA.

  Definition node_measure (needs0 : needs_t) (sc : list msg) (n : node) (q : list msg) : nat :=
    tw needs0 (n_st n) + 2 * (length sc - length (sent (n_hist n))) + 2 * length (n_pend n) + length q.

  Definition measure (y : sys) : nat :=
    node_measure needsA scA (sa y) (qab y) + node_measure needsB scB (sb y) (qba y).

  Lemma nm_tick needs0 r logs h_peer sc_peer (W : complete_word sc_peer) n n' q :
    ninv r logs h_peer sc_peer n -> node_tick true r n = Some n' ->
    ninv r logs h_peer sc_peer n' ->
    node_measure needs0 (script r logs h_peer) n' q < node_measure needs0 (script r logs h_peer) n q.
  Proof.
    intros NI T NI'. destruct (node_tick_ninv r logs h_peer sc_peer n n' NI T)
      as [_ [_ [Pe [_ [_ [S [St En]]]]]]].
    destruct (counts_bounds r logs h_peer sc_peer W n' NI') as [U _]. unfold ecount in U.
    unfold node_measure. rewrite St, Pe. pose proof (tick_tw needs0 r (n_st n) En) as Tw.
    rewrite S in *. rewrite app_length in *. cbn [length]. lia.
  Qed.

  Lemma nm_push needs0 sc n q n' q' :
    node_push cbuf n q = Some (n', q') -> node_measure needs0 sc n' q' < node_measure needs0 sc n q.
  Proof.
    unfold node_push. destruct (n_pend n) as [|m p] eqn:Pe; [discriminate|].
    destruct (n_parked n); [discriminate|]. intros E. injection E as <- <-.
    unfold node_measure. cbn [n_st n_hist n_pend]. rewrite Pe, app_length. cbn [length]. lia.
  Qed.

  Lemma nm_unpark needs0 sc n q : node_measure needs0 sc (unpark n) q = node_measure needs0 sc n q.
  Proof. reflexivity. Qed.

  (** The receiver's own measure does not grow; the sender's queue shrinks. *)
  Lemma nm_recv needs0 sc n m q n' q' qo :
    (forall local h, ph (n_st n) = PReceiveHave local -> m = Have h -> compare local h = needs0) ->
    node_recv n (m :: q) = Some (n', q') ->
    node_measure needs0 sc n' qo <= node_measure needs0 sc n qo /\ q' = q.
  Proof.
    intros H. unfold node_recv. destruct (n_pend n) eqn:Pe; [|discriminate].
    destruct (n_parked n); [discriminate|]. destruct (can_recv (n_st n)); [|discriminate].
    intros E. injection E as <- <-. split; [|reflexivity].
    unfold node_measure. cbn [n_st n_hist n_pend]. rewrite sent_app, recv_sends_nothing, app_nil_r, Pe.
    pose proof (recv_tw needs0 (n_st n) m H). lia.
  Qed.

  (** In [PReceiveHave] the local heights are the own Have and the next message is the peer's. *)
  Lemma have_facts r logs h_peer sc_peer n m suf :
    (exists rest, sc_peer = Have h_peer :: rest) ->
    ninv r logs h_peer sc_peer n -> n_cons n ++ m :: suf = sc_peer ->
    forall local h, ph (n_st n) = PReceiveHave local -> m = Have h ->
                    compare local h = compare (local_heights r logs) h_peer.
  Proof.
    intros [rest Hr] [_ [[_ S] [_ C]]] E local h P ->. rewrite P in S, C.
    destruct S as [-> _]. destruct C as [C _]. rewrite C, Hr in E. cbn in E. inversion E. reflexivity.
  Qed.

  Lemma measure_step y l y' : J y -> sys_step true cbuf rA rB y l = Some y' -> measure y' < measure y.
  Proof.
    intros Jy St. pose proof (J_step rA rB logsA logsB cbuf y l y' Jy St) as Jy'.
    destruct Jy as [NA [NB [LAB LBA]]]. destruct Jy' as [NA' [NB' _]].
    unfold measure. destruct l; cbn [sys_step] in St.
    - destruct (node_tick true rA (sa y)) as [n'|] eqn:T; [|discriminate]. injection St as <-.
      cbn [sa sb qab qba] in *.
      pose proof (nm_tick needsA rA logsA hB scB (scB_word rA rB logsA logsB) (sa y) n' (qab y) NA T NA').
      change (script rA logsA hB) with scA in *. lia.
    - destruct (node_tick true rB (sb y)) as [n'|] eqn:T; [|discriminate]. injection St as <-.
      cbn [sa sb qab qba] in *.
      pose proof (nm_tick needsB rB logsB hA scA (scA_word rA rB logsA logsB) (sb y) n' (qba y) NB T NB').
      change (script rB logsB hA) with scB in *. lia.
    - destruct (node_push cbuf (sa y) (qab y)) as [[n' q']|] eqn:T; [|discriminate]. injection St as <-.
      cbn [sa sb qab qba fst snd]. pose proof (nm_push needsA scA _ _ _ _ T). lia.
    - destruct (node_push cbuf (sb y) (qba y)) as [[n' q']|] eqn:T; [|discriminate]. injection St as <-.
      cbn [sa sb qab qba fst snd]. pose proof (nm_push needsB scB _ _ _ _ T). lia.
    - destruct (node_recv (sa y) (qba y)) as [[n' q']|] eqn:T; [|discriminate]. injection St as <-.
      cbn [sa sb qab qba fst snd].
      destruct (qba y) as [|m q] eqn:Q.
      { unfold node_recv in T. destruct (n_pend (sa y)), (n_parked (sa y)); discriminate. }
      destruct (ninv_sent_prefix rB logsB hA scA (scA_word rA rB logsA logsB) (sb y) NB) as [suf0 Pf].
      destruct LBA as [LBA _].
      assert (E : n_cons (sa y) ++ m :: (q ++ n_pend (sb y) ++ suf0) = scB).
      { change scB with (sc_own rB logsB hA). rewrite <- Pf, LBA, <- !app_assoc. reflexivity. }
      destruct (nm_recv needsA scA (sa y) m q n' q' (qab y)
                  (have_facts rA logsA hB scB (sa y) m _ (scB_head rA rB logsA logsB) NA E) T) as [Le ->].
      rewrite nm_unpark. unfold node_measure at 2 4. cbn [length]. lia.
    - destruct (node_recv (sb y) (qab y)) as [[n' q']|] eqn:T; [|discriminate]. injection St as <-.
      cbn [sa sb qab qba fst snd].
      destruct (qab y) as [|m q] eqn:Q.
      { unfold node_recv in T. destruct (n_pend (sb y)), (n_parked (sb y)); discriminate. }
      destruct (ninv_sent_prefix rA logsA hB scB (scB_word rA rB logsA logsB) (sa y) NA) as [suf0 Pf].
      destruct LAB as [LAB _].
      assert (E : n_cons (sb y) ++ m :: (q ++ n_pend (sa y) ++ suf0) = scA).
      { change scA with (sc_own rA logsA hB). rewrite <- Pf, LAB, <- !app_assoc. reflexivity. }
      destruct (nm_recv needsB scB (sb y) m q n' q' (qba y)
                  (have_facts rB logsB hA scA (sb y) m _ (scA_head rA rB logsA logsB) NB E) T) as [Le ->].
      rewrite nm_unpark. unfold node_measure at 1 3. cbn [length]. lia.
  Qed.

  (** A run from a reachable state is never longer than the measure of that state. *)
  Theorem runs_bounded ls : forall y y',
    J y -> exec true cbuf rA rB y ls = Some y' -> length ls + measure y' <= measure y.
  Proof.
    induction ls as [|l ls IH]; intros y y' Jy E; cbn [exec] in E.
    - injection E as <-. cbn. lia.
    - destruct (sys_step true cbuf rA rB y l) as [y1|] eqn:S; [|discriminate].
      pose proof (measure_step y l y1 Jy S) as M.
      pose proof (IH y1 y' (J_step rA rB logsA logsB cbuf y l y1 Jy S) E) as R. cbn [length]. lia.
  Qed.
End Measure.
