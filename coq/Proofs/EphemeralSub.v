(** Proofs about the ephemeral subscription model (C17). *)
From Coq Require Import List NArith Bool Arith Lia.
From PV Require Import Model.EphemeralSub.
Import ListNotations.

Definition no_valid (q : list item) : Prop := Forall (fun i => is_valid i = false) q.
Definition no_lagged (q : list item) : Prop := Forall (fun i => i <> Lagged) q.

(** ** One poll of the repaired code *)

(** Any finite prefix of invalid / lagged items is skipped within one poll. *)
Theorem valid_eventually_yielded (c : bool) (pre : list item) (v : N) (rest : list item) :
  no_valid pre ->
  poll_fixed c (pre ++ Valid v :: rest) = (Yield v, rest, false).
Proof.
  induction 1 as [|i pre Hi _ IH]; [reflexivity|].
  destruct i; [discriminate Hi| |]; exact IH.
Qed.

Example valid_eventually_yielded_nonvacuous :
  poll_fixed false ([Invalid; Lagged; Invalid] ++ Valid 7 :: [Invalid; Valid 8])
  = (Yield 7, [Invalid; Valid 8], false).
Proof. reflexivity. Qed.

(** Waker contract: [Pending] is returned only with the waker registered and nothing unread —
    never after having consumed something without arranging a wake-up. *)
Theorem pending_is_live (c : bool) (q q' : list item) (reg : bool) :
  poll_fixed c q = (Pending, q', reg) ->
  q' = [] /\ reg = true /\ c = false /\ valids q = [].
Proof.
  induction q as [|i q IH]; cbn [poll_fixed].
  - destruct c; intros H; inversion H. auto.
  - destruct i; [discriminate| |]; exact IH.
Qed.

Lemma poll_fixed_finished (c : bool) (q q' : list item) (reg : bool) :
  poll_fixed c q = (Finished, q', reg) ->
  q' = [] /\ reg = false /\ c = true /\ valids q = [].
Proof.
  induction q as [|i q IH]; cbn [poll_fixed].
  - destruct c; intros H; inversion H. auto.
  - destruct i; [discriminate| |]; exact IH.
Qed.

Lemma poll_fixed_yield (c : bool) (q q' : list item) (reg : bool) (v : N) :
  poll_fixed c q = (Yield v, q', reg) ->
  valids q = v :: valids q' /\ length q' < length q /\ reg = false.
Proof.
  induction q as [|i q IH]; cbn [poll_fixed].
  - destruct c; discriminate.
  - destruct i.
    + intros H. inversion H. subst. cbn. auto.
    + intros H. destruct (IH H) as [A [B C]]. cbn [valids flat_map app length] in *.
      fold (valids q). split; [exact A|]. split; [lia|exact C].
    + intros H. destruct (IH H) as [A [B C]]. cbn [valids flat_map app length] in *.
      fold (valids q). split; [exact A|]. split; [lia|exact C].
Qed.

(** ** The consumer task under an executor honouring the waker contract *)

Lemma task_run_fixed :
  forall fuel s,
    length (queue s) + 1 <= fuel -> woken s = true -> finished s = false ->
    let s' := task_run poll_fixed fuel s in
    out s' = out s ++ valids (queue s) /\ queue s' = [] /\ woken s' = false /\
    closed s' = closed s /\ finished s' = closed s /\ registered s' = negb (closed s).
Proof.
  induction fuel as [|f IH]; intros s Hf Hw Hn; [lia|].
  cbn [task_run]. rewrite Hw, Hn. cbn [negb orb].
  destruct (poll_fixed (closed s) (queue s)) as [[r q'] reg] eqn:E.
  destruct r.
  - apply pending_is_live in E. destruct E as [A [B [C D]]]. subst. cbn [queue out woken closed finished registered].
    rewrite D, C, app_nil_r. repeat split; reflexivity.
  - apply poll_fixed_yield in E. destruct E as [A [B C]].
    match goal with |- context [task_run poll_fixed f ?t] => specialize (IH t) end.
    cbn [queue out woken closed finished registered] in IH.
    destruct IH as [I1 [I2 [I3 [I4 [I5 I6]]]]]; [lia|reflexivity|reflexivity|].
    rewrite I1, A, <- app_assoc. cbn [app]. repeat split; assumption.
  - apply poll_fixed_finished in E. destruct E as [A [B [C D]]]. subst. cbn [queue out woken closed finished registered].
    rewrite D, C, app_nil_r. repeat split; reflexivity.
Qed.

Lemma task_run_idle (poll : bool -> list item -> pollres) (fuel : nat) (s : task) :
  woken s = false -> task_run poll fuel s = s.
Proof. intros H. destruct fuel; [reflexivity|]. cbn [task_run]. rewrite H. reflexivity. Qed.

(** ** The channel *)

Lemma tl_skipn {A} (n : nat) (l : list A) : tl (skipn n l) = skipn (S n) l.
Proof.
  revert l; induction n as [|n IH]; intros [|a l]; try reflexivity.
  change (skipn (S n) (a :: l)) with (skipn n l).
  change (skipn (S (S n)) (a :: l)) with (skipn (S n) l).
  apply IH.
Qed.

Lemma lastn_length {A} (n : nat) (l : list A) : length (lastn n l) = Nat.min n (length l).
Proof. unfold lastn. rewrite skipn_length. lia. Qed.

Lemma lastn_all {A} (n : nat) (l : list A) : length l <= n -> lastn n l = l.
Proof. intros H. unfold lastn. replace (length l - n) with 0 by lia. reflexivity. Qed.

Lemma lastn_snoc_full {A} (c : nat) (l : list A) (x : A) :
  1 <= c -> c <= length l -> tl (lastn c l) ++ [x] = lastn c (l ++ [x]).
Proof.
  intros Hc Hl. unfold lastn. rewrite tl_skipn, app_length. cbn [length].
  rewrite skipn_app.
  replace (length l + 1 - c) with (S (length l - c)) by lia.
  replace (S (length l - c) - length l) with 0 by lia.
  reflexivity.
Qed.

Lemma msgs_id (q : list item) : no_lagged q -> msgs q = q.
Proof.
  induction 1 as [|i q Hi _ IH]; [reflexivity|].
  unfold msgs in *. cbn [filter]. destruct i; [rewrite IH; reflexivity..|congruence].
Qed.

Lemma no_lagged_skipn (n : nat) (q : list item) : no_lagged q -> no_lagged (skipn n q).
Proof.
  intros H. unfold no_lagged in *. rewrite Forall_forall in *. intros x Hx.
  apply H. rewrite <- (firstn_skipn n q). apply in_or_app. right. exact Hx.
Qed.

Lemma fold_left_snoc {A B} (f : A -> B -> A) (l : list B) (x : B) (a : A) :
  fold_left f (l ++ [x]) a = f (fold_left f l a) x.
Proof. rewrite fold_left_app. reflexivity. Qed.

(** Sending [ms] into an empty channel of capacity [cap]: everything is kept while it fits,
    otherwise the last [cap] messages behind one [Lagged] marker. *)
Lemma push_all (cap : nat) (ms : list item) :
  1 <= cap -> no_lagged ms ->
  (length ms <= cap -> fold_left (push cap) ms [] = ms) /\
  (cap < length ms -> fold_left (push cap) ms [] = Lagged :: lastn cap ms).
Proof.
  intros Hc. induction ms as [|m ms IH] using rev_ind; intros Hn.
  - cbn. split; [reflexivity|lia].
  - assert (Hn' : no_lagged ms).
    { unfold no_lagged in *. rewrite Forall_app in Hn. tauto. }
    destruct (IH Hn') as [IH1 IH2]. rewrite fold_left_snoc, app_length. cbn [length].
    destruct (Nat.le_gt_cases (length ms) cap) as [Hle|Hgt].
    + rewrite (IH1 Hle). unfold push. rewrite (msgs_id ms Hn').
      destruct (Nat.ltb_spec (length ms) cap) as [Hlt|Hge].
      * split; [reflexivity|lia].
      * split; [lia|]. intros _. assert (length ms = cap) by lia.
        rewrite <- (lastn_all cap ms) at 1 by lia.
        rewrite lastn_snoc_full by lia. reflexivity.
    + rewrite (IH2 Hgt). unfold push.
      assert (Hm : msgs (Lagged :: lastn cap ms) = lastn cap ms).
      { unfold msgs. cbn [filter]. apply msgs_id. apply no_lagged_skipn. exact Hn'. }
      rewrite Hm, lastn_length.
      destruct (Nat.ltb_spec (Nat.min cap (length ms)) cap) as [Hlt|Hge]; [lia|].
      split; [lia|]. intros _. rewrite lastn_snoc_full by lia. reflexivity.
Qed.

Lemma valids_lagged_cons (q : list item) : valids (Lagged :: q) = valids q.
Proof. reflexivity. Qed.

Lemma push_all_valids (cap : nat) (ms : list item) :
  1 <= cap -> no_lagged ms ->
  valids (fold_left (push cap) ms []) = valids (lastn cap ms) /\
  length (fold_left (push cap) ms []) <= length ms + 1.
Proof.
  intros Hc Hn. destruct (push_all cap ms Hc Hn) as [A B].
  destruct (Nat.le_gt_cases (length ms) cap) as [Hle|Hgt].
  - rewrite (A Hle), (lastn_all cap ms Hle). split; [reflexivity|lia].
  - rewrite (B Hgt), valids_lagged_cons. split; [reflexivity|].
    cbn [length]. rewrite lastn_length. lia.
Qed.

(** ** Phases *)

Definition Parked (s : task) : Prop :=
  queue s = [] /\ woken s = false /\ closed s = false /\ finished s = false /\ registered s = true.

Lemma sends_parked (cap : nat) (ms : list item) (s : task) :
  Parked s ->
  let s' := fold_left (send cap) ms s in
  queue s' = fold_left (push cap) ms [] /\ closed s' = false /\ finished s' = false /\
  out s' = out s /\ (ms = [] -> s' = s) /\ (ms <> [] -> woken s' = true).
Proof.
  intros [P1 [P2 [P3 [P4 P5]]]].
  induction ms as [|m ms IH] using rev_ind.
  - cbn. rewrite P1. repeat split; auto; congruence.
  - rewrite !fold_left_snoc. cbn zeta in IH. destruct IH as [I1 [I2 [I3 [I4 [I5 I6]]]]].
    cbn [send queue closed finished out woken]. rewrite I1, I2, I3, I4.
    repeat split; auto.
    + intros H. destruct ms; discriminate H.
    + intros _. destruct ms as [|m0 ms0].
      * cbn [fold_left]. rewrite P5. apply orb_true_r.
      * rewrite I6 by discriminate. reflexivity.
Qed.

Lemma phase_fixed (cap : nat) (s : task) (ms : list item) :
  1 <= cap -> no_lagged ms -> Parked s ->
  Parked (phase poll_fixed cap s ms) /\
  out (phase poll_fixed cap s ms) = out s ++ valids (lastn cap ms).
Proof.
  intros Hc Hn HP. unfold phase, run.
  destruct (sends_parked cap ms s HP) as [S1 [S2 [S3 [S4 [S5 S6]]]]].
  destruct ms as [|m ms].
  - rewrite (S5 eq_refl). destruct HP as [P1 [P2 [P3 [P4 P5]]]].
    rewrite task_run_idle by exact P2. split; [repeat split; assumption|].
    cbn. rewrite app_nil_r. reflexivity.
  - set (s1 := fold_left (send cap) (m :: ms) s) in *.
    destruct (task_run_fixed (length (queue s1) + 2) s1) as [T1 [T2 [T3 [T4 [T5 T6]]]]];
      [lia|apply S6; discriminate|exact S3|].
    destruct (push_all_valids cap (m :: ms) Hc Hn) as [V _].
    rewrite S2 in *. cbn [negb] in T6.
    split; [repeat split; assumption|].
    rewrite T1, S1, V, S4. reflexivity.
Qed.

Lemma skipn_app_exact {A} (a b : list A) : skipn (length a) (a ++ b) = b.
Proof. induction a; [reflexivity|assumption]. Qed.

Lemma phases_fixed (cap : nat) :
  1 <= cap ->
  forall phs s,
    Forall no_lagged phs -> Parked s ->
    snd (phases poll_fixed cap s phs) = expected cap phs /\
    Parked (fst (phases poll_fixed cap s phs)) /\
    out (fst (phases poll_fixed cap s phs)) = out s ++ concat (expected cap phs).
Proof.
  intros Hc. induction phs as [|ms phs IH]; intros s Hn HP.
  - cbn. rewrite app_nil_r. auto.
  - inversion Hn as [|? ? Hms Hrest]; subst.
    destruct (phase_fixed cap s ms Hc Hms HP) as [P1 O1].
    destruct (IH (phase poll_fixed cap s ms) Hrest P1) as [I1 [I2 I3]].
    cbn [phases]. destruct (phases poll_fixed cap (phase poll_fixed cap s ms) phs) as [s2 ys].
    cbn [fst snd] in *. cbn [expected map concat]. fold (expected cap phs).
    rewrite I1, O1, skipn_app_exact. split; [reflexivity|]. split; [exact I2|].
    rewrite I3, O1, <- app_assoc. reflexivity.
Qed.

Lemma init_parks : Parked (run poll_fixed init).
Proof. cbn. repeat split. Qed.

(** Main statement over whole scenarios: whatever is sent, in whatever grouping, with any number
    of invalid messages and any overflow (lag), the consumer is handed exactly the valid messages
    the channel retained, phase by phase; it is parked with its waker registered in between (so
    the next send reaches it), and it finishes when the channel is closed. *)
Theorem never_stalls (cap : nat) (phs : list (list item)) (do_close : bool) :
  1 <= cap -> Forall no_lagged phs ->
  let '(s, ys) := scenario poll_fixed cap phs do_close in
  ys = expected cap phs /\
  out s = concat (expected cap phs) /\
  finished s = do_close /\
  (do_close = false -> Parked s).
Proof.
  intros Hc Hn. unfold scenario.
  destruct (phases_fixed cap Hc phs (run poll_fixed init) Hn init_parks) as [A [B C]].
  destruct (phases poll_fixed cap (run poll_fixed init) phs) as [s1 ys]. cbn [fst snd] in *.
  replace (out (run poll_fixed init)) with (@nil N) in C by reflexivity. cbn [app] in C.
  destruct do_close.
  - destruct B as [B1 [B2 [B3 [B4 B5]]]].
    unfold run. set (s2 := close s1).
    destruct (task_run_fixed (length (queue s2) + 2) s2) as [T1 [T2 [T3 [T4 [T5 T6]]]]].
    + lia.
    + subst s2. cbn [close woken]. rewrite B5. apply orb_true_r.
    + subst s2. exact B4.
    + subst s2. cbn [close queue out closed] in *. rewrite B1 in T1. cbn [valids flat_map] in T1.
      rewrite app_nil_r in T1. repeat split; try assumption; try congruence; try discriminate.
  - repeat split; try assumption; try apply B.
Qed.

Example never_stalls_nonvacuous :
  scenario poll_fixed 2 [[Invalid; Valid 1]; []; [Valid 2; Invalid; Invalid; Valid 3; Invalid]; [Invalid]] true
  = ({| queue := []; closed := true; registered := false; woken := false; finished := true; out := [1; 3]%N |},
     [[1]; []; [3]; []]%N).
Proof. reflexivity. Qed.

(** ** The code before the repair *)

(** One invalid message in front of a valid one: the valid one is never yielded ... *)
Theorem asis_refuted :
  exists cap phs,
    1 <= cap /\ Forall no_lagged phs /\
    snd (scenario poll_asis cap phs false) <> expected cap phs.
Proof.
  exists 4, [[Invalid; Valid 1%N]]. split; [lia|]. split.
  - repeat constructor; discriminate.
  - cbn. discriminate.
Qed.

(** ... and nothing sent later reaches the consumer either: it sits in [Pending] with no
    wake-up registered anywhere, so an executor honouring the waker contract never polls it. *)
Definition Stalled (s : task) : Prop := woken s = false /\ registered s = false.

Lemma asis_stalled_state :
  Stalled (fst (phases poll_asis 4 (run poll_asis init) [[Invalid; Valid 1%N]])).
Proof. cbn. split; reflexivity. Qed.

Lemma sends_stalled (cap : nat) (ms : list item) (s : task) :
  Stalled s -> Stalled (fold_left (send cap) ms s) /\ out (fold_left (send cap) ms s) = out s.
Proof.
  intros [A B]. induction ms as [|m ms IH] using rev_ind; [cbn; split; [split; assumption|reflexivity]|].
  rewrite fold_left_snoc. destruct IH as [[I1 I2] I3]. unfold Stalled. cbn [send woken registered out].
  rewrite I1, I2, I3. repeat split.
Qed.

Theorem asis_stalled_forever (poll : bool -> list item -> pollres) (cap : nat) :
  forall phs s, Stalled s ->
    snd (phases poll cap s phs) = map (fun _ => []) phs.
Proof.
  induction phs as [|ms phs IH]; intros s HS; [reflexivity|].
  destruct (sends_stalled cap ms s HS) as [[S1 S2] S3].
  cbn [phases map]. unfold phase, run.
  rewrite task_run_idle by exact S1. rewrite S3.
  specialize (IH (fold_left (send cap) ms s) (conj S1 S2)).
  destruct (phases poll cap (fold_left (send cap) ms s) phs) as [s2 ys]. cbn [snd] in *.
  rewrite IH. f_equal. rewrite <- (app_nil_r (out s)) at 2. apply skipn_app_exact.
Qed.
