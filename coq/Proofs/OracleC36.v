(** Soundness of the boolean oracle pieces of C36 w.r.t. the propositional statements. *)
From Coq Require Import List NArith Bool Lia.
From PV Require Import Model.SecretBundle Oracle.C36.
Import ListNotations.
Local Open Scope N_scope.

Lemma lex_leb_sound a b : lex_leb a b = true -> lex_le a b.
Proof.
  unfold lex_leb, lex_le. intros H. apply orb_true_iff in H. destruct H as [H|H].
  - left. now apply N.ltb_lt.
  - apply andb_true_iff in H. destruct H as [H1 H2]. right.
    split; [now apply N.eqb_eq|now apply N.leb_le].
Qed.

Lemma lex_ltb_sound a b : lex_ltb a b = true -> lex_lt a b.
Proof.
  unfold lex_ltb, lex_lt. intros H. apply orb_true_iff in H. destruct H as [H|H].
  - left. now apply N.ltb_lt.
  - apply andb_true_iff in H. destruct H as [H1 H2]. right.
    split; [now apply N.eqb_eq|now apply N.ltb_lt].
Qed.

(** [is_max] accepts only what [C36_latest_is_lex_max] / [C36_latest_none_only_if_all_zero]
    describe. *)
Theorem is_max_sound lat content :
  is_max lat content = true ->
  match lat with
  | Some i => exists t, In (i, t) content /\ forall e, In e content -> lex_le e (i, t)
  | None => forall e, In e content -> sid e = 0 /\ sts e = 0
  end.
Proof.
  unfold is_max. destruct lat as [i|]; intros H.
  - apply existsb_exists in H. destruct H as ([j t] & HI & H).
    apply andb_true_iff in H. destruct H as [H1 H2].
    apply N.eqb_eq in H1. unfold sid in H1. cbn [fst] in H1. subst j.
    exists t. split; [exact HI|]. intros e He.
    rewrite forallb_forall in H2. apply lex_leb_sound. now apply H2.
  - rewrite forallb_forall in H. intros e He. specialize (H e He).
    apply andb_true_iff in H. destruct H as [H1 H2]. split; now apply N.eqb_eq.
Qed.

(** [gen_ok] accepts only a single new entry that is strictly later than every previous one
    and is the latest. *)
Theorem gen_ok_sound prev lat content :
  gen_ok prev lat content = true ->
  exists e, In e content /\ lat = Some (sid e) /\ forall p, In p prev -> lex_lt p e.
Proof.
  unfold gen_ok.
  destruct (filter (fun e => negb (mem_id (sid e) prev)) content) as [|e [|? ?]] eqn:E; try discriminate.
  intros H. apply andb_true_iff in H. destruct H as [H _].
  apply andb_true_iff in H. destruct H as [H1 H2].
  exists e. split.
  - assert (HI : In e (filter (fun e => negb (mem_id (sid e) prev)) content)) by (rewrite E; now left).
    apply filter_In in HI. tauto.
  - split.
    + destruct lat as [i|]; [|discriminate]. apply N.eqb_eq in H2. now subst.
    + rewrite forallb_forall in H1. intros p Hp. apply lex_ltb_sound. now apply H1.
Qed.
